import Qx.Base.Bytes
import Qx.Crypto.Base64
/-!
# C06 — model of the SASL mechanism clients and of the two SASL managers

Follows, line by line,
* `QXmppSaslClientScram::respond`, `QXmppSaslClientDigestMd5::respond`, `QXmppSaslClientPlain::respond`,
  `QXmppSaslClientHt::respond`, `parseGS2`, `calculateDigest`,
  `QXmppSaslDigestMd5::parseMessage` / `serializeMessage`            (src/base/QXmppSasl.cpp)
* `SaslManager::handleElement`, `Sasl2Manager::handleElement`         (src/client/QXmppSaslManager.cpp)
* `QByteArray::toInt`, `QByteArray::fromBase64` (lenient, `Qx.Crypto.Base64.decodeLenient`),
  `QByteArray::split/trimmed/replace`, `QMap<QByteArray,QByteArray>`  (Qt 5.15, as used by the code above)

The hash functions are parameters (`Crypto`, `md5`): nothing here evaluates a hash.  The second half of the
file is an independent *reference* written from the specifications (RFC 5802 §3/§5/§7 server, RFC 2831 §2.1.2.1
and §2.1.3 formulas, RFC 4616 §2 message, XEP-0484 §3.1 initiator message); it shares no definition with the
client model except byte-string helpers.  No proofs here, no Mathlib (linked into `qxdriver_c06`).
-/
namespace Qx.C06
open Qx Qx.Bytes Qx.Crypto

/-- the cryptographic primitives of one SCRAM / HT hash family; `HMAC key msg`, `Hi password salt count`
(RFC 5802 §2.2: PBKDF2 with HMAC as PRF and dkLen = output length of H) -/
structure Crypto where
  H : Bytes → Bytes
  HMAC : Bytes → Bytes → Bytes
  Hi : Bytes → Bytes → Nat → Bytes

/-! ## ASCII constants (explicit byte lists so that proofs never evaluate string functions) -/

/-- `n,,` -/
def sGs2Header : Bytes := [110, 44, 44]
/-- `n=` -/
def sNEq : Bytes := [110, 61]
/-- `,r=` -/
def sCommaREq : Bytes := [44, 114, 61]
/-- `c=` -/
def sCEq : Bytes := [99, 61]
/-- `,p=` -/
def sCommaPEq : Bytes := [44, 112, 61]
/-- `Client Key` -/
def sClientKey : Bytes := [67, 108, 105, 101, 110, 116, 32, 75, 101, 121]
/-- `Server Key` -/
def sServerKey : Bytes := [83, 101, 114, 118, 101, 114, 32, 75, 101, 121]
/-- `Initiator` -/
def sInitiator : Bytes := [73, 110, 105, 116, 105, 97, 116, 111, 114]
/-- `AUTHENTICATE` -/
def sAuthenticate : Bytes := [65, 85, 84, 72, 69, 78, 84, 73, 67, 65, 84, 69]
/-- `:auth:` -/
def sAuthColon : Bytes := [58, 97, 117, 116, 104, 58]
/-- `nonce` -/
def kNonce : Bytes := [110, 111, 110, 99, 101]
/-- `realm` -/
def kRealm : Bytes := [114, 101, 97, 108, 109]
/-- `qop` -/
def kQop : Bytes := [113, 111, 112]
/-- `auth` -/
def sAuth : Bytes := [97, 117, 116, 104]
/-- `username` -/
def kUsername : Bytes := [117, 115, 101, 114, 110, 97, 109, 101]
/-- `cnonce` -/
def kCnonce : Bytes := [99, 110, 111, 110, 99, 101]
/-- `nc` -/
def kNc : Bytes := [110, 99]
/-- `00000001` -/
def sNc1 : Bytes := [48, 48, 48, 48, 48, 48, 48, 49]
/-- `digest-uri` -/
def kDigestUri : Bytes := [100, 105, 103, 101, 115, 116, 45, 117, 114, 105]
/-- `response` -/
def kResponse : Bytes := [114, 101, 115, 112, 111, 110, 115, 101]
/-- `charset` -/
def kCharset : Bytes := [99, 104, 97, 114, 115, 101, 116]
/-- `utf-8` -/
def sUtf8 : Bytes := [117, 116, 102, 45, 56]
/-- `rspauth` -/
def kRspauth : Bytes := [114, 115, 112, 97, 117, 116, 104]
/-- the characters that make `serializeMessage` quote a value: `()<>@,;:\"/[]?={} ` and TAB -/
def seps : Bytes := [40, 41, 60, 62, 64, 44, 59, 58, 92, 34, 47, 91, 93, 63, 61, 123, 125, 32, 9]

/-! ## Qt byte-array helpers as used by the code -/

/-- `QByteArray::split(sep)`: the empty array gives one empty piece -/
def splitOn (sep : UInt8) : Bytes → List Bytes
  | [] => [[]]
  | c :: rest =>
    if c = sep then [] :: splitOn sep rest
    else
      match splitOn sep rest with
      | [] => [[c]]
      | p :: ps => (c :: p) :: ps

/-- `ascii_isspace`: space, TAB, LF, VT, FF, CR -/
def isSpace (c : UInt8) : Bool := c == 32 || (9 ≤ c && c ≤ 13)

def isDigit (c : UInt8) : Bool := 48 ≤ c && c ≤ 57

/-- value of a string of decimal digits -/
def digitsVal (ds : Bytes) : Nat := ds.foldl (fun a d => a * 10 + (d.toNat - 48)) 0

/-- `QByteArray::toInt()` (base 10, Qt 5.15): C-string semantics (stops at the first NUL), leading white space,
one optional sign, at least one digit, trailing white space, nothing else; out of `int` range or malformed ⇒ 0 -/
def toInt (bs : Bytes) : Int :=
  let s0 := (bs.takeWhile (· != 0)).dropWhile isSpace
  let neg := s0.head? == some 45
  let s1 := if s0.head? == some 45 || s0.head? == some 43 then s0.tail else s0
  let ds := s1.takeWhile isDigit
  let tl := (s1.dropWhile isDigit).dropWhile isSpace
  if ds.isEmpty || !tl.isEmpty then 0
  else if neg then (if digitsVal ds ≤ 2147483648 then - (digitsVal ds : Int) else 0)
  else (if digitsVal ds ≤ 2147483647 then (digitsVal ds : Int) else 0)

/-- `QByteArray::trimmed()` -/
def trim (b : Bytes) : Bytes := ((b.dropWhile isSpace).reverse.dropWhile isSpace).reverse

/-- `QByteArray::replace(char, QByteArray)` -/
def replace1 (a : UInt8) (r : Bytes) : Bytes → Bytes
  | [] => []
  | x :: rest => if x = a then r ++ replace1 a r rest else x :: replace1 a r rest

/-- split at the first occurrence of `c`: (bytes before it, bytes after it); `none` when absent
(`indexOf(c, from) < 0`) -/
def splitAt1 (c : UInt8) : Bytes → Option (Bytes × Bytes)
  | [] => none
  | x :: xs => if x = c then some ([], xs) else (splitAt1 c xs).map fun r => (x :: r.1, r.2)

/-- index of the first occurrence of `c`, or the length when absent -/
def idxOrEnd (c : UInt8) : Bytes → Nat
  | [] => 0
  | x :: xs => if x = c then 0 else idxOrEnd c xs + 1

/-! ## `parseGS2` -/

/-- one comma-separated piece: kept when `size ≥ 2 && piece[1] == '='` -/
def gs2Field (p : Bytes) : Option (UInt8 × Bytes) :=
  match p with
  | k :: e :: v => if e = 61 then some (k, v) else none
  | _ => none

/-- `parseGS2`: the accepted pieces in order of occurrence (the C++ inserts them into a `QMap<char,…>` in this order) -/
def parseGS2 (ch : Bytes) : List (UInt8 × Bytes) := (splitOn 44 ch).filterMap gs2Field

/-- `map.contains(k)` -/
def gs2Has (m : List (UInt8 × Bytes)) (k : UInt8) : Bool := m.any fun p => p.1 == k

/-- `map.value(k)`: later pieces overwrite earlier ones, a missing key gives the empty array -/
def gs2Get (m : List (UInt8 × Bytes)) (k : UInt8) : Bytes :=
  m.foldl (fun acc p => if p.1 = k then p.2 else acc) []

/-! ## `QMap<QByteArray, QByteArray>` and the DIGEST-MD5 message grammar -/

/-- `qstrcmp(QByteArray, QByteArray) < 0`: unsigned lexicographic, a proper prefix is smaller -/
def bytesLt : Bytes → Bytes → Bool
  | [], [] => false
  | [], _ :: _ => true
  | _ :: _, [] => false
  | a :: as, b :: bs => if a < b then true else if b < a then false else bytesLt as bs

/-- contents of a `QMap<QByteArray,QByteArray>`: association list kept in ascending key order -/
abbrev DMap := List (Bytes × Bytes)

/-- `map[k] = v` / `map.insert(k, v)` -/
def mapInsert : DMap → Bytes → Bytes → DMap
  | [], k, v => [(k, v)]
  | e :: rest, k, v =>
    if e.1 = k then (k, v) :: rest
    else if bytesLt e.1 k then e :: mapInsert rest k v
    else (k, v) :: e :: rest

def mapGet? : DMap → Bytes → Option Bytes
  | [], _ => none
  | e :: rest, k => if e.1 = k then some e.2 else mapGet? rest k

/-- `map.value(k)` -/
def mapGet (m : DMap) (k : Bytes) : Bytes := (mapGet? m k).getD []

/-- the quoted-string scanner of `parseMessage` (repo commit aca51c7): from just after the opening quote, copy bytes up
to the closing quote; a backslash that is not the last byte escapes the next byte (quoted-pair).  Result: the
unquoted value and the input after the closing quote; `none` = "Unfinished quoted string". -/
def scanQuoted : Bytes → Option (Bytes × Bytes)
  | [] => none
  | [c] => if c = 34 then some ([], []) else none
  | c :: d :: rest =>
    if c = 34 then some ([], d :: rest)
    else if c = 92 then (scanQuoted rest).map fun r => (d :: r.1, r.2)
    else (scanQuoted (d :: rest)).map fun r => (c :: r.1, r.2)

/-- `value.replace('\\', "\\\\"); value.replace('"', "\\\"")` -/
def escape (v : Bytes) : Bytes := replace1 34 [92, 34] (replace1 92 [92, 92] v)

/-- the `while ((pos = ba.indexOf('=', startIndex)) >= 0)` loop of `parseMessage`; `rest` = input from
`startIndex` on.  `fuel` only bounds the recursion (every round consumes at least the `=`). -/
def parseGo : Nat → Bytes → DMap → DMap
  | 0, _, acc => acc
  | fuel + 1, rest, acc =>
    match splitAt1 61 rest with
    | none => acc
    | some kv =>
      let key := trim kv.1
      if kv.2.isEmpty then mapInsert acc key []
      else if kv.2.head? = some 34 then
        match scanQuoted kv.2.tail with
        | none => acc
        | some r => parseGo fuel (r.2.drop 1) (mapInsert acc key r.1)
      else
        parseGo fuel (kv.2.drop (idxOrEnd 44 kv.2 + 1)) (mapInsert acc key (kv.2.take (idxOrEnd 44 kv.2)))

/-- `QXmppSaslDigestMd5::parseMessage` -/
def parseMessage (ba : Bytes) : DMap := parseGo (ba.length + 1) ba []

def needsQuote (v : Bytes) : Bool := v.any fun c => seps.contains c

/-- `key=value` or `key="escaped value"` -/
def serEntry (kv : Bytes × Bytes) : Bytes :=
  kv.1 ++ 61 :: (if needsQuote kv.2 then 34 :: (escape kv.2 ++ [34]) else kv.2)

/-- one round of the loop in `serializeMessage` -/
def serOne (ba : Bytes) (kv : Bytes × Bytes) : Bytes :=
  (if ba.isEmpty then ba else ba ++ [44]) ++ serEntry kv

/-- `QXmppSaslDigestMd5::serializeMessage` (iterates the map in key order) -/
def serializeMessage (m : DMap) : Bytes := m.foldl serOne []

/-! ## The mechanism clients -/

/-- what the application configures on a `QXmppSaslClient` (all strings as UTF-8) plus the forced client nonce -/
structure Cred where
  user : Bytes := []
  pass : Bytes := []
  cnonce : Bytes := []
  /-- `host()` and `serviceType()` (DIGEST-MD5 digest-uri) -/
  host : Bytes := []
  service : Bytes := []
  /-- HT: the mechanism the client object was created for, and the stored token (its mechanism, its secret) -/
  htMech : Nat := 0
  token : Option (Nat × Bytes) := none

/-- `QXmppSaslClientScram` members.  `verified` is `m_serverVerified` (repo commit 0b21ae7): set exactly when the
comparison with `m_serverSignature` in step 2 succeeded; read by the managers through `serverVerified()`. -/
structure ScramSt where
  step : Nat := 0
  firstBare : Bytes := []
  serverSig : Bytes := []
  verified : Bool := false
  deriving DecidableEq, Repr

/-- `scramSaslName` (repo commit 43097ab): `name.replace('=', "=3D"); name.replace(',', "=2C")` -/
def scramSaslName (user : Bytes) : Bytes := replace1 44 [61, 50, 67] (replace1 61 [61, 51, 68] user)

/-- `c=` base64(gs2 header) `,r=` nonce -/
def scramFinalBare (nonce : Bytes) : Bytes := sCEq ++ Base64.encode sGs2Header ++ sCommaREq ++ nonce

/-- `QXmppSaslClientScram::respond` -/
def scramStep (C : Crypto) (cr : Cred) (s : ScramSt) (ch : Bytes) : ScramSt × Option Bytes :=
  if s.step = 0 then
    ({ s with step := 1, firstBare := sNEq ++ scramSaslName cr.user ++ sCommaREq ++ cr.cnonce },
     some (sGs2Header ++ (sNEq ++ scramSaslName cr.user ++ sCommaREq ++ cr.cnonce)))
  else if s.step = 1 then
    let input := parseGS2 ch
    let nonce := gs2Get input 114
    let salt := Base64.decodeLenient (gs2Get input 115)
    let iters := toInt (gs2Get input 105)
    -- `input.contains('m')`: the reserved attribute must cause failure (RFC 5802 §5.1, repo commit ff6a7ed)
    if gs2Has input 109 || !(cr.cnonce.isPrefixOf nonce) || salt.isEmpty || iters < 1 then (s, none)
    else
      let salted := C.Hi cr.pass salt iters.toNat
      let clientKey := C.HMAC salted sClientKey
      let storedKey := C.H clientKey
      let authMessage := s.firstBare ++ 44 :: (ch ++ 44 :: scramFinalBare nonce)
      let proof := xorBytes (C.HMAC storedKey authMessage) clientKey
      let serverKey := C.HMAC salted sServerKey
      ({ s with step := 2, serverSig := C.HMAC serverKey authMessage },
       some (scramFinalBare nonce ++ sCommaPEq ++ Base64.encode proof))
  else if s.step = 2 then
    if !gs2Has (parseGS2 ch) 109 && Base64.decodeLenient (gs2Get (parseGS2 ch) 118) = s.serverSig then
      ({ s with step := 3, verified := true }, some [])
    else ({ s with step := 3 }, none)
  else (s, none)

/-- `QXmppSaslClientDigestMd5` members -/
structure DigestSt where
  step : Nat := 0
  nonce : Bytes := []
  secret : Bytes := []
  deriving DecidableEq, Repr

/-- `calculateDigest` -/
def calculateDigest (md5 : Bytes → Bytes) (method digestUri secret nonce cnonce nc : Bytes) : Bytes :=
  let ha1 := toHexBytes (md5 (secret ++ 58 :: (nonce ++ 58 :: cnonce)))
  let ha2 := toHexBytes (md5 (method ++ 58 :: digestUri))
  toHexBytes (md5 (ha1 ++ 58 :: (nonce ++ 58 :: (nc ++ 58 :: (cnonce ++ (sAuthColon ++ ha2))))))

/-- `serviceType/host` -/
def digestUriOf (cr : Cred) : Bytes := cr.service ++ 47 :: cr.host

/-- the directive map built in step 1 (insertion order as in the C++) -/
def digestOutput (md5 : Bytes → Bytes) (cr : Cred) (realm nonce secret : Bytes) : DMap :=
  let m0 := mapInsert [] kUsername cr.user
  let m1 := if realm.isEmpty then m0 else mapInsert m0 kRealm realm
  let m2 := mapInsert m1 kNonce nonce
  let m3 := mapInsert m2 kQop sAuth
  let m4 := mapInsert m3 kCnonce cr.cnonce
  let m5 := mapInsert m4 kNc sNc1
  let m6 := mapInsert m5 kDigestUri (digestUriOf cr)
  let m7 := mapInsert m6 kResponse (calculateDigest md5 sAuthenticate (digestUriOf cr) secret nonce cr.cnonce sNc1)
  mapInsert m7 kCharset sUtf8

/-- `QXmppSaslClientDigestMd5::respond` -/
def digestStep (md5 : Bytes → Bytes) (cr : Cred) (s : DigestSt) (ch : Bytes) : DigestSt × Option Bytes :=
  if s.step = 0 then ({ s with step := 1 }, some [])
  else if s.step = 1 then
    let input := parseMessage ch
    match mapGet? input kNonce with
    | none => (s, none)
    | some nonce =>
      let realm := mapGet input kRealm
      let qops := splitOn 44 ((mapGet? input kQop).getD sAuth)
      if !qops.contains sAuth then (s, none)
      else
        let secret := md5 (cr.user ++ 58 :: (realm ++ 58 :: cr.pass))
        ({ s with step := 2, nonce := nonce, secret := secret },
         some (serializeMessage (digestOutput md5 cr realm nonce secret)))
  else if s.step = 2 then
    if mapGet (parseMessage ch) kRspauth = calculateDigest md5 [] (digestUriOf cr) s.secret s.nonce cr.cnonce sNc1 then
      ({ s with step := 3 }, some [])
    else (s, none)
  else (s, none)

/-- `QXmppSaslClientPlain::respond` (`m_step`) -/
def plainStep (cr : Cred) (step : Nat) (_ch : Bytes) : Nat × Option Bytes :=
  if step = 0 then (1, some (0 :: (cr.user ++ 0 :: cr.pass))) else (step, none)

/-- `QXmppSaslClientHt::respond` (`m_done`) -/
def htStep (C : Crypto) (cr : Cred) (done : Bool) (ch : Bytes) : Bool × Option Bytes :=
  match cr.token with
  | none => (done, none)
  | some tok =>
    if done || !ch.isEmpty || tok.1 ≠ cr.htMech then (done, none)
    else (true, some (cr.user ++ 0 :: C.HMAC tok.2 sInitiator))

/-! ## The managers -/

inductive MechKind | scram | digest | plain | ht
  deriving DecidableEq, Repr

inductive MechSt
  | scram (s : ScramSt)
  | digest (s : DigestSt)
  | plain (step : Nat)
  | ht (done : Bool)
  deriving DecidableEq, Repr

def mechInit : MechKind → MechSt
  | .scram => .scram {}
  | .digest => .digest {}
  | .plain => .plain 0
  | .ht => .ht false

/-- `m_saslClient->respond(challenge)` -/
def mechRespond (C : Crypto) (md5 : Bytes → Bytes) (cr : Cred) (m : MechSt) (ch : Bytes) : MechSt × Option Bytes :=
  match m with
  | .scram s => let r := scramStep C cr s ch; (.scram r.1, r.2)
  | .digest s => let r := digestStep md5 cr s ch; (.digest r.1, r.2)
  | .plain n => let r := plainStep cr n ch; (.plain r.1, r.2)
  | .ht d => let r := htStep C cr d ch; (.ht r.1, r.2)

/-- a top-level element received from the server, as the two `handleElement` functions classify it.
`success` carries the SASL2 `<additional-data/>` (for SASL 1 the element's base64 text, `none` when empty);
`failure aborted` = the condition is `aborted`; `continue_` is a SASL2 element (unknown to SASL 1);
`unknown` = anything the `fromDom` functions refuse (wrong name/namespace, malformed base64, …). -/
inductive El
  | challenge (data : Bytes)
  | success (data : Option Bytes)
  | failure (aborted : Bool)
  | continue_
  | unknown
  deriving DecidableEq, Repr

/-- what the authentication task is finished with -/
inductive Res
  | success          -- `QXmpp::Success` / `Sasl2::Success`
  | cannotRespond    -- "Could not respond to SASL challenge" (ProcessingError)
  | authFailed       -- "Authentication failed: …"
  | requiredTasks    -- SASL2: "Required authentication tasks not supported."
  | notProved        -- "Server did not prove knowledge of the password" (ProcessingError)
  deriving DecidableEq, Repr

inductive Handled | accepted | rejected | finished
  deriving DecidableEq, Repr

inductive Out
  | auth (initial : Bytes)     -- `<auth/>` / `<authenticate/>` with the initial response
  | response (data : Bytes)
  | abort                      -- SASL2 `<abort/>`
  deriving DecidableEq, Repr

structure MgrSt where
  sasl2 : Bool := false
  /-- `m_promise.has_value()` / `m_state.has_value()` -/
  pending : Bool := false
  mech : MechSt := .plain 0
  result : Option Res := none
  unsupportedContinue : Bool := false
  deriving DecidableEq, Repr

/-- `authenticate(...)` after the mechanism has been chosen (the choice itself is property C05):
create the client, ask for the initial response, send `<auth/>` -/
def mgrStart (C : Crypto) (md5 : Bytes → Bytes) (cr : Cred) (sasl2 : Bool) (k : MechKind) : MgrSt × List Out :=
  let r := mechRespond C md5 cr (mechInit k) []
  match r.2 with
  | some initial => ({ sasl2 := sasl2, pending := true, mech := r.1 }, [.auth initial])
  | none => ({ sasl2 := sasl2, pending := false, mech := r.1, result := some .cannotRespond }, [])

/-- `m_saslClient->serverVerified()`: `m_serverVerified` for SCRAM, `m_step > 2` for DIGEST-MD5 (repo commit 8012ab0:
step 3 is only reached through a correct `rspauth`), `true` for every other mechanism -/
def mechVerified : MechSt → Bool
  | .scram s => s.verified
  | .digest s => decide (2 < s.step)
  | _ => true

/-- `SaslManager::handleElement` (`sasl2 = false`) and `Sasl2Manager::handleElement` (`sasl2 = true`).
`<success/>`: unless the mechanism reports the server as verified, the success data (SASL 1: the base64 text of the
element, empty when there is none; SASL 2: `<additional-data/>`, and no `respond` call at all when it is absent) is
fed to the mechanism, and the attempt fails unless that call answers and the server is verified afterwards. -/
def mgrStep (C : Crypto) (md5 : Bytes → Bytes) (cr : Cred) (st : MgrSt) (el : El) : MgrSt × List Out × Handled :=
  if !st.pending then (st, [], .rejected)
  else
    match el with
    | .success data =>
      if mechVerified st.mech then ({ st with pending := false, result := some .success }, [], .finished)
      else
        match (if st.sasl2 then data else some (data.getD [])) with
        | none => ({ st with pending := false, result := some .notProved }, [], .finished)
        | some d =>
          let r := mechRespond C md5 cr st.mech d
          if r.2.isSome && mechVerified r.1 then
            ({ st with mech := r.1, pending := false, result := some .success }, [], .finished)
          else ({ st with mech := r.1, pending := false, result := some .notProved }, [], .finished)
    | .challenge data =>
      let r := mechRespond C md5 cr st.mech data
      match r.2 with
      | some resp => ({ st with mech := r.1 }, [.response resp], .accepted)
      | none => ({ st with mech := r.1, pending := false, result := some .cannotRespond }, [], .finished)
    | .failure aborted =>
      if st.sasl2 && aborted && st.unsupportedContinue then
        ({ st with pending := false, result := some .requiredTasks }, [], .finished)
      else ({ st with pending := false, result := some .authFailed }, [], .finished)
    | .continue_ =>
      if st.sasl2 then ({ st with unsupportedContinue := true }, [.abort], .accepted)
      else (st, [], .rejected)
    | .unknown => (st, [], .rejected)

def mgrRun (C : Crypto) (md5 : Bytes → Bytes) (cr : Cred) (st : MgrSt) : List El → MgrSt × List Out
  | [] => (st, [])
  | el :: els =>
    let r1 := mgrStep C md5 cr st el
    let r2 := mgrRun C md5 cr r1.1 els
    (r2.1, r1.2.1 ++ r2.2)

/-- "the server has proved knowledge of the password": SCRAM — the server signature was compared equal; DIGEST-MD5 —
a correct `rspauth` was seen; mechanisms without mutual authentication have nothing to verify -/
def serverSignatureVerified (st : MgrSt) : Bool := mechVerified st.mech

def isScram (st : MgrSt) : Bool :=
  match st.mech with
  | .scram _ => true
  | _ => false

/-! ## FAST tokens across connections (`FastTokenManager`, XEP-0484) -/

/-- One client object over several connections.  HT mechanisms are numbered in the order of `IanaHashAlgorithm`
(the order `std::ranges::max` uses): 0 = HT-SHA-256-NONE, 1 = HT-SHA-512-NONE, 2 = HT-SHA3-256-NONE, 3 = HT-SHA3-512-NONE. -/
structure FastSt where
  user : Bytes := []
  pass : Bytes := []
  /-- `!credentials.password.isEmpty()` -/
  hasPw : Bool := false
  /-- `config.credentialData().htToken`: (mechanism it is filed under, secret) -/
  token : Option (Nat × Bytes) := none
  /-- `FastTokenManager::requestedMechanism` -/
  requested : Option Nat := none
  /-- `m_tokenChanged` -/
  tokenChanged : Bool := false
  /-- the login in progress, as the SERVER sees it: (mechanism named in `<request-token/>`, HT mechanism announced);
  `none` = no login pending -/
  cur : Option (Option Nat × Option Nat) := none
  /-- server-side truth: the mechanism the stored token was issued for (`none` = unknown: an unsolicited token) -/
  issued : Option Nat := none
  deriving DecidableEq, Repr

inductive FastOp
  /-- the application replaces the credentials (`setCredentials` / `setPassword`); a stored token comes with the
  mechanism it was issued for -/
  | setCreds (hasPw : Bool) (token : Option (Nat × Bytes))
  /-- a connection reaches SASL2 negotiation: `config.useFastTokenAuthentication()` and a user agent set (`fastEnabled`),
  the server's `<fast/>` feature (`none` = absent) with its -NONE mechanisms; `<mechanism>PLAIN</mechanism>` is always offered -/
  | login (fastEnabled : Bool) (offer : Option (List Nat))
  /-- `<success/>`, possibly carrying a new `<token/>` -/
  | success (tok : Option Bytes)
  /-- the login ends without success -/
  | fail
  deriving DecidableEq, Repr

inductive FastOut
  /-- `<authenticate mechanism=…>`: `mech = none` is PLAIN, `some m` is HT mechanism `m`; initial response; `<request-token/>` -/
  | sent (mech : Option Nat) (initial : Bytes) (req : Option Nat)
  | error
  | nothing
  deriving DecidableEq, Repr

/-- `max(mechanisms)` of `selectMechanism` -/
def maxOpt : List Nat → Option Nat
  | [] => none
  | a :: l => match maxOpt l with
    | none => some a
    | some b => some (if a < b then b else a)

/-- `fam m` is the hash family of HT mechanism `m` -/
def fastStep (fam : Nat → Crypto) (st : FastSt) : FastOp → FastSt × FastOut
  | .setCreds hasPw token =>
    ({ st with hasPw := hasPw, token := token, issued := token.map (·.1) }, .nothing)
  | .login fastEnabled offer =>
    -- FastTokenManager::onSasl2Authenticate
    let req := if offer.isSome && fastEnabled && st.token.isNone then maxOpt (offer.getD []) else none
    let st1 := { st with requested := req, tokenChanged := false }
    -- Sasl2Manager::authenticate: the strongest available mechanism; HT needs the stored token's own mechanism on offer
    match st.token with
    | some tok =>
      if offer.isSome && fastEnabled && (offer.getD []).contains tok.1 then
        match (htStep (fam tok.1) { user := st.user, htMech := tok.1, token := some tok } false []).2 with
        | some r => ({ st1 with cur := some (req, some tok.1) }, .sent (some tok.1) r req)
        | none => ({ st1 with cur := none }, .error)
      else if st.hasPw then
        ({ st1 with cur := some (req, none) }, .sent none (0 :: (st.user ++ 0 :: st.pass)) req)
      else ({ st1 with cur := none }, .error)
    | none =>
      if st.hasPw then
        ({ st1 with cur := some (req, none) }, .sent none (0 :: (st.user ++ 0 :: st.pass)) req)
      else ({ st1 with cur := none }, .error)
  | .success tok =>
    match st.cur with
    | none => (st, .nothing)
    | some c =>
      -- FastTokenManager::onSasl2Success
      match tok with
      | none => ({ st with cur := none }, .nothing)
      | some sec =>
        match st.requested, st.token with
        | some r, _ => ({ st with cur := none, token := some (r, sec), tokenChanged := true, issued := c.1.or c.2 }, .nothing)
        | none, some old => ({ st with cur := none, token := some (old.1, sec), tokenChanged := true, issued := c.1.or c.2 }, .nothing)
        | none, none => ({ st with cur := none }, .nothing)
  | .fail => ({ st with cur := none }, .nothing)

def fastRun (fam : Nat → Crypto) (st : FastSt) : List FastOp → FastSt
  | [] => st
  | op :: ops => fastRun fam (fastStep fam st op).1 ops

/-- the credentials are not replaced while a login is pending -/
def wellTimed (fam : Nat → Crypto) (st : FastSt) : List FastOp → Bool
  | [] => true
  | op :: ops =>
    (match op with
      | .setCreds _ _ => st.cur.isNone
      | _ => true) && wellTimed fam (fastStep fam st op).1 ops

/-! ## Reference, written from the specifications -/
namespace Ref

/-- decimal digits of `n`, most significant first, appended in front of `acc` (`fuel` bounds the recursion) -/
def natDecGo : Nat → Nat → Bytes → Bytes
  | 0, _, acc => acc
  | fuel + 1, n, acc =>
    if n < 10 then UInt8.ofNat (48 + n) :: acc
    else natDecGo fuel (n / 10) (UInt8.ofNat (48 + n % 10) :: acc)

/-- RFC 5802 §7 `posit-number` / decimal text of a natural number -/
def natDec (n : Nat) : Bytes := natDecGo (n + 1) n []

/-- RFC 5802 §3: `SaltedPassword := Hi(Normalize(password), salt, i)` (the password is given normalised) -/
def saltedPassword (C : Crypto) (pass salt : Bytes) (i : Nat) : Bytes := C.Hi pass salt i
/-- `ClientKey := HMAC(SaltedPassword, "Client Key")` -/
def clientKey (C : Crypto) (sp : Bytes) : Bytes := C.HMAC sp sClientKey
/-- `StoredKey := H(ClientKey)` -/
def storedKey (C : Crypto) (sp : Bytes) : Bytes := C.H (clientKey C sp)
/-- `ServerKey := HMAC(SaltedPassword, "Server Key")` -/
def serverKey (C : Crypto) (sp : Bytes) : Bytes := C.HMAC sp sServerKey

/-- what an RFC 5802 server keeps per user (§3: "the server … stores … salt, iteration count, StoredKey, ServerKey") -/
structure ScramRecord where
  salt : Bytes
  iters : Nat
  storedKey : Bytes
  serverKey : Bytes

/-- the record a server creates when the user's (normalised) password is `pass` -/
def scramRecordOf (C : Crypto) (pass salt : Bytes) (i : Nat) : ScramRecord :=
  { salt := salt, iters := i,
    storedKey := storedKey C (saltedPassword C pass salt i),
    serverKey := serverKey C (saltedPassword C pass salt i) }

/-- RFC 5802 §5.1 `saslname`: `,` ↦ `=2C`, `=` ↦ `=3D` -/
def saslName : Bytes → Bytes
  | [] => []
  | c :: rest =>
    if c = 44 then 61 :: 50 :: 67 :: saslName rest
    else if c = 61 then 61 :: 51 :: 68 :: saslName rest
    else c :: saslName rest

/-- RFC 5802 §7 `client-first-message` without channel binding and without authzid: `n,,n=<saslname>,r=<c-nonce>` -/
def clientFirst (user cnonce : Bytes) : Bytes :=
  [110, 44, 44] ++ ([110, 61] ++ saslName user ++ [44, 114, 61] ++ cnonce)

/-- RFC 5802 §7 `server-first-message`: `r=<c-nonce><s-nonce>,s=<base64 salt>,i=<count>` -/
def serverFirst (cnonce snonce salt : Bytes) (i : Nat) : Bytes :=
  [114, 61] ++ (cnonce ++ snonce) ++ ([44, 115, 61] ++ Base64.encode salt) ++ ([44, 105, 61] ++ natDec i)

/-- RFC 5802 §7 `client-final-message-without-proof` for gs2 header `n,,`: `c=biws,r=<nonce>` -/
def clientFinalWithoutProof (nonce : Bytes) : Bytes := [99, 61, 98, 105, 119, 115, 44, 114, 61] ++ nonce

/-- `stripPrefix p l = some r` iff `l = p ++ r` -/
def stripPrefix : Bytes → Bytes → Option Bytes
  | [], l => some l
  | _ :: _, [] => none
  | a :: p, b :: l => if a = b then stripPrefix p l else none

/-- An RFC 5802 server's handling of the client-final message (§3, §5, §7), for a client that announced no channel
binding (`n,,`): the message must be `c=biws,r=<the nonce the server issued>,p=<base64 ClientProof>`;
`ClientSignature := HMAC(StoredKey, AuthMessage)`, `ClientKey := ClientProof XOR ClientSignature`, and the client is
authenticated iff `H(ClientKey) = StoredKey`.  On success the answer is the server-final message
`v=<base64 ServerSignature>` with `ServerSignature := HMAC(ServerKey, AuthMessage)`. -/
def scramServerFinal (C : Crypto) (rec : ScramRecord) (clientFirstMsg serverFirstMsg nonce clientFinalMsg : Bytes) :
    Option Bytes :=
  match stripPrefix [110, 44, 44] clientFirstMsg,
        stripPrefix (clientFinalWithoutProof nonce ++ [44, 112, 61]) clientFinalMsg with
  | some clientFirstBare, some proof64 =>
    match Base64.decode? proof64 with
    | some proof =>
      let authMessage := clientFirstBare ++ [44] ++ serverFirstMsg ++ [44] ++ clientFinalWithoutProof nonce
      let clientSignature := C.HMAC rec.storedKey authMessage
      if proof.length = clientSignature.length ∧ C.H (xorBytes proof clientSignature) = rec.storedKey then
        some ([118, 61] ++ Base64.encode (C.HMAC rec.serverKey authMessage))
      else none
    | none => none
  | _, _ => none

/-- accept / reject -/
def scramServerVerify (C : Crypto) (rec : ScramRecord) (clientFirstMsg serverFirstMsg nonce clientFinalMsg : Bytes) : Bool :=
  (scramServerFinal C rec clientFirstMsg serverFirstMsg nonce clientFinalMsg).isSome

/-- RFC 2831 §2.1.2.1: `KD(k, s) = H({k, ":", s})` -/
def KD (md5 : Bytes → Bytes) (k s : Bytes) : Bytes := md5 (k ++ [58] ++ s)
/-- `HEX(n)`: 32 lower-case hex digits -/
def HEX (b : Bytes) : Bytes := toHexBytes b
/-- ISO 8859-1 form of a UTF-8 string all of whose characters are below U+0100 (ASCII bytes, or a two-byte sequence
with lead byte C2/C3); `none` for every other byte string -/
def latin1? : Bytes → Option Bytes
  | [] => some []
  | [c] => if c < 128 then some [c] else none
  | c :: d :: rest =>
    if c < 128 then (latin1? (d :: rest)).map (c :: ·)
    else if (c = 194 ∨ c = 195) ∧ 128 ≤ d ∧ d < 192 then (latin1? rest).map ((if c = 194 then d else d + 64) :: ·)
    else none

/-- RFC 2831 §2.1.2.1 (and the sample code of §8, `MD5_UTF8_8859_1`): with `charset=utf-8`, a user name, realm or
password "all of whose characters are in ISO 8859-1" is converted to ISO 8859-1 before being hashed — each string on
its own; any other string is hashed as the UTF-8 it is -/
def digestEnc (b : Bytes) : Bytes := (latin1? b).getD b

/-- `A1 = { H({ username-value, ":", realm-value, ":", passwd }), ":", nonce-value, ":", cnonce-value }` (no authzid),
the three strings in the encoding `digestEnc` prescribes -/
def A1 (md5 : Bytes → Bytes) (user realm pass nonce cnonce : Bytes) : Bytes :=
  md5 (digestEnc user ++ [58] ++ digestEnc realm ++ [58] ++ digestEnc pass) ++ [58] ++ nonce ++ [58] ++ cnonce
/-- `A2 = { "AUTHENTICATE:", digest-uri-value }` for qop=auth; for the server's `rspauth` the method is empty -/
def A2 (method digestUri : Bytes) : Bytes := method ++ [58] ++ digestUri
/-- `response-value = HEX(KD(HEX(H(A1)), {nonce, ":", nc, ":", cnonce, ":", qop, ":", HEX(H(A2))}))` with qop = `auth` -/
def responseValue (md5 : Bytes → Bytes) (method user realm pass nonce cnonce nc digestUri : Bytes) : Bytes :=
  HEX (KD md5 (HEX (md5 (A1 md5 user realm pass nonce cnonce)))
    (nonce ++ [58] ++ nc ++ [58] ++ cnonce ++ [58] ++ [97, 117, 116, 104] ++ [58] ++ HEX (md5 (A2 method digestUri))))

/-- an RFC 2831 server (§2.1.2, §2.1.3) that issued `nonce` for `realm` (empty = none offered) and holds the user's
password: checks the directives of the parsed digest-response and, on success, answers `rspauth` -/
def digestServerRspauth (md5 : Bytes → Bytes) (user realm pass nonce digestUri : Bytes) (resp : DMap) : Option Bytes :=
  if mapGet? resp kUsername = some user ∧ mapGet resp kRealm = realm ∧ mapGet? resp kNonce = some nonce
      ∧ mapGet? resp kQop = some [97, 117, 116, 104] ∧ mapGet? resp kDigestUri = some digestUri
      ∧ mapGet? resp kNc = some [48, 48, 48, 48, 48, 48, 48, 49]
      ∧ mapGet? resp kResponse = some (responseValue md5 [65, 85, 84, 72, 69, 78, 84, 73, 67, 65, 84, 69] user realm pass nonce
          (mapGet resp kCnonce) (mapGet resp kNc) digestUri) then
    some (responseValue md5 [] user realm pass nonce (mapGet resp kCnonce) (mapGet resp kNc) digestUri)
  else none

/-- RFC 4616 §2: `message = [authzid] NUL authcid NUL passwd`, no authzid -/
def plainMessage (user pass : Bytes) : Bytes := [0] ++ user ++ [0] ++ pass

/-- an RFC 4616 server: split at the NULs into exactly (authzid, authcid, passwd); accept iff authzid is empty,
authcid is the user and passwd the stored password -/
def plainServerVerify (user pass msg : Bytes) : Bool :=
  splitOn 0 msg == [[], user, pass]

/-- XEP-0484 §3.1 (no channel binding): `authcid NUL HMAC(token, "Initiator")` -/
def htMessage (C : Crypto) (user token : Bytes) : Bytes :=
  user ++ [0] ++ C.HMAC token [73, 110, 105, 116, 105, 97, 116, 111, 114]

end Ref

end Qx.C06
