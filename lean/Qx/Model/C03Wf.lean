/-
C03 — the language of streams for which `PrefixOracle` is PROVED for the Lean parser `Qx.C03.Xml.parse`
(`Qx/Proofs/C03Parser.lean`): specification side only (trees, their text, the parse result they must give).

Sub-language (everything the theorems need is stated here; what is NOT covered is listed in Props/C03.lean):
elements `<n a='v' …>kids</n>` or `<n a='v' …/>`, attributes single-quoted with one blank in front, values without
`< & > '`, character data without `< & ]`, no entity references, no XML declaration, no white space inside tags.
No proofs here, no Mathlib.
-/
import Qx.Model.C03Xml

namespace Qx.C03.Xml

/-- source tree: an element (name, attributes, children, self-closing form?) or a run of character data -/
inductive X
  | elem (name : Str) (attrs : List (Str × Str)) (kids : List X) (sc : Bool)
  | text (s : Str)
  deriving Repr, Inhabited

def renderAttrs (as : List (Str × Str)) : Str :=
  as.flatMap fun a => ' ' :: a.1 ++ '=' :: '\'' :: a.2 ++ ['\'']

mutual
  def render : X → Str
    | .text s => s
    | .elem n as ks sc =>
      if sc then '<' :: n ++ renderAttrs as ++ ['/', '>']
      else '<' :: n ++ renderAttrs as ++ '>' :: renderList ks ++ '<' :: '/' :: n ++ ['>']
  def renderList : List X → Str
    | [] => []
    | k :: ks => render k ++ renderList ks
end

mutual
  /-- the tree the parser must produce for `render x` in namespace scope `scope` -/
  def toNode (scope : List (Str × Str)) : X → Node
    | .text s => .text s
    | .elem n as ks _ =>
      .elem (splitQName n).2 (lookupNs (pushDecls scope as) (splitQName n).1) (plainAttrs (pushDecls scope as) as)
        (kidNodes (pushDecls scope as) ks [] [])
  /-- mirror of the content loop: `acc` = nodes so far (reversed), `txt` = pending character data (reversed) -/
  def kidNodes (scope : List (Str × Str)) : List X → List Node → Str → List Node
    | [], acc, txt => (flushText acc txt).reverse
    | .text s :: ks, acc, txt => kidNodes scope ks acc (s.reverse ++ txt)
    | .elem n as ks' sc :: ks, acc, txt =>
      kidNodes scope ks (toNode scope (.elem n as ks' sc) :: flushText acc txt) []
end

def okName (n : Str) : Bool :=
  match n with
  | c :: r => isNameStart c && r.all isNameChar
  | [] => false

def okAttrVal (v : Str) : Bool := v.all fun c => c != '<' && c != '&' && c != '>' && c != '\''
def okTextChar (c : Char) : Bool := c != '<' && c != '&' && c != ']'
def okAttrs (as : List (Str × Str)) : Bool := as.all fun a => okName a.1 && okAttrVal a.2

mutual
  /-- well-formedness of a source tree (what the completeness proof needs) -/
  def wf : X → Bool
    | .text s => s.all okTextChar
    | .elem n as ks sc => okName n && okAttrs as && wfList ks && (!sc || ks.isEmpty)
  def wfList : List X → Bool
    | [] => true
    | k :: ks => wf k && wfList ks
end

end Qx.C03.Xml
