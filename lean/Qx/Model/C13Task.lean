/-
C13 — model of QXmppPromise<T> / QXmppTask<T> (src/base/QXmppTask.h, QXmppPromise.h, QXmppTask.cpp).

One shared `TaskData` record; any number of handles (promise + task copies) point to it.
Contexts are numbered; context 0 is the null pointer (never alive).  A continuation is
identified by a fresh number allocated at `then`.  A continuation's *body* is a list of
re-entrant operations it performs, after consuming (moving out) the value it was given.
No proofs here.
-/
namespace Qx.C13




/-- `void` tasks carry no value; `value` covers copyable and move-only result types (the value
is handed to the continuation by rvalue reference and moved out by it). -/
-- context and continuation ids are plain `Nat`
inductive Kind | void | value
  deriving DecidableEq, Repr

/-- what a continuation does re-entrantly after it has consumed its argument -/
inductive Inner
  | thenI (ctx : Nat)        -- attach a further continuation (empty body) to the same task
  | destroyCtx (c : Nat)     -- delete a context object
  | dropAll                  -- drop every handle (promise and task copies), e.g. the owner deletes itself
  deriving DecidableEq, Repr

inductive Op
  | thenOp (ctx : Nat) (body : List Inner)
  | finish (v : Nat)
  /-- `finish(U&&)` through the CONVERTING overload whose conversion `T(U&&)` has a side effect: it
  destroys context `c` — after `finish` has tested the context and before the continuation is invoked -/
  | finishK (c : Nat) (v : Nat)
  /-- `QXmppTask::takeResult()` on a finished value task that still holds its value -/
  | take
  | destroyCtx (c : Nat)
  | copyHandle
  | dropHandle
  deriving DecidableEq, Repr

structure Cont where
  id : Nat
  ctx : Nat
  body : List Inner
  deriving DecidableEq, Repr

/-- delivered value: `none` for void tasks, `some v` for value tasks -/
abbrev Delivered := Option Nat

inductive Ev
  | ran (k : Nat) (ctx : Nat) (v : Delivered)
  | released   -- the shared record is destroyed (last handle gone); reported at the end of the step
  deriving DecidableEq, Repr

structure St where
  kind : Kind
  finished : Bool := false
  /-- stored result (`d->result`), `none` = null pointer -/
  result : Option Nat := none
  cont : Option Cont := none
  /-- destroyed contexts; 0 (nullptr) is dead from the start -/
  dead : List Nat := [0]
  refs : Nat := 1
  nextId : Nat := 0
  deriving DecidableEq, Repr

/-- what `finish v` hands to a continuation -/
def deliveredOf (k : Kind) (v : Nat) : Delivered :=
  match k with | .void => none | .value => some v

def init (k : Kind) : St := { kind := k }

def St.alive (s : St) (c : Nat) : Bool := !s.dead.contains c

/-- a context pointer handed to `then`: a destroyed object cannot be passed, the harness
passes nullptr (= context 0) instead -/
def St.effCtx (s : St) (c : Nat) : Nat := if s.alive c then c else 0

/-- `QXmppTask::then` when the task is already finished (no continuation body involved:
used for re-entrant attaches, whose continuations have an empty body). -/
def thenFinishedSimple (s : St) (ctx : Nat) : St × List Ev :=
  if s.refs = 0 then (s, []) else
  let k := s.nextId
  let s := { s with nextId := k + 1 }
  match s.kind with
  | .void => (s, [.ran k (s.effCtx ctx) none])
  | .value =>
    match s.result with
    | some r => ({ s with result := none }, [.ran k (s.effCtx ctx) (some r)])
    | none => (s, [])

def runInner (s : St) : List Inner → St × List Ev
  | [] => (s, [])
  | .thenI ctx :: rest =>
    -- only ever executed while finished = true (bodies run from finish or from a late then)
    let r1 := thenFinishedSimple s ctx
    let r2 := runInner r1.1 rest
    (r2.1, r1.2 ++ r2.2)
  | .destroyCtx c :: rest =>
    runInner { s with dead := if c = 0 then s.dead else c :: s.dead } rest
  | .dropAll :: rest =>
    -- the record itself stays alive until the running continuation returns (`invokeContinuation`
    -- holds a reference, repo commit "fix: use after free when a continuation drops the last handle"),
    -- but nothing can reach it any more: stored value and continuation are gone with it
    runInner { s with refs := 0, result := none, cont := none } rest

/-- the wrapper lambda installed by `then` before finish: test the context, run, clear itself -/
def invokeCont (s : St) (c : Cont) (v : Delivered) : St × List Ev :=
  if s.alive c.ctx then
    let r1 := runInner s c.body
    ({ r1.1 with cont := none }, .ran c.id c.ctx v :: r1.2)
  else
    ({ s with cont := none }, [])

/-- `QXmppPromise::finish`.  `c` is a context destroyed by a side effect of converting the argument to
the result type (converting overload only; `c = 0`: nothing is destroyed — the same-type and void
overloads).  The conversion happens after the context test and before the continuation is invoked; the
wrapper installed by `then` tests the context again (`invokeCont`). -/
def finishCore (s : St) (c : Nat) (v : Nat) : St × List Ev :=
  if s.refs = 0 ∨ s.finished then (s, []) else
  let s := { s with finished := true }
  let killed : St := { s with dead := if c = 0 then s.dead else c :: s.dead }
  match s.cont with
  | some k =>
    -- `if (d.continuation()) { if (d.isContextAlive()) invoke }` — nothing stored either way
    if s.alive k.ctx then invokeCont killed k (deliveredOf s.kind v)
    else (s, [])
  | none =>
    match s.kind with
    | .void => (s, [])
    | .value => ({ killed with result := some v }, [])

/-- one operation, without the end-of-step `released` report -/
def stepCore (s : St) : Op → St × List Ev
  | .thenOp ctx body =>
    if s.refs = 0 then (s, []) else
    let k := s.nextId
    let ectx := s.effCtx ctx
    if s.finished then
      let s := { s with nextId := k + 1 }
      match s.kind with
      | .void =>
        let r1 := runInner s body
        (r1.1, .ran k ectx none :: r1.2)
      | .value =>
        match s.result with
        | some r =>
          -- the value is moved out and the stored result reset *before* the continuation runs
          -- (repo commit "fix: QXmppTask::then() on a finished task ..."), so a re-entrant
          -- attach inside the body sees no stored result
          let r1 := runInner { s with result := none } body
          ({ r1.1 with result := none }, .ran k ectx (some r) :: r1.2)
        | none => (s, [])
    else
      ({ s with nextId := k + 1, cont := some { id := k, ctx := ectx, body := body } }, [])
  | .finish v => finishCore s 0 v
  | .finishK c v => finishCore s c v
  | .take =>
    -- precondition of takeResult(): finished and hasResult; the value is moved out and the stored result reset
    if s.refs = 0 then (s, []) else ({ s with result := none }, [])
  | .destroyCtx c =>
    ({ s with dead := if c = 0 then s.dead else c :: s.dead }, [])
  | .copyHandle =>
    if s.refs = 0 then (s, []) else ({ s with refs := s.refs + 1 }, [])
  | .dropHandle =>
    if s.refs = 0 then (s, [])
    else if s.refs = 1 then
      ({ s with refs := 0, result := none, cont := none }, [])
    else ({ s with refs := s.refs - 1 }, [])

/-- one operation; `released` is reported at the end of the step in which the last handle went away -/
def step (s : St) (op : Op) : St × List Ev :=
  let r := stepCore s op
  if s.refs ≠ 0 ∧ r.1.refs = 0 then (r.1, r.2 ++ [.released]) else r

def run (s : St) : List Op → St × List Ev
  | [] => (s, [])
  | op :: ops =>
    let r1 := step s op
    let r2 := run r1.1 ops
    (r2.1, r1.2 ++ r2.2)

/-- ids of continuations that ran -/
def ranIds (evs : List Ev) : List Nat :=
  evs.filterMap fun | .ran k _ _ => some k | _ => none

end Qx.C13
