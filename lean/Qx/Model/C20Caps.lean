/-
C20 — model of the XEP-0115 entity-capabilities verification string.

Anchors: src/base/QXmppDiscoveryIq.cpp  (identityLessThan, verificationString),
         src/base/QXmppDataForm.cpp     (toXml: which <value/> elements a field puts on the wire),
         src/client/QXmppDiscoveryManager.cpp (capabilities, handleIq), src/client/QXmppClient.cpp (addProperCapability).

Strings are lists of Unicode scalar values (`List Char`: a QString holding well-formed text).
Two collations on them:
  `lt16` — lexicographic on UTF-16 code units  = `QString::operator<` (only the internal order of the QMap today);
  `lt8`  — lexicographic on UTF-8 octets        = "i;octet" of RFC 4790 (what XEP-0115 §5.1 asks for, and — since
           repo commit 0beac74 "entity capabilities hash sorts by UTF-16 code units instead of octets" — what the
           C++ sorts by: `octetLessThan` = `s1.toUtf8() < s2.toUtf8()`).

`verStringCode` transcribes `QXmppDiscoveryIq::verificationString()` (the string S that is hashed);
`verStringSpec` is XEP-0115 §5.1 applied to what the same object puts on the wire.
`ver H i = H (verStringCode i)` with the hash a parameter; the driver instantiates
`H = base64 ∘ SHA-1 ∘ UTF-8`.  No proofs here.
-/
import Qx.Base.Utf8
import Qx.Crypto.Sha1
import Qx.Crypto.Base64

namespace Qx.C20

abbrev Str := List Char

/-- code points -/
def cps (s : Str) : List Nat := s.map Char.toNat

/-- UTF-16 code units (QString's internal representation) -/
def utf16 (s : Str) : List Nat := Utf8.utf16Units (cps s)

/-- UTF-8 octets, as numbers 0..255 -/
def utf8 (s : Str) : List Nat := (Utf8.encode (cps s)).map UInt8.toNat

/-- strict lexicographic order on number sequences; a proper prefix sorts first -/
def lexLt : List Nat → List Nat → Bool
  | _, [] => false
  | [], _ :: _ => true
  | a :: as, b :: bs => if a < b then true else if b < a then false else lexLt as bs

/-- `QString::operator<` : code-unit-wise comparison (`ucstrcmp`) -/
def lt16 (a b : Str) : Bool := lexLt (utf16 a) (utf16 b)

/-- RFC 4790 `i;octet` on the UTF-8 encoding -/
def lt8 (a b : Str) : Bool := lexLt (utf8 a) (utf8 b)

/-! ### sorting (any comparison sort gives this result when `lt` is a strict total order on the elements) -/

/-- insert before the first element that is strictly greater -/
def insertBy {α : Type} (lt : α → α → Bool) (x : α) : List α → List α
  | [] => [x]
  | y :: ys => if lt x y then x :: y :: ys else y :: insertBy lt x ys

def isort {α : Type} (lt : α → α → Bool) : List α → List α
  | [] => []
  | x :: xs => insertBy lt x (isort lt xs)

/-- `QStringList::removeDuplicates`: keeps the first occurrence of every string (`seen` = the QSet) -/
def removeDuplicatesGo : List Str → List Str → List Str
  | [], _ => []
  | a :: l, seen => if seen.contains a then removeDuplicatesGo l seen else a :: removeDuplicatesGo l (a :: seen)

def removeDuplicates (l : List Str) : List Str := removeDuplicatesGo l []

/-! ### the info set (a `QXmppDiscoveryIq` as far as the hash looks at it) -/

structure Identity where
  category : Str
  type : Str
  lang : Str
  name : Str
  deriving DecidableEq, Repr

/-- the `QVariant` held by a `QXmppDataForm::Field` (as produced by `QXmppDataForm::parse` and by the
typed setters): a non-null `QString`, possibly empty (text-single, hidden, list-single, jid-single, fixed, text-private;
`parse` yields the empty one for `<value/>`), a null `QString` / invalid variant (no `<value/>` at all),
a `QStringList` (list-multi, jid-multi, text-multi) or a `bool` (boolean) -/
inductive Value
  | text (s : Str)
  | null
  | list (vs : List Str)
  | bool (b : Bool)
  deriving DecidableEq, Repr

structure Field where
  key : Str
  value : Value
  deriving DecidableEq, Repr

structure Info where
  ids : List Identity
  feats : List Str
  /-- `none` = `form.isNull()`; otherwise all fields of the form, FORM_TYPE among them -/
  form : Option (List Field)
  deriving DecidableEq, Repr

def formTypeKey : Str := "FORM_TYPE".toList

/-- `identityLessThan` of QXmppDiscoveryIq.cpp with the string comparison as a parameter: `operator<` of the
tuples (category, type, language, name), i.e. component by component -/
def identityLessThan (lt : Str → Str → Bool) (a b : Identity) : Bool :=
  if lt a.category b.category then true
  else if lt b.category a.category then false
  else if lt a.type b.type then true
  else if lt b.type a.type then false
  else if lt a.lang b.lang then true
  else if lt b.lang a.lang then false
  else if lt a.name b.name then true
  else if lt b.name a.name then false
  else false

/-- `category/type/lang/name<` -/
def identityStr (d : Identity) : Str :=
  d.category ++ '/' :: (d.type ++ '/' :: (d.lang ++ '/' :: (d.name ++ ['<'])))

/-! ### what the C++ does -/

/-- `QVariant::toString()` (Qt 5.15): a string list converts only when it has exactly one element -/
def Value.toStr : Value → Str
  | .text s => s
  | .null => []
  | .list [v] => v
  | .list _ => []
  | .bool true => "true".toList
  | .bool false => "false".toList

/-- the wire view of a field value — values are opaque strings: `QXmppDataForm::toXml` writes one `<value/>` per list
element whose text is the element; a single value unless the string is NULL (an empty non-null one is written as
`<value/>`); a boolean `1` / `0`.  A conforming XML parser reads each text back unchanged: the writer escapes `<`, `>`, `&`,
`"` and — repo commit "a carriage return in element text is written as a character reference" — CR, the one character a
reader would otherwise alter (XML 1.0 §2.11); blanks, LF, TAB are kept by the reader. -/
def Value.wire : Value → List Str
  | .text s => [s]
  | .null => []
  | .list vs => vs
  | .bool true => [['1']]
  | .bool false => [['0']]

/-- the values `verificationString()` takes for a field: by field type exactly the strings `toXml` writes, sorted with
`octetLessThan` -/
def Value.codeVals (v : Value) : List Str := isort lt8 v.wire

/-- `key + '<'`, then every value followed by `'<'` -/
def fieldStrCode (f : Field) : Str :=
  f.key ++ '<' :: (f.value.codeVals.flatMap (fun v => v ++ ['<']))

/-- `QMap<QString, Field>::insert`: the map is a list sorted strictly by key (`QString::operator<`, UTF-16 order);
an existing key is replaced -/
def mapInsert (m : List Field) (f : Field) : List Field :=
  match m with
  | [] => [f]
  | g :: r =>
    if lt16 f.key g.key then f :: g :: r
    else if lt16 g.key f.key then g :: mapInsert r f
    else f :: r

/-- `for (field : form.fields()) fieldMap.insert(field.key(), field)` -/
def buildMap (fields : List Field) : List Field := fields.foldl mapInsert []

def sortedIdentitiesCode (i : Info) : List Identity := isort (identityLessThan lt8) i.ids
def sortedFeaturesCode (i : Info) : List Str := removeDuplicates (isort lt8 i.feats)

/-- `std::sort(keys, octetLessThan)` applied to the entries -/
def keyLt8 (a b : Field) : Bool := lt8 a.key b.key

/-- the form part of S.  `fieldMap.keys()` (distinct keys, in the map's UTF-16 order) is re-sorted with
`octetLessThan`; `fieldMap.value(key)` is the entry itself, hence sorting the entries without FORM_TYPE by key. -/
def formStrCode : Option (List Field) → Str
  | none => []
  | some fields =>
    let fieldMap := buildMap fields
    match fieldMap.find? (fun f => f.key = formTypeKey) with
    | none => []                                     -- qWarning, form ignored
    | some ft =>
      ft.value.toStr ++ '<' ::
        ((isort keyLt8 (fieldMap.filter (fun f => f.key ≠ formTypeKey))).flatMap fieldStrCode)

/-- the string S of `QXmppDiscoveryIq::verificationString()` -/
def verStringCode (i : Info) : Str :=
  (sortedIdentitiesCode i).flatMap identityStr
    ++ (sortedFeaturesCode i).flatMap (fun f => f ++ ['<'])
    ++ formStrCode i.form

/-! ### what XEP-0115 §5.1 says -/

/-- 7.c: `var<` then every value, sorted, each followed by `<` -/
def fieldStrSpec (f : Field) : Str :=
  f.key ++ '<' :: ((isort lt8 f.value.wire).flatMap (fun v => v ++ ['<']))

/-- §5.1 steps 6–7 for the (single) extension form; §5.4 item 6: a form without FORM_TYPE is ignored.
Defined on the XEP's domain (`XepForm`): FORM_TYPE occurs once with exactly one value, `var`s are distinct. -/
def formStrSpec : Option (List Field) → Str
  | none => []
  | some fields =>
    match fields.find? (fun f => f.key = formTypeKey) with
    | none => []
    | some ft =>
      ft.value.wire.flatten ++ '<' ::
        ((isort keyLt8 (fields.filter (fun f => f.key ≠ formTypeKey))).flatMap fieldStrSpec)

/-- the XEP's domain for the form: `var` unique (XEP-0004 §3.2), FORM_TYPE is a string field (type `hidden`, §5.4 item 6)
carrying exactly one value -/
def XepForm : Option (List Field) → Prop
  | none => True
  | some fields =>
    (fields.map Field.key).Nodup ∧
    ∀ f ∈ fields, f.key = formTypeKey → (∃ v, f.value.wire = [v]) ∧ ∀ b, f.value ≠ .bool b

/-- §5.1 steps 2–5: identities sorted by category, type, lang (ties between identities that differ only
in the name are left open by the XEP; the name is used), features sorted; the feature list of a
disco#info result is a set (§5.4 item 4 rejects repeated features), so repeated entries count once. -/
def verStringSpec (i : Info) : Str :=
  (isort (identityLessThan lt8) i.ids).flatMap identityStr
    ++ (removeDuplicates (isort lt8 i.feats)).flatMap (fun f => f ++ ['<'])
    ++ formStrSpec i.form

/-! ### hash, and the client side -/

/-- `ver` attribute for a hash function `H` on S -/
def ver {β : Type} (H : Str → β) (i : Info) : β := H (verStringCode i)

/-- `base64 (SHA-1 (UTF-8 S))` as text -/
def sha1b64 (s : Str) : String :=
  Crypto.Base64.encodeStr (Crypto.sha1 (Utf8.encode (cps s)))

/-- configuration of the client as far as `QXmppDiscoveryManager::capabilities()` reads it -/
structure ClientCfg where
  category : Str
  type : Str
  name : Str
  /-- `QXmppClientPrivate::discoveryFeatures()` -/
  baseFeatures : List Str
  /-- per registered extension, in registration order: its discoveryFeatures / discoveryIdentities -/
  extFeatures : List (List Str)
  extIdentities : List (List Identity)
  infoForm : Option (List Field)
  node : Str

/-- `QXmppDiscoveryManager::capabilities()`; `features.removeDuplicates()` since repo commit eee8133
"disco#info replies and capabilities may list the same feature twice" -/
def capabilities (c : ClientCfg) : Info :=
  { ids := { category := c.category, type := c.type, lang := [], name := c.name } :: c.extIdentities.flatten
    feats := removeDuplicates (c.baseFeatures ++ c.extFeatures.flatten)
    form := c.infoForm }

/-- `QXmppClientPrivate::addProperCapability`: the `ver` put into `<c xmlns='http://jabber.org/protocol/caps'/>` -/
def advertisedVer {β : Type} (H : Str → β) (c : ClientCfg) : β := ver H (capabilities c)

/-- `QXmppDiscoveryManager::handleIq`: the info set answered to a disco#info `get`; `none` = item-not-found.
The node is only tested for the prefix `clientCapabilitiesNode`. -/
def answeredInfo (c : ClientCfg) (queryNode : Str) : Option Info :=
  if queryNode = [] ∨ c.node.isPrefixOf queryNode then some (capabilities c) else none

/-! ### a client over a history: the stored presence, the sites that emit it, queries

`QXmppClientPrivate::clientPresence` is a stored stanza.  Its caps (`node`, `ver`) are recomputed by
`addProperCapability` in `setClientPresence`, `connectToServer` and — since repo commit 032336b "recompute entity
capabilities wherever the stored presence is emitted" — at every site that sends or hands out the stored copy:
  * `_q_streamConnected` — initial presence at every session start, including automatic reconnection;
  * `disconnectFromServer` — the unavailable presence;
  * `clientPresence()` — hence `QXmppMucRoom::join`, nick change, own-presence reflection, and any presence the
    application derives from it.
`QXmppPresence::toXml` writes `<c/>` only when the stored node is non-empty.  Presences built from scratch
(`QXmppMucRoom::leave`, roster subscription presences, `QXmppMovedManager`) carry no caps element at all. -/

/-- caps computed by `addProperCapability` for a configuration, as they appear on the wire:
`none` = no `<c/>` (empty capabilities node), `some (node, ver)` -/
def freshCaps {β : Type} (H : Str → β) (c : ClientCfg) : Option (Str × β) :=
  if c.node = [] then none else some (c.node, advertisedVer H c)

/-- the discovery configuration and the caps stored in `d->clientPresence` -/
structure ClientSt (β : Type) where
  cfg : ClientCfg
  stored : Option (Str × β) := none

/-- emission sites that send (a copy of) the stored presence -/
inductive Site | sessionStart | disconnect | mucJoin
  deriving DecidableEq, Repr

inductive ClientOp
  /-- any reconfiguration through the API (`setClientName/Type/Category/CapabilitiesNode/InfoForm`, `addExtension`,
  `removeExtension`): the configuration afterwards -/
  | configure (c : ClientCfg)
  /-- `setClientPresence(p)` on a connected client: recompute, store, send.  `derived` = `p` was copied from
  `clientPresence()` and already carries the previously computed caps (they are overwritten) -/
  | setClientPresence (derived : Bool)
  /-- `connectToServer(config, p)`: recompute, store; nothing is sent until the session starts -/
  | connectToServer (derived : Bool)
  /-- one of the sites that recompute the caps of the stored presence and send (a copy of) it -/
  | emitStored (site : Site)
  /-- a disco#info `get` for this node -/
  | query (node : Str)

inductive ClientOut (β : Type)
  /-- an emitted `<presence/>`: `some (node, ver)` = with `<c node=… ver=… hash='sha-1'/>`; `none` = without a caps element -/
  | presence (caps : Option (Str × β))
  /-- the XEP-0115 hash of the answered info set as a peer computes it from the wire, `none` = item-not-found -/
  | answer (ver : Option β)
  deriving DecidableEq, Repr

def clientStep {β : Type} (H : Str → β) (s : ClientSt β) : ClientOp → ClientSt β × List (ClientOut β)
  | .configure c => ({ s with cfg := c }, [])
  | .setClientPresence _ => ({ s with stored := freshCaps H s.cfg }, [.presence (freshCaps H s.cfg)])
  | .connectToServer _ => ({ s with stored := freshCaps H s.cfg }, [])
  | .emitStored _ => ({ s with stored := freshCaps H s.cfg }, [.presence (freshCaps H s.cfg)])
  | .query n => (s, [.answer ((answeredInfo s.cfg n).map (fun i => H (verStringSpec i)))])

/-- run a history; every output is recorded together with the state right after the step that produced it -/
def clientRun {β : Type} (H : Str → β) (s : ClientSt β) : List ClientOp → ClientSt β × List (ClientSt β × ClientOut β)
  | [] => (s, [])
  | op :: ops =>
    let r1 := clientStep H s op
    let r2 := clientRun H r1.1 ops
    (r2.1, r1.2.map (fun o => (r1.1, o)) ++ r2.2)

def emptyCfg : ClientCfg :=
  { category := [], type := [], name := [], baseFeatures := [], extFeatures := [], extIdentities := [],
    infoForm := none, node := [] }

end Qx.C20
