/-
C14 — model of the STUN/TURN message codec of qxmpp:
  `QXmppStunMessage::encode` / `decode` (src/base/QXmppStun.cpp), `generateHmac` and `generateCrc32`
  (src/base/QXmppUtils.cpp).

The model follows the code that exists, including its quirks:

* `hmacCode` is the hand-written HMAC of QXmppUtils.cpp (as repaired by /repo commit a1928fd): a key longer than the
  block is hashed first, then padded with zero bytes to the block size; the loops index `kpad[0..B)`.
* `QDataStream` never fails: reading past the end yields 0 and consumes what was left (`rdU8/rdU16/rdU32`),
  `readRawData` copies what is there and leaves the rest of the destination untouched (`rdRaw` for a zero
  initialised destination, `rdResize` for `QByteArray::resize`d destinations, whose not-overwritten bytes are
  *indeterminate* in C++ and modelled as the old content / zero; since /repo commit df53ac0 the loop rejects an
  attribute whose value does not lie inside the body, so no accepted packet gets there: `decode_accepted_fits`).
* the decode loop skips everything but FINGERPRINT after MESSAGE-INTEGRITY and stops at FINGERPRINT without looking at what
  follows; under a key a packet without MESSAGE-INTEGRITY is accepted only if its class is Error or Indication (80bab8b).
* `QString::fromUtf8(data, size)` of Qt 5 drops a leading BOM and replaces malformed sequences (`qtStr`; since /repo
  commit bdc4d1e an embedded NUL is kept); string attributes are held as the UTF-8 bytes of the QString.

Constants come from the generated file `Qx.Generated.StunConsts`, the CRC table from `Qx.Generated.CrcTable`.
The hash function is a parameter `H` everywhere (the driver instantiates SHA-1).
No proofs here; core Lean only (linked into the driver).
-/
import Qx.Base.Bytes
import Qx.Base.Utf8
import Qx.Crypto.Hmac
import Qx.Crypto.Crc32
import Qx.Generated.CrcTable
import Qx.Generated.StunConsts

namespace Qx.C14
open Qx Qx.Bytes Qx.Generated

/-! ## HMAC and CRC as the code computes them -/

/-- `generateHmac` of QXmppUtils.cpp over hash `H` with block size `B`:
`kpad = (|key| > B ? H(key) : key) ++ zeros (B - |kpad|)`, and `kpad[0..B)` is used. -/
def hmacCode (H : Bytes → Bytes) (B : Nat) (key text : Bytes) : Bytes :=
  let k0 := if key.length > B then H key else key
  let k := (k0 ++ zeros (B - k0.length)).take B
  H (k.map (· ^^^ 0x5c) ++ H (k.map (· ^^^ 0x36) ++ text))

/-- RFC 2104 HMAC (keys longer than the block are hashed first) — the specification -/
def hmacRfc (H : Bytes → Bytes) (B : Nat) (key text : Bytes) : Bytes := Qx.Crypto.hmac H B key text

/-- `QXmppUtils::generateCrc32` with the table extracted from the source, as a number -/
def crcCode (bs : Bytes) : Nat := (Qx.Crypto.crc32TableList crcTable bs).toNat

/-- the FINGERPRINT value the code computes for the (length adjusted) prefix -/
def fingerprintOf (bs : Bytes) : Nat := crcCode bs ^^^ Stun.fingerprintXor

/-! ## The message -/

/-- `QHostAddress` as far as the codec can tell: null, IPv4 (32-bit number) or IPv6 (16 bytes) -/
inductive Host where
  | null
  | v4 (a : Nat)
  | v6 (a : Bytes)
  deriving DecidableEq, Repr, Inhabited

/-- host + port pair of the address attributes (public members `xxxHost`, `xxxPort`) -/
structure Addr where
  host : Host := .null
  port : Nat := 0
  deriving DecidableEq, Repr, Inhabited

/-- `QXmppStunMessage`.  Attributes governed by the private set `m_attributes` are `Option`s (a setter sets the value
and the membership together, decode does the same); strings are the UTF-8 bytes of the `QString`. -/
structure Msg where
  type : Nat := 0
  cookie : Nat := Stun.magicCookie
  id : Bytes := zeros Stun.idSize
  mapped : Addr := {}
  changeRequest : Option Nat := none
  source : Addr := {}
  changed : Addr := {}
  other : Addr := {}
  xorMapped : Addr := {}
  xorPeer : Addr := {}
  xorRelayed : Addr := {}
  errorCode : Int := 0
  errorPhrase : Bytes := []
  priority : Option Nat := none
  useCandidate : Bool := false
  channelNumber : Option Nat := none
  data : Option Bytes := none
  lifetime : Option Nat := none
  nonce : Option Bytes := none
  realm : Option Bytes := none
  requestedTransport : Option Nat := none
  reservationToken : Option Bytes := none
  software : Option Bytes := none
  username : Option Bytes := none
  iceControlling : Bytes := []
  iceControlled : Bytes := []
  deriving DecidableEq, Repr, Inhabited

/-- a default-constructed `QXmppStunMessage` -/
def Msg.fresh : Msg := {}

/-! ## encode -/

/-- the 16-byte pad of the XOR-ed IPv6 addresses: magic cookie followed by the transaction id -/
def xorPad (id : Bytes) : Bytes := putU32 Stun.magicCookie ++ id

/-- the 16 upper bits of the magic cookie, xor-ed onto the port -/
def portMask : Nat := Stun.magicCookie / 65536

/-- `addAddress` + `encodeAddress`: nothing for port 0 or a null host; `xorId = some id` for the XOR-… attributes -/
def encAddr (ty : Nat) (a : Addr) (xorId : Option Bytes) : Bytes :=
  if a.port = 0 then []
  else
    match a.host with
    | .null => []
    | .v4 ip =>
      putU16 ty ++ putU16 8 ++ [0, UInt8.ofNat Stun.familyIPv4] ++
        (match xorId with
         | none => putU16 a.port ++ putU32 ip
         | some _ => putU16 (a.port ^^^ portMask) ++ putU32 (ip ^^^ Stun.magicCookie))
    | .v6 bs =>
      putU16 ty ++ putU16 20 ++ [0, UInt8.ofNat Stun.familyIPv6] ++
        (match xorId with
         | none => putU16 a.port ++ bs
         | some id => putU16 (a.port ^^^ portMask) ++ xorBytes bs (xorPad id))

/-- value followed by zero bytes up to a multiple of four -/
def padded (bs : Bytes) : Bytes := bs ++ zeros (pad4 bs.length)

/-- `encodeString` and the inlined copies for DATA / NONCE -/
def encBlob (ty : Nat) (bs : Bytes) : Bytes := putU16 ty ++ putU16 bs.length ++ padded bs

/-- an optional attribute -/
def encOpt {α : Type} (o : Option α) (f : α → Bytes) : Bytes :=
  match o with
  | none => []
  | some v => f v

/-- `quint8(errorCode / 100)` with C++ truncating division -/
def errHigh (c : Int) : Nat := ((Int.tdiv c 100) % 256).toNat
/-- `quint8(errorCode % 100)` with the C++ sign rule of `%` -/
def errLow (c : Int) : Nat := ((Int.tmod c 100) % 256).toNat

def encError (m : Msg) : Bytes :=
  if m.errorCode = 0 then []
  else
    putU16 Stun.errorCode ++ putU16 (m.errorPhrase.length + 4) ++
      [0, 0, UInt8.ofNat (errHigh m.errorCode), UInt8.ofNat (errLow m.errorCode)] ++ padded m.errorPhrase

/-- ICE-CONTROLLING, else ICE-CONTROLLED; written without padding -/
def encIce (m : Msg) : Bytes :=
  if m.iceControlling ≠ [] then putU16 Stun.iceControlling ++ putU16 m.iceControlling.length ++ m.iceControlling
  else if m.iceControlled ≠ [] then putU16 Stun.iceControlled ++ putU16 m.iceControlled.length ++ m.iceControlled
  else []

/-- the 20-byte header with a zero length field -/
def header (m : Msg) : Bytes := putU16 m.type ++ putU16 0 ++ putU32 m.cookie ++ m.id

/-- the attributes before MESSAGE-INTEGRITY in the fixed order of `QXmppStunMessage::encode` -/
def body (m : Msg) : Bytes :=
  encAddr Stun.mappedAddress m.mapped none ++
  encOpt m.changeRequest (fun v => putU16 Stun.changeRequest ++ putU16 4 ++ putU32 v) ++
  encAddr Stun.sourceAddress m.source none ++
  encAddr Stun.changedAddress m.changed none ++
  encAddr Stun.otherAddress m.other none ++
  encAddr Stun.xorMappedAddress m.xorMapped (some m.id) ++
  encAddr Stun.xorPeerAddress m.xorPeer (some m.id) ++
  encAddr Stun.xorRelayedAddress m.xorRelayed (some m.id) ++
  encError m ++
  encOpt m.priority (fun v => putU16 Stun.priority ++ putU16 4 ++ putU32 v) ++
  (if m.useCandidate then putU16 Stun.useCandidate ++ putU16 0 else []) ++
  encOpt m.channelNumber (fun v => putU16 Stun.channelNumber ++ putU16 4 ++ putU16 v ++ putU16 0) ++
  encOpt m.data (encBlob Stun.dataAttr) ++
  encOpt m.lifetime (fun v => putU16 Stun.lifetime ++ putU16 4 ++ putU32 v) ++
  encOpt m.nonce (encBlob Stun.nonce) ++
  encOpt m.realm (encBlob Stun.realm) ++
  encOpt m.requestedTransport (fun v => putU16 Stun.requestedTransport ++ putU16 4 ++ [UInt8.ofNat v, 0, 0, 0]) ++
  encOpt m.reservationToken (fun v => putU16 Stun.reservationToken ++ putU16 v.length ++ v) ++
  encOpt m.software (encBlob Stun.software) ++
  encOpt m.username (encBlob Stun.username) ++
  encIce m

/-- the attribute types `body`, MESSAGE-INTEGRITY and FINGERPRINT are emitted in (compared with the order
extracted from the source by `Props.C14.encode_order_matches_source`) -/
def modelOrder : List Nat :=
  [Stun.mappedAddress, Stun.changeRequest, Stun.sourceAddress, Stun.changedAddress, Stun.otherAddress,
   Stun.xorMappedAddress, Stun.xorPeerAddress, Stun.xorRelayedAddress, Stun.errorCode, Stun.priority,
   Stun.useCandidate, Stun.channelNumber, Stun.dataAttr, Stun.lifetime, Stun.nonce, Stun.realm,
   Stun.requestedTransport, Stun.reservationToken, Stun.software, Stun.username, Stun.iceControlling,
   Stun.iceControlled, Stun.messageIntegrity, Stun.fingerprint]

/-- `setBodyLength`: overwrite bytes 2..3 with the 16-bit big-endian length -/
def setLen (b : Bytes) (n : Nat) : Bytes := b.take 2 ++ putU16 n ++ b.drop 4

/-- header and attributes with the length field set to the body length -/
def plain (m : Msg) : Bytes :=
  let b := header m ++ body m
  setLen b (b.length - Stun.headerSize)

/-- what MESSAGE-INTEGRITY is computed over: the bytes so far with the length field counting the MI attribute -/
def miInput (b : Bytes) : Bytes := setLen b (b.length - Stun.headerSize + Stun.miAdjust)

/-- what FINGERPRINT is computed over: the bytes so far with the length field counting the FP attribute -/
def fpInput (b : Bytes) : Bytes := setLen b (b.length - Stun.headerSize + Stun.fpAdjust)

/-- append MESSAGE-INTEGRITY unless the key is empty -/
def withMI (H : Bytes → Bytes) (key : Bytes) (b : Bytes) : Bytes :=
  if key = [] then b
  else
    let t := miInput b
    let mac := hmacCode H 64 key t
    t ++ putU16 Stun.messageIntegrity ++ putU16 mac.length ++ mac

/-- append FINGERPRINT when asked to -/
def withFP (fp : Bool) (b : Bytes) : Bytes :=
  if fp then
    let t := fpInput b
    t ++ putU16 Stun.fingerprint ++ putU16 4 ++ putU32 (fingerprintOf t)
  else b

/-- the bytes `QXmppStunMessage::encode(key, addFingerprint)` assembles -/
def encodeRaw (H : Bytes → Bytes) (m : Msg) (key : Bytes) (fp : Bool) : Bytes :=
  withFP fp (withMI H key (plain m))

/-- `QXmppStunMessage::encode(key, addFingerprint)`: since /repo commit 910f587 it refuses (empty result and a warning) a
message whose attributes do not fit the 16-bit length field instead of emitting one with wrapped lengths -/
def encode (H : Bytes → Bytes) (m : Msg) (key : Bytes) (fp : Bool) : Bytes :=
  let b := encodeRaw H m key fp
  if b.length - Stun.headerSize > 0xffff then [] else b

/-- `setReservationToken`: exactly 8 bytes — truncated, or padded with zero bytes (`leftJustified(8, 0, true)`, /repo
commit e93be92; `resize(8)` left the new bytes uninitialised before) -/
def setReservationToken (tok : Bytes) : Bytes := (tok ++ zeros (8 - tok.length)).take 8

/-! ## QDataStream reads -/

/-- `stream >> quint8` -/
def rdU8 : Bytes → Nat × Bytes
  | a :: r => (a.toNat, r)
  | [] => (0, [])

/-- `stream >> quint16`: 0 and everything consumed when fewer than two bytes are left -/
def rdU16 : Bytes → Nat × Bytes
  | a :: b :: r => (a.toNat * 256 + b.toNat, r)
  | _ => (0, [])

/-- `stream >> quint32` -/
def rdU32 : Bytes → Nat × Bytes
  | a :: b :: c :: d :: r => (a.toNat * 16777216 + b.toNat * 65536 + c.toNat * 256 + d.toNat, r)
  | _ => (0, [])

/-- `readRawData` into a zero-initialised array of `n` bytes -/
def rdRaw (n : Nat) (s : Bytes) : Bytes × Bytes :=
  (s.take n ++ zeros (n - s.length), s.drop n)

/-- `old.resize(n); readRawData(old.data(), n)`: bytes that are not overwritten keep the old content; where there was
no old content they are indeterminate in C++ (zero here; only possible when `tlvFits` is false) -/
def rdResize (old : Bytes) (n : Nat) (s : Bytes) : Bytes × Bytes :=
  let got := s.take n
  (got ++ ((old ++ zeros (n - old.length)).take n).drop got.length, s.drop n)

/-- `QString::fromUtf8(ba.constData(), ba.size())` followed by `toUtf8()`: how a string attribute's bytes come back — a
leading BOM is dropped, malformed sequences become U+FFFD; an embedded NUL is kept (since /repo commit bdc4d1e; the
`QByteArray` overload used before cut the value at the first NUL) -/
def qtStr (bs : Bytes) : Bytes := Utf8.encode (Utf8.decodeLossy (Utf8.stripBom bs))

/-! ## decode -/

/-- `decodeAddress`; `none` = `return false`; the stream after the address otherwise -/
def decAddr (aLen : Nat) (s : Bytes) (xorId : Option Bytes) : Option (Addr × Bytes) :=
  if aLen < 4 then none
  else
    let r0 := rdU8 s
    let r1 := rdU8 r0.2
    let r2 := rdU16 r1.2
    let port := match xorId with
      | none => r2.1
      | some _ => r2.1 ^^^ portMask
    if r1.1 = Stun.familyIPv4 then
      if aLen ≠ 8 then none
      else
        let r3 := rdU32 r2.2
        let ip := match xorId with
          | none => r3.1
          | some _ => r3.1 ^^^ Stun.magicCookie
        some ({ host := .v4 ip, port := port }, r3.2)
    else if r1.1 = Stun.familyIPv6 then
      if aLen ≠ 20 then none
      else
        let r3 := rdRaw 16 r2.2
        let a := match xorId with
          | none => r3.1
          | some id => xorBytes r3.1 (xorPad id)
        some ({ host := .v6 a, port := port }, r3.2)
    else none

/-- outcome of handling one attribute -/
inductive Step where
  /-- `return false` -/
  | fail
  /-- `return true` (FINGERPRINT verified; `at` = value of `done` there) -/
  | accept (m : Msg) (fpAt : Nat)
  /-- go on: stream after the value (padding not yet skipped), updated message, `after_integrity` information -/
  | next (s : Bytes) (m : Msg) (miAt : Option Nat)
  deriving Repr

/-! The branches of the decode loop, one small function per kind of attribute (`s` = stream after the attribute
header, `aLen` = announced length, `set` = how the message is updated, `miAt` = `after_integrity` information). -/

/-- a 32-bit value: PRIORITY, LIFETIME, CHANGE-REQUEST -/
def stepU32 (set : Msg → Nat → Msg) (aLen : Nat) (s : Bytes) (m : Msg) (miAt : Option Nat) : Step :=
  if aLen ≠ 4 then .fail else
    let r := rdU32 s; .next r.2 (set m r.1) miAt

/-- ERROR-CODE: reserved 16 bits, class, number, phrase -/
def stepError (aLen : Nat) (s : Bytes) (m : Msg) (miAt : Option Nat) : Step :=
  if aLen < 4 then .fail else
    let r0 := rdU16 s
    let r1 := rdU8 r0.2
    let r2 := rdU8 r1.2
    let r3 := rdRaw (aLen - 4) r2.2
    .next r3.2 { m with errorCode := Int.ofNat (r1.1 * 100 + r2.1), errorPhrase := qtStr r3.1 } miAt

/-- USE-CANDIDATE -/
def stepFlag (aLen : Nat) (s : Bytes) (m : Msg) (miAt : Option Nat) : Step :=
  if aLen ≠ 0 then .fail else .next s { m with useCandidate := true } miAt

/-- CHANNEL-NUMBER: 16 bits and two reserved bytes -/
def stepChannel (aLen : Nat) (s : Bytes) (m : Msg) (miAt : Option Nat) : Step :=
  if aLen ≠ 4 then .fail else
    let r := rdU16 s; .next (r.2.drop 2) { m with channelNumber := some r.1 } miAt

/-- REQUESTED-TRANSPORT: 8 bits and three reserved bytes -/
def stepTransport (aLen : Nat) (s : Bytes) (m : Msg) (miAt : Option Nat) : Step :=
  if aLen ≠ 4 then .fail else
    let r := rdU8 s; .next (r.2.drop 3) { m with requestedTransport := some r.1 } miAt

/-- DATA, NONCE: `resize(a_length)` then read; no length check at all -/
def stepBlob (old : Bytes) (set : Msg → Bytes → Msg) (aLen : Nat) (s : Bytes) (m : Msg) (miAt : Option Nat) : Step :=
  let r := rdResize old aLen s; .next r.2 (set m r.1) miAt

/-- RESERVATION-TOKEN, ICE-CONTROLLING, ICE-CONTROLLED: exactly 8 bytes, `resize` then read -/
def stepFixed8 (old : Bytes) (set : Msg → Bytes → Msg) (aLen : Nat) (s : Bytes) (m : Msg) (miAt : Option Nat) : Step :=
  if aLen ≠ 8 then .fail else
    let r := rdResize old aLen s; .next r.2 (set m r.1) miAt

/-- REALM, SOFTWARE, USERNAME: zero-initialised array, read, `QString::fromUtf8`; no length check -/
def stepStr (set : Msg → Bytes → Msg) (aLen : Nat) (s : Bytes) (m : Msg) (miAt : Option Nat) : Step :=
  let r := rdRaw aLen s; .next r.2 (set m (qtStr r.1)) miAt

/-- the seven address attributes -/
def stepAddr (xorId : Option Bytes) (set : Msg → Addr → Msg) (aLen : Nat) (s : Bytes) (m : Msg) (miAt : Option Nat) : Step :=
  match decAddr aLen s xorId with
  | none => .fail
  | some r => .next r.2 (set m r.1) miAt

/-- MESSAGE-INTEGRITY: 20 bytes, compared with the HMAC of the prefix (length field adjusted) unless the key is empty -/
def stepMI (H : Bytes → Bytes) (buf key : Bytes) (done aLen : Nat) (s : Bytes) (m : Msg) : Step :=
  if aLen ≠ 20 then .fail else
    let r := rdRaw 20 s
    if key ≠ [] ∧ r.1 ≠ hmacCode H 64 key (setLen (buf.take (Stun.headerSize + done)) (done + Stun.miAdjust)) then .fail
    else .next r.2 m (some done)

/-- FINGERPRINT: 32 bits, compared with the CRC of the prefix (length field adjusted); parsing stops here -/
def stepFP (buf : Bytes) (done aLen : Nat) (s : Bytes) (m : Msg) : Step :=
  if aLen ≠ 4 then .fail else
    let r := rdU32 s
    if r.1 ≠ fingerprintOf (setLen (buf.take (Stun.headerSize + done)) (done + Stun.fpAdjust)) then .fail
    else .accept m done

/-- the if/else chain of the decode loop for one attribute of type `aType` and announced length `aLen`;
`s` is the stream after the attribute header, `buf` the whole packet, `done` the loop's counter -/
def attrStep (H : Bytes → Bytes) (buf key : Bytes) (done aType aLen : Nat) (s : Bytes) (m : Msg)
    (miAt : Option Nat) : Step :=
  if aType = Stun.priority then stepU32 (fun m v => { m with priority := some v }) aLen s m miAt
  else if aType = Stun.errorCode then stepError aLen s m miAt
  else if aType = Stun.useCandidate then stepFlag aLen s m miAt
  else if aType = Stun.channelNumber then stepChannel aLen s m miAt
  else if aType = Stun.dataAttr then stepBlob (m.data.getD []) (fun m v => { m with data := some v }) aLen s m miAt
  else if aType = Stun.lifetime then stepU32 (fun m v => { m with lifetime := some v }) aLen s m miAt
  else if aType = Stun.nonce then stepBlob (m.nonce.getD []) (fun m v => { m with nonce := some v }) aLen s m miAt
  else if aType = Stun.realm then stepStr (fun m v => { m with realm := some v }) aLen s m miAt
  else if aType = Stun.requestedTransport then stepTransport aLen s m miAt
  else if aType = Stun.reservationToken then
    stepFixed8 (m.reservationToken.getD []) (fun m v => { m with reservationToken := some v }) aLen s m miAt
  else if aType = Stun.software then stepStr (fun m v => { m with software := some v }) aLen s m miAt
  else if aType = Stun.username then stepStr (fun m v => { m with username := some v }) aLen s m miAt
  else if aType = Stun.mappedAddress then stepAddr none (fun m a => { m with mapped := a }) aLen s m miAt
  else if aType = Stun.changeRequest then stepU32 (fun m v => { m with changeRequest := some v }) aLen s m miAt
  else if aType = Stun.sourceAddress then stepAddr none (fun m a => { m with source := a }) aLen s m miAt
  else if aType = Stun.changedAddress then stepAddr none (fun m a => { m with changed := a }) aLen s m miAt
  else if aType = Stun.otherAddress then stepAddr none (fun m a => { m with other := a }) aLen s m miAt
  else if aType = Stun.xorMappedAddress then stepAddr (some m.id) (fun m a => { m with xorMapped := a }) aLen s m miAt
  else if aType = Stun.xorPeerAddress then stepAddr (some m.id) (fun m a => { m with xorPeer := a }) aLen s m miAt
  else if aType = Stun.xorRelayedAddress then stepAddr (some m.id) (fun m a => { m with xorRelayed := a }) aLen s m miAt
  else if aType = Stun.messageIntegrity then stepMI H buf key done aLen s m
  else if aType = Stun.fingerprint then stepFP buf done aLen s m
  else if aType = Stun.iceControlling then
    stepFixed8 m.iceControlling (fun m v => { m with iceControlling := v }) aLen s m miAt
  else if aType = Stun.iceControlled then
    stepFixed8 m.iceControlled (fun m v => { m with iceControlled := v }) aLen s m miAt
  else
    .next (s.drop aLen) m miAt

/-- a successful decode together with what the decoder verified on the way: `miAt = some d` when it met a
MESSAGE-INTEGRITY attribute at body offset `d` (this is the C++ flag `after_integrity`), `fpAt = some d` when it
returned at a FINGERPRINT attribute at body offset `d` -/
structure Decoded where
  msg : Msg
  miAt : Option Nat
  fpAt : Option Nat
  deriving Repr

/-- the `while (done < length)` loop -/
def loop (H : Bytes → Bytes) (buf key : Bytes) (len : Nat) (done : Nat) (s : Bytes) (m : Msg)
    (miAt : Option Nat) : Option Decoded :=
  if _h : done < len then
    let r0 := rdU16 s
    let r1 := rdU16 r0.2
    let aType := r0.1
    let aLen := r1.1
    let pad := pad4 aLen
    -- the attribute value must lie within the message body (`return false` otherwise)
    if done + 4 + aLen > len then none
    else if miAt.isSome ∧ aType ≠ Stun.fingerprint then
      loop H buf key len (done + (4 + aLen + pad)) (r1.2.drop (aLen + pad)) m miAt
    else
      match attrStep H buf key done aType aLen r1.2 m miAt with
      | .fail => none
      | .accept m' d => some ⟨m', miAt, some d⟩
      | .next s' m' mi' => loop H buf key len (done + (4 + aLen + pad)) (s'.drop pad) m' mi'
  else some ⟨m, miAt, none⟩
termination_by len - done
decreasing_by all_goals omega

/-- `QXmppStunMessage::decode(buffer, key)` on a message object `m0`, with the verification trace -/
def decodeFrom (H : Bytes → Bytes) (m0 : Msg) (buf key : Bytes) : Option Decoded :=
  if buf.length < Stun.headerSize then none
  else
    let r0 := rdU16 buf
    let r1 := rdU16 r0.2
    let r2 := rdU32 r1.2
    let r3 := rdResize m0.id m0.id.length r2.2
    if r1.1 ≠ buf.length - Stun.headerSize then none
    else loop H buf key r1.1 0 r3.2 { m0 with type := r0.1, cookie := r2.1, id := r3.1 } none

/-- decode into a default-constructed message, with the trace -/
def decodeX (H : Bytes → Bytes) (buf key : Bytes) : Option Decoded := decodeFrom H Msg.fresh buf key

/-- the header check and the attribute loop alone: `decode` as it was before /repo commit 80bab8b, which accepted a packet
without MESSAGE-INTEGRITY under a key whatever its class -/
def decodeLoose (H : Bytes → Bytes) (buf key : Bytes) : Option Msg := (decodeX H buf key).map (·.msg)

/-- `messageClass()` is Error or Indication: the classes that may legitimately come without MESSAGE-INTEGRITY although
credentials are in use (RFC 5389 §10.1.2/§10.2.2 error responses; RFC 5766 Data indications) -/
def exemptClass (ty : Nat) : Bool :=
  ty &&& Stun.classMask = 0x110 || ty &&& Stun.classMask = 0x010

/-- `QXmppStunMessage().decode(buffer, key)`: `none` = `false`, otherwise the resulting message.  After the loop (or the
early return at FINGERPRINT): when a key is given and no MESSAGE-INTEGRITY was met, the packet is rejected unless its
class is Error or Indication (/repo commit 80bab8b).  `(rdU16 buf).1` is the type field of the packet (= `m_type`). -/
def decode (H : Bytes → Bytes) (buf key : Bytes) : Option Msg :=
  match decodeX H buf key with
  | some d => if key = [] ∨ d.miAt.isSome ∨ exemptClass (rdU16 buf).1 then some d.msg else none
  | none => none

/-! ## What the integrity theorems talk about (positions inside a packet) -/

/-- the 20 bytes the decoder reads as MESSAGE-INTEGRITY value when the attribute header sits at body offset `off`
(zero-filled when the packet ends early) -/
def miValueAt (buf : Bytes) (off : Nat) : Bytes := (rdRaw 20 (buf.drop (Stun.headerSize + off + 4))).1

/-- the bytes protected by a MESSAGE-INTEGRITY attribute at body offset `off`: everything before it, with the header's
length field set as if the packet ended right after that attribute -/
def miInputAt (buf : Bytes) (off : Nat) : Bytes := setLen (buf.take (Stun.headerSize + off)) (off + Stun.miAdjust)

/-- the 32-bit FINGERPRINT value read at body offset `off` -/
def fpValueAt (buf : Bytes) (off : Nat) : Nat := (rdU32 (buf.drop (Stun.headerSize + off + 4))).1

/-- the bytes covered by a FINGERPRINT attribute at body offset `off` -/
def fpInputAt (buf : Bytes) (off : Nat) : Bytes := setLen (buf.take (Stun.headerSize + off)) (off + Stun.fpAdjust)

/-- **Authenticated decode**: `decode` succeeded *and* the decoder met (hence verified) a MESSAGE-INTEGRITY attribute.
`QXmppStunMessage::decode` does not tell its caller whether that happened (for Error and Indication packets it accepts a
packet without the attribute under a key); this is the acceptance condition of a caller that checks for the attribute with
the same walk, as `QXmppIceComponent::handleDatagram` does since /repo commit f41aa68 (`hasMessageIntegrity(buffer)` ∧ `decode`). -/
def decodeAuth (H : Bytes → Bytes) (buf key : Bytes) : Option Msg :=
  match decodeX H buf key with
  | some d => if d.miAt.isSome then some d.msg else none
  | none => none

/-- **The cryptographic assumption, by name** (one-query unforgeability of HMAC, specialised to what a decoder can be
shown): the sender authenticated the bytes `x0` under `key`; packet `b'` is *not a forgery* if none of its 20-byte
windows is a valid MAC under `key` of one of its own prefixes (length field adjusted) other than `x0`.  Finding a `b'`
that violates this is producing a valid (text, MAC) pair for a text the key holder never authenticated. -/
def NotAForgery (H : Bytes → Bytes) (key x0 b' : Bytes) : Prop :=
  ∀ off, miInputAt b' off ≠ x0 → hmacCode H 64 key (miInputAt b' off) ≠ miValueAt b' off

/-! ## Does every attribute lie inside the packet? -/

/-- plain TLV walk over the body (`fuel` ≥ number of attributes), stopping at the first FINGERPRINT (the decoder
returns there): every attribute header and value lies inside the bytes that are there (the padding of the last
attribute may be cut off).  Before /repo commit df53ac0 the decoder accepted packets for which this is false and
then exposed uninitialised memory; now every accepted packet satisfies it (`decode_accepted_fits`). -/
def tlvFitsGo : Nat → Bytes → Bool
  | 0, s => s.isEmpty
  | fuel + 1, s =>
    match s with
    | [] => true
    | _ =>
      if s.length < 4 then false
      else
        let r0 := rdU16 s
        let r1 := rdU16 r0.2
        if r1.2.length < r1.1 then false
        else if r0.1 = Stun.fingerprint then true
        else tlvFitsGo fuel (r1.2.drop (r1.1 + pad4 r1.1))

def tlvFits (buf : Bytes) : Bool := tlvFitsGo buf.length (buf.drop Stun.headerSize)

/-! ## Which messages are meant to round-trip -/

/-- an address is either absent (null host, port 0) or complete -/
def Addr.WF (a : Addr) : Prop :=
  match a.host with
  | .null => a.port = 0
  | .v4 ip => a.port ≠ 0 ∧ a.port < 65536 ∧ ip < 4294967296
  | .v6 bs => a.port ≠ 0 ∧ a.port < 65536 ∧ bs.length = 16

instance (a : Addr) : Decidable a.WF := by
  unfold Addr.WF; cases a.host <;> exact inferInstance

/-- a string that `QString::fromUtf8` gives back unchanged (well-formed UTF-8 without a leading BOM) -/
def StrOK (bs : Bytes) : Prop := qtStr bs = bs

instance (bs : Bytes) : Decidable (StrOK bs) := by unfold StrOK; exact inferInstance

def optAll {α : Type} (o : Option α) (p : α → Prop) : Prop :=
  match o with
  | none => True
  | some v => p v

instance {α : Type} (o : Option α) (p : α → Prop) [∀ v, Decidable (p v)] : Decidable (optAll o p) := by
  unfold optAll; cases o <;> exact inferInstance

/-- The messages the round-trip theorem speaks about.  For each conjunct: can the real API violate it, and what then?

* `type`, `cookie`, `changeRequest`, `priority`, `channelNumber`, `lifetime`, `requestedTransport`: **cannot be violated** —
  they only say that the model's `Nat` is in the range of the C++ type (`quint16`, `quint32`, `quint8`).
* `reservationToken` (8 bytes): **cannot be violated** through `setReservationToken` (model: `setReservationToken`, it
  truncates or zero-pads to 8; before /repo commit e93be92 the padding was uninitialised memory).
* `size` (in `WFMsg`: attributes below 65536 - 32 bytes): **can be violated** with the setters (`setData` takes any byte
  array) — `encode` then refuses (empty result; before /repo commit 910f587 the lengths wrapped and the packet did not
  decode, `C14:oversized-not-decodable`).  The round trip is proved for *every message `encode` accepts*
  (`stun_decode_encode_accepted`), `size` is only the convenient sufficient condition.  Nothing smaller is excluded: strings longer than RFC 5389 allows (USERNAME
  513, REALM/NONCE/SOFTWARE 763 bytes) are inside `WFMsg` and round-trip.
* `id` (12 bytes): `setId` has `Q_ASSERT(id.size() == STUN_ID_SIZE)`; violating it is a contract violation the library
  documents (in a release build the header then is not 20 bytes long and nothing decodes).
* the remaining conjuncts restrict **public data members**, which have no setter that could check anything, to the values
  the attribute can have at all — what the wire format can carry:
  `mapped … xorRelayed`: an address is a host *and* a port; "host without port" and "port without host" are both the
  library's representation of *absent* (`addAddress`, `toString`) and are encoded as absent;
  `errLo`/`errHi`/`errNone`: an error code is class·100 + number with one byte each (RFC 5389 §15.6: 300..699); 0 means
  absent, and then there is no phrase either;
  `iceControlling`/`iceControlled`: a 64-bit tie-breaker, and an agent has one role (`encode` writes one).
  Values outside are still covered by the correspondence (the model agrees with `encode`/`decode` on them: truncation of
  the error code to two bytes, ICE attributes written unpadded and rejected by `decode`), but no round trip is claimed or
  expected for them.
Nothing is demanded of the strings here: what happens to them is described by `view`. -/
structure WFFields (m : Msg) : Prop where
  type : m.type < 65536
  cookie : m.cookie < 4294967296
  id : m.id.length = 12
  mapped : m.mapped.WF
  source : m.source.WF
  changed : m.changed.WF
  other : m.other.WF
  xorMapped : m.xorMapped.WF
  xorPeer : m.xorPeer.WF
  xorRelayed : m.xorRelayed.WF
  changeRequest : optAll m.changeRequest (· < 4294967296)
  errLo : 0 ≤ m.errorCode
  errHi : m.errorCode < 25600
  errNone : m.errorCode = 0 → m.errorPhrase = []
  priority : optAll m.priority (· < 4294967296)
  channelNumber : optAll m.channelNumber (· < 65536)
  lifetime : optAll m.lifetime (· < 4294967296)
  requestedTransport : optAll m.requestedTransport (· < 256)
  reservationToken : optAll m.reservationToken (·.length = 8)
  iceControlling : m.iceControlling = [] ∨ m.iceControlling.length = 8
  iceControlled : m.iceControlled = [] ∨ (m.iceControlled.length = 8 ∧ m.iceControlling = [])

/-- `WFFields` plus: the attributes stay 32 bytes below the 16-bit limit, so that `encode` accepts the message with any
key and with fingerprint -/
structure WFMsg (m : Msg) : Prop extends WFFields m where
  size : (body m).length + 32 < 65536

/-- What a message looks like after `decode (encode m)`: string attributes went through
`QString::fromUtf8` (leading BOM dropped, malformed sequences replaced); everything else is unchanged. -/
def view (m : Msg) : Msg :=
  { m with errorPhrase := qtStr m.errorPhrase, realm := m.realm.map qtStr,
           software := m.software.map qtStr, username := m.username.map qtStr }

/-- every string of the message comes back unchanged (well-formed UTF-8, no leading BOM) -/
def StrsOK (m : Msg) : Prop :=
  StrOK m.errorPhrase ∧ optAll m.realm StrOK ∧ optAll m.software StrOK ∧ optAll m.username StrOK

instance (m : Msg) : Decidable (StrsOK m) := by unfold StrsOK; exact inferInstance

/-! ## Bit flips and a sample message (used by the defect theorems and the non-vacuity examples) -/

/-- flip bit `i % 8` of byte `i / 8` -/
def flipBit (b : Bytes) (i : Nat) : Bytes := b.set (i / 8) (b.getD (i / 8) 0 ^^^ (1 <<< (UInt8.ofNat (i % 8))))

/-- a Binding request as ICE sends it, plus TURN and error attributes, IPv4 and IPv6 addresses -/
def exampleMsg : Msg :=
  { type := 0x0001, id := [1, 2, 3, 4, 5, 6, 7, 8, 9, 10, 11, 12],
    xorMapped := { host := .v4 0xC0A80001, port := 3478 },
    xorPeer := { host := .v6 [0x20, 0x01, 0x0d, 0xb8, 0, 0, 0, 0, 0, 0, 0, 0, 0, 0, 0, 1], port := 49152 },
    errorCode := 401, errorPhrase := [85, 110, 97, 117, 116, 104, 111, 114, 105, 122, 101, 100]  /- "Unauthorized" -/,
    priority := some 1845501695, useCandidate := true, lifetime := some 600,
    data := some [0xde, 0xad, 0xbe], nonce := some [0, 1, 2, 3, 4],
    realm := some [101, 120, 97, 109, 112, 108, 101, 46, 111, 114, 103]  /- "example.org" -/, username := some [97, 108, 105, 99, 101, 58, 98, 195, 182, 98]  /- "alice:böb" -/,
    iceControlling := [8, 7, 6, 5, 4, 3, 2, 1] }

/-- a Binding indication with an empty USERNAME -/
def bitflipMsg : Msg := { type := 0x0011, username := some [] }

/-- a message with nothing but a DATA attribute (`setData d`) -/
def dataOnlyMsg (d : Bytes) : Msg := { data := some d }

end Qx.C14
