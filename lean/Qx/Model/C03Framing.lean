/-
C03 — model of `XmppSocket::processData` (src/base/Stream.cpp) and of the byte → text step in front of it
(`readyRead` lambda → `decodeIncoming`), as of repo commits 49994ec (stateful decoder) and 381fe43 (header regex).

Text is `List Char` (code points; `QString` is UTF-16 but every operation used here — append, `trimmed`,
the two regular expressions in UTF mode, `QDomDocument::setContent` — is code-point transparent).

The DOM parser is a PARAMETER `P : Parser E` (`E` = whatever represents an element): given the wrapped text
it returns `none` (setContent failed) or the document element and its child elements.  The model is a
function of `P`; the theorems assume only the hypothesis structure `PrefixOracle` about it (end of file).

No proofs here, no Mathlib.
-/
import Qx.Base.Utf8

namespace Qx.C03

/-- what the socket wrapper tells its owner.  `keepAlive` is `stanzaReceived(QDomElement())`, the
whitespace-ping notification. -/
inductive Ev (E : Type)
  | streamOpen (root : E)      -- streamReceived(doc.documentElement())
  | stanza (e : E)             -- stanzaReceived(child)
  | streamClose                -- streamClosed()
  | keepAlive                  -- stanzaReceived(null element)
  deriving DecidableEq, Repr

/-- a successfully parsed document: the document element and its child ELEMENTS in order -/
structure Doc (E : Type) where
  root : E
  children : List E
  deriving DecidableEq, Repr

/-- `QDomDocument::setContent(text, namespaceProcessing)` + `documentElement()` + child element iteration -/
abbrev Parser (E : Type) := List Char → Option (Doc E)

/-- `m_dataBuffer`, `m_streamOpenElement` -/
structure St where
  buf : List Char := []
  openTag : List Char := []
  deriving DecidableEq, Repr

def init : St := {}

/-- `QChar::isSpace` (used by `QString::trimmed`): TAB..CR, space, NEL, NBSP and the Unicode separators
(Zs, Zl, Zp of Unicode 13) -/
def isSpace (c : Char) : Bool :=
  let n := c.toNat
  n == 0x20 || (0x09 ≤ n && n ≤ 0x0D) || n == 0x85 || n == 0xA0 || n == 0x1680 ||
  (0x2000 ≤ n && n ≤ 0x200A) || n == 0x2028 || n == 0x2029 || n == 0x202F || n == 0x205F || n == 0x3000

/-- `\s` of PCRE2 without the Unicode-properties option: space, TAB, LF, VT, FF, CR -/
def reSpace (c : Char) : Bool :=
  let n := c.toNat
  n == 0x20 || (0x09 ≤ n && n ≤ 0x0D)

def closeTag : List Char := "</stream:stream>".toList
def openLit : List Char := "<stream:stream".toList
def declLit : List Char := "<?xml".toList

/-- the attribute part `(?:[^>'"]|'[^']*'|"[^"]*")*>` of the open-tag pattern: plain characters, quoted strings
(which may contain `>`), then the closing `>`.  Deterministic: a quote must be closed by the same quote, and no
alternative can consume a `>` outside quotes.  `q` = the quote we are inside of, `n` = characters consumed so far;
result = total number of characters including the final `>`. -/
def scanOpenRest : Option Char → List Char → Nat → Option Nat
  | _, [], _ => none
  | none, c :: r, n =>
    if c = '>' then some (n + 1)
    else if c = '\'' || c = '"' then scanOpenRest (some c) r (n + 1)
    else scanOpenRest none r (n + 1)
  | some q, c :: r, n =>
    if c = q then scanOpenRest none r (n + 1) else scanOpenRest (some q) r (n + 1)

/-- length of the match of `\s*<stream:stream(?:[^>'"]|'[^']*'|"[^"]*")*>` anchored at the start of `l` (greedy `\s*`
cannot give anything back: the next pattern character `<` is not a space) -/
def matchOpenTag (l : List Char) : Option Nat :=
  let ws := l.takeWhile reSpace
  let r := l.dropWhile reSpace
  if openLit.isPrefixOf r then
    match scanOpenRest none (r.drop openLit.length) 0 with
    | some k => some (ws.length + openLit.length + k)
    | none => none
  else none

/-- the XML-declaration group `<\?xml[^>]*\?>` (text after `<?xml` in `l`): `[^>]*` runs up to the first `>`, which must
be preceded by `?` (the greedy run gives that one character back); line breaks are allowed.  Result = length of the
group's match. -/
def matchDecl (l : List Char) : Option Nat :=
  let pre := l.takeWhile (fun c => c != '>')
  if pre.length < l.length && pre.getLast? == some '?' then some (declLit.length + pre.length + 1) else none

/-- `streamStartRegex = ^(<\?xml[^>]*\?>)?\s*<stream:stream(?:[^>'"]|'[^']*'|"[^"]*")*>` (repo commit 381fe43):
the matched text (`captured()`), if any.  If the buffer starts with `<?xml` the optional group must match (the
alternative, `\s*<stream:stream` at offset 0, cannot). -/
def matchOpen (buf : List Char) : Option (List Char) :=
  let n? :=
    if declLit.isPrefixOf buf then
      match matchDecl (buf.drop declLit.length) with
      | some d =>
        match matchOpenTag (buf.drop d) with
        | some n => some (d + n)
        | none => none
      | none => none
    else matchOpenTag buf
  match n? with
  | some n => some (buf.take n)
  | none => none

/-- `streamEndRegex = </stream:stream>$` (the code BEFORE 109544b; kept for reference): `$` matches at the very end or
before ONE final LF -/
def endsWithCloseStrict (buf : List Char) : Bool :=
  closeTag.isSuffixOf buf || (closeTag ++ ['\n']).isSuffixOf buf

/-- `streamEndRegex = </stream:stream>\s*$` (repo commit 109544b): any white space (`\s`) may follow the closing tag -/
def endsWithCloseTolerant (buf : List Char) : Bool :=
  closeTag.isSuffixOf (buf.reverse.dropWhile reSpace).reverse

/-- the close detection of the code as it is (repo commit 109544b; was `endsWithCloseStrict` before) -/
def endsWithClose (buf : List Char) : Bool := endsWithCloseTolerant buf

/-- the text handed to the DOM parser: cached open tag in front unless the buffer has its own, synthetic
close tag behind unless the buffer has its own -/
def wrapOf (tag buf : List Char) : List Char :=
  (if (matchOpen buf).isSome then buf else tag ++ buf) ++ (if endsWithClose buf then [] else closeTag)

variable {E : Type}

/-- events of one successful parse, in emission order -/
def docEvents (hasOpen hasClose : Bool) (d : Doc E) : List (Ev E) :=
  (if hasOpen then [Ev.streamOpen d.root] else []) ++ d.children.map Ev.stanza ++
  (if hasClose then [Ev.streamClose] else [])

/-- lines 257-329 for a buffer that is not whitespace-only: `none` = parse failed (keep buffering),
`some (tag', events)` = parsed, `tag'` is the open tag cached afterwards -/
def attempt (P : Parser E) (tag buf : List Char) : Option (List Char × List (Ev E)) :=
  match P (wrapOf tag buf) with
  | none => none
  | some d =>
    some (match matchOpen buf with
          | some t => t
          | none => tag,
          docEvents (matchOpen buf).isSome (endsWithClose buf) d)

/-- `processData` after the append: `buf` is the new value of `m_dataBuffer` -/
def feedBuf (P : Parser E) (tag buf : List Char) : St × List (Ev E) :=
  if buf.all isSpace then ({ buf := [], openTag := tag }, [Ev.keepAlive])
  else
    match attempt P tag buf with
    | none => ({ buf := buf, openTag := tag }, [])
    | some r => ({ buf := [], openTag := r.1 }, r.2)

/-- `XmppSocket::processData(data)` -/
def feedText (P : Parser E) (s : St) (data : List Char) : St × List (Ev E) :=
  feedBuf P s.openTag (s.buf ++ data)

/-- generic "feed the chunks one after the other, collect the events" -/
def runWith {σ α : Type} (feed : σ → α → σ × List (Ev E)) (s : σ) : List α → σ × List (Ev E)
  | [] => (s, [])
  | c :: cs =>
    let r1 := feed s c
    let r2 := runWith feed r1.1 cs
    (r2.1, r1.2 ++ r2.2)

/-- text-level run -/
def run (P : Parser E) (s : St) (chunks : List (List Char)) : St × List (Ev E) :=
  runWith (feedText P) s chunks

def Ev.isKeepAlive : Ev E → Bool
  | .keepAlive => true
  | _ => false

/-- the stream-open / stanza / stream-close events (keep-alive notifications removed) -/
def events (evs : List (Ev E)) : List (Ev E) := evs.filter (fun e => !e.isKeepAlive)

/-! ### byte level -/

/-- socket-side state: the text-level state plus the UTF-8 decoder (`m_decoder`): held-back bytes and whether the
first character of the stream has been seen -/
structure BSt where
  st : St := {}
  dec : Utf8.DecSt := {}
  hdrDone : Bool := false
  deriving DecidableEq, Repr

def binit : BSt := {}

/-- code points of a decoder output as characters (the decoders only emit scalar values) -/
def toChars (cps : List Nat) : List Char := cps.map Char.ofNat

/-- BEFORE repo commit 49994ec: `processData(QString::fromUtf8(m_socket->readAll()))` — every read decoded on its
own.  Kept for reference (`utf8_perchunk_…` theorems, driver argument `perchunk`). -/
def feedBytesPerChunk (P : Parser E) (s : BSt) (chunk : Bytes) : BSt × List (Ev E) :=
  let r := feedText P s.st (toChars (Utf8.qtFromUtf8 chunk))
  ({ s with st := r.1 }, r.2)

/-- a byte order mark is not content: the decoder drops U+FEFF if (and only if) it is the very first character of
the stream.  `done` = a character has already been decoded. -/
def bomStep (done : Bool) (out : List Nat) : Bool × List Nat :=
  if done then (true, out)
  else
    match out with
    | [] => (false, [])
    | c :: r => (true, if c = 0xFEFF then r else c :: r)

/-- the whole-stream view of `bomStep` -/
def dropBom1 : List Nat → List Nat
  | [] => []
  | c :: r => if c = 0xFEFF then r else c :: r

/-- THE CODE (since 49994ec): `processData(decodeIncoming(m_socket->readAll()))` with a decoder object that lives as
long as the stream: an incomplete trailing sequence is kept for the next read, a BOM is dropped only at the very
start of the stream.  `processData` is called even when the read produced no character.
Modelled with the ideal decoder `Utf8.Dec`; Qt 5's `QTextDecoder` agrees with it on well-formed UTF-8 and differs on
MALFORMED input (it is not chunk independent there, see `Qx/Base/Utf8.lean`) — outside the property, which is about
valid streams. -/
def feedBytesStateful (P : Parser E) (s : BSt) (chunk : Bytes) : BSt × List (Ev E) :=
  let d := Utf8.Dec.feed s.dec chunk
  let b := bomStep s.hdrDone d.2
  let r := feedText P s.st (toChars b.2)
  ({ st := r.1, dec := d.1, hdrDone := b.1 }, r.2)

/-- The byte-level entry point of the code as it is (one-line switch; was `feedBytesPerChunk P` before 49994ec). -/
def feedBytesCode (P : Parser E) : BSt → Bytes → BSt × List (Ev E) := feedBytesStateful P

def runBytes (feed : BSt → Bytes → BSt × List (Ev E)) (chunks : List Bytes) : List (Ev E) :=
  (runWith feed binit chunks).2

/-! ### several connections on one socket object -/

/-- what happens to one `XmppSocket` over its life time.  `QXmppOutgoingClient` keeps ONE `XmppSocket` and reconnects
it; incoming state (`m_dataBuffer`, `m_streamOpenElement`, `m_decoder`) must not survive from one connection to the next. -/
inductive Op
  | connect            -- the socket's connected() signal (plain TCP): `resetIncomingState(); emit started()`
  | peerLost           -- the connection is closed / lost by the peer or the network: no code of ours runs on the incoming state
  | localDisconnect    -- `XmppSocket::disconnectFromHost()`: sends the closing tag, closes; incoming state untouched
  | feed (chunk : Bytes)   -- one socket read

def stepOp (P : Parser E) (s : BSt) : Op → BSt × List (Ev E)
  | .connect => (binit, [])
  | .peerLost => (s, [])
  | .localDisconnect => (s, [])
  | .feed c => feedBytesCode P s c

def runOps (P : Parser E) (s : BSt) (ops : List Op) : BSt × List (Ev E) := runWith (stepOp P) s ops

/-! ### vocabulary of the theorems: a stream as a list of items -/

/-- one top-level piece of a stream: the stream header, a stanza, one whitespace character, or the closing tag -/
structure Item (E : Type) where
  /-- the characters of the piece -/
  text : List Char
  /-- a keep-alive whitespace character (then `text` is that one character) -/
  ws : Bool := false
  /-- `some t` for a stream header: `t` is the open tag the code caches when it has parsed this item -/
  tag : Option (List Char) := none
  /-- the stream-open / stanza / stream-close events this piece stands for -/
  evs : List (Ev E)

def textOf (l : List (Item E)) : List Char := l.flatMap (·.text)
def evsOf (l : List (Item E)) : List (Ev E) := l.flatMap (·.evs)

/-- the open tag cached after the items `l` have been parsed, starting from the cached tag `t0`: every header item
REPLACES it (as the code does: `m_streamOpenElement = streamOpenMatch.captured()` on every matched header — a stream
may be restarted on the same connection, e.g. after SASL) -/
def tagFrom (t0 : List Char) (l : List (Item E)) : List Char :=
  l.foldl (fun t it => match it.tag with
    | some t' => t'
    | none => t) t0

/-- … starting from a fresh connection (`[]` before any header) -/
abbrev tagAfter (l : List (Item E)) : List Char := tagFrom [] l

/-- The ONE assumption about the DOM parser (and about the stream text), as a hypothesis of the theorems.
`t0` = the open tag cached when the first item of `items` arrives (`[]` on a fresh connection; the previous header
for the items that follow a stream restart).  For the text `textOf items`, whenever the code looks at its buffer the
buffer is `textOf B ++ p` for a split `items = A ++ B ++ rest` (`A` already parsed, `B` complete items received since)
and `p` the received part of the next item:

* `p = []` (the read ended on an item boundary, `B` not only whitespace): the parse of the wrapped buffer
  succeeds and yields exactly the events of `B`, and the open tag cached afterwards is that of `A ++ B`;
* `p` a non-empty proper part of the next item: the parser rejects the wrapped buffer. -/
structure PrefixOracleFrom (t0 : List Char) (P : Parser E) (items : List (Item E)) : Prop where
  ws_shape : ∀ it ∈ items, it.ws = true →
    (∃ c, it.text = [c] ∧ isSpace c = true) ∧ it.evs = [] ∧ it.tag = none
  nonws_shape : ∀ it ∈ items, it.ws = false → ∃ c r, it.text = c :: r ∧ isSpace c = false
  at_boundary : ∀ A B C, items = A ++ B ++ C → (∃ it ∈ B, it.ws = false) →
    attempt P (tagFrom t0 A) (textOf B) = some (tagFrom t0 (A ++ B), evsOf B)
  inside_item : ∀ A B it C p q, items = A ++ B ++ it :: C → it.text = p ++ q → p ≠ [] → q ≠ [] →
    P (wrapOf (tagFrom t0 A) (textOf B ++ p)) = none

/-- the hypothesis for a connection that carries SEVERAL streams one after the other (stream restarts): session by
session, each with the open tag cached at its start (that of the previous session's header) -/
def SessionsOracle (P : Parser E) : List Char → List (List (Item E)) → Prop
  | _, [] => True
  | t0, sess :: rest => PrefixOracleFrom t0 P sess ∧ SessionsOracle P (tagFrom t0 sess) rest

/-- the hypothesis for a whole connection (fresh state, nothing cached) -/
abbrev PrefixOracle (P : Parser E) (items : List (Item E)) : Prop := PrefixOracleFrom [] P items

end Qx.C03
