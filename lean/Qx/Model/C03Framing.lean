/-
C03 — model of `XmppSocket::processData` (src/base/Stream.cpp:228-331) and of the byte → text step in
front of it (`readyRead` lambda, Stream.cpp:178-180).

Text is `List Char` (code points; `QString` is UTF-16 but every operation used here — append, `trimmed`,
the two regular expressions in UTF mode, `QDomDocument::setContent` — is code-point transparent).

The DOM parser is a PARAMETER `P : Parser E` (`E` = whatever represents an element): given the wrapped text
it returns `none` (setContent failed) or the document element and its child elements.  The model is a
function of `P`; the theorems assume only the hypothesis structure `PrefixOracle` about it (end of file).

No proofs here, no Mathlib.
-/
import Qx.Base.Utf8

namespace Qx.C03

/-- what the socket wrapper tells its owner.  `keepAlive` is `stanzaReceived(QDomElement())`, the
whitespace-ping notification. -/
inductive Ev (E : Type)
  | streamOpen (root : E)      -- streamReceived(doc.documentElement())
  | stanza (e : E)             -- stanzaReceived(child)
  | streamClose                -- streamClosed()
  | keepAlive                  -- stanzaReceived(null element)
  deriving DecidableEq, Repr

/-- a successfully parsed document: the document element and its child ELEMENTS in order -/
structure Doc (E : Type) where
  root : E
  children : List E
  deriving DecidableEq, Repr

/-- `QDomDocument::setContent(text, namespaceProcessing)` + `documentElement()` + child element iteration -/
abbrev Parser (E : Type) := List Char → Option (Doc E)

/-- `m_dataBuffer`, `m_streamOpenElement` -/
structure St where
  buf : List Char := []
  openTag : List Char := []
  deriving DecidableEq, Repr

def init : St := {}

/-- `QChar::isSpace` (used by `QString::trimmed`): TAB..CR, space, NEL, NBSP and the Unicode separators
(Zs, Zl, Zp of Unicode 13) -/
def isSpace (c : Char) : Bool :=
  let n := c.toNat
  n == 0x20 || (0x09 ≤ n && n ≤ 0x0D) || n == 0x85 || n == 0xA0 || n == 0x1680 ||
  (0x2000 ≤ n && n ≤ 0x200A) || n == 0x2028 || n == 0x2029 || n == 0x202F || n == 0x205F || n == 0x3000

/-- `\s` of PCRE2 without the Unicode-properties option: space, TAB, LF, VT, FF, CR -/
def reSpace (c : Char) : Bool :=
  let n := c.toNat
  n == 0x20 || (0x09 ≤ n && n ≤ 0x0D)

def closeTag : List Char := "</stream:stream>".toList
def openLit : List Char := "<stream:stream".toList
def declLit : List Char := "<?xml".toList

/-- length of the match of `\s*<stream:stream[^>]*>` anchored at the start of `l` (greedy `\s*` cannot give
anything back: the next pattern character `<` is not a space; `[^>]*>` stops at the first `>`) -/
def matchOpenTag (l : List Char) : Option Nat :=
  let ws := l.takeWhile reSpace
  let r := l.dropWhile reSpace
  if openLit.isPrefixOf r then
    let r2 := r.drop openLit.length
    let attrs := r2.takeWhile (fun c => c != '>')
    if attrs.length < r2.length then some (ws.length + openLit.length + attrs.length + 1) else none
  else none

/-- the greedy `.*\?>` of the XML-declaration group followed by the rest of the pattern: among the `?>` on the
first line (`.` does not match LF) the LAST one after which `\s*<stream:stream[^>]*>` matches wins (that is what
backtracking from the longest `.*` finds first).  `off` = number of characters before `l`, `best` = best so far. -/
def scanDecl : List Char → Nat → Option Nat → Option Nat
  | [], _, best => best
  | c :: r, off, best =>
    if c = '\n' then best
    else
      let best' :=
        if c = '?' then
          match r with
          | '>' :: r2 =>
            match matchOpenTag r2 with
            | some n => some (off + 2 + n)
            | none => best
          | _ => best
        else best
      scanDecl r (off + 1) best'

/-- `streamStartRegex = ^(<\?xml.*\?>)?\s*<stream:stream[^>]*>` : the matched text (`captured()`), if any.
If the buffer starts with `<?xml` the optional group must match (the alternative, `\s*<stream:stream` at
offset 0, cannot). -/
def matchOpen (buf : List Char) : Option (List Char) :=
  let n? := if declLit.isPrefixOf buf then scanDecl (buf.drop declLit.length) declLit.length none
            else matchOpenTag buf
  match n? with
  | some n => some (buf.take n)
  | none => none

/-- `streamEndRegex = </stream:stream>$` : `$` matches at the very end or before a final LF -/
def endsWithClose (buf : List Char) : Bool :=
  closeTag.isSuffixOf buf || (closeTag ++ ['\n']).isSuffixOf buf

/-- the text handed to the DOM parser: cached open tag in front unless the buffer has its own, synthetic
close tag behind unless the buffer has its own -/
def wrapOf (tag buf : List Char) : List Char :=
  (if (matchOpen buf).isSome then buf else tag ++ buf) ++ (if endsWithClose buf then [] else closeTag)

variable {E : Type}

/-- events of one successful parse, in emission order -/
def docEvents (hasOpen hasClose : Bool) (d : Doc E) : List (Ev E) :=
  (if hasOpen then [Ev.streamOpen d.root] else []) ++ d.children.map Ev.stanza ++
  (if hasClose then [Ev.streamClose] else [])

/-- lines 257-329 for a buffer that is not whitespace-only: `none` = parse failed (keep buffering),
`some (tag', events)` = parsed, `tag'` is the open tag cached afterwards -/
def attempt (P : Parser E) (tag buf : List Char) : Option (List Char × List (Ev E)) :=
  match P (wrapOf tag buf) with
  | none => none
  | some d =>
    some (match matchOpen buf with
          | some t => t
          | none => tag,
          docEvents (matchOpen buf).isSome (endsWithClose buf) d)

/-- `processData` after the append: `buf` is the new value of `m_dataBuffer` -/
def feedBuf (P : Parser E) (tag buf : List Char) : St × List (Ev E) :=
  if buf.all isSpace then ({ buf := [], openTag := tag }, [Ev.keepAlive])
  else
    match attempt P tag buf with
    | none => ({ buf := buf, openTag := tag }, [])
    | some r => ({ buf := [], openTag := r.1 }, r.2)

/-- `XmppSocket::processData(data)` -/
def feedText (P : Parser E) (s : St) (data : List Char) : St × List (Ev E) :=
  feedBuf P s.openTag (s.buf ++ data)

/-- generic "feed the chunks one after the other, collect the events" -/
def runWith {σ α : Type} (feed : σ → α → σ × List (Ev E)) (s : σ) : List α → σ × List (Ev E)
  | [] => (s, [])
  | c :: cs =>
    let r1 := feed s c
    let r2 := runWith feed r1.1 cs
    (r2.1, r1.2 ++ r2.2)

/-- text-level run -/
def run (P : Parser E) (s : St) (chunks : List (List Char)) : St × List (Ev E) :=
  runWith (feedText P) s chunks

def Ev.isKeepAlive : Ev E → Bool
  | .keepAlive => true
  | _ => false

/-- the stream-open / stanza / stream-close events (keep-alive notifications removed) -/
def events (evs : List (Ev E)) : List (Ev E) := evs.filter (fun e => !e.isKeepAlive)

/-! ### byte level -/

/-- socket-side state: the text-level state plus the UTF-8 decoder state (unused by today's code) -/
structure BSt where
  st : St := {}
  dec : Utf8.DecSt := {}
  deriving DecidableEq, Repr

def binit : BSt := {}

/-- code points of a decoder output as characters (the decoders only emit scalar values) -/
def toChars (cps : List Nat) : List Char := cps.map Char.ofNat

/-- TODAY'S CODE: `processData(QString::fromUtf8(m_socket->readAll()))` — every read decoded on its own -/
def feedBytesPerChunk (P : Parser E) (s : BSt) (chunk : Bytes) : BSt × List (Ev E) :=
  let r := feedText P s.st (toChars (Utf8.qtFromUtf8 chunk))
  ({ s with st := r.1 }, r.2)

/-- WITH THE FIX (fixes/C03-utf8-stateful-decode.diff): a decoder object that lives as long as the stream
keeps the trailing incomplete sequence for the next read -/
def feedBytesStateful (P : Parser E) (s : BSt) (chunk : Bytes) : BSt × List (Ev E) :=
  let d := Utf8.Dec.feed s.dec chunk
  let r := feedText P s.st (toChars d.2)
  ({ st := r.1, dec := d.1 }, r.2)

/-- The byte-level entry point of the code as it is.  ONE-LINE SWITCH: once the fix is applied replace
`feedBytesPerChunk` by `feedBytesStateful` here; the driver and `Props/C03.lean` refer to `feedBytesCode`. -/
def feedBytesCode (P : Parser E) : BSt → Bytes → BSt × List (Ev E) := feedBytesPerChunk P

def runBytes (feed : BSt → Bytes → BSt × List (Ev E)) (chunks : List Bytes) : List (Ev E) :=
  (runWith feed binit chunks).2

/-! ### vocabulary of the theorems: a stream as a list of items -/

/-- one top-level piece of a stream: the stream header, a stanza, one whitespace character, or the closing tag -/
structure Item (E : Type) where
  /-- the characters of the piece -/
  text : List Char
  /-- a keep-alive whitespace character (then `text` is that one character) -/
  ws : Bool := false
  /-- `some t` for a stream header: `t` is the open tag the code caches when it has parsed this item -/
  tag : Option (List Char) := none
  /-- the stream-open / stanza / stream-close events this piece stands for -/
  evs : List (Ev E)

def textOf (l : List (Item E)) : List Char := l.flatMap (·.text)
def evsOf (l : List (Item E)) : List (Ev E) := l.flatMap (·.evs)

/-- the open tag cached after the items `l` have been parsed (`[]` before any header) -/
def tagAfter (l : List (Item E)) : List Char :=
  l.foldl (fun t it => match it.tag with
    | some t' => t'
    | none => t) []

/-- The ONE assumption about the DOM parser (and about the stream text), as a hypothesis of the theorems.
For the stream `textOf items`, whenever the code looks at its buffer the buffer is
`textOf B ++ p` for a split `items = A ++ B ++ rest` (`A` already parsed, `B` complete items received since)
and `p` the received part of the next item:

* `p = []` (the read ended on an item boundary, `B` not only whitespace): the parse of the wrapped buffer
  succeeds and yields exactly the events of `B`, and the open tag cached afterwards is that of `A ++ B`;
* `p` a non-empty proper part of the next item: the parser rejects the wrapped buffer. -/
structure PrefixOracle (P : Parser E) (items : List (Item E)) : Prop where
  ws_shape : ∀ it ∈ items, it.ws = true →
    (∃ c, it.text = [c] ∧ isSpace c = true) ∧ it.evs = [] ∧ it.tag = none
  nonws_shape : ∀ it ∈ items, it.ws = false → ∃ c r, it.text = c :: r ∧ isSpace c = false
  at_boundary : ∀ A B C, items = A ++ B ++ C → (∃ it ∈ B, it.ws = false) →
    attempt P (tagAfter A) (textOf B) = some (tagAfter (A ++ B), evsOf B)
  inside_item : ∀ A B it C p q, items = A ++ B ++ it :: C → it.text = p ++ q → p ≠ [] → q ≠ [] →
    P (wrapOf (tagAfter A) (textOf B ++ p)) = none

end Qx.C03
