/-
C17 — model of the Stanza-Content-Encryption split of `QXmppMessage`
(src/base/QXmppMessage.cpp: `toXml(writer, sceMode)`, `serializeExtensions`, `parse(element, sceMode)`,
`parseExtensions`, `parseExtension`; src/base/QXmppStanza.cpp: `extensionsToXml`, `parse`).

The code is a list of mode-guarded emitters and a chain of mode-guarded recognisers.  The *table* of those
(one `Row` per element kind: how it is written, how it is recognised, under which guard each happens) is
regenerated from the C++ source by `translators/sce_table.py` into `Qx/Generated/SceTable.lean`.
This file is generic in the table: writers, parsers and the decidable well-formedness predicates.

What is modelled: which top-level child elements (tag, namespace, an opaque value token) appear in each
serialisation mode, and which field each element lands in (or the unknown extensions) when a part is parsed in a mode.
Application-supplied unknown extensions (`QXmppStanza::extensions()`, arbitrary elements) are a field too: the
`catchAll` row — written like any other row, and on parsing whatever no recogniser takes (`PSt.unknown`, replaced by
every `parse`/`parseExtensions` as `setExtensions(unknownExtensions)` does).
The classification of a row (routing / hint / id / fallback / payload) is NOT part of the table and not chosen here:
it is computed by the specification `C17Spec.lean` from the (tag, namespace) pairs the row puts on the wire.
What is not modelled: attribute/inner content of the elements (value level), elements a foreign sender could
produce that this writer never produces (duplicates of single-valued fields, unknown tags in the chat-state /
chat-marker namespaces which the C++ swallows), and the stanza `<error/>` (written by `toXml` outside every mode
guard — `Qx.Generated.SceTable.errorWritten`).
No proofs here; core Lean only.
-/
import Qx.Model.C17Spec
namespace Qx.C17

/-- `QXmpp::SceMode` -/
inductive Mode | all | pub | sens
  deriving DecidableEq, Repr

/-- Where an emitter / recogniser sits.
`pub` = inside `if (sceMode & QXmpp::ScePublic)`, `sens` = inside `if (sceMode & QXmpp::SceSensitive)`,
`both` = unguarded tail, `pubOnly` = `sceMode == QXmpp::ScePublic && …` inside the public block (not in `SceAll`),
`none` = this side does not exist in the source. -/
inductive Guard | pub | sens | both | pubOnly | none
  deriving DecidableEq, Repr

/-- `operator&(SceMode, SceMode)` of QXmppGlobal.h: `mode == SceAll || mode == guard` -/
def Guard.on : Guard → Mode → Bool
  | .pub, m => m != .sens
  | .sens, m => m != .pub
  | .both, _ => true
  | .pubOnly, m => m == .pub
  | .none, _ => false

/-- a top-level child element of `<message/>`: tag, namespace and an opaque token standing for its content -/
structure Elem where
  tag : String
  ns : String
  val : String
  deriving DecidableEq, Repr

/-- the condition of one `if (…) { …; return true; }` of the recogniser chain -/
inductive Recog
  | tagNs (tag ns : String)                 -- checkElement(element, u"tag", ns) / X::isX(element)
  | tag (tag : String)                      -- element.tagName() == u"tag"   (any namespace)
  | ns (ns : String)                        -- element.namespaceURI() == ns  (any tag)
  | nsTags (ns : String) (tags : List String)  -- namespaceURI() == ns && TABLE.contains(tagName())
  | never                                   -- no recogniser exists
  deriving DecidableEq, Repr

def Recog.accepts : Recog → String → String → Bool
  | .tagNs t n, tg, nsp => tg == t && nsp == n
  | .tag t, tg, _ => tg == t
  | .ns n, _, nsp => nsp == n
  | .nsTags n ts, tg, nsp => nsp == n && ts.contains tg
  | .never, _, _ => false

/-- one element kind of the message (generated) -/
structure Row where
  name : String            -- the `d->member` it serialises (`member:tag` if the member has several element kinds)
  tags : List String       -- element names the writer can produce
  nss : List String        -- namespaces the writer can produce (core elements: "" or the `baseNamespace` argument)
  recog : Recog
  parseGuard : Guard
  writeGuard : Guard
  wrapper : Bool           -- written by `toXml` after `serializeExtensions` / parsed by `QXmppStanza::parse`
  multi : Bool             -- list-valued member
  suppressedBy : List String  -- `else if`: not written when one of these rows has a value
  compiled : Bool          -- false: under `#ifdef BUILD_OMEMO`, absent from the library the check builds
  catchAll : Bool          -- the unknown extensions (`QXmppStanza::extensions()`): arbitrary elements no recogniser takes;
                           --   on parsing they are whatever is left over (`PSt.unknown`, replaced by every parse)
  deriving DecidableEq, Repr

structure Table where
  rows : List Row          -- emission order of `toXml`
  parse : List Row         -- order of the recogniser chain
  deriving Repr

/-- an abstract message: for every row name, the elements representing that field's value (`[]` = not set) -/
abbrev Msg := String → List Elem

def Msg.empty : Msg := fun _ => []

def Msg.set (m : Msg) (f : String) (v : List Elem) : Msg := fun g => if g = f then v else m g

/-- the `else if` condition: no suppressing field is set -/
def Row.live (r : Row) (m : Msg) : Bool := r.suppressedBy.all fun f => (m f).isEmpty

/-- what the row's emitter writes in `mode` -/
def Row.emits (r : Row) (m : Msg) (mode : Mode) : List Elem :=
  if r.writeGuard.on mode && r.live m then m r.name else []

/-- `QXmppMessage::toXml(writer, mode)`: children in emission order -/
def writeMode (T : Table) (m : Msg) (mode : Mode) : List Elem :=
  T.rows.flatMap fun r => r.emits m mode

/-- `QXmppMessage::serializeExtensions(writer, mode, base)`: the same without the `toXml` wrapper rows -/
def writeExt (T : Table) (m : Msg) (mode : Mode) : List Elem :=
  T.rows.flatMap fun r => if r.wrapper then [] else r.emits m mode

/-- the `baseNamespace` argument of `serializeExtensions`: core elements get this namespace -/
def rebase (T : Table) (base : String) (m : Msg) : Msg := fun f =>
  match T.rows.find? (fun r => r.name == f) with
  | some r => if r.nss.length > 1 then (m f).map fun e => { e with ns := base } else m f
  | none => m f

/-- first recogniser of the chain that is enabled in `mode` and accepts the element -/
def recognise (T : Table) (mode : Mode) (e : Elem) : Option Row :=
  T.parse.find? fun r => r.parseGuard.on mode && r.recog.accepts e.tag e.ns

/-- parser state: the fields and the unknown extensions (`QXmppStanza::extensions()`) -/
structure PSt where
  msg : Msg
  unknown : List Elem

/-- one child element.  `full = true`: `parse(element, mode)` (runs `QXmppStanza::parse` too);
`full = false`: `parseExtensions(element, mode)` only, which skips the wrapper elements. -/
def parseStep (T : Table) (mode : Mode) (full : Bool) (s : PSt) (e : Elem) : PSt :=
  match recognise T mode e with
  | some r =>
    if r.wrapper && !full then s
    else { s with msg := s.msg.set r.name (s.msg r.name ++ [e]) }
  | none => { s with unknown := s.unknown ++ [e] }

/-- `parse` / `parseExtensions` over the children of an element, into an existing message.
Both start by collecting a fresh unknown-extension list (`setExtensions(unknownExtensions)`). -/
def parseMode (T : Table) (es : List Elem) (mode : Mode) (full : Bool) (m0 : Msg) : PSt :=
  es.foldl (parseStep T mode full) { msg := m0, unknown := [] }

/-- the public part as sent (QXmppClient.cpp: `message->toXml(&writer, QXmpp::ScePublic)`) -/
def publicPart (T : Table) (m : Msg) : List Elem := writeMode T m .pub

/-- the encrypted part (QXmppOmemoManager_p.cpp: `serializeExtensions(&writer, SceSensitive, ns_client)`) -/
def sensitivePart (T : Table) (m : Msg) : List Elem := writeExt T m .sens

/-- what is present once more in the two parts than in the unsplit message: the elements of non-wrapper rows
written under `both` (in both parts) or `pubOnly` (in the public part but not in `SceAll`) -/
def fallbackCopies (T : Table) (m : Msg) : List Elem :=
  T.rows.flatMap fun r =>
    if !r.wrapper && (r.writeGuard == .both || r.writeGuard == .pubOnly) && r.live m then m r.name else []

/-- receive path: `parse(outer, ScePublic)` then `parseExtensions(sceContent, SceSensitive)` into the same object -/
def recover (T : Table) (m : Msg) : PSt :=
  parseMode T (sensitivePart T m) .sens false (parseMode T (publicPart T m) .pub true Msg.empty).msg

/-- the same through the `toXml`/`parse` pair only: `parse(toXml(ScePublic), ScePublic)` then
`parse(toXml(SceSensitive), SceSensitive)` on the same object -/
def recoverToXml (T : Table) (m : Msg) : PSt :=
  parseMode T (writeMode T m .sens) .sens true (parseMode T (writeMode T m .pub) .pub true Msg.empty).msg

/-! ## Classification: the specification (`C17Spec.lean`) applied to what the row puts on the wire -/

/-- the classes of everything the row's writer can produce -/
def Row.wireClasses (r : Row) : List Class := r.tags.flatMap fun t => r.nss.map fun n => classOfWire t n

/-- The class of a row is decided by the SPEC from the row's wire identities (tag, namespace), not from anything the
code calls it: all of them must agree on one class, otherwise — and for arbitrary unknown elements — it is `payload`.
Single exception, see `fallbackTextField`: the field the API designates as explicit fallback text. -/
def Row.cls (r : Row) : Class :=
  if r.catchAll then .payload
  else if r.name == fallbackTextField then .fallback
  else match r.wireClasses with
    | [] => .payload
    | c :: cs => if cs.all (· == c) then c else .payload

/-- rows one of whose wire identities the spec does not know (they default to payload) -/
def specUnknown (rows : List Row) : List String :=
  (rows.filter fun r => !r.catchAll && (r.tags.any fun t => r.nss.any fun n => kindOfWire t n == .unknown)).map (·.name)

/-! ## Decidable well-formedness -/

/-- payload only under the sensitive guard -/
def Row.wfPayload (r : Row) : Bool := r.cls != .payload || r.writeGuard == .sens

/-- anything written in both parts (or only in the public part but not in the unsplit message) is explicit fallback -/
def Row.wfShared (r : Row) : Bool :=
  !(r.writeGuard == .both || r.writeGuard == .pubOnly) || r.cls == .fallback || r.wrapper

/-- wrapper rows (written by `toXml` only, never into the envelope) are public; every row has a writer -/
def Row.wfWrapper (r : Row) : Bool :=
  (!r.wrapper || r.writeGuard == .pub || r.writeGuard == .both) && r.writeGuard != .none

/-- Write side, per row. -/
def Row.wfWrite (r : Row) : Bool := r.wfPayload && r.wfShared && r.wfWrapper

/-- Two-directional agreement with the spec: payload ⇒ sensitive guard, routing / hint / id ⇒ public guard (a hint
inside the ciphertext is useless to the server), explicit fallback ⇒ a guard that reaches the public part. -/
def Row.agreesWithSpec (r : Row) : Bool :=
  match r.cls with
  | .payload => r.writeGuard == .sens
  | .fallback => r.writeGuard == .both || r.writeGuard == .pubOnly || r.writeGuard == .pub
  | _ => r.writeGuard == .pub || (r.wrapper && r.writeGuard == .both)

def specDisagreements (rows : List Row) : List String := (rows.filter fun r => !r.agreesWithSpec).map (·.name)

/-- Parse side, per row: recognised under the guard it is written under (wrapper rows: by `QXmppStanza::parse`,
in every mode), and its recogniser accepts everything its writer can produce. -/
def Row.wfParse (r : Row) : Bool :=
  if r.catchAll then r.parseGuard == .both && r.recog == .never     -- left-overs are collected in every mode
  else
    (if r.wrapper then r.parseGuard == .both else r.parseGuard == r.writeGuard)
    && !r.tags.isEmpty && !r.nss.isEmpty
    && r.tags.all (fun t => r.nss.all fun n => r.recog.accepts t n)

/-- `r1`'s recogniser would take an element written by `r2` in a serialisation (public part, sensitive part or the
unsplit form) parsed in its own mode, where both are active -/
def clash (r1 r2 : Row) : Bool :=
  r2.tags.any (fun t => r2.nss.any fun n => r1.recog.accepts t n)
  && [Mode.pub, Mode.sens, Mode.all].any fun md => r2.writeGuard.on md && r1.parseGuard.on md

/-- recognisers pairwise distinguishable on what the writers produce, names unique, parse chain = rows -/
def Table.distinct (T : Table) : Bool :=
  T.rows.all fun r1 => T.rows.all fun r2 => r1.name == r2.name || !clash r1 r2

def Table.names (T : Table) : List String := T.rows.map (·.name)

def Table.sameRows (T : Table) : Bool :=
  T.parse.all (fun r => T.rows.contains r) && T.rows.all (fun r => T.parse.contains r)

/-- everything the write-side theorems need -/
def WFwrite (T : Table) : Prop := T.rows.all Row.wfWrite = true

/-- the part of it the partition theorems need (nothing about payload) -/
def WFsplit (T : Table) : Prop := T.rows.all (fun r => r.wfShared && r.wfWrapper) = true

/-- table-global half of the parse-side condition -/
def WFshape (T : Table) : Prop := T.distinct = true ∧ T.names.Nodup ∧ T.sameRows = true

/-- the full predicate of DESIGN 5.17 -/
def WFtable (T : Table) : Prop := WFwrite T ∧ WFshape T ∧ T.rows.all Row.wfParse = true

instance (T : Table) : Decidable (WFwrite T) := by unfold WFwrite; infer_instance
instance (T : Table) : Decidable (WFsplit T) := by unfold WFsplit; infer_instance
instance (T : Table) : Decidable (WFshape T) := by unfold WFshape; infer_instance
instance (T : Table) : Decidable (WFtable T) := by unfold WFtable; infer_instance

/-- names of the rows violating a per-row condition (what `decide` is asked about on the generated table) -/
def offendingWrite (T : Table) : List String := (T.rows.filter fun r => !r.wfWrite).map (·.name)
def offendingParse (T : Table) : List String := (T.rows.filter fun r => !r.wfParse).map (·.name)
def offendingClash (T : Table) : List (String × String) :=
  T.rows.flatMap fun r1 => (T.rows.filter fun r2 => r1.name != r2.name && clash r1 r2).map fun r2 => (r1.name, r2.name)

/-- rows for which `toXml(SceSensitive)` writes something `serializeExtensions(SceSensitive)` does not -/
def offendingToXml (T : Table) : List String :=
  (T.rows.filter fun r => r.wrapper && r.writeGuard.on .sens).map (·.name)

/-- the table without some rows (used to state what holds today when some rows are defective) -/
def Table.without (T : Table) (bad : List String) : Table :=
  { rows := T.rows.filter (fun r => !bad.contains r.name), parse := T.parse.filter (fun r => !bad.contains r.name) }

/-- the element is one the row's writer can produce; for the catch-all row: one that no recogniser of the table takes -/
def Row.owns (T : Table) (r : Row) (e : Elem) : Prop :=
  if r.catchAll then ∀ r' ∈ T.rows, r'.recog.accepts e.tag e.ns = false else e.tag ∈ r.tags ∧ e.ns ∈ r.nss

instance (T : Table) (r : Row) (e : Elem) : Decidable (r.owns T e) := by unfold Row.owns; infer_instance

/-- message well-formed for a table: every field holds only elements its row's writer can produce, and a field
suppressed by an `else if` is not set together with its suppressor -/
def Msg.Valid (T : Table) (m : Msg) : Prop :=
  ∀ r ∈ T.rows, (∀ e ∈ m r.name, r.owns T e) ∧ (r.live m = true ∨ m r.name = [])

instance (T : Table) (m : Msg) : Decidable (Msg.Valid T m) := by unfold Msg.Valid; infer_instance

/-- a parsed object seen as a message again (a received or stored message that is re-used): the unknown extensions
are the value of the catch-all field -/
def ofPSt (T : Table) (s : PSt) : Msg := fun f =>
  if T.rows.any (fun r => r.catchAll && r.name == f) then s.unknown else s.msg f

/-- history step "combined-mode cycle": `toXml(SceAll)` then `parse(…, SceAll)` into a fresh object (stored outbox,
archive copy, forwarded message …) -/
def cycleAll (T : Table) (m : Msg) : Msg := ofPSt T (parseMode T (writeMode T m .all) .all true Msg.empty)

/-- history step "received, then split again": the object the receive path produces, used as a message -/
def resplit (T : Table) (m : Msg) : Msg := ofPSt T (recover T m)

/-- every suppressor named by an `else if` is a known, non-catch-all row -/
def Table.suppressorsKnown (T : Table) : Bool :=
  T.rows.all fun r => r.suppressedBy.all fun f => T.rows.any fun r' => r'.name == f && !r'.catchAll

/-- the unknown extensions of a message: the value(s) of the catch-all row(s) -/
def catchAllValue (T : Table) (m : Msg) : List Elem := T.rows.flatMap fun r => if r.catchAll then m r.name else []

end Qx.C17
