/-
C03 — a small concrete XML parser used ONLY by the driver as the instance of the parser parameter `P` of
`Qx.Model.C03Framing` (the theorems are about every `P` satisfying `PrefixOracle`; the driver checks
`PrefixOracle` for THIS parser on every corpus stream with `checkOracle`, and the correspondence run compares
it with `QDomDocument::setContent(text, /*namespaceProcessing*/ true)` of Qt 5.15 on every buffer the real
code ever parses).

Covers what the corpus needs: optional XML declaration (version required), elements, attributes ('…' or "…"),
character data, the five predefined entities, numeric character references, namespace declarations
(`xmlns`, `xmlns:p`).  No comments, CDATA sections, processing instructions or DTDs (absent from XMPP).

Mirrored Qt 5.15 QDom facts (probed with `framing --mode probe`):
* element and attribute names are reported as LOCAL names, the element's namespace URI separately
  (an undeclared prefix gives the empty URI, no error); `xmlns…` attributes are not attributes;
* a run of character data that is white space only (`QString::simplified().isEmpty()`, i.e. `QChar::isSpace`,
  after entity expansion) produces no text node; other text is kept verbatim (no attribute-value normalisation);
* white space between attributes is optional; `]]>` in character data, `<` or a bare `&` in attribute values
  and mismatched end tags are errors; after the root element only white space may follow.

Canonical form of an element (same as harness/cxx/framing.cpp `canonElem`):
  `<local{nsURI} a{nsURI}="v" …>children</>`  attributes sorted by `a{nsURI}`, values and text with & < > " escaped.
Total functions (fuel = input length), no proofs, no Mathlib.
-/
import Qx.Model.C03Framing

namespace Qx.C03.Xml

abbrev Str := List Char

inductive Node
  | elem (name ns : Str) (attrs : List (Str × Str)) (kids : List Node)
  | text (s : Str)
  deriving Repr, Inhabited

def isXmlWs (c : Char) : Bool := c = ' ' || c = '\t' || c = '\n' || c = '\r'
def isNameStart (c : Char) : Bool := c.isAlpha || c = '_' || c = ':' || c.toNat ≥ 0x80
def isNameChar (c : Char) : Bool := isNameStart c || c.isDigit || c = '.' || c = '-'

def skipWs (l : Str) : Str := l.dropWhile isXmlWs

def parseName (l : Str) : Option (Str × Str) :=
  match l with
  | c :: r => if isNameStart c then some (c :: r.takeWhile isNameChar, r.dropWhile isNameChar) else none
  | [] => none

def hexVal (c : Char) : Option Nat :=
  if '0' ≤ c ∧ c ≤ '9' then some (c.toNat - 48)
  else if 'a' ≤ c ∧ c ≤ 'f' then some (c.toNat - 87)
  else if 'A' ≤ c ∧ c ≤ 'F' then some (c.toNat - 55)
  else none

def numVal (base : Nat) (ds : Str) : Option Nat :=
  if ds.isEmpty then none
  else ds.foldl (fun acc c => match acc, hexVal c with
    | some a, some v => if v < base then some (a * base + v) else none
    | _, _ => none) (some 0)

/-- `l` = text after `&`; the referenced character and the text after `;` -/
def parseRef (l : Str) : Option (Char × Str) :=
  let name := l.takeWhile (fun c => c != ';')
  match l.dropWhile (fun c => c != ';') with
  | ';' :: r =>
    if name = "lt".toList then some ('<', r)
    else if name = "gt".toList then some ('>', r)
    else if name = "amp".toList then some ('&', r)
    else if name = "quot".toList then some ('"', r)
    else if name = "apos".toList then some ('\'', r)
    else match name with
      | '#' :: 'x' :: hs => (numVal 16 hs).map fun n => (Char.ofNat n, r)
      | '#' :: ds => (numVal 10 ds).map fun n => (Char.ofNat n, r)
      | _ => none
  | _ => none

/-- attribute value up to the closing quote `q`; `acc` reversed -/
def parseAttValue (q : Char) : Nat → Str → Str → Option (Str × Str)
  | 0, _, _ => none
  | _ + 1, [], _ => none
  | f + 1, c :: r, acc =>
    if c = q then some (acc.reverse, r)
    else if c = '<' then none
    else if c = '&' then
      match parseRef r with
      | some (ch, r') => parseAttValue q f r' (ch :: acc)
      | none => none
    else parseAttValue q f r (c :: acc)

/-- attributes up to `>` (false) or `/>` (true); raw qualified names -/
def parseAttrs : Nat → Str → List (Str × Str) → Option (List (Str × Str) × Bool × Str)
  | 0, _, _ => none
  | f + 1, l, acc =>
    match skipWs l with
    | '/' :: '>' :: r => some (acc.reverse, true, r)
    | '>' :: r => some (acc.reverse, false, r)
    | l' =>
      match parseName l' with
      | none => none
      | some (n, r1) =>
        match skipWs r1 with
        | '=' :: r2 =>
          match skipWs r2 with
          | q :: r3 =>
            if q = '\'' || q = '"' then
              match parseAttValue q (r3.length + 1) r3 [] with
              | some (v, r4) => parseAttrs f r4 ((n, v) :: acc)
              | none => none
            else none
          | [] => none
        | _ => none

def splitQName (q : Str) : Str × Str :=
  let p := q.takeWhile (fun c => c != ':')
  match q.dropWhile (fun c => c != ':') with
  | ':' :: l => (p, l)
  | _ => ([], q)

def lookupNs (scope : List (Str × Str)) (p : Str) : Str :=
  match scope.find? (fun b => b.1 == p) with
  | some b => b.2
  | none => []

/-- namespace declarations of an attribute list, pushed in front of the scope -/
def pushDecls (scope : List (Str × Str)) (attrs : List (Str × Str)) : List (Str × Str) :=
  attrs.foldl (fun sc a =>
    if a.1 = "xmlns".toList then (([] : Str), a.2) :: sc
    else match splitQName a.1 with
      | (p, l) => if p = "xmlns".toList then (l, a.2) :: sc else sc) scope

def xmlNs : Str := "http://www.w3.org/XML/1998/namespace".toList

/-- namespace of an attribute: none for an un-prefixed one, the binding of its prefix otherwise (`xml` is predeclared) -/
def attrNs (scope : List (Str × Str)) (q : Str) : Str :=
  let p := (splitQName q).1
  if p.isEmpty then [] else if p = "xml".toList then xmlNs else lookupNs scope p

/-- the attributes that are not namespace declarations, as `local{nsURI}` ↦ value (`scope` = bindings in force on the element) -/
def plainAttrs (scope : List (Str × Str)) (attrs : List (Str × Str)) : List (Str × Str) :=
  (attrs.filter fun a => !(a.1 = "xmlns".toList || (splitQName a.1).1 = "xmlns".toList)).map
    fun a => ((splitQName a.1).2 ++ '{' :: attrNs scope a.1 ++ ['}'], a.2)

def allSpace (s : Str) : Bool := s.all Qx.C03.isSpace

/-- close the pending character-data run (`txt` reversed) -/
def flushText (acc : List Node) (txt : Str) : List Node :=
  if allSpace txt then acc else Node.text txt.reverse :: acc

mutual
  /-- `l` = text after `<` of a start tag -/
  def parseElem : Nat → List (Str × Str) → Str → Option (Node × Str)
    | 0, _, _ => none
    | f + 1, scope, l =>
      match parseName l with
      | none => none
      | some (q, r1) =>
        match parseAttrs (r1.length + 1) r1 [] with
        | none => none
        | some (attrs, selfClose, r2) =>
          let scope' := pushDecls scope attrs
          let pl := splitQName q
          let ns := lookupNs scope' pl.1
          if selfClose then some (Node.elem pl.2 ns (plainAttrs scope' attrs) [], r2)
          else
            match parseContent f scope' q r2 [] [] with
            | some (kids, r3) => some (Node.elem pl.2 ns (plainAttrs scope' attrs) kids, r3)
            | none => none
  /-- content of the element whose qualified name is `q`, up to and including its end tag -/
  def parseContent : Nat → List (Str × Str) → Str → Str → List Node → Str → Option (List Node × Str)
    | 0, _, _, _, _, _ => none
    | _ + 1, _, _, [], _, _ => none
    | _ + 1, _, q, '<' :: '/' :: r, acc, txt =>
      match parseName r with
      | some (n, r1) =>
        if n = q then
          match skipWs r1 with
          | '>' :: r2 => some ((flushText acc txt).reverse, r2)
          | _ => none
        else none
      | none => none
    | f + 1, scope, q, '<' :: r, acc, txt =>
      match parseElem f scope r with
      | some (n, r1) => parseContent f scope q r1 (n :: flushText acc txt) []
      | none => none
    | f + 1, scope, q, '&' :: r, acc, txt =>
      match parseRef r with
      | some (ch, r1) => parseContent f scope q r1 acc (ch :: txt)
      | none => none
    | _ + 1, _, _, ']' :: ']' :: '>' :: _, _, _ => none
    | f + 1, scope, q, c :: r, acc, txt => parseContent f scope q r acc (c :: txt)
end

/-- pseudo-attributes of the XML declaration up to `?>`; returns their names in order -/
def parseDeclAttrs : Nat → Str → List Str → Option (List Str × Str)
  | 0, _, _ => none
  | f + 1, l, acc =>
    match skipWs l with
    | '?' :: '>' :: r => some (acc.reverse, r)
    | l' =>
      match parseName l' with
      | none => none
      | some (n, r1) =>
        match skipWs r1 with
        | '=' :: r2 =>
          match skipWs r2 with
          | q :: r3 =>
            if q = '\'' || q = '"' then
              match r3.dropWhile (fun c => c != q) with
              | _ :: r4 => parseDeclAttrs f r4 (n :: acc)
              | [] => none
            else none
          | [] => none
        | _ => none

/-- optional XML declaration: `<?xml` + white space + `version=…` first -/
def parseDecl (l : Str) : Option Str :=
  if "<?xml".toList.isPrefixOf l then
    match l.drop 5 with
    | c :: r =>
      if isXmlWs c then
        match parseDeclAttrs (r.length + 1) r [] with
        | some (n :: _, rest) => if n = "version".toList then some rest else none
        | _ => none
      else none
    | [] => none
  else some l

def escXml (s : Str) : Str :=
  s.flatMap fun c =>
    if c = '&' then "&amp;".toList
    else if c = '<' then "&lt;".toList
    else if c = '>' then "&gt;".toList
    else if c = '"' then "&quot;".toList
    else [c]

def insertAttr (x : Str × Str) : List (Str × Str) → List (Str × Str)
  | [] => [x]
  | y :: ys => if String.ofList x.1 ≤ String.ofList y.1 then x :: y :: ys else y :: insertAttr x ys

def canonAttrs (as : List (Str × Str)) : Str :=
  (as.foldr insertAttr []).flatMap fun a => ' ' :: a.1 ++ '=' :: '"' :: escXml a.2 ++ ['"']

mutual
  def canon (withKids : Bool) : Node → Str
    | .text s => escXml s
    | .elem n ns as ks =>
      '<' :: n ++ '{' :: ns ++ '}' :: canonAttrs as ++ '>' :: (if withKids then canonList ks else []) ++ "</>".toList
  def canonList : List Node → Str
    | [] => []
    | k :: ks => canon true k ++ canonList ks
end

def isElem : Node → Bool
  | .elem .. => true
  | .text _ => false

def kidsOf : Node → List Node
  | .elem _ _ _ ks => ks
  | .text _ => []

/-- the parser instance: elements are represented by their canonical strings -/
def parse : Qx.C03.Parser String := fun w =>
  match parseDecl w with
  | none => none
  | some r0 =>
    match skipWs r0 with
    | '<' :: r1 =>
      match parseElem (2 * r1.length + 2) [] r1 with
      | some (root, rest) =>
        if (skipWs rest).isEmpty then
          some { root := String.ofList (canon false root),
                 children := ((kidsOf root).filter isElem).map fun k => String.ofList (canon true k) }
        else none
      | none => none
    | _ => none

end Qx.C03.Xml
