import Qx.Proofs.C07
import Qx.Generated.PromiseSites
/-!
# C07 — every request completes exactly once, and only by a reply from the entity asked

Property theorems only (model: `Qx/Model/C07Iq.lean`, helpers: `Qx/Proofs/C07.lean`).
Every statement quantifies over all configurations (own JID, socket state, stream management
on/off) and over operation lists of any length.  A *request* is identified by its request number
(`req` = the how-many-th send call it was), so "the task returned by that call" keeps its identity
when stanza ids are re-used.  `reqs log` lists the request numbers of the completions emitted.

What is and is not covered:
* *Re-entrancy.* A continuation attached to a request task runs synchronously inside the completion.
  The model has no separate "continuation body": a body that sends, ends or opens a session is the
  same operations placed right after the completing operation in the history, and every theorem
  below quantifies over all histories.  This is exact for code that detaches the entry (or, in
  `cancelAll`, the whole table) before finishing the promise — fixes/C07-reentrant-completion.diff;
  the unrepaired code loses a request started during `cancelAll` and uses freed map nodes when a
  continuation ends the session (harness part G under ASan+UBSan: findings `C07:reent:*`).
* *Timeouts.* The library has no request timeout; a request stays pending while the peer is silent
  and the session lives or can be resumed (`iq_eventually` names what ends it).
* *Destruction from inside a continuation* and calls into a client under destruction are outside
  the contract and not modelled.
-/
namespace Qx.C07

/-- **At most once.** Whatever the history, no request is completed twice. -/
theorem iq_completes_at_most_once (own : String) (sock sm : Bool) (ops : List Op) (r : Nat) :
    (reqs (run (init own sock sm) ops).2).count r ≤ 1 := by
  have h := reachable_inv own sock sm ops
  have hn : (treqs (run (init own sock sm) ops).1.tbl ++ reqs (run (init own sock sm) ops).2).Nodup :=
    (h.perm.nodup_iff).mpr List.nodup_range
  exact List.nodup_iff_count.mp (List.nodup_append.mp hn).2.1 r

/-- **Exactly once or still pending.** In every reachable state every request issued so far is
either pending (one table entry, not yet completed) or completed exactly once and no longer in
the table; nothing is lost and nothing is both. -/
theorem iq_exactly_once_or_pending (own : String) (sock sm : Bool) (ops : List Op) (r : Nat)
    (hr : r < (run (init own sock sm) ops).1.nreq) :
    ((treqs (run (init own sock sm) ops).1.tbl).count r = 1 ∧ (reqs (run (init own sock sm) ops).2).count r = 0) ∨
    ((treqs (run (init own sock sm) ops).1.tbl).count r = 0 ∧ (reqs (run (init own sock sm) ops).2).count r = 1) := by
  have h := reachable_inv own sock sm ops
  have := count_of_perm_range h.perm hr
  rw [List.count_append] at this
  omega

/-- **Table ids are distinct** in every reachable state (so an id names at most one pending request). -/
theorem iq_table_ids_distinct (own : String) (sock sm : Bool) (ops : List Op) :
    (ids (run (init own sock sm) ops).1.tbl).Nodup :=
  (reachable_inv own sock sm ops).nodup

/-- **Only by a matching reply.** If a request was completed *by a reply* (`reply ty frm`), then the
history contains a received stanza `st` and, at the moment it arrived, a pending entry `e` of that
very request such that `st` answers `e`: it is an `iq`, of type result or error, carries the
request's id, and its sender is absent or string-equal to the recorded addressee; and the value
delivered is that stanza's (type and sender). -/
theorem iq_only_by_matching_reply (own : String) (sock sm : Bool) (ops : List Op) (d : Done)
    (ty : Ty) (frm : String) (hd : d ∈ (run (init own sock sm) ops).2) (hh : d.how = .reply ty frm) :
    ∃ pre st post e, ops = pre ++ .recv st :: post ∧ e ∈ (run (init own sock sm) pre).1.tbl ∧
      e.req = d.req ∧ e.id = d.id ∧ st.answers e ∧ st.ty = ty ∧ st.frm = frm := by
  obtain ⟨pre, op, post, h1, h2⟩ := run_mem_split ops _ hd
  obtain ⟨st, g1, g2, g3, g4, g5, e, g6, g7, g8, g9, g10⟩ := step_reply h2 hh
  subst g1
  exact ⟨pre, st, post, e, h1, g6, g9.symm, g8.symm, ⟨g2, g3, g7.symm, g10⟩, g4, g5⟩

/-- **The recorded addressee is the entity asked.** A pending entry was registered by a send call
of this history; its addressee is never empty and is the `to` given to that call — or, when `to`
was empty and the call went through `QXmppClient::sendIq`, the user's own bare JID. -/
theorem iq_recorded_addressee (own : String) (sock sm : Bool) (ops : List Op) (e : Entry)
    (he : e ∈ (run (init own sock sm) ops).1.tbl) :
    e.to ≠ "" ∧ e.id ≠ .named "" ∧ ∃ pre op post, ops = pre ++ op :: post ∧
      e.req = (run (init own sock sm) pre).1.nreq ∧
      ((∃ id to, op = .send id to ∧ e.to = (if to = "" then own else to)) ∨
       (∃ to, op = .sendRaw e.id to ∧ e.to = to)) := by
  rcases run_new ops (init own sock sm) he with h | ⟨h1, h2, pre, op, post, h3, h4, h5⟩
  · simp [init] at h
  · refine ⟨h1, h2, pre, op, post, h3, h4, ?_⟩
    rw [run_own] at h5
    simpa [init] using h5

/-- **A foreign stanza is a no-op.** A received stanza that answers no pending request — wrong
kind, type get/set, unknown id, or a sender that is neither absent nor the recorded addressee —
leaves the state unchanged and completes or cancels nothing.  (Excluded: an `<iq/>` whose type is
none of get/set/result/error, which is not a stanza but a stream-level protocol violation, see
`malformed_iq_ends_session`.) -/
theorem foreign_reply_is_noop (s : St) (st : Stanza) (hv : ¬ (st.kind = .iq ∧ st.ty = .other))
    (h : ¬ st.matchesSome s) : step s (.recv st) = (s, []) := by
  unfold step
  split
  · rfl
  · simp only [hv, if_false]
    unfold recv
    split
    · rfl
    · rename_i hk
      split
      · rfl
      · rename_i ht
        split
        · rfl
        · rename_i e he
          split
          · rfl
          · rename_i hf
            exfalso
            apply h
            refine ⟨e, (lookup_some he).1, by simpa using hk, ?_, (lookup_some he).2.symm, ?_⟩
            · cases hty : st.ty <;> simp [hty] at ht ⊢
            · by_cases h1 : st.frm = ""
              · exact Or.inl h1
              · right
                simp only [not_and, Decidable.not_not] at hf
                exact hf h1

/-- **A stranger cannot complete or cancel a request**, even with the right id: if `e` is pending
(ids distinct, as in every reachable state) and the stanza carries `e`'s id but a non-empty sender
different from the recorded addressee, nothing happens. -/
theorem stranger_with_right_id_is_noop (s : St) (e : Entry) (st : Stanza)
    (hn : (ids s.tbl).Nodup) (he : e ∈ s.tbl) (hid : st.id = e.id)
    (hv : ¬ (st.kind = .iq ∧ st.ty = .other)) (h1 : st.frm ≠ "") (h2 : st.frm ≠ e.to) :
    step s (.recv st) = (s, []) := by
  apply foreign_reply_is_noop s st hv
  rintro ⟨e', he', _, _, hid', hfrm⟩
  have hl := lookup_of_mem hn he
  have hl' := lookup_of_mem hn he'
  rw [← hid, hid'] at hl
  rw [hl'] at hl
  injection hl with hee
  subst hee
  rcases hfrm with h | h
  · exact h1 h
  · exact h2 h

/-- **An `<iq/>` with an invalid type ends the session** (the stream reports "Unexpected element
received" and disconnects without the possibility of resumption): with a connected socket every
pending request is cancelled and the table is empty; without one nothing happens. -/
theorem malformed_iq_ends_session (s : St) (st : Stanza) (hd : s.dead = false)
    (hk : st.kind = .iq) (ht : st.ty = .other) :
    (s.sock = true → (step s (.recv st)).1.tbl = [] ∧
        (step s (.recv st)).2 = s.tbl.map fun e => ⟨e.req, e.id, .cancelled⟩) ∧
    (s.sock = false → step s (.recv st) = (s, [])) := by
  unfold step
  simp only [hd, hk, ht, and_self, if_true, Bool.false_eq_true, if_false, streamError]
  constructor
  · intro hs; simp [hs, cancelAll]
  · intro hs; simp [hs]

/-- operations that end the session without the possibility of resumption -/
def NonResumableEnd (op : Op) : Prop :=
  op = .sessionClosed false ∨ (∃ smEnabled, op = .sessionOpened false smEnabled) ∨ op = .destroy

/-- **Nothing pending after a non-resumable end.** After a session closed that cannot resume, a
session opened without resumption (whether or not stream management is enabled on the new session),
or destruction of the client, the table is empty and every
request ever issued has completed exactly once. -/
theorem iq_no_pending_after_nonresumable_end (own : String) (sock sm : Bool) (ops : List Op) (op : Op)
    (hop : NonResumableEnd op) :
    (run (init own sock sm) (ops ++ [op])).1.tbl = [] ∧
    ∀ q, q < (run (init own sock sm) (ops ++ [op])).1.nreq →
      (reqs (run (init own sock sm) (ops ++ [op])).2).count q = 1 := by
  have hempty : (run (init own sock sm) (ops ++ [op])).1.tbl = [] := by
    rw [run_append]
    simp only [run]
    have hde := run_deadEmpty ops (init own sock sm) (by intro h; simp [init] at h)
    unfold step
    split
    · rename_i hdead; exact hde hdead
    · rcases hop with h | ⟨e, h⟩ | h <;> subst h <;> simp [cancelAll]
  refine ⟨hempty, ?_⟩
  intro q hq
  have h := reachable_inv own sock sm (ops ++ [op])
  have := count_of_perm_range h.perm hq
  rw [hempty] at this
  simpa [treqs] using this

/-- **Retained only if resumable.** If requests are still pending after a session close, the
close was resumable … -/
theorem iq_retained_only_if_resumable (s : St) (c : Bool) (hd : s.dead = false)
    (h : (step s (.sessionClosed c)).1.tbl ≠ []) : c = true := by
  cases c with
  | true => rfl
  | false => exfalso; apply h; simp [step, hd, cancelAll]

/-- … and a resumable close or a resumed session keeps every pending request and completes none
(the close only switches stream management off until it is re-enabled). -/
theorem resumable_end_keeps_everything (s : St) (smEnabled : Bool) (hd : s.dead = false) :
    step s (.sessionClosed true) = ({ s with sm := false }, []) ∧
    step s (.sessionOpened true smEnabled) = (s, []) := by
  simp [step, hd]

/-- **Eventually.** A request pending after any history `pre` is completed by any continuation
that contains a response answering it (right id, type result/error, sender absent or the recorded
addressee), a failure of its send, a session closed without the possibility of resumption, a session
opened without resumption, or the destruction of the client — whatever else the continuation
contains.  (A request stays pending only while the peer is silent and the session lives or can be
resumed: that is the caller's timeout domain.) -/
theorem iq_eventually (own : String) (sock sm : Bool) (pre suffix : List Op) (e : Entry)
    (he : e ∈ (run (init own sock sm) pre).1.tbl) (ht : ∃ op ∈ suffix, Trigger e op) :
    e.req ∈ reqs (run (run (init own sock sm) pre).1 suffix).2 :=
  eventually_aux e suffix _ _ (reachable_inv own sock sm pre)
    (run_deadEmpty pre _ (by intro h; simp [init] at h)) he ht

/-- … and then exactly once in the whole history. -/
theorem iq_eventually_exactly_once (own : String) (sock sm : Bool) (pre suffix : List Op) (e : Entry)
    (he : e ∈ (run (init own sock sm) pre).1.tbl) (ht : ∃ op ∈ suffix, Trigger e op) :
    (reqs (run (init own sock sm) (pre ++ suffix)).2).count e.req = 1 := by
  have h1 := iq_eventually own sock sm pre suffix e he ht
  have h2 := iq_completes_at_most_once own sock sm (pre ++ suffix) e.req
  have h3 : e.req ∈ reqs (run (init own sock sm) (pre ++ suffix)).2 := by
    rw [run_append]; simp only [reqs_append]; exact List.mem_append.mpr (Or.inr h1)
  have h4 := List.count_pos_iff.mpr h3
  omega

/-! ### Session boundaries as the real negotiation produces them (`Neg`) -/

/-- **A session that is not a resumption leaves nothing pending** — whatever the server granted
instead: a new session with stream management (resumable or not) or one without.  (Seeded change
"cancel only if stream management is off on the new session" breaks exactly this.) -/
theorem neg_new_session_leaves_nothing_pending (s : Neg.St) (sm resumableNew : Bool)
    (hd : s.base.dead = false) :
    (Neg.step s (.connect sm resumableNew false)).1.base.tbl = [] := by
  cases sm <;> simp [Neg.step, run, step, hd, cancelAll]

/-- **A genuine resumption keeps every pending request and completes none.** -/
theorem neg_resumption_retains (s : Neg.St) (resumableNew : Bool) (hd : s.base.dead = false) :
    (Neg.step s (.connect true resumableNew true)).1.base.tbl = s.base.tbl ∧
    (Neg.step s (.connect true resumableNew true)).2 = [] := by
  simp [Neg.step, run, step, hd]

/-- **An orderly disconnect leaves nothing pending.** -/
theorem neg_disconnect_leaves_nothing_pending (s : Neg.St) (hd : s.base.dead = false) :
    (Neg.step s .disconnect).1.base.tbl = [] := by
  simp [Neg.step, run, step, hd, cancelAll]

/-- **The client's belief "can resume" is what the server granted**: after a session that is not a
resumption it is true exactly when the new session has stream management with `resume`; in
particular a session without stream management clears it (repo commit c590ae4; before, the flag of
an older session survived). -/
theorem neg_can_resume_is_what_was_granted (s : Neg.St) (sm resumableNew : Bool) :
    (Neg.step s (.connect sm resumableNew false)).1.canResume = (sm && resumableNew) := by
  cases sm <;> simp [Neg.step]

/-- **Connection loss of a session that cannot be resumed leaves nothing pending.** For every
history `pre`, every new session established without stream management or with `<enabled/>`
lacking `resume`, and every sequence of request-table operations on it: after the loss the table
is empty (and by `iq_exactly_once_or_pending` every request has then completed exactly once).
(Before repo commit c590ae4 "fix: requests stay pending after a session without stream management
although it cannot be resumed" this was false: the old model proved the negation with the witness
`connect SM resumable; loss; connect without SM; send; loss`, kept first in the harness corpus.) -/
theorem neg_loss_leaves_nothing_pending (own : String) (pre : List Neg.Op) (sm resumableNew : Bool)
    (mid : List Op) (h : sm = false ∨ resumableNew = false) :
    (Neg.run (Neg.init own)
      (pre ++ [.connect sm resumableNew false] ++ mid.map .base ++ [.loss])).1.base.tbl = [] := by
  rw [Neg.run_append, Neg.run_append, Neg.run_append]
  simp only [Neg.run]
  apply Neg.loss_empties
  · apply Neg.run_deadEmpty
    apply Neg.step_deadEmpty
    apply Neg.run_deadEmpty
    intro hd; simp [Neg.init, init] at hd
  · rw [Neg.run_base_canResume, neg_can_resume_is_what_was_granted]
    rcases h with h | h <;> simp [h]

/-- … and a loss the client believes resumable keeps everything. -/
theorem neg_resumable_loss_retains (s : Neg.St) (hd : s.base.dead = false)
    (hc : s.canResume = true) :
    (Neg.step s .loss).1.base.tbl = s.base.tbl ∧ (Neg.step s .loss).2 = [] := by
  simp [Neg.step, run, step, hd, hc]

/-! ### Archive retrieval (`QXmppMamManager::retrieveMessages`) -/

/-- **The retrieval promise is finished at most once**, for every configuration (encryption
extension installed or not, decryption reporting at once or later) and every history of collected
messages, IQ completions and decryption reports. -/
theorem mam_finishes_at_most_once (e2ee instant : Bool) (ops : List Mam.Op) :
    Mam.finishes (Mam.run (Mam.init e2ee instant) ops).2 ≤ 1 := by
  have h := Mam.reachable_minv e2ee instant ops
  cases ha : (Mam.run (Mam.init e2ee instant) ops).1.answered with
  | false => have := (h.fresh ha).2; omega
  | true => rcases h.state ha with h1 | h1 <;> omega

/-- **Exactly once.** For every configuration and every history: once the request IQ has completed
(result, error or cancellation) and every decryption job has reported, the promise has been
finished exactly once and the request state has been released — with or without an encryption
extension, an empty result page included.  (Before repo commit bf0355b "fix: MAM retrieval with an
e2ee extension never finishes on an empty result page" this was false: the old model proved the
negation with the witness `[start, iqResult]`, e2ee installed, which is kept first in the harness
corpus.) -/
theorem mam_finishes_once (e2ee instant : Bool) (ops : List Mam.Op)
    (ha : (Mam.run (Mam.init e2ee instant) ops).1.answered = true)
    (hw : (Mam.run (Mam.init e2ee instant) ops).1.waiting = []) :
    Mam.finishes (Mam.run (Mam.init e2ee instant) ops).2 = 1 ∧
    (Mam.run (Mam.init e2ee instant) ops).1.active = false := by
  have h := Mam.reachable_minv e2ee instant ops
  rcases h.state ha with h1 | h1
  · exact absurd hw h1.1
  · exact ⟨h1.2.1, h1.2.2⟩

/-! ### Continuation chaining (`chain`, `chainIq`, `chainSuccess`, `chainMapSuccess`) on the task model of C13

`chain(source, context, convert)` attaches one continuation to `source` and finishes a new promise
with the converted value each time that continuation runs.  `C07Chain.finishes evs k` counts the runs
of continuation `k` among the source's events from the `then` call on; `k` is the source's `nextId`
at the call. -/

/-- **A chained task finishes at most once**, whatever happens to the source before and after the
`chain` call (any kind, any history, any context). -/
theorem chain_at_most_once (kind : C13.Kind) (pre post : List C13.Op) (ctx : Nat) :
    C07Chain.finishes (C13.run (C13.run (C13.init kind) pre).1 (.thenOp ctx [] :: post)).2
      (C13.run (C13.init kind) pre).1.nextId ≤ 1 := by
  have h := ((C13.Inv.init kind).run pre).run (.thenOp ctx [] :: post)
  have hn := h.nodup
  rw [C13.ranIds_append, List.nodup_append] at hn
  exact List.nodup_iff_count.mp hn.2.1 _

/-- **`chain_once`, source still pending** (the normal case: `sendIq` returned an unfinished task).
If the source is unfinished and referenced and the context object is alive when `chain` is
called, and between the call and the source's `finish` the source sees only handle copies, handle
drops that leave at least one handle (the request table holds the promise until it finishes it),
and destructions of *other* contexts — in any number and order (`C07Chain.Interlude`) — then
finishing the source finishes the chained task, and it does so exactly once in the whole history,
whatever follows.  Together with `iq_eventually_exactly_once` (a request task is finished exactly
once) this covers every manager request built from the combinators alone (`all_chain_sites_pure`).
Not covered, by design of the combinator: if the context (the manager) is destroyed first the
chained task is never finished (`C13.never_after_context_death`); if somebody else attaches another
continuation to the same source task it replaces the chain's (`C13.replaced_never_runs`; `chain`
consumes its task handle, so this needs a copy made before); if every handle of the source is
dropped unfinished nothing ever runs. -/
theorem chain_once (kind : C13.Kind) (pre quiet post : List C13.Op) (ctx v : Nat)
    (hr : (C13.run (C13.init kind) pre).1.refs ≠ 0)
    (hf : (C13.run (C13.init kind) pre).1.finished = false)
    (ha : (C13.run (C13.init kind) pre).1.alive ctx = true)
    (hq : C07Chain.Interlude ctx (C13.run (C13.init kind) pre).1.refs quiet) :
    C07Chain.finishes
      (C13.run (C13.run (C13.init kind) pre).1 (.thenOp ctx [] :: (quiet ++ .finish v :: post))).2
      (C13.run (C13.init kind) pre).1.nextId = 1 := by
  have h1 := chain_at_most_once kind pre (quiet ++ .finish v :: post) ctx
  have h2 := C07Chain.runs_at_finish quiet post v hr hf ha hq
  have h3 := List.count_pos_iff.mpr h2
  unfold C07Chain.finishes at h1 ⊢
  omega

/-- **`chain_once`, source already finished** (`sendIq` returned a ready task: refused request or
immediate send error): the continuation runs inside the `chain` call, once, with the stored value. -/
theorem chain_once_ready (pre post : List C13.Op) (ctx r : Nat)
    (hk : (C13.run (C13.init .value) pre).1.kind = .value)
    (hr : (C13.run (C13.init .value) pre).1.refs ≠ 0)
    (hf : (C13.run (C13.init .value) pre).1.finished = true)
    (hres : (C13.run (C13.init .value) pre).1.result = some r) :
    C07Chain.finishes (C13.run (C13.run (C13.init .value) pre).1 (.thenOp ctx [] :: post)).2
      (C13.run (C13.init .value) pre).1.nextId = 1 := by
  have h1 := chain_at_most_once .value pre post ctx
  have hl := (C13.late_then_gets_value _ r ctx [] hr hf hk hres).1
  have hmem : (C13.run (C13.init .value) pre).1.nextId ∈
      C13.ranIds (C13.run (C13.run (C13.init .value) pre).1 (.thenOp ctx [] :: post)).2 := by
    simp only [C13.run, C13.ranIds_append, List.mem_append]
    left
    have := C07Chain.mem_step_of_mem_core (List.mem_of_mem_head? hl)
    simp only [C13.ranIds, List.mem_filterMap]
    exact ⟨_, this, rfl⟩
  have h3 := List.count_pos_iff.mpr hmem
  unfold C07Chain.finishes at h1 ⊢
  omega

/-! ### Non-vacuity: the hypotheses above are met by concrete reachable states. -/

-- a reply from the addressee completes; a second copy of it is ignored
example : (run (init "me@own.org" false true)
    [.send (.named "a") "bob@rem.org/r", .recv ⟨.iq, .result, .named "a", "bob@rem.org/r"⟩,
     .recv ⟨.iq, .result, .named "a", "bob@rem.org/r"⟩]).2
    = [⟨0, .named "a", .reply .result "bob@rem.org/r"⟩] := by decide
-- no addressee: the own bare JID is recorded; a stranger and the own *domain* are ignored, the bare JID completes
example : (run (init "me@own.org" false true)
    [.send (.named "a") "", .recv ⟨.iq, .result, .named "a", "eve@evil.org"⟩,
     .recv ⟨.iq, .result, .named "a", "own.org"⟩, .recv ⟨.iq, .error, .named "a", "me@own.org"⟩]).2
    = [⟨0, .named "a", .reply .error "me@own.org"⟩] := by decide
-- hypotheses of `stranger_with_right_id_is_noop` / `foreign_reply_is_noop`: pending entry, right id, wrong sender
example : (run (init "me@own.org" false true) [.send (.named "a") "bob@rem.org/r"]).1.tbl
    = [⟨.named "a", "bob@rem.org/r", 0⟩] := by decide
-- a used or empty id is replaced by a generated one; both requests stay distinguishable
example : (run (init "me@own.org" false true)
    [.send (.named "a") "x@y", .send (.named "a") "x@y", .send (.named "") "x@y", .sessionClosed true, .sessionOpened false true]).2
    = [⟨0, .named "a", .cancelled⟩, ⟨1, .gen 0, .cancelled⟩, ⟨2, .gen 1, .cancelled⟩] := by decide
-- `start` refuses (raw entry point): empty id, id in use, empty addressee
example : (run (init "" false true)
    [.sendRaw (.named "") "x@y", .sendRaw (.named "a") "", .sendRaw (.named "a") "x@y", .sendRaw (.named "a") "x@y", .send (.named "b") ""]).2
    = [⟨0, .named "", .refusedId⟩, ⟨1, .named "a", .refusedTo⟩, ⟨3, .named "a", .refusedId⟩, ⟨4, .named "b", .refusedTo⟩] := by decide
-- hypotheses of `iq_eventually`: pending after `pre`, a trigger buried in the suffix
example : Trigger ⟨.named "a", "bob@rem.org/r", 0⟩ (.recv ⟨.iq, .error, .named "a", ""⟩) := by
  simp [Trigger, Stanza.answers]
example : (run (init "me@own.org" false true)
    [.send (.named "a") "bob@rem.org/r", .recv ⟨.message, .result, .named "a", "bob@rem.org/r"⟩,
     .sessionClosed true, .recv ⟨.iq, .error, .named "a", ""⟩]).2
    = [⟨0, .named "a", .reply .error ""⟩] := by decide
-- without stream management and without a socket the send fails at once
example : (run (init "me@own.org" false false) [.send (.named "a") "x@y"]).2
    = [⟨0, .named "a", .sendError⟩] := by decide
-- destruction: unacknowledged packets report a send error, acknowledged ones are cancelled
example : (run (init "me@own.org" false true)
    [.send (.named "a") "x@y", .ackAll, .send (.named "b") "x@y", .destroy, .send (.named "c") "x@y"]).2
    = [⟨1, .named "b", .sendError⟩, ⟨0, .named "a", .cancelled⟩] := by decide
-- malformed iq with a live socket
example : (run (init "me@own.org" true false)
    [.send (.named "a") "x@y", .recv ⟨.iq, .other, .named "zz", "eve@evil.org"⟩]).2
    = [⟨0, .named "a", .cancelled⟩] := by decide
-- negotiated boundaries: refused resumption with a new SM session cancels; a genuine resumption retains
example : (Neg.run (Neg.init "me@own.org")
    [.connect true true false, .base (.send (.named "a") "bob@rem.org/r"), .loss, .connect true true true,
     .loss, .connect true true false]).2 = [⟨0, .named "a", .cancelled⟩] := by decide
example : (Neg.run (Neg.init "me@own.org")
    [.connect true true false, .base (.send (.named "a") "bob@rem.org/r"), .loss, .connect true true true]).1.base.tbl
    = [⟨.named "a", "bob@rem.org/r", 0⟩] := by decide
-- the former defect witness: resumable SM session, loss, session without SM, one request, loss
example : (Neg.run (Neg.init "me@own.org")
    [.connect true true false, .loss, .connect false false false, .base (.send (.named "a") "bob@rem.org/r"), .loss]).2
    = [⟨0, .named "a", .cancelled⟩] := by decide
example : (Neg.run (Neg.init "me@own.org") [.connect true true false, .loss, .connect false false false]).1.canResume = false := by decide
-- archive retrieval: the former defect witness (empty page, e2ee), a page with a deferred decryption, no e2ee
example : (Mam.run (Mam.init true false) [.start, .iqResult]).1.answered = true
    ∧ (Mam.run (Mam.init true false) [.start, .iqResult]).1.waiting = []
    ∧ (Mam.run (Mam.init true false) [.start, .iqResult]).2 = [.finishedOk 0] := by decide
example : (Mam.run (Mam.init true false) [.start, .collect true true, .collect true false, .iqResult, .decrypted 0]).2
    = [.finishedOk 2] := by decide
example : (Mam.run (Mam.init false false) [.start, .collect true false, .iqResult, .iqResult, .iqError]).2
    = [.finishedOk 1] := by decide

-- chain: hypotheses of `chain_once` (pending source, a copy and a foreign context death in between) and of `chain_once_ready`
example : C07Chain.finishes (C13.run (C13.init .value) [.thenOp 1 [], .copyHandle, .destroyCtx 2, .finish 7, .thenOp 1 []]).2 0 = 1 := by decide
example : (C13.run (C13.init .value) [.finish 7]).1.result = some 7 ∧ (C13.run (C13.init .value) [.finish 7]).1.finished = true
    ∧ C07Chain.finishes (C13.run (C13.run (C13.init .value) [.finish 7]).1 [.thenOp 1 []]).2 0 = 1 := by decide
example : C07Chain.Interlude 1 (C13.run (C13.init .value) []).1.refs
    [.copyHandle, .copyHandle, .dropHandle, .destroyCtx 2, .dropHandle] := by
  simp [C07Chain.Interlude, C13.run, C13.init]
example : C07Chain.finishes (C13.run (C13.init .value)
    [.thenOp 1 [], .copyHandle, .copyHandle, .dropHandle, .destroyCtx 2, .dropHandle, .finish 7, .dropHandle]).2 0 = 1 := by decide

end Qx.C07

/-! ### `fetchBlocklist` (one shared IQ, a list of waiting promises, a cache) -/
namespace Qx.C07

/-- **Every `fetchBlocklist()` call completes at most once**, for every history of calls, IQ
completions and session starts. -/
theorem blocklist_call_completes_at_most_once (ops : List Blocklist.Op) (n : Nat) :
    (Blocklist.calls (Blocklist.run Blocklist.init ops).2).count n ≤ 1 := by
  have h := Blocklist.reachable_inv ops
  have hn := (h.nodup_iff).mpr List.nodup_range
  exact List.nodup_iff_count.mp (List.nodup_append.mp hn).2.1 n

/-- **… and exactly once or still waiting for the shared IQ**: every call made so far is either in the
waiting list (once) or has completed (once). -/
theorem blocklist_exactly_once_or_waiting (ops : List Blocklist.Op) (n : Nat)
    (hn : n < (Blocklist.run Blocklist.init ops).1.ncalls) :
    ((Blocklist.run Blocklist.init ops).1.waiting.count n = 1 ∧ (Blocklist.calls (Blocklist.run Blocklist.init ops).2).count n = 0) ∨
    ((Blocklist.run Blocklist.init ops).1.waiting.count n = 0 ∧ (Blocklist.calls (Blocklist.run Blocklist.init ops).2).count n = 1) := by
  have := count_of_perm_range (Blocklist.reachable_inv ops) hn
  rw [List.count_append] at this
  omega

/-- **Nobody is left waiting once the shared IQ has completed or a new session has begun** (the
request table guarantees one of the two happens, `iq_eventually`): every call made so far has
completed exactly once. -/
theorem blocklist_all_complete_after_answer (ops : List Blocklist.Op) (op : Blocklist.Op)
    (hop : (∃ ok, op = .iqDone ok) ∨ op = .newSession) (n : Nat)
    (hn : n < (Blocklist.run Blocklist.init (ops ++ [op])).1.ncalls) :
    (Blocklist.calls (Blocklist.run Blocklist.init (ops ++ [op])).2).count n = 1 := by
  have hw : (Blocklist.run Blocklist.init (ops ++ [op])).1.waiting = [] := by
    have key : ∀ (s : Blocklist.St), (Blocklist.step s op).1.waiting = [] := by
      intro s
      rcases hop with ⟨ok, rfl⟩ | rfl
      · simp only [Blocklist.step]; split <;> simp_all
      · simp [Blocklist.step]
    have run_snoc : ∀ (l : List Blocklist.Op) (s : Blocklist.St),
        (Blocklist.run s (l ++ [op])).1 = (Blocklist.step (Blocklist.run s l).1 op).1 := by
      intro l
      induction l with
      | nil => intro s; simp [Blocklist.run]
      | cons x xs ih => intro s; simp [Blocklist.run, ih]
    rw [run_snoc]; exact key _
  rcases blocklist_exactly_once_or_waiting (ops ++ [op]) n hn with h | h
  · rw [hw] at h; simp at h
  · exact h.2

/-! ### `sendSensitiveIq` (encrypt → request → decrypt) -/

/-- **The promise of `sendSensitiveIq` is finished exactly when the pipeline has ended, and then
exactly once**: for every history of stage reports (in any order, repeated, with the extension
removed at any point) the number of finishes is 1 if the stage is `done` and 0 otherwise. -/
theorem sensitive_finished_iff_done (ops : List Sensitive.Op) :
    ((Sensitive.run Sensitive.init ops).1.stage = .done → Sensitive.finishes (Sensitive.run Sensitive.init ops).2 = 1) ∧
    ((Sensitive.run Sensitive.init ops).1.stage ≠ .done → Sensitive.finishes (Sensitive.run Sensitive.init ops).2 = 0) := by
  have := Sensitive.run_inv ops Sensitive.init 0 ⟨(by intro h; cases h), fun _ => rfl⟩
  simpa [Sensitive.Inv] using this

/-- **No stage can stall the pipeline**: in each waiting stage the report of that stage moves on
(to the next stage or to `done`), whatever it says. -/
theorem sensitive_stage_reports_advance (s : Sensitive.St) :
    (s.stage = .encrypting → ∀ ok, (Sensitive.step s (.encDone ok)).1.stage = (if ok then .sent else .done)) ∧
    (s.stage = .sent → ∀ r, (Sensitive.step s (.iqDone r)).1.stage = (if r ∧ s.ext then .decrypting else .done)) ∧
    (s.stage = .decrypting → ∀ r, (Sensitive.step s (.decDone r)).1.stage = .done) := by
  refine ⟨?_, ?_, ?_⟩
  · intro h ok; cases ok <;> simp [Sensitive.step, h]
  · intro h r; by_cases hc : r = true ∧ s.ext = true <;> simp [Sensitive.step, h, hc]
  · intro h r; simp [Sensitive.step, h]

-- non-vacuity
example : (Blocklist.run Blocklist.init [.fetch, .fetch, .iqDone true, .fetch, .newSession, .fetch, .iqDone false]).2
    = [⟨0, true⟩, ⟨1, true⟩, ⟨2, true⟩, ⟨3, false⟩] := by decide
example : (Sensitive.run Sensitive.init [.start, .encDone true, .iqDone true, .decDone .notEncrypted, .decDone .error]).2
    = [.finishedOk false] := by decide
example : (Sensitive.run Sensitive.init [.start, .dropExtension, .encDone true, .iqDone true]).2 = [.finishedErr] := by decide

end Qx.C07

/-! ### Promise and chaining sites of the managers (table regenerated from src/client on every run)

`Generated.sites` lists every `QXmppPromise<` construction and every chain / chainIq / chainSuccess /
chainMapSuccess / parseIq use in src/client.  The translator also checks that `chainIq`, `chainSuccess`
and `chainMapSuccess` are `return chain<…>(…)` and that `chain` is "one promise, one continuation on
the source, finish inside it" — the pattern `chain_once` is about. -/
namespace Qx.C07
open Generated

def Generated.Site.isChainLike (s : Site) : Bool :=
  s.kind = .chain || s.kind = .chainIq || s.kind = .chainSuccess || s.kind = .chainMapSuccess

/-- task-returning callees accepted as the source of a chain although they hold no chain site
themselves: `publishOwnPepItem` is `return publishItem(…)` (plain forwarding, header template);
`exportFunc` is the export callback handed to `registerExportData` by another manager (its
exactly-once completion is that manager's own site in this table). -/
def forwardingSources : List String := ["publishOwnPepItem", "exportFunc"]

/-- unqualified names of the functions whose returned task is built by a chain-like call -/
def chainBuiltNames : List String :=
  (sites.filter fun s => s.isChainLike && s.returned).map (·.name)

/-- a *pure-chain* site: the function returns the combinator applied directly to a task of the request
table (`send(Iq|GenericIq|SensitiveIq)`), to the result of another pure-chain function, or to a
forwarding source — nothing else happens to the promise, so `chain_once` / `chain_once_ready` apply
with the request task (`iq_eventually_exactly_once`) as the source, inductively along the calls. -/
def Generated.Site.pureChain (s : Site) : Bool :=
  s.returned && (s.source = "requestTable" || chainBuiltNames.contains s.source || forwardingSources.contains s.source)

/-- **Every chain-like site in the managers is a pure-chain site** — so each of them is covered by
`chain_at_most_once` / `chain_once` / `chain_once_ready`.  Fails after regeneration when a manager
chains over something else or does more than return the chained task. -/
theorem all_chain_sites_pure : ∀ s ∈ sites, s.isChainLike = true → s.pureChain = true := by decide

/-- what ties a hand-rolled promise to this property -/
inductive Coverage
  | modelled (machine : String)     -- own Lean machine + exactly-once theorem + correspondence through the real manager
  | partC                           -- only counted on the implementation (harness part C), no model
  | notExercised                    -- neither: reported in the evidence
  | streamInternal                  -- negotiation / connection set-up promises of the stream (properties C04, C06, C10)
  | otherProperty (id : String)     -- belongs to another property's model
  deriving DecidableEq, Repr

/-- the hand-rolled promises (a `QXmppPromise` finished by the manager's own code), by file and
enclosing function/struct.  A new one must be added here — with an honest coverage — or
`all_promise_sites_classified` fails. -/
def ownPromiseSites : List (String × String × Coverage) := [
  ("QXmppOutgoingClient_p.h", "IqState", .modelled "request table (Qx.C07.step)"),
  ("QXmppMamManager.cpp", "RetrieveRequestState", .modelled "Qx.C07.Mam"),
  ("QXmppBlockingManager.cpp", "QXmppBlockingManagerPrivate", .modelled "Qx.C07.Blocklist"),
  ("QXmppBlockingManager.cpp", "QXmppBlockingManager::fetchBlocklist", .modelled "Qx.C07.Blocklist"),
  ("QXmppClient.cpp", "QXmppClient::sendSensitiveIq", .modelled "Qx.C07.Sensitive"),
  ("QXmppClient.cpp", "QXmppClient::sendSensitive", .partC),
  ("QXmppAccountMigrationManager.cpp", "QXmppAccountMigrationManager::importData", .partC),
  ("QXmppAccountMigrationManager.cpp", "QXmppAccountMigrationManager::exportData", .partC),
  ("QXmppMixManager.cpp", "QXmppMixManager::onRegistered", .partC),
  ("QXmppRosterManager.cpp", "QXmppRosterManager::onRegistered", .partC),
  ("QXmppCallInviteManager.cpp", "QXmppCallInviteManager::invite", .notExercised),
  ("QXmppJingleMessageInitiationManager.cpp", "QXmppJingleMessageInitiationManager::propose", .notExercised),
  ("QXmppAtmManager.cpp", "QXmppAtmManager::makeTrustDecisions", .otherProperty "C18"),
  ("QXmppAtmManager.cpp", "QXmppAtmManager::handleMessage", .otherProperty "C18"),
  ("QXmppAtmManager.cpp", "QXmppAtmManager::authenticate", .otherProperty "C18"),
  ("QXmppAtmManager.cpp", "QXmppAtmManager::distrust", .otherProperty "C18"),
  ("QXmppAtmManager.cpp", "QXmppAtmManager::makePostponedTrustDecisions", .otherProperty "C18"),
  ("QXmppAtmManager.cpp", "QXmppAtmManager::removePostponedTrustDecisions", .otherProperty "C18"),
  ("QXmppTrustManager.cpp", "QXmppTrustManager::setTrustLevel", .otherProperty "C18"),
  ("QXmppOutgoingClient.cpp", "join", .streamInternal),
  ("QXmppOutgoingClient.cpp", "lookupXmppSrvRecords", .streamInternal),
  ("QXmppOutgoingClient.cpp", "BindManager::bindAddress", .streamInternal),
  ("QXmppOutgoingClient.h", "C2sStreamManager", .streamInternal),
  ("QXmppOutgoingClient_p.h", "StarttlsManager", .streamInternal),
  ("QXmppOutgoingClient_p.h", "BindManager", .streamInternal),
  ("QXmppOutgoingClient_p.h", "NonSaslAuthManager", .streamInternal),
  ("QXmppSaslManager.cpp", "SaslManager::authenticate", .streamInternal),
  ("QXmppSaslManager_p.h", "SaslManager", .streamInternal),
  ("QXmppSaslManager_p.h", "Sasl2Manager", .streamInternal)
]

/-- **Every promise construction in src/client is one of the classified hand-rolled sites.** A new
`QXmppPromise` in a manager breaks this obligation after regeneration. -/
theorem all_promise_sites_classified :
    ∀ s ∈ sites, s.kind = .promise →
      (ownPromiseSites.any fun e => e.1 = s.file && e.2.1 = s.func) = true := by decide

/-- … and no classification entry is stale (each still names a promise construction in the tree). -/
theorem classified_sites_exist :
    ∀ e ∈ ownPromiseSites, (sites.any fun s => s.kind = .promise && s.file = e.1 && s.func = e.2.1) = true := by
  decide

/-- `parseIq` outside the combinators appears only inside the continuation of a classified
hand-rolled site (or of a fire-and-forget request that returns no task: carbons). -/
theorem parseIq_uses_classified :
    ∀ s ∈ sites, s.kind = .parseIq →
      ((ownPromiseSites.any fun e => e.1 = s.file && e.2.1 = s.func) || s.func = "QXmppCarbonManagerV2::enableCarbons") = true := by
  decide

end Qx.C07
