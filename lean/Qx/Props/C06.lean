import Qx.Proofs.C06
import Qx.Proofs.Base64
/-!
# C06 — SASL exchanges follow their RFCs; a server that cannot prove itself is refused

Property theorems only (model: `Qx/Model/C06Sasl.lean`, helper lemmas: `Qx/Proofs/C06.lean`).

Every statement is parametric in the hash family `C : Crypto` (`H`, `HMAC`, `Hi`) and in `md5`: no hash is ever
evaluated.  Byte strings are arbitrary (`Bytes = List UInt8`) — user names and passwords are the UTF-8 bytes of
the *normalised* strings the specifications operate on (the code applies no SASLprep).
`Ref.*` is the reference written from RFC 5802 / 2831 / 4616 and XEP-0484 (second half of the model file).
-/
namespace Qx.C06
open Qx Qx.Bytes Qx.Crypto

/-! ## SCRAM -/

/-- **The SCRAM messages are those of RFC 5802 §7.**  For every credential — *no hypothesis on the user name any more*:
`,` and `=` are sent as `=2C` / `=3D` since repo commit 43097ab, and the two `replace` calls of the code are proved
equal to the RFC's `saslname` — and every server-first message the client accepts: the first message is
`n,,n=<saslname(user)>,r=<c-nonce>` and the final one is `c=biws,r=<nonce of the server-first message>,p=<base64 of some proof>`.
What remains outside the statement: the user name is taken in its normalised form (no SASLprep in the code), and the
client nonce is whatever `generateNonce` produced (base64 text, hence comma-free, in production). -/
theorem scram_messages_rfc (C : Crypto) (cr : Cred) (sf : Bytes) :
    (scramStep C cr {} []).2 = some (Ref.clientFirst cr.user cr.cnonce)
    ∧ ∀ cf, (scramStep C cr (scramStep C cr {} []).1 sf).2 = some cf →
        ∃ proof, cf = Ref.clientFinalWithoutProof (gs2Get (parseGS2 sf) 114) ++ [44, 112, 61] ++ Base64.encode proof := by
  constructor
  · rw [scram_step0]
    simp [Ref.clientFirst, scramSaslName_eq, scramBare, sGs2Header, sNEq, sCommaREq]
  · intro cf h
    rw [scram_step0] at h
    simp only [scramStep, scramSt1] at h
    simp only [Nat.succ_ne_zero, if_false, if_true] at h
    split at h
    · simp at h
    · simp only [Option.some.injEq] at h
      exact ⟨_, by rw [← h, scramFinalBare_eq]; rfl⟩

/-- **Any conforming server holding the same secret accepts** (RFC 5802 §3).  For every user, password, salt,
iteration count (1 … 2³¹−1, the range the client accepts) and pair of comma-free nonces: the client answers the
RFC server-first message, and a server whose record was derived from the same password accepts the client-final
message — `ClientProof ⊕ ClientSignature = ClientKey` and `H(ClientKey) = StoredKey`.
Only the output length of HMAC is assumed (`hM`). -/
theorem scram_server_accepts (C : Crypto) (n : Nat) (hM : ∀ k m, (C.HMAC k m).length = n)
    (cr : Cred) (salt snonce : Bytes) (i : Nat)
    (hsalt : salt ≠ []) (hi : 1 ≤ i ∧ i ≤ 2147483647)
    (hc : (44 : UInt8) ∉ cr.cnonce) (hs : (44 : UInt8) ∉ snonce) :
    ∃ cf1 cf,
      (scramStep C cr {} []).2 = some cf1
      ∧ (scramStep C cr (scramStep C cr {} []).1 (Ref.serverFirst cr.cnonce snonce salt i)).2 = some cf
      ∧ Ref.scramServerVerify C (Ref.scramRecordOf C cr.pass salt i) cf1
          (Ref.serverFirst cr.cnonce snonce salt i) (cr.cnonce ++ snonce) cf = true := by
  obtain ⟨cf1, cf, sfin, h1, h2, h3, _⟩ := scram_full_exchange C n hM cr salt snonce i hsalt hi hc hs
  exact ⟨cf1, cf, h1, h2, by simp [Ref.scramServerVerify, h3]⟩

/-- **The honest exchange completes with the server verified.**  Same setting: the server-final message the
reference server answers with is accepted by the client (empty response, step 3) and the ghost flag `verified`
is set — i.e. the signature the client expects is the RFC's `HMAC(ServerKey, AuthMessage)`. -/
theorem scram_honest_exchange_verifies (C : Crypto) (n : Nat) (hM : ∀ k m, (C.HMAC k m).length = n)
    (cr : Cred) (salt snonce : Bytes) (i : Nat)
    (hsalt : salt ≠ []) (hi : 1 ≤ i ∧ i ≤ 2147483647)
    (hc : (44 : UInt8) ∉ cr.cnonce) (hs : (44 : UInt8) ∉ snonce) :
    ∃ cf1 cf sfin,
      (scramStep C cr {} []).2 = some cf1
      ∧ (scramStep C cr (scramStep C cr {} []).1 (Ref.serverFirst cr.cnonce snonce salt i)).2 = some cf
      ∧ Ref.scramServerFinal C (Ref.scramRecordOf C cr.pass salt i) cf1
          (Ref.serverFirst cr.cnonce snonce salt i) (cr.cnonce ++ snonce) cf = some sfin
      ∧ (scramStep C cr (scramStep C cr (scramStep C cr {} []).1 (Ref.serverFirst cr.cnonce snonce salt i)).1 sfin).2 = some []
      ∧ (scramStep C cr (scramStep C cr (scramStep C cr {} []).1 (Ref.serverFirst cr.cnonce snonce salt i)).1 sfin).1.verified = true :=
  scram_full_exchange C n hM cr salt snonce i hsalt hi hc hs

/-- **Exact acceptance condition for an arbitrary server record** (the "none holding a different secret" half,
as far as algebra goes): a server holding `StoredKey' = K` accepts the client's final message iff
`H(ClientKey ⊕ HMAC(StoredKey, AM) ⊕ HMAC(K, AM)) = K`.  For `K ≠ StoredKey` this is a fixed-point condition on `H`
that the cryptographic assumption (one-wayness of `H`, unforgeability of `HMAC`) excludes; it is not provable
for an arbitrary function `H` and is exercised on the implementation by the oracle (a different password is
rejected for every generated case). -/
theorem scram_other_record_condition_partial (C : Crypto) (n : Nat) (hM : ∀ k m, (C.HMAC k m).length = n)
    (cr : Cred) (salt snonce : Bytes) (i : Nat) (rec : Ref.ScramRecord)
    (hsalt : salt ≠ []) (hi : 1 ≤ i ∧ i ≤ 2147483647)
    (hc : (44 : UInt8) ∉ cr.cnonce) (hs : (44 : UInt8) ∉ snonce) :
    ∃ cf1 cf am,
      (scramStep C cr {} []).2 = some cf1
      ∧ (scramStep C cr (scramStep C cr {} []).1 (Ref.serverFirst cr.cnonce snonce salt i)).2 = some cf
      ∧ (Ref.scramServerVerify C rec cf1 (Ref.serverFirst cr.cnonce snonce salt i) (cr.cnonce ++ snonce) cf = true ↔
          C.H (xorBytes (xorBytes (C.HMAC (Ref.storedKey C (Ref.saltedPassword C cr.pass salt i)) am)
                  (Ref.clientKey C (Ref.saltedPassword C cr.pass salt i)))
                (C.HMAC rec.storedKey am)) = rec.storedKey) :=
  scram_other_record C n hM cr salt snonce i rec hsalt hi hc hs

/-- **A server-first message whose nonce does not extend the client's is refused**, whatever else it contains, and
the client stays where it was (step 1). -/
theorem scram_rejects_foreign_nonce (C : Crypto) (cr : Cred) (s : ScramSt) (sf : Bytes) (hstep : s.step = 1)
    (h : cr.cnonce.isPrefixOf (gs2Get (parseGS2 sf) 114) = false) :
    scramStep C cr s sf = (s, none) := by
  simp [scramStep, hstep, h]

/-- …in particular a message without any `r=` attribute. -/
theorem scram_rejects_missing_nonce (C : Crypto) (cr : Cred) (s : ScramSt) (sf : Bytes) (hstep : s.step = 1)
    (hn : cr.cnonce ≠ []) (h : ∀ p ∈ parseGS2 sf, p.1 ≠ 114) :
    scramStep C cr s sf = (s, none) := by
  apply scram_rejects_foreign_nonce C cr s sf hstep
  rw [gs2Get_absent _ _ h]
  cases hc : cr.cnonce with
  | nil => exact absurd hc hn
  | cons _ _ => rfl

/-- **Documented surprise, stated so it cannot drift silently:** a server-first message whose nonce is *exactly* the
client's (no server part at all — RFC 5802 §7 requires a non-empty `s-nonce`) is accepted: the check is
`startsWith`, not "properly extends".  (The client nonce alone already protects the client against replay; the
property's refusal clause is read as "does not have the client nonce as a prefix".) -/
theorem scram_accepts_unextended_nonce (C : Crypto) (cr : Cred) (s : ScramSt) (sf : Bytes) (hstep : s.step = 1)
    (hm : gs2Has (parseGS2 sf) 109 = false)
    (hn : gs2Get (parseGS2 sf) 114 = cr.cnonce)
    (hs : Base64.decodeLenient (gs2Get (parseGS2 sf) 115) ≠ [])
    (hi : 1 ≤ toInt (gs2Get (parseGS2 sf) 105)) :
    (scramStep C cr s sf).2.isSome = true := by
  have hp : cr.cnonce.isPrefixOf (gs2Get (parseGS2 sf) 114) = true := by
    rw [hn]; have := isPrefixOf_append cr.cnonce []; rwa [List.append_nil] at this
  rw [scram_step1_ok C cr s sf hstep hm hp hs hi]
  rfl

/-- **The reserved attribute `m=` causes failure** (RFC 5802 §5.1: "its presence in a client or a server message MUST
cause authentication failure"; repo commit ff6a7ed): a server-first message containing it is refused with the
step kept, a server-final message containing it is refused even when it carries the right signature — no
response, not verified. (Witness of the former finding, `m=e,r=xy,s=QQ==,i=1`, in the examples below.) -/
theorem scram_rejects_reserved_m (C : Crypto) (cr : Cred) (s : ScramSt) (msg : Bytes)
    (hm : gs2Has (parseGS2 msg) 109 = true) :
    (s.step = 1 → scramStep C cr s msg = (s, none))
    ∧ (s.step = 2 → (scramStep C cr s msg).2 = none ∧ (scramStep C cr s msg).1.verified = s.verified) := by
  constructor <;> intro hstep <;> simp [scramStep, hstep, hm]

/-- **Invalid parameters are refused** (as coded): a salt that decodes to nothing, or an iteration count whose
`toInt` value is below 1. -/
theorem scram_rejects_bad_params (C : Crypto) (cr : Cred) (s : ScramSt) (sf : Bytes) (hstep : s.step = 1)
    (h : Base64.decodeLenient (gs2Get (parseGS2 sf) 115) = [] ∨ toInt (gs2Get (parseGS2 sf) 105) < 1) :
    scramStep C cr s sf = (s, none) := by
  rcases h with h | h
  · simp [scramStep, hstep, h]
  · simp [scramStep, hstep, h]

/-- …a missing `s=` or `i=` attribute, an empty salt, a count without any digit (e.g. `abc`, empty), a literal `0`. -/
theorem scram_rejects_missing_or_nonnumeric (C : Crypto) (cr : Cred) (s : ScramSt) (sf : Bytes) (hstep : s.step = 1)
    (h : (∀ p ∈ parseGS2 sf, p.1 ≠ 115) ∨ gs2Get (parseGS2 sf) 115 = []
       ∨ (∀ p ∈ parseGS2 sf, p.1 ≠ 105) ∨ (∀ c ∈ gs2Get (parseGS2 sf) 105, isDigit c = false)
       ∨ gs2Get (parseGS2 sf) 105 = [48]) :
    scramStep C cr s sf = (s, none) := by
  apply scram_rejects_bad_params C cr s sf hstep
  rcases h with h | h | h | h | h
  · left; rw [gs2Get_absent _ _ h]; rfl
  · left; rw [h]; rfl
  · right; rw [gs2Get_absent _ _ h]; decide
  · right; rw [toInt_no_digit _ h]; decide
  · right; rw [h]; decide

/-- **A wrong server signature is refused** when the server-final message arrives as a challenge: no response, the
flag stays unset, and the exchange cannot be resumed — every later challenge is refused too. -/
theorem scram_rejects_bad_signature (C : Crypto) (cr : Cred) (s : ScramSt) (sfin : Bytes) (hstep : s.step = 2)
    (h : Base64.decodeLenient (gs2Get (parseGS2 sfin) 118) ≠ s.serverSig) :
    (scramStep C cr s sfin).2 = none
    ∧ (scramStep C cr s sfin).1.verified = s.verified
    ∧ ∀ later, scramStep C cr (scramStep C cr s sfin).1 later = ((scramStep C cr s sfin).1, none) := by
  simp [scramStep, hstep, h]

/-- **`verified` means what it says.**  `verified` is the C++ member `m_serverVerified`, read through the public
`QXmppSaslClient::serverVerified()`; the harness prints that value after every `respond()` call and the
correspondence compares it with the model's (`v=0/1` in each observation), so this is a statement about an
observable, not about model-internal bookkeeping: it can only become true by a step-2 comparison of the presented
`v=` value with the expected signature that came out equal. -/
theorem scram_verified_only_by_comparison (C : Crypto) (cr : Cred) (s : ScramSt) (ch : Bytes)
    (h : (scramStep C cr s ch).1.verified = true) :
    s.verified = true ∨ (s.step = 2 ∧ Base64.decodeLenient (gs2Get (parseGS2 ch) 118) = s.serverSig) := by
  by_cases h0 : s.step = 0
  · left; simpa [scramStep, h0] using h
  · by_cases h1 : s.step = 1
    · left
      unfold scramStep at h
      rw [if_neg h0, if_pos h1] at h
      dsimp only at h
      split at h <;> simpa using h
    · by_cases h2 : s.step = 2
      · by_cases heq : Base64.decodeLenient (gs2Get (parseGS2 ch) 118) = s.serverSig
        · right; exact ⟨h2, heq⟩
        · left
          have hc : (!gs2Has (parseGS2 ch) 109 && decide (Base64.decodeLenient (gs2Get (parseGS2 ch) 118) = s.serverSig)) = false := by
            simp [heq]
          unfold scramStep at h
          rw [if_neg h0, if_neg h1, if_pos h2] at h
          simp only [hc] at h
          simpa using h
      · left; simpa [scramStep, h0, h1, h2] using h

/-- **The reference server is strict** (so "a conforming server accepts" is not satisfied by a lax reference).  Whatever
the reference RFC 5802 server accepts is, byte for byte, `n,,<bare>` followed later by
`c=biws,r=<issued nonce>,p=<the CANONICAL base64 of a proof>` where the proof opens the stored key; and its answer is
`v=<base64 ServerSignature>`.  Rests on `Base64.eq_encode_of_decode?`: the strict decoder accepts only the
encoder's image, so no second spelling of a proof (padding variants, stray bits, junk characters) is accepted. -/
theorem ref_server_accepts_only_rfc_messages (C : Crypto) (rec : Ref.ScramRecord)
    (clientFirstMsg serverFirstMsg nonce clientFinalMsg out : Bytes)
    (h : Ref.scramServerFinal C rec clientFirstMsg serverFirstMsg nonce clientFinalMsg = some out) :
    ∃ bare proof,
      clientFirstMsg = [110, 44, 44] ++ bare
      ∧ clientFinalMsg = Ref.clientFinalWithoutProof nonce ++ [44, 112, 61] ++ Base64.encode proof
      ∧ C.H (xorBytes proof (C.HMAC rec.storedKey
            (bare ++ [44] ++ serverFirstMsg ++ [44] ++ Ref.clientFinalWithoutProof nonce))) = rec.storedKey
      ∧ out = [118, 61] ++ Base64.encode (C.HMAC rec.serverKey
            (bare ++ [44] ++ serverFirstMsg ++ [44] ++ Ref.clientFinalWithoutProof nonce)) := by
  unfold Ref.scramServerFinal at h
  split at h
  · rename_i bare proof64 hb hp
    split at h
    · rename_i proof hd
      simp only at h
      split at h
      · rename_i hc
        refine ⟨bare, proof, stripPrefix_some hb, ?_, hc.2, (Option.some.inj h).symm⟩
        rw [stripPrefix_some hp, Base64.eq_encode_of_decode? _ _ hd]
      · cases h
    · cases h
  · cases h

/-- two client-final messages the reference server accepts for the same exchange and carrying the same proof bytes
are the same message: acceptance does not depend on a spelling of the proof -/
theorem ref_server_proof_spelling_unique (p₁ p₂ proof : Bytes)
    (h₁ : Base64.decode? p₁ = some proof) (h₂ : Base64.decode? p₂ = some proof) : p₁ = p₂ :=
  Base64.decode?_inj h₁ h₂

/-! ## DIGEST-MD5 -/

/-- **`calculateDigest` is the RFC 2831 §2.1.2.1 response-value** (`method = AUTHENTICATE`) **and the §2.1.3 rspauth value**
(`method` empty), once the secret is `H(user:realm:passwd)` — **for user name, realm and password that are their own
RFC 2831 hash encoding** (`Ref.digestEnc x = x`: pure ASCII, `digestEnc_ascii`, or containing a character beyond
U+00FF).  The hypothesis cannot be dropped: the code hashes the UTF-8 bytes, the RFC prescribes ISO 8859-1 for strings
representable in it — `C06_defect_digest_latin1_hashed_as_utf8`. -/
theorem digest_formula_is_rfc2831 (md5 : Bytes → Bytes) (method uri user realm pass nonce cnonce nc : Bytes)
    (hu : Ref.digestEnc user = user) (hr : Ref.digestEnc realm = realm) (hp : Ref.digestEnc pass = pass) :
    calculateDigest md5 method uri (md5 (user ++ 58 :: (realm ++ 58 :: pass))) nonce cnonce nc
      = Ref.responseValue md5 method user realm pass nonce cnonce nc uri := by
  simp [calculateDigest, Ref.responseValue, Ref.KD, Ref.HEX, Ref.A1, Ref.A2, sAuthColon, hu, hr, hp]

/-- **Today's code hashes ISO 8859-1 representable credentials as UTF-8**: for the user name `é` (UTF-8 `C3 A9`) the
value `calculateDigest` produces is not the RFC 2831 response-value (which hashes the single byte `E9`); witness with
`md5 := id`, everything else empty. A conforming server (e.g. one sharing its hashed-secret database with HTTP
digest, the reason the RFC gives) rejects such a login. -/
theorem C06_defect_digest_latin1_hashed_as_utf8 :
    ¬ ∀ (md5 : Bytes → Bytes) (method uri user realm pass nonce cnonce nc : Bytes),
        calculateDigest md5 method uri (md5 (user ++ 58 :: (realm ++ 58 :: pass))) nonce cnonce nc
          = Ref.responseValue md5 method user realm pass nonce cnonce nc uri := by
  intro h
  have := h id [] [] [195, 169] [] [] [] [] []
  revert this
  decide

/-- **The digest-response is the one RFC 2831 prescribes and a conforming server accepts it.**  For every credential
and every challenge the client answers (it carries a nonce; `auth` is among the offered qop values, or none is
offered): the response is the serialization of a directive list whose `response` is the RFC response-value for
(user, realm of the challenge, password, nonce, cnonce, nc=00000001, digest-uri); an RFC 2831 server that issued
this nonce/realm and holds the same password accepts that list, and the `rspauth` it answers with is exactly the
value the client will insist on in the next step.  Hypotheses `hu hr hp`: see `digest_formula_is_rfc2831`. -/
theorem digest_response_is_rfc2831 (md5 : Bytes → Bytes) (cr : Cred) (s : DigestSt) (ch nonce : Bytes)
    (hstep : s.step = 1) (hn : mapGet? (parseMessage ch) kNonce = some nonce)
    (hq : (splitOn 44 ((mapGet? (parseMessage ch) kQop).getD sAuth)).contains sAuth = true)
    (hu : Ref.digestEnc cr.user = cr.user) (hr : Ref.digestEnc (mapGet (parseMessage ch) kRealm) = mapGet (parseMessage ch) kRealm)
    (hp : Ref.digestEnc cr.pass = cr.pass) :
    (digestStep md5 cr s ch).2
        = some (serializeMessage (digestOutput md5 cr (mapGet (parseMessage ch) kRealm) nonce
            (md5 (cr.user ++ 58 :: (mapGet (parseMessage ch) kRealm ++ 58 :: cr.pass)))))
    ∧ mapGet? (digestOutput md5 cr (mapGet (parseMessage ch) kRealm) nonce
            (md5 (cr.user ++ 58 :: (mapGet (parseMessage ch) kRealm ++ 58 :: cr.pass)))) kResponse
        = some (Ref.responseValue md5 sAuthenticate cr.user (mapGet (parseMessage ch) kRealm) cr.pass nonce cr.cnonce sNc1
            (digestUriOf cr))
    ∧ Ref.digestServerRspauth md5 cr.user (mapGet (parseMessage ch) kRealm) cr.pass nonce (digestUriOf cr)
          (digestOutput md5 cr (mapGet (parseMessage ch) kRealm) nonce
            (md5 (cr.user ++ 58 :: (mapGet (parseMessage ch) kRealm ++ 58 :: cr.pass))))
        = some (calculateDigest md5 [] (digestUriOf cr) (digestStep md5 cr s ch).1.secret (digestStep md5 cr s ch).1.nonce
            cr.cnonce sNc1) := by
  have hq' : sAuth ∈ splitOn 44 ((mapGet? (parseMessage ch) kQop).getD sAuth) := by simpa using hq
  have hstepEq : digestStep md5 cr s ch =
      ({ s with step := 2, nonce := nonce, secret := md5 (cr.user ++ 58 :: (mapGet (parseMessage ch) kRealm ++ 58 :: cr.pass)) },
       some (serializeMessage (digestOutput md5 cr (mapGet (parseMessage ch) kRealm) nonce
            (md5 (cr.user ++ 58 :: (mapGet (parseMessage ch) kRealm ++ 58 :: cr.pass)))))) := by
    simp [digestStep, hstep, hn, hq']
  rw [hstepEq]
  generalize mapGet (parseMessage ch) kRealm = realm at hr ⊢
  obtain ⟨g1, g2, g3, g4, g5, g6, g7, g8⟩ := digestOutput_gets md5 cr realm nonce (md5 (cr.user ++ 58 :: (realm ++ 58 :: cr.pass)))
  refine ⟨rfl, ?_, ?_⟩
  · rw [g8, digest_formula_is_rfc2831 _ _ _ _ _ _ _ _ _ hu hr hp]
  · simp only [Ref.digestServerRspauth, mapGet, g1, g2, g3, g4, g5, g6, g7, g8, Option.getD_some]
    rw [digest_formula_is_rfc2831 _ _ _ _ _ _ _ _ _ hu hr hp, digest_formula_is_rfc2831 _ _ _ _ _ _ _ _ _ hu hr hp]
    simp [sAuth, sNc1, sAuthenticate]

/-- **A wrong `rspauth` is refused**: in step 2 the client answers (with the empty response) exactly when the
`rspauth` directive equals the RFC 2831 §2.1.3 value; otherwise it refuses and stays in step 2. -/
theorem digest_rspauth_checked (md5 : Bytes → Bytes) (cr : Cred) (s : DigestSt) (ch : Bytes) (hstep : s.step = 2) :
    (mapGet (parseMessage ch) kRspauth = calculateDigest md5 [] (digestUriOf cr) s.secret s.nonce cr.cnonce sNc1
        → digestStep md5 cr s ch = ({ s with step := 3 }, some []))
    ∧ (mapGet (parseMessage ch) kRspauth ≠ calculateDigest md5 [] (digestUriOf cr) s.secret s.nonce cr.cnonce sNc1
        → digestStep md5 cr s ch = (s, none)) := by
  constructor <;> intro h <;> simp [digestStep, hstep, h]

/-- **A challenge without nonce, or offering only other qop values than `auth`, is refused** and the step is kept. -/
theorem digest_rejects_bad_challenge (md5 : Bytes → Bytes) (cr : Cred) (s : DigestSt) (ch : Bytes) (hstep : s.step = 1)
    (h : mapGet? (parseMessage ch) kNonce = none
       ∨ (splitOn 44 ((mapGet? (parseMessage ch) kQop).getD sAuth)).contains sAuth = false) :
    digestStep md5 cr s ch = (s, none) := by
  rcases h with h | h
  · simp [digestStep, hstep, h]
  · cases hn : mapGet? (parseMessage ch) kNonce with
    | none => simp [digestStep, hstep, hn]
    | some n =>
      have h' : ¬ sAuth ∈ splitOn 44 ((mapGet? (parseMessage ch) kQop).getD sAuth) := by simpa using h
      simp [digestStep, hstep, hn, h']

/-- **Exact condition for a server holding another password**: it accepts the client's directive list iff its own
RFC response-value for that password equals the one the client sent.  With `pass' ≠ pass` this is an MD5
collision-type event (named assumption, not provable for an arbitrary `md5`); exercised by the oracle. -/
theorem digest_other_password_condition_partial (md5 : Bytes → Bytes) (cr : Cred) (realm nonce pass' : Bytes)
    (hu : Ref.digestEnc cr.user = cr.user) (hr : Ref.digestEnc realm = realm) (hp : Ref.digestEnc cr.pass = cr.pass) :
    ((Ref.digestServerRspauth md5 cr.user realm pass' nonce (digestUriOf cr)
        (digestOutput md5 cr realm nonce (md5 (cr.user ++ 58 :: (realm ++ 58 :: cr.pass))))).isSome = true
      ↔ Ref.responseValue md5 sAuthenticate cr.user realm pass' nonce cr.cnonce sNc1 (digestUriOf cr)
          = Ref.responseValue md5 sAuthenticate cr.user realm cr.pass nonce cr.cnonce sNc1 (digestUriOf cr)) := by
  obtain ⟨g1, g2, g3, g4, g5, g6, g7, g8⟩ := digestOutput_gets md5 cr realm nonce (md5 (cr.user ++ 58 :: (realm ++ 58 :: cr.pass)))
  simp only [Ref.digestServerRspauth, mapGet, g1, g2, g3, g4, g5, g6, g7, g8, Option.getD_some]
  rw [digest_formula_is_rfc2831 _ _ _ _ _ _ _ _ _ hu hr hp]
  simp only [sAuth, sNc1, sAuthenticate, true_and, Option.some.injEq]
  constructor
  · intro h; split at h
    · rename_i hc; exact hc.symm
    · simp at h
  · intro h; rw [if_pos h.symm]; rfl

/-- **`parseMessage` inverts `serializeMessage`** on every directive map, *whatever the values* (the "no value ends in
a backslash" hypothesis is gone since repo commit aca51c7: the quoted-pair scanner finds the real closing quote).
The remaining hypotheses describe the domain, not a defect: `m` is the content of a `QMap` (keys strictly
ascending), and a key contains no `=` and no surrounding white space — the grammar has no way to quote a key
(`parseMessage` cuts it at the first `=` and trims it), and RFC 2831 keys are tokens. -/
theorem digest_parse_serialize (m : DMap)
    (hmap : m.Pairwise fun a b => bytesLt a.1 b.1 = true)
    (hkeys : ∀ e ∈ m, (61 : UInt8) ∉ e.1 ∧ trim e.1 = e.1) :
    parseMessage (serializeMessage m) = m :=
  parse_serialize m hmap hkeys

/-- **Today's serializer leaves simple values unquoted** although RFC 2831 §2.1.2 prescribes
`username="…"`, `realm="…"`, `nonce="…"`, `cnonce="…"`, `digest-uri="…"` with mandatory quotes: user `u` goes out as
`username=u`. (Grammar-level deviation; servers in the field accept both forms.) -/
theorem C06_defect_digest_unquoted_directive :
    ¬ ∀ user : Bytes, serEntry (kUsername, user) = kUsername ++ [61, 34] ++ escape user ++ [34] := by
  intro h
  have := h [117]
  revert this
  decide

/-! ## PLAIN and HT -/

/-- **PLAIN is RFC 4616 §2**: the first response is `NUL user NUL password` whatever the challenge, every later call
is refused. -/
theorem plain_is_rfc4616 (cr : Cred) (ch : Bytes) :
    plainStep cr 0 ch = (1, some (Ref.plainMessage cr.user cr.pass))
    ∧ ∀ n, n ≠ 0 → plainStep cr n ch = (n, none) := by
  constructor
  · simp [plainStep, Ref.plainMessage]
  · intro n hn; simp [plainStep, hn]

/-- **A server holding the same password accepts, a server holding any other password refuses** (user name and
password free of NUL, as RFC 4616 requires). -/
theorem plain_server_accepts_iff (user pass pass' : Bytes) (hu : (0 : UInt8) ∉ user) (hp : (0 : UInt8) ∉ pass) :
    Ref.plainServerVerify user pass' (Ref.plainMessage user pass) = true ↔ pass' = pass := by
  rw [Ref.plainServerVerify, splitOn_plain user pass hu hp]
  simp
  exact eq_comm

/-- **HT-*-NONE is XEP-0484 §3.1**: with a token stored for exactly this mechanism and the empty challenge the
response is `user NUL HMAC(token, "Initiator")`. -/
theorem ht_is_xep0484 (C : Crypto) (cr : Cred) (tok : Bytes) (h : cr.token = some (cr.htMech, tok)) :
    htStep C cr false [] = (true, some (Ref.htMessage C cr.user tok)) := by
  simp [htStep, h, Ref.htMessage, sInitiator]

/-- **HT refuses** a second call, a non-empty challenge, a missing token and a token for another mechanism. -/
theorem ht_refuses (C : Crypto) (cr : Cred) (done : Bool) (ch : Bytes)
    (h : done = true ∨ ch ≠ [] ∨ cr.token = none ∨ ∃ m t, cr.token = some (m, t) ∧ m ≠ cr.htMech) :
    htStep C cr done ch = (done, none) := by
  unfold htStep
  cases ht : cr.token with
  | none => rfl
  | some tok =>
    rcases h with h | h | h | ⟨m, t, h, hm⟩
    · simp [h]
    · have : ch.isEmpty = false := by cases ch <;> simp_all
      simp [this]
    · rw [ht] at h; simp at h
    · rw [ht] at h; simp only [Option.some.injEq] at h; subst h; simp [hm]

/-- **Exact condition for another token**: a server holding `tok'` computes the same message iff the two HMAC
values coincide (an HMAC collision on keys — named assumption beyond this point). -/
theorem ht_other_token_condition_partial (C : Crypto) (user tok tok' : Bytes) :
    Ref.htMessage C user tok' = Ref.htMessage C user tok ↔ C.HMAC tok' sInitiator = C.HMAC tok sInitiator := by
  simp [Ref.htMessage, sInitiator]

/-! ## The managers: success is reported only after the server proved itself -/

/-- **A SCRAM login is never reported successful unless the server has proved knowledge of the password** — FULL
statement: for every hash family, credential, both managers (`sasl2 = false`: `SaslManager`, `true`: `Sasl2Manager`)
and EVERY server script `els` (any elements in any order: challenges, `<success/>` with or without data,
failures, continues, junk): if the reported result is success and the mechanism is SCRAM, the server signature
was compared equal (`m_serverVerified`, whose meaning is `scram_verified_only_by_comparison`).
(Before repo commit 0b21ae7 this was false — witness `els = [<success/>]`, kept first in the harness corpus.) -/
theorem success_only_after_server_proof (C : Crypto) (md5 : Bytes → Bytes) (cr : Cred) (sasl2 : Bool) (els : List El) :
    (mgrRun C md5 cr (mgrStart C md5 cr sasl2 .scram).1 els).1.result = some .success →
    isScram (mgrRun C md5 cr (mgrStart C md5 cr sasl2 .scram).1 els).1 = true →
    serverSignatureVerified (mgrRun C md5 cr (mgrStart C md5 cr sasl2 .scram).1 els).1 = true :=
  fun h _ => (mgrInv_run C md5 cr _ els (mgrInv_start C md5 cr sasl2 .scram)).2 h

/-- …the same for whatever mechanism the exchange was started with (for mechanisms without mutual
authentication `serverSignatureVerified` is `true` by definition, so this adds nothing for them; it shows the
SCRAM guarantee does not depend on how `isScram` is read). -/
theorem success_implies_mechanism_verified (C : Crypto) (md5 : Bytes → Bytes) (cr : Cred) (sasl2 : Bool) (k : MechKind)
    (els : List El) :
    (mgrRun C md5 cr (mgrStart C md5 cr sasl2 k).1 els).1.result = some .success →
    serverSignatureVerified (mgrRun C md5 cr (mgrStart C md5 cr sasl2 k).1 els).1 = true :=
  (mgrInv_run C md5 cr _ els (mgrInv_start C md5 cr sasl2 k)).2

/-- **A bare `<success/>` before the server signature was seen is refused** by both managers (error
"Server did not prove knowledge of the password"), wherever in the exchange it arrives. -/
theorem bare_success_is_refused (C : Crypto) (md5 : Bytes → Bytes) (cr : Cred) (st : MgrSt) (s : ScramSt)
    (hp : st.pending = true) (hm : st.mech = .scram s) (hv : s.verified = false) (hs : s.step ≠ 2) :
    (mgrStep C md5 cr st (.success none)).1.result = some .notProved := by
  have hstep : ∀ d, ¬ (((scramStep C cr s d).2.isSome = true) ∧ (scramStep C cr s d).1.verified = true) := by
    intro d ⟨_, h2⟩
    rcases scram_verified_only_by_comparison C cr s d h2 with h | ⟨h, _⟩
    · rw [hv] at h; cases h
    · exact hs h
  cases hs2 : st.sasl2 with
  | true => simp [mgrStep, hp, hm, mechVerified, hv, hs2]
  | false =>
    have := hstep []
    simp only [mgrStep, hp, hm, mechVerified, hv, hs2, mechRespond, Bool.not_true, Bool.false_eq_true, if_false,
      Option.getD_none]
    split
    · rename_i hc
      simp only [Bool.and_eq_true] at hc
      exact absurd hc this
    · rfl

/-- **The server-final message may arrive as success data** (RFC 6120 §6.4.6, SASL2 `<additional-data/>`): in step 2 a
`<success/>` carrying `v=<base64 of the expected signature>` is verified and accepted; carrying anything whose
`v=` does not decode to the expected signature it is refused. -/
theorem success_data_is_verified (C : Crypto) (md5 : Bytes → Bytes) (cr : Cred) (st : MgrSt) (s : ScramSt) (d : Bytes)
    (hp : st.pending = true) (hm : st.mech = .scram s) (hv : s.verified = false) (hs : s.step = 2) :
    (d = [118, 61] ++ Base64.encode s.serverSig → (mgrStep C md5 cr st (.success (some d))).1.result = some .success)
    ∧ (Base64.decodeLenient (gs2Get (parseGS2 d) 118) ≠ s.serverSig →
        (mgrStep C md5 cr st (.success (some d))).1.result = some .notProved) := by
  constructor
  · intro hd
    subst hd
    have h2 : scramStep C cr s (118 :: 61 :: Base64.encode s.serverSig)
        = ({ s with step := 3, verified := true }, some []) := scram_step2_honest C cr s hs
    cases hs2 : st.sasl2 <;>
      simp [mgrStep, hp, hm, mechVerified, hv, hs2, mechRespond, h2]
  · intro hd
    have h2 := (scram_rejects_bad_signature C cr s d hs hd).1
    cases hs2 : st.sasl2 <;>
      simp [mgrStep, hp, hm, mechVerified, hv, hs2, mechRespond, h2]

/-- **A DIGEST-MD5 login is reported successful only after a correct `rspauth`** — for every credential, both managers
and EVERY server script: result = success ⇒ the client is beyond step 2 (`serverVerified()`, repo commit 8012ab0).
What "beyond step 2" means is `digest_verified_only_by_rspauth`: the only way there is a `respond` call — made for a
`<challenge/>` or for the data of a `<success/>` — whose `rspauth` equals the RFC 2831 §2.1.3 value.
(Before 8012ab0 this was false: witness `[<challenge nonce="abc",qop="auth"/>, <success/>]`, kept in the corpus.) -/
theorem digest_success_only_after_rspauth (C : Crypto) (md5 : Bytes → Bytes) (cr : Cred) (sasl2 : Bool) (els : List El) :
    (mgrRun C md5 cr (mgrStart C md5 cr sasl2 .digest).1 els).1.result = some .success →
    ∃ s, (mgrRun C md5 cr (mgrStart C md5 cr sasl2 .digest).1 els).1.mech = .digest s ∧ 2 < s.step := by
  intro h
  have hv : mechVerified (mgrRun C md5 cr (mgrStart C md5 cr sasl2 .digest).1 els).1.mech = true :=
    success_implies_mechanism_verified C md5 cr sasl2 .digest els h
  have hk := mgr_mech_kind C md5 cr sasl2 .digest els
  revert hv hk
  generalize (mgrRun C md5 cr (mgrStart C md5 cr sasl2 .digest).1 els).1.mech = m
  intro hv hk
  cases m with
  | digest s => exact ⟨s, rfl, by simpa [mechVerified] using hv⟩
  | scram _ => simp [mechKindOf] at hk
  | plain _ => simp [mechKindOf] at hk
  | ht _ => simp [mechKindOf] at hk

/-- **The DIGEST-MD5 client gets beyond step 2 only through a correct `rspauth`**: one `respond` call leads from a
step ≤ 2 to a step > 2 only in step 2 with `rspauth` equal to the RFC value computed from the stored secret. -/
theorem digest_verified_only_by_rspauth (md5 : Bytes → Bytes) (cr : Cred) (s : DigestSt) (ch : Bytes)
    (h : 2 < (digestStep md5 cr s ch).1.step) :
    2 < s.step ∨ (s.step = 2 ∧
      mapGet (parseMessage ch) kRspauth = calculateDigest md5 [] (digestUriOf cr) s.secret s.nonce cr.cnonce sNc1) := by
  by_cases h0 : s.step = 0
  · simp [digestStep, h0] at h
  · by_cases h1 : s.step = 1
    · unfold digestStep at h
      rw [if_neg h0, if_pos h1] at h
      dsimp only at h
      split at h
      · simp [h1] at h
      · split at h <;> simp [h1] at h
    · by_cases h2 : s.step = 2
      · by_cases heq : mapGet (parseMessage ch) kRspauth = calculateDigest md5 [] (digestUriOf cr) s.secret s.nonce cr.cnonce sNc1
        · right; exact ⟨h2, heq⟩
        · simp [digestStep, h2, heq] at h
      · left
        simp [digestStep, h0, h1, h2] at h
        exact h

/-- **A refused challenge ends the attempt with an error, never with success**: whatever the mechanism, when
`respond` returns nothing the task is finished with "Could not respond to SASL challenge" and later elements
(including `<success/>`) are rejected. -/
theorem refused_challenge_is_final (C : Crypto) (md5 : Bytes → Bytes) (cr : Cred) (st : MgrSt) (data : Bytes)
    (later : List El) (hp : st.pending = true) (h : (mechRespond C md5 cr st.mech data).2 = none) :
    (mgrRun C md5 cr st (.challenge data :: later)).1.result = some .cannotRespond := by
  have h1 : (mgrStep C md5 cr st (.challenge data)).1.pending = false
      ∧ (mgrStep C md5 cr st (.challenge data)).1.result = some .cannotRespond := by
    simp [mgrStep, hp, h]
  simp only [mgrRun]
  rw [mgrRun_not_pending C md5 cr _ later h1.1]
  exact h1.2

/-! ## FAST tokens over several connections (XEP-0484) -/

/-- **A stored token is always filed under the mechanism the server issued it for.**  One client object
(`QXmppConfiguration` + `FastTokenManager`), any history of connections: credential replacement by the application,
logins with any server offer (FAST feature present or not, any -NONE mechanisms, FAST enabled or not), `<success/>`
with or without a new `<token/>` (first issue on request, rotation after a token login), failed logins, in any order
and number — provided only that the application does not replace the credentials while a login is pending
(`wellTimed`).  "Issued for" is the server's view: the mechanism named in this login's `<request-token/>`, else
(rotation) the HT mechanism the login was made with. -/
theorem fast_token_filed_under_issuing_mechanism (fam : Nat → Crypto) (user pass : Bytes) (ops : List FastOp)
    (hw : wellTimed fam { user := user, pass := pass } ops = true) (m i : Nat) (secret : Bytes) :
    (fastRun fam { user := user, pass := pass } ops).token = some (m, secret) →
    (fastRun fam { user := user, pass := pass } ops).issued = some i → m = i :=
  (fastInv_run fam _ ops (fastInv_init user pass) hw).1 m secret i

/-- **The mechanism announced with a stored token is the one the server issued that token for, and the initial
response is `user NUL HMAC_{hash of that mechanism}(token, "Initiator")`** (XEP-0484 §3.1, no channel binding) —
after any such history, for any next login. -/
theorem fast_login_uses_issuing_mechanism_and_hash (fam : Nat → Crypto) (user pass : Bytes) (ops : List FastOp)
    (hw : wellTimed fam { user := user, pass := pass } ops = true)
    (fastEnabled : Bool) (offer : Option (List Nat)) (m : Nat) (initial : Bytes) (req : Option Nat)
    (h : (fastStep fam (fastRun fam { user := user, pass := pass } ops) (.login fastEnabled offer)).2 = .sent (some m) initial req) :
    ∃ secret, (fastRun fam { user := user, pass := pass } ops).token = some (m, secret)
      ∧ initial = Ref.htMessage (fam m) (fastRun fam { user := user, pass := pass } ops).user secret
      ∧ ∀ i, (fastRun fam { user := user, pass := pass } ops).issued = some i → i = m := by
  have hinv := fastInv_run fam _ ops (fastInv_init user pass) hw
  revert h hinv
  generalize fastRun fam { user := user, pass := pass } ops = st
  intro h hinv
  simp only [fastStep] at h
  cases htok : st.token with
  | none =>
    rw [htok] at h
    simp only [] at h
    split at h <;> simp at h
  | some tok =>
    rw [htok] at h
    simp only [] at h
    split at h
    · simp [htStep] at h
      obtain ⟨h1, h2, _⟩ := h
      refine ⟨tok.2, by rw [← h1], ?_, ?_⟩
      · rw [← h2, ← h1]; simp [Ref.htMessage, sInitiator]
      · intro i hi
        have := hinv.1 tok.1 tok.2 i htok hi
        omega
    · split at h <;> simp at h

/-- **A token is only requested when none is stored**, and then for the strongest -NONE mechanism on offer. -/
theorem fast_request_only_without_token (fam : Nat → Crypto) (st : FastSt) (fastEnabled : Bool) (offer : Option (List Nat))
    (mech : Option Nat) (initial : Bytes) (r : Nat)
    (h : (fastStep fam st (.login fastEnabled offer)).2 = .sent mech initial (some r)) :
    st.token = none ∧ fastEnabled = true ∧ ∃ l, offer = some l ∧ maxOpt l = some r := by
  simp only [fastStep] at h
  cases htok : st.token with
  | some tok =>
    rw [htok] at h
    simp only [Option.isNone_some, Bool.and_false, Bool.false_eq_true, if_false] at h
    split at h
    · split at h <;> simp at h
    · split at h <;> simp at h
  | none =>
    rw [htok] at h
    simp only [Option.isNone_none, Bool.and_true] at h
    split at h
    · simp only [FastOut.sent.injEq] at h
      obtain ⟨_, _, h3⟩ := h
      split at h3
      · rename_i hc
        simp only [Bool.and_eq_true] at hc
        cases offer with
        | none => simp at hc
        | some l => exact ⟨rfl, hc.2, l, rfl, by simpa using h3⟩
      · simp at h3
    · simp at h

/-! ## Non-vacuity: the hypotheses above are met by concrete, reachable situations

`toyCrypto` has HMAC output length 2; `toyCred` is user `u`, password `p`, client nonce `x`.
`r=xy,s=QQ==,i=1` is a server-first message with server nonce part `y`, salt `A`, one iteration. -/

/-- the hypotheses of `scram_server_accepts` / `scram_honest_exchange_verifies` are satisfiable -/
example := scram_server_accepts toyCrypto 2 (fun _ _ => rfl) toyCred [65] [121] 4096 (by decide) (by decide) (by decide) (by decide)

/-- `Ref.serverFirst` builds the text one expects -/
example : Ref.serverFirst [120] [121] [65] 1 = [114, 61, 120, 121, 44, 115, 61, 81, 81, 61, 61, 44, 105, 61, 49] := by decide

/-- the honest toy exchange, evaluated: first message, accepted server-first, verified server-final -/
example : (scramStep toyCrypto toyCred {} []).2 = some [110, 44, 44, 110, 61, 117, 44, 114, 61, 120] := by decide
example : ((scramStep toyCrypto toyCred (scramSt1 toyCred) [114, 61, 120, 121, 44, 115, 61, 81, 81, 61, 61, 44, 105, 61, 49]).2).isSome = true := by
  decide

/-- an unextended nonce: `r=x,s=QQ==,i=1` against client nonce `x` -/
example : gs2Get (parseGS2 [114, 61, 120, 44, 115, 61, 81, 81, 61, 61, 44, 105, 61, 49]) 114 = toyCred.cnonce := by decide

/-- foreign nonce (`r=zz…` against client nonce `x`), bad parameters (`i=0`, `s=` empty, `i=abc`) -/
example : ([120] : Bytes).isPrefixOf (gs2Get (parseGS2 [114, 61, 122, 122, 44, 115, 61, 81, 81, 61, 61, 44, 105, 61, 49]) 114) = false := by
  decide
example : toInt (gs2Get (parseGS2 [114, 61, 120, 121, 44, 115, 61, 81, 81, 61, 61, 44, 105, 61, 48]) 105) < 1 := by decide
example : Base64.decodeLenient (gs2Get (parseGS2 [114, 61, 120, 121, 44, 115, 61, 44, 105, 61, 49]) 115) = [] := by decide
example : ∀ c ∈ gs2Get (parseGS2 [114, 61, 120, 44, 115, 61, 81, 81, 61, 61, 44, 105, 61, 97, 98, 99]) 105, isDigit c = false := by
  decide

/-- a state in step 2 and a wrong signature (`v=AAAA`) -/
example : (scramSt2 toyCrypto toyCred [65] [121] 1).step = 2
    ∧ Base64.decodeLenient (gs2Get (parseGS2 [118, 61, 65, 65, 65, 65]) 118) ≠ (scramSt2 toyCrypto toyCred [65] [121] 1).serverSig := by
  decide

/-- the DIGEST-MD5 hypotheses on the challenge `nonce="abc",qop="auth"` -/
example : mapGet? (parseMessage [110, 111, 110, 99, 101, 61, 34, 97, 98, 99, 34, 44, 113, 111, 112, 61, 34, 97, 117, 116, 104, 34]) kNonce
    = some [97, 98, 99] := by decide
example : (splitOn 44 ((mapGet? (parseMessage [110, 111, 110, 99, 101, 61, 34, 97, 98, 99, 34, 44, 113, 111, 112, 61, 34, 97, 117, 116, 104, 34])
    kQop).getD sAuth)).contains sAuth = true := by decide

/-- the RFC 2831 hash encoding: ASCII and strings with a character beyond U+00FF are left alone (the hypotheses
`Ref.digestEnc x = x` of the DIGEST theorems), `é` becomes the single byte E9 -/
example : Ref.digestEnc [117, 115, 101, 114] = [117, 115, 101, 114] ∧ Ref.digestEnc [208, 191, 195, 169] = [208, 191, 195, 169]
    ∧ Ref.digestEnc [114, 195, 169] = [114, 233] := by decide

/-- a two-entry map with a quote and a space in its values satisfies the hypotheses of `digest_parse_serialize`
(and, evaluated, does round-trip) -/
example : ([(kRealm, [97, 34, 98]), (kUsername, [120, 32, 121])] : DMap).Pairwise (fun a b => bytesLt a.1 b.1 = true) := by
  simp [kRealm, kUsername, bytesLt]
example : parseMessage (serializeMessage [(kRealm, [97, 34, 98]), (kUsername, [120, 32, 121])])
    = [(kRealm, [97, 34, 98]), (kUsername, [120, 32, 121])] := by decide

/-- PLAIN / HT -/
example : Ref.plainServerVerify [117] [112] (Ref.plainMessage [117] [112]) = true := by decide
example : Ref.plainServerVerify [117] [113] (Ref.plainMessage [117] [112]) = false := by decide
example : htStep toyCrypto { toyCred with htMech := 3, token := some (3, [116]) } false []
    = (true, some [117, 0, 1, 2]) := by decide

/-- FAST, the three-login history of seeded change C06_c1 (request for mechanism 0, stored token for mechanism 3 put in
by the application, rotation, next login): well-timed, and the third login announces mechanism 3 with the rotated token -/
example : wellTimed toyFam { user := [117], pass := [112] }
      [.setCreds true none, .login true (some [0]), .success (some [65]), .setCreds true (some (3, [66])),
       .login true (some [0, 1, 2, 3]), .success (some [67])] = true
    ∧ (fastStep toyFam (fastRun toyFam { user := [117], pass := [112] }
      [.setCreds true none, .login true (some [0]), .success (some [65]), .setCreds true (some (3, [66])),
       .login true (some [0, 1, 2, 3]), .success (some [67])]) (.login true (some [0, 1, 2, 3]))).2
      = .sent (some 3) [117, 0, 1, 2] none := by decide

/-- the manager: the honest server script (two challenges, then `<success/>`) ends in a verified
success; the bare `<success/>` is refused by both managers -/
example : (mgrRun toyCrypto id toyCred (mgrStart toyCrypto id toyCred false .scram).1
      [.challenge [114, 61, 120, 121, 44, 115, 61, 81, 81, 61, 61, 44, 105, 61, 49], .challenge [118, 61, 65, 103, 65, 61], .success none]).1.result
    = some .success := by decide
example : serverSignatureVerified (mgrRun toyCrypto id toyCred (mgrStart toyCrypto id toyCred true .scram).1
      [.challenge [114, 61, 120, 121, 44, 115, 61, 81, 81, 61, 61, 44, 105, 61, 49], .challenge [118, 61, 65, 103, 65, 61], .success none]).1
    = true := by decide
example : (mgrRun toyCrypto id toyCred (mgrStart toyCrypto id toyCred false .scram).1 [.success none]).1.result = some .notProved
    ∧ (mgrRun toyCrypto id toyCred (mgrStart toyCrypto id toyCred true .scram).1 [.success none]).1.result = some .notProved := by
  decide

/-- former finding witnesses: DIGEST-MD5 `<challenge nonce="abc",qop="auth"/>` then a bare `<success/>` is refused by
both managers; the SCRAM server-first message `m=e,r=xy,s=QQ==,i=1` carries the reserved attribute and is refused -/
example : (mgrRun toyCrypto id toyCred (mgrStart toyCrypto id toyCred false .digest).1
      [.challenge [110, 111, 110, 99, 101, 61, 34, 97, 98, 99, 34, 44, 113, 111, 112, 61, 34, 97, 117, 116, 104, 34], .success none]).1.result
      = some .notProved
    ∧ (mgrRun toyCrypto id toyCred (mgrStart toyCrypto id toyCred true .digest).1
      [.challenge [110, 111, 110, 99, 101, 61, 34, 97, 98, 99, 34, 44, 113, 111, 112, 61, 34, 97, 117, 116, 104, 34], .success none]).1.result
      = some .notProved := by decide
example : gs2Has (parseGS2 [109, 61, 101, 44, 114, 61, 120, 121, 44, 115, 61, 81, 81, 61, 61, 44, 105, 61, 49]) 109 = true
    ∧ scramStep toyCrypto toyCred (scramSt1 toyCred) [109, 61, 101, 44, 114, 61, 120, 121, 44, 115, 61, 81, 81, 61, 61, 44, 105, 61, 49]
      = (scramSt1 toyCred, none) := by decide

/-- the server-final message delivered as success data after one challenge is accepted and verified -/
example : (mgrRun toyCrypto id toyCred (mgrStart toyCrypto id toyCred true .scram).1
      [.challenge [114, 61, 120, 121, 44, 115, 61, 81, 81, 61, 61, 44, 105, 61, 49], .success (some [118, 61, 65, 103, 65, 61])]).1.result
    = some .success := by decide

/-- the former witnesses now behave: user `a,b` is escaped, a value ending in a backslash round-trips -/
example : (scramStep toyCrypto { toyCred with user := [97, 44, 98] } {} []).2
    = some [110, 44, 44, 110, 61, 97, 61, 50, 67, 98, 44, 114, 61, 120] := by decide
example : parseMessage (serializeMessage [(kUsername, [97, 32, 98, 92])]) = [(kUsername, [97, 32, 98, 92])] := by decide

end Qx.C06
