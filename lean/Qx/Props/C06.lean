import Qx.Proofs.C06
/-!
# C06 — SASL exchanges follow their RFCs; a server that cannot prove itself is refused

Property theorems only (model: `Qx/Model/C06Sasl.lean`, helper lemmas: `Qx/Proofs/C06.lean`).

Every statement is parametric in the hash family `C : Crypto` (`H`, `HMAC`, `Hi`) and in `md5`: no hash is ever
evaluated.  Byte strings are arbitrary (`Bytes = List UInt8`) — user names and passwords are the UTF-8 bytes of
the *normalised* strings the specifications operate on (the code applies no SASLprep).
`Ref.*` is the reference written from RFC 5802 / 2831 / 4616 and XEP-0484 (second half of the model file).
-/
namespace Qx.C06
open Qx Qx.Bytes Qx.Crypto

/-! ## SCRAM -/

/-- **The SCRAM messages are those of RFC 5802 §7.**  For every credential and every server-first message the
client accepts: the first message is `n,,n=<user>,r=<c-nonce>` and the final one is
`c=biws,r=<nonce of the server-first message>,p=<base64 of some proof>`.
The user name is sent raw, which is the RFC's `saslname` only if it contains neither `,` nor `=` — hence the
hypothesis (the excluded point is `C06_defect_scram_username_not_escaped`). -/
theorem scram_messages_rfc (C : Crypto) (cr : Cred) (sf : Bytes)
    (huser : (44 : UInt8) ∉ cr.user ∧ (61 : UInt8) ∉ cr.user) :
    (scramStep C cr {} []).2 = some (Ref.clientFirst cr.user cr.cnonce)
    ∧ ∀ cf, (scramStep C cr (scramStep C cr {} []).1 sf).2 = some cf →
        ∃ proof, cf = Ref.clientFinalWithoutProof (gs2Get (parseGS2 sf) 114) ++ [44, 112, 61] ++ Base64.encode proof := by
  constructor
  · rw [scram_step0]
    simp [Ref.clientFirst, saslName_id cr.user huser.1 huser.2, scramBare, sGs2Header, sNEq, sCommaREq]
  · intro cf h
    rw [scram_step0] at h
    simp only [scramStep, scramSt1] at h
    simp only [Nat.succ_ne_zero, if_false, if_true] at h
    split at h
    · simp at h
    · simp only [Option.some.injEq] at h
      exact ⟨_, by rw [← h, scramFinalBare_eq]; simp [sCommaPEq]⟩

/-- **Today's code does not escape the user name**: for the user name `a,b` the client-first message is not the one
RFC 5802 prescribes (`n,,n=a=2Cb,r=…`); the client sends `n,,n=a,b,r=…`, which a conforming server parses as user
`a` followed by a malformed attribute. -/
theorem C06_defect_scram_username_not_escaped :
    ¬ ∀ (C : Crypto) (cr : Cred), (scramStep C cr {} []).2 = some (Ref.clientFirst cr.user cr.cnonce) := by
  intro h
  have := h ⟨id, fun _ m => m, fun p _ _ => p⟩ { user := [97, 44, 98], cnonce := [120] }
  rw [scram_step0] at this
  revert this
  decide

/-- **Any conforming server holding the same secret accepts** (RFC 5802 §3).  For every user, password, salt,
iteration count (1 … 2³¹−1, the range the client accepts) and pair of comma-free nonces: the client answers the
RFC server-first message, and a server whose record was derived from the same password accepts the client-final
message — `ClientProof ⊕ ClientSignature = ClientKey` and `H(ClientKey) = StoredKey`.
Only the output length of HMAC is assumed (`hM`). -/
theorem scram_server_accepts (C : Crypto) (n : Nat) (hM : ∀ k m, (C.HMAC k m).length = n)
    (cr : Cred) (salt snonce : Bytes) (i : Nat)
    (hsalt : salt ≠ []) (hi : 1 ≤ i ∧ i ≤ 2147483647)
    (hc : (44 : UInt8) ∉ cr.cnonce) (hs : (44 : UInt8) ∉ snonce) :
    ∃ cf1 cf,
      (scramStep C cr {} []).2 = some cf1
      ∧ (scramStep C cr (scramStep C cr {} []).1 (Ref.serverFirst cr.cnonce snonce salt i)).2 = some cf
      ∧ Ref.scramServerVerify C (Ref.scramRecordOf C cr.pass salt i) cf1
          (Ref.serverFirst cr.cnonce snonce salt i) (cr.cnonce ++ snonce) cf = true := by
  obtain ⟨cf1, cf, sfin, h1, h2, h3, _⟩ := scram_full_exchange C n hM cr salt snonce i hsalt hi hc hs
  exact ⟨cf1, cf, h1, h2, by simp [Ref.scramServerVerify, h3]⟩

/-- **The honest exchange completes with the server verified.**  Same setting: the server-final message the
reference server answers with is accepted by the client (empty response, step 3) and the ghost flag `verified`
is set — i.e. the signature the client expects is the RFC's `HMAC(ServerKey, AuthMessage)`. -/
theorem scram_honest_exchange_verifies (C : Crypto) (n : Nat) (hM : ∀ k m, (C.HMAC k m).length = n)
    (cr : Cred) (salt snonce : Bytes) (i : Nat)
    (hsalt : salt ≠ []) (hi : 1 ≤ i ∧ i ≤ 2147483647)
    (hc : (44 : UInt8) ∉ cr.cnonce) (hs : (44 : UInt8) ∉ snonce) :
    ∃ cf1 cf sfin,
      (scramStep C cr {} []).2 = some cf1
      ∧ (scramStep C cr (scramStep C cr {} []).1 (Ref.serverFirst cr.cnonce snonce salt i)).2 = some cf
      ∧ Ref.scramServerFinal C (Ref.scramRecordOf C cr.pass salt i) cf1
          (Ref.serverFirst cr.cnonce snonce salt i) (cr.cnonce ++ snonce) cf = some sfin
      ∧ (scramStep C cr (scramStep C cr (scramStep C cr {} []).1 (Ref.serverFirst cr.cnonce snonce salt i)).1 sfin).2 = some []
      ∧ (scramStep C cr (scramStep C cr (scramStep C cr {} []).1 (Ref.serverFirst cr.cnonce snonce salt i)).1 sfin).1.verified = true :=
  scram_full_exchange C n hM cr salt snonce i hsalt hi hc hs

/-- **Exact acceptance condition for an arbitrary server record** (the "none holding a different secret" half,
as far as algebra goes): a server holding `StoredKey' = K` accepts the client's final message iff
`H(ClientKey ⊕ HMAC(StoredKey, AM) ⊕ HMAC(K, AM)) = K`.  For `K ≠ StoredKey` this is a fixed-point condition on `H`
that the cryptographic assumption (one-wayness of `H`, unforgeability of `HMAC`) excludes; it is not provable
for an arbitrary function `H` and is exercised on the implementation by the oracle (a different password is
rejected for every generated case). -/
theorem scram_other_record_condition_partial (C : Crypto) (n : Nat) (hM : ∀ k m, (C.HMAC k m).length = n)
    (cr : Cred) (salt snonce : Bytes) (i : Nat) (rec : Ref.ScramRecord)
    (hsalt : salt ≠ []) (hi : 1 ≤ i ∧ i ≤ 2147483647)
    (hc : (44 : UInt8) ∉ cr.cnonce) (hs : (44 : UInt8) ∉ snonce) :
    ∃ cf1 cf am,
      (scramStep C cr {} []).2 = some cf1
      ∧ (scramStep C cr (scramStep C cr {} []).1 (Ref.serverFirst cr.cnonce snonce salt i)).2 = some cf
      ∧ (Ref.scramServerVerify C rec cf1 (Ref.serverFirst cr.cnonce snonce salt i) (cr.cnonce ++ snonce) cf = true ↔
          C.H (xorBytes (xorBytes (C.HMAC (Ref.storedKey C (Ref.saltedPassword C cr.pass salt i)) am)
                  (Ref.clientKey C (Ref.saltedPassword C cr.pass salt i)))
                (C.HMAC rec.storedKey am)) = rec.storedKey) :=
  scram_other_record C n hM cr salt snonce i rec hsalt hi hc hs

/-- **A server-first message whose nonce does not extend the client's is refused**, whatever else it contains, and
the client stays where it was (step 1). -/
theorem scram_rejects_foreign_nonce (C : Crypto) (cr : Cred) (s : ScramSt) (sf : Bytes) (hstep : s.step = 1)
    (h : cr.cnonce.isPrefixOf (gs2Get (parseGS2 sf) 114) = false) :
    scramStep C cr s sf = (s, none) := by
  simp [scramStep, hstep, h]

/-- …in particular a message without any `r=` attribute. -/
theorem scram_rejects_missing_nonce (C : Crypto) (cr : Cred) (s : ScramSt) (sf : Bytes) (hstep : s.step = 1)
    (hn : cr.cnonce ≠ []) (h : ∀ p ∈ parseGS2 sf, p.1 ≠ 114) :
    scramStep C cr s sf = (s, none) := by
  apply scram_rejects_foreign_nonce C cr s sf hstep
  rw [gs2Get_absent _ _ h]
  cases hc : cr.cnonce with
  | nil => exact absurd hc hn
  | cons _ _ => rfl

/-- **Invalid parameters are refused** (as coded): a salt that decodes to nothing, or an iteration count whose
`toInt` value is below 1. -/
theorem scram_rejects_bad_params (C : Crypto) (cr : Cred) (s : ScramSt) (sf : Bytes) (hstep : s.step = 1)
    (h : Base64.decodeLenient (gs2Get (parseGS2 sf) 115) = [] ∨ toInt (gs2Get (parseGS2 sf) 105) < 1) :
    scramStep C cr s sf = (s, none) := by
  rcases h with h | h
  · simp [scramStep, hstep, h]
  · simp [scramStep, hstep, h]

/-- …a missing `s=` or `i=` attribute, an empty salt, a count without any digit (e.g. `abc`, empty), a literal `0`. -/
theorem scram_rejects_missing_or_nonnumeric (C : Crypto) (cr : Cred) (s : ScramSt) (sf : Bytes) (hstep : s.step = 1)
    (h : (∀ p ∈ parseGS2 sf, p.1 ≠ 115) ∨ gs2Get (parseGS2 sf) 115 = []
       ∨ (∀ p ∈ parseGS2 sf, p.1 ≠ 105) ∨ (∀ c ∈ gs2Get (parseGS2 sf) 105, isDigit c = false)
       ∨ gs2Get (parseGS2 sf) 105 = [48]) :
    scramStep C cr s sf = (s, none) := by
  apply scram_rejects_bad_params C cr s sf hstep
  rcases h with h | h | h | h | h
  · left; rw [gs2Get_absent _ _ h]; rfl
  · left; rw [h]; rfl
  · right; rw [gs2Get_absent _ _ h]; decide
  · right; rw [toInt_no_digit _ h]; decide
  · right; rw [h]; decide

/-- **A wrong server signature is refused** when the server-final message arrives as a challenge: no response, the
flag stays unset, and the exchange cannot be resumed — every later challenge is refused too. -/
theorem scram_rejects_bad_signature (C : Crypto) (cr : Cred) (s : ScramSt) (sfin : Bytes) (hstep : s.step = 2)
    (h : Base64.decodeLenient (gs2Get (parseGS2 sfin) 118) ≠ s.serverSig) :
    (scramStep C cr s sfin).2 = none
    ∧ (scramStep C cr s sfin).1.verified = s.verified
    ∧ ∀ later, scramStep C cr (scramStep C cr s sfin).1 later = ((scramStep C cr s sfin).1, none) := by
  simp [scramStep, hstep, h]

/-- **The ghost flag means what it says**: `verified` can only become true by a step-2 comparison of the
presented `v=` value with the expected signature that came out equal. -/
theorem scram_verified_only_by_comparison (C : Crypto) (cr : Cred) (s : ScramSt) (ch : Bytes)
    (h : (scramStep C cr s ch).1.verified = true) :
    s.verified = true ∨ (s.step = 2 ∧ Base64.decodeLenient (gs2Get (parseGS2 ch) 118) = s.serverSig) := by
  unfold scramStep at h
  split at h
  · left; simpa using h
  · split at h
    · split at h <;> (left; simpa using h)
    · split at h
      · rename_i h2
        split at h
        · rename_i heq; right; exact ⟨h2, heq⟩
        · left; simpa using h
      · left; simpa using h

end Qx.C06
