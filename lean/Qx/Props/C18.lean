import Qx.Proofs.C18
/-!
# C18 — automatic trust management: only an authenticated key's holder can move trust, within scope

Property theorems only (model: `Qx/Model/C18Atm.lean`, helpers: `Qx/Proofs/C18.lean`).

Reading guide.  `stepStore c s op = (s', evs)` is one operation on the store of one encryption
namespace; `c` holds the own bare JID and resource.  `s.level o k` is the stored trust level of key
`k` of account `o`; `s.postponed` are the held-back decisions (`Entry`: sender key id, owner, key,
verdict).  `evs` lists what the code did during the step: `Ev.auth K` — `authenticate()` was entered
with key set `K`; `Ev.dis K` — `distrust()` was entered with `K`; `Ev.fired e` — the held-back entry
`e` was fetched by `makePostponedTrustDecisions()` to be applied.

All theorems quantify over every state `s` (reachable or not) unless a history is mentioned, and
over arbitrary account / key / resource numbers.  Model of the tree at repo commit 845d75c (scope re-check when
held-back decisions are applied, a532e12, and when they are discarded by a distrust, 845d75c).
-/
namespace Qx.C18

/-! ## Who may move trust -/

/-- **A message from this very device is ignored** (full-JID comparison): state unchanged, nothing emitted. -/
theorem self_message_ignored (c : Cfg) (s : Store) (m : Msg)
    (h1 : m.fromAcc = c.own) (h2 : m.fromRes = c.ownRes) :
    stepStore c s (.message m) = (s, []) := by
  simp [stepStore, Store.handleMessage, processed, h1, h2]

/-- A message without a trust-message element for ATM is ignored as well. -/
theorem non_atm_message_ignored (c : Cfg) (s : Store) (m : Msg) (h : m.atm = false) :
    stepStore c s (.message m) = (s, []) := by
  simp [stepStore, Store.handleMessage, processed, h]

/-- **Authorisation and scope, every state.**  Whatever the state (reachable or not): if a received message
changes the level of key `(o, k)` then it carried an ATM trust message, was not sent by this device, its
sender key was `Authenticated` beforehand, and `o` is the sender's own account unless the sender is one of
the user's own devices.  This covers every change produced by held-back decisions firing in cascade:
since repo commit a532e12 `makePostponedTrustDecisions` re-applies the scope rule with the accounts the
sender key ids were just authenticated for. -/
theorem trust_changes_only_if_authorized_every_state (c : Cfg) (s : Store) (m : Msg) (o k : Nat)
    (h : (stepStore c s (.message m)).1.level o k ≠ s.level o k) :
    m.atm = true ∧ ¬ (m.fromAcc = c.own ∧ m.fromRes = c.ownRes) ∧
    s.level m.fromAcc m.senderKey = .authenticated ∧
    (m.fromAcc = c.own ∨ o = m.fromAcc) := by
  have h1 := handleMessage_level_change c s m o k h
  have h2 := (processed_iff c m).mp h1.1
  exact ⟨h2.1, h2.2, h1.2, handleMessage_scope c s m o k h⟩

/-- The property's first sentence over histories: after ANY sequence of operations from the empty store. -/
def TrustChangesOnlyIfAuthorized : Prop :=
  ∀ (c : Cfg) (ops : List Op) (m : Msg) (o k : Nat),
    (stepStore c (runStore c {} ops).1 (.message m)).1.level o k ≠ (runStore c {} ops).1.level o k →
      m.atm = true ∧ ¬ (m.fromAcc = c.own ∧ m.fromRes = c.ownRes) ∧
      (runStore c {} ops).1.level m.fromAcc m.senderKey = .authenticated ∧
      (m.fromAcc = c.own ∨ o = m.fromAcc)

/-- **The full statement, all histories, no assumption on key ids.**  (Before a532e12 its negation was
proved here as `C18_defect_cross_owner_scope` with the witness
`[msg from 2 (key 1): 2:2 trusted; manual authenticate 1:3; msg from 1 (key 3): 1:1 trusted]`, which stays
first in the harness corpus; finding `C18:cross-owner-key-id`, now fixed.) -/
theorem trust_changes_only_if_authorized : TrustChangesOnlyIfAuthorized :=
  fun c ops m o k h => trust_changes_only_if_authorized_every_state c _ m o k h

/-- A processed step that takes decisions never adds held-back entries; a message from an
unauthenticated sender never changes a level (next theorem).  Here: manual operations and messages
from an authenticated sender only shrink the held-back set. -/
theorem decisions_never_add_held_entries (c : Cfg) (s : Store) (m : Msg)
    (ha : s.level m.fromAcc m.senderKey = .authenticated) :
    ∀ e ∈ (stepStore c s (.message m)).1.postponed, e ∈ s.postponed := by
  intro e he
  simp only [stepStore] at he
  cases hp : processed c m
  · rw [handleMessage_not_processed _ _ _ hp] at he; exact he
  · rw [handleMessage_auth _ _ _ hp ha] at he; exact (makeTrustDecisions_good s _ _).sub e he

/-! ## Who may make held-back decisions disappear

The store files a held-back decision under the sender's key ID alone and removes entries by key ID alone. -/

/-- What the property's second sentence implies for a contact's message: it can make held-back decisions
disappear (by firing, by discarding, by overwriting) only if they are about the contact's own account —
decisions about other accounts, sent by other devices, wait for THEIR sender key to be authenticated or
distrusted.  **FALSE for the code as it is** by one remaining mechanism, supersession: defect theorem below.
(The second mechanism — `distrust()` removing what is held under a key ID whatever account it belongs to, witness
`[msg from 2 (key 1): 2:2 trusted; manual authenticate 1:3; msg from 1 (key 3): 1:1 DIStrusted]` — was fixed in
repo commit 845d75c; the witness stays in the harness corpus.) -/
def ContactTouchesOnlyOwnHeldDecisions : Prop :=
  ∀ (c : Cfg) (ops : List Op) (m : Msg) (e : Entry),
    e ∈ (runStore c {} ops).1.postponed →
    e ∉ (stepStore c (runStore c {} ops).1 (.message m)).1.postponed →
    m.fromAcc = c.own ∨ e.owner = m.fromAcc

/-- the 845d75c witness: account 2's held decision survives account 1's "1:1 distrusted" and is applied when the
user authenticates 2:1 -/
example : (⟨1, 2, 2, true⟩ : Entry) ∈ (runStore ⟨0, 0⟩ {} [.message ⟨2, 1, 1, true, [⟨2, [2], []⟩]⟩, .manual 1 [3] [],
      .message ⟨1, 1, 3, true, [⟨1, [], [1]⟩]⟩]).1.postponed ∧
    (runStore ⟨0, 0⟩ {} [.message ⟨2, 1, 1, true, [⟨2, [2], []⟩]⟩, .manual 1 [3] [],
      .message ⟨1, 1, 3, true, [⟨1, [], [1]⟩]⟩, .manual 2 [1] []]).1.level 2 2 = .authenticated := by decide

/-- **Defect (finding `C18:cross-account-discard`).**  `makePostponedTrustDecisions` removes what it
applies by verdict and key ID, whatever the owner and the sender.  Own account 0; account 2's device key 1
says "2:2 is distrusted", account 1's device key 4 says "1:2 is distrusted" (both held back); the user
authenticates key 3 of account 1; account 1, using key 3, says "1:4 is trusted": the entry held under key id 4
fires and account 2's entry about ITS key id 2 is deleted with it, unapplied. -/
theorem C18_defect_cross_account_discard_by_supersession : ¬ ContactTouchesOnlyOwnHeldDecisions := by
  intro h
  have h1 := h ⟨0, 0⟩
    [.message ⟨2, 1, 1, true, [⟨2, [], [2]⟩]⟩, .message ⟨1, 1, 4, true, [⟨1, [], [2]⟩]⟩, .manual 1 [3] []]
    ⟨1, 1, 3, true, [⟨1, [4], []⟩]⟩ ⟨1, 2, 2, false⟩ (by decide) (by decide)
  revert h1
  decide

example : (runStore ⟨0, 0⟩ {} [.message ⟨2, 1, 1, true, [⟨2, [], [2]⟩]⟩, .message ⟨1, 1, 4, true, [⟨1, [], [2]⟩]⟩,
    .manual 1 [3] [], .message ⟨1, 1, 3, true, [⟨1, [4], []⟩]⟩, .manual 2 [1] []]).1.level 2 2 = .undecided := by decide

/-- **What does hold (every state).**  A held-back entry that disappears during a message from account `S` is
about `S`'s own account (or `S` is the own account) — or it was superseded: a fired entry about a key of `S`
carries the same verdict for the same key ID.  Missing for the full statement: the last disjunct (the defect). -/
theorem contact_touches_only_own_held_decisions_partial (c : Cfg) (s : Store) (m : Msg) (e : Entry)
    (he : e ∈ s.postponed) (hgone : e ∉ (stepStore c s (.message m)).1.postponed) :
    m.fromAcc = c.own ∨ e.owner = m.fromAcc ∨
    (∃ e', Ev.fired e' ∈ (stepStore c s (.message m)).2 ∧ e' ≠ e ∧ e'.owner = m.fromAcc ∧
        e'.key = e.key ∧ e'.trust = e.trust) := by
  by_cases hown : m.fromAcc = c.own
  · exact Or.inl hown
  right
  simp only [stepStore] at hgone ⊢
  cases hp : processed c m
  · rw [handleMessage_not_processed _ _ _ hp] at hgone; exact absurd he hgone
  · by_cases ha : s.level m.fromAcc m.senderKey = .authenticated
    · rw [handleMessage_auth _ _ _ hp ha] at hgone ⊢
      have hjid : ∀ ko ∈ inScope c m, ko.jid = m.fromAcc := by
        intro ko hko
        rcases ((mem_inScope _ _ _).mp hko).2 with h | h
        · exact absurd h hown
        · exact h.symm
      have hP : (fun o => o = m.fromAcc) c.own → ∀ o, (fun o => o = m.fromAcc) o :=
        fun h => absurd h.symm hown
      obtain ⟨hdis, hfired⟩ := makeTrustDecisions_event_owners (own := c.own) (fun o => o = m.fromAcc) hP s
        (namedTrusted (inScope c m)) (namedDistrusted (inScope c m))
        (by intro r hr; obtain ⟨ko, hko, k, _, rfl⟩ := (mem_namedTrusted _ _).mp hr; exact hjid ko hko)
        (by intro r hr; obtain ⟨ko, hko, k, _, rfl⟩ := (mem_namedDistrusted _ _).mp hr; exact hjid ko hko)
      rcases (makeTrustDecisions_good (own := c.own) s _ _).removed e he hgone with h | ⟨e', h1, h2, h3, h4⟩ | ⟨K, hK, _, hq⟩
      · exact Or.inl (hfired e h)
      · exact Or.inr ⟨e', h1, h2, hfired e' h1, h3, h4⟩
      · left
        rcases hq with hq | hq
        · obtain ⟨r, hr, hro⟩ := List.mem_map.mp hq
          exact absurd ((hdis K hK r hr).symm.trans hro) hown
        · obtain ⟨r, hr, hro⟩ := List.mem_map.mp hq
          rw [← hro]; exact hdis K hK r hr
    · rw [handleMessage_unauth _ _ _ hp ha] at hgone
      left
      rcases foldl_addOne_old (holdEntries m.senderKey (inScope c m)) s.postponed e he with h | ⟨x, hx, _, ho, _⟩
      · exact absurd h hgone
      · obtain ⟨ko, hko, hx2⟩ := (mem_holdEntries _ _ _).mp hx
        have hq := ((mem_inScope _ _ _).mp hko).2
        have : x.owner = ko.jid := by rcases hx2 with ⟨k, _, rfl⟩ | ⟨k, _, rfl⟩ <;> rfl
        rcases hq with h | h
        · exact absurd h hown
        · rw [ho, this]; exact h.symm

/-! ## Holding back -/

/-- **Held back.**  A processed message whose sender key is not `Authenticated` (whatever other level
it has — `ManuallyTrusted` is not enough) changes no level; every decision it makes about an in-scope
owner is stored under the sender's key id (a later decision in the same message may overwrite the
verdict, hence `∃ t`); nothing else is stored; and an older entry disappears only by having its
verdict overwritten by this message. -/
theorem held_back (c : Cfg) (s : Store) (m : Msg) (hatm : m.atm = true)
    (hself : ¬ (m.fromAcc = c.own ∧ m.fromRes = c.ownRes))
    (hun : s.level m.fromAcc m.senderKey ≠ .authenticated) :
    (stepStore c s (.message m)).2 = [] ∧
    (∀ o k, (stepStore c s (.message m)).1.level o k = s.level o k) ∧
    (∀ ko ∈ m.owners, (m.fromAcc = c.own ∨ m.fromAcc = ko.jid) → ∀ k, k ∈ ko.trusted ∨ k ∈ ko.distrusted →
        ∃ t, (⟨m.senderKey, ko.jid, k, t⟩ : Entry) ∈ (stepStore c s (.message m)).1.postponed) ∧
    (∀ x ∈ (stepStore c s (.message m)).1.postponed, x ∈ s.postponed ∨
        (x.sender = m.senderKey ∧ ∃ ko ∈ m.owners, (m.fromAcc = c.own ∨ m.fromAcc = ko.jid) ∧ x.owner = ko.jid ∧
          (x.key ∈ ko.trusted ∨ x.key ∈ ko.distrusted))) ∧
    (∀ x ∈ s.postponed, x ∈ (stepStore c s (.message m)).1.postponed ∨
        (x.sender = m.senderKey ∧ (⟨x.sender, x.owner, x.key, !x.trust⟩ : Entry) ∈ (stepStore c s (.message m)).1.postponed)) := by
  have hp : processed c m = true := (processed_iff c m).mpr ⟨hatm, hself⟩
  have hE : stepStore c s (.message m) = (s.addPostponed (holdEntries m.senderKey (inScope c m)), []) := by
    simp only [stepStore]; exact handleMessage_unauth c s m hp hun
  rw [hE]
  refine ⟨rfl, fun _ _ => rfl, ?_, ?_, ?_⟩
  · intro ko hko hq k hk
    have hin : ko ∈ inScope c m := (mem_inScope _ _ _).mpr ⟨hko, hq⟩
    rcases hk with hk | hk
    · exact foldl_addOne_holds _ s.postponed ⟨m.senderKey, ko.jid, k, true⟩
        ((mem_holdEntries _ _ _).mpr ⟨ko, hin, Or.inl ⟨k, hk, rfl⟩⟩)
    · exact foldl_addOne_holds _ s.postponed ⟨m.senderKey, ko.jid, k, false⟩
        ((mem_holdEntries _ _ _).mpr ⟨ko, hin, Or.inr ⟨k, hk, rfl⟩⟩)
  · intro x hx
    rcases mem_foldl_addOne _ _ _ hx with h | h
    · right
      obtain ⟨ko, hko, hx2⟩ := (mem_holdEntries _ _ _).mp h
      obtain ⟨hko1, hq⟩ := (mem_inScope _ _ _).mp hko
      rcases hx2 with ⟨k, hk, rfl⟩ | ⟨k, hk, rfl⟩
      · exact ⟨rfl, ko, hko1, hq, rfl, Or.inl hk⟩
      · exact ⟨rfl, ko, hko1, hq, rfl, Or.inr hk⟩
    · exact Or.inl h
  · intro x hx
    rcases foldl_addOne_old (holdEntries m.senderKey (inScope c m)) s.postponed x hx with h | ⟨e, he, hk, ho, hs⟩
    · exact Or.inl h
    · obtain ⟨t, ht⟩ := foldl_addOne_holds _ s.postponed e he
      have hsk : e.sender = m.senderKey := by
        obtain ⟨ko, _, hx2⟩ := (mem_holdEntries _ _ _).mp he
        rcases hx2 with ⟨k, _, rfl⟩ | ⟨k, _, rfl⟩ <;> rfl
      rw [← hk, ← ho, ← hs] at ht
      by_cases hte : t = x.trust
      · left; rw [hte] at ht; exact ht
      · right
        refine ⟨hs.trans hsk, ?_⟩
        have : t = !x.trust := by cases t <;> cases hx' : x.trust <;> simp_all
        rw [this] at ht; exact ht

/-! ## Firing: exactly when the sender key id is authenticated -/

/-- **Only if.**  In any step, a held-back entry is applied only if it was held at the start of the step, and
in that same step `authenticate()` ran on a key set `K` containing a key with the entry's sender key id AND
the entry is in the scope of the accounts of `K` (an own key is in `K`, or a key of the entry's owner);
the entry is gone afterwards.  The sender is identified by key id only (the store keeps no sender account):
"that key becomes authenticated" reads "a key with that id is authenticated for the own account or for the
account the decision is about" — see the section on what remains of the key-id-only filing below. -/
theorem postponed_fire_only_if_authenticated (c : Cfg) (s : Store) (op : Op) (e : Entry)
    (h : Ev.fired e ∈ (stepStore c s op).2) :
    e ∈ s.postponed ∧ e ∉ (stepStore c s op).1.postponed ∧
    ∃ K, Ev.auth K ∈ (stepStore c s op).2 ∧ e.sender ∈ K.map (·.2) ∧ InScopeOf c.own K e := by
  rcases step_good_or_quiet c s op with g | q
  · obtain ⟨a, b, d, _, _⟩ := g.fired e h; exact ⟨a, b, d⟩
  · exact absurd h (q.no_fired e)

/-- **If.**  Whenever `authenticate()` runs on key set `K` during a step — directly requested or in the
cascade — every entry held at the start of the step under a sender key id in `K` and in the scope of `K`
is applied in that step, or was *superseded*: removed a moment earlier in the same cascade because another
fired entry (`e' ≠ e`) carried the same verdict for the same key id (`removeKeysForPostponedTrustDecisions`
compares verdict and key id only).  Afterwards nothing in scope is held under those sender ids (out-of-scope
entries stay held), and each key of `K` is `Authenticated` or (if also distrusted in this step)
`ManuallyDistrusted`. -/
theorem postponed_fire_if_authenticated (c : Cfg) (s : Store) (op : Op) (K : List (Nat × Nat))
    (h : Ev.auth K ∈ (stepStore c s op).2) :
    (∀ e ∈ s.postponed, e.sender ∈ K.map (·.2) → InScopeOf c.own K e →
        Ev.fired e ∈ (stepStore c s op).2 ∨ Superseded (stepStore c s op).2 e) ∧
    (∀ e ∈ (stepStore c s op).1.postponed, e.sender ∈ K.map (·.2) → ¬ InScopeOf c.own K e) ∧
    (∀ r ∈ K, (stepStore c s op).1.level r.1 r.2 = .authenticated ∨
              (stepStore c s op).1.level r.1 r.2 = .manDistrusted) := by
  rcases step_good_or_quiet c s op with g | q
  · obtain ⟨a, b, _, d⟩ := g.auth K h; exact ⟨d, a, b⟩
  · exact absurd h (q.no_auth K)

/-- **Exactly when.**  For an entry held at the start of a step and not superseded in it: it is applied in
this step if and only if `authenticate()` runs in this step on a key set that contains its sender key id and
has it in scope. -/
theorem postponed_fire_iff_authenticated (c : Cfg) (s : Store) (op : Op) (e : Entry) (he : e ∈ s.postponed)
    (hns : ¬ Superseded (stepStore c s op).2 e) :
    Ev.fired e ∈ (stepStore c s op).2 ↔
      ∃ K, Ev.auth K ∈ (stepStore c s op).2 ∧ e.sender ∈ K.map (·.2) ∧ InScopeOf c.own K e := by
  constructor
  · intro h; exact (postponed_fire_only_if_authenticated c s op e h).2.2
  · rintro ⟨K, hK, hs, hq⟩
    rcases (postponed_fire_if_authenticated c s op K hK).1 e he hs hq with h | h
    · exact h
    · exact absurd h hns

/-- **The operation that authenticates, manual case.**  The public `makeTrustDecisions` asked to
authenticate key `k` of `o` (not yet `Authenticated`): `authenticate()` runs on a set containing `(o, k)`
and every entry held under sender key id `k` that is about `o`'s keys — or about anybody's, when `o` is the
own account — is applied in that very step. -/
theorem manual_authentication_fires (c : Cfg) (s : Store) (o : Nat) (a d : List Nat) (k : Nat)
    (hk : k ∈ a) (hl : s.level o k ≠ .authenticated) :
    ∃ K, Ev.auth K ∈ (stepStore c s (.manual o a d)).2 ∧ (o, k) ∈ K ∧
      ∀ e ∈ s.postponed, e.sender = k → (o = c.own ∨ e.owner = o) →
        Ev.fired e ∈ (stepStore c s (.manual o a d)).2 :=
  manual_auth_event (own := c.own) s o a d k hk hl

/-- **…message case.**  An authorised message naming in-scope key `k` of `ko.jid` as trusted: same. -/
theorem message_authentication_fires (c : Cfg) (s : Store) (m : Msg) (hatm : m.atm = true)
    (hself : ¬ (m.fromAcc = c.own ∧ m.fromRes = c.ownRes))
    (ha : s.level m.fromAcc m.senderKey = .authenticated) (ko : KeyOwner) (hko : ko ∈ m.owners)
    (hq : m.fromAcc = c.own ∨ m.fromAcc = ko.jid) (k : Nat) (hk : k ∈ ko.trusted) :
    ∃ K, Ev.auth K ∈ (stepStore c s (.message m)).2 ∧ (ko.jid, k) ∈ K ∧
      ∀ e ∈ s.postponed, e.sender = k → (ko.jid = c.own ∨ e.owner = ko.jid) →
        Ev.fired e ∈ (stepStore c s (.message m)).2 :=
  (message_events c s m ((processed_iff c m).mpr ⟨hatm, hself⟩) ha ko hko hq k).1 hk

/-- **Fired decisions take effect.**  At the end of the step in which entry `e` fired: a distrust
verdict has made the key `ManuallyDistrusted`; a trust verdict has made it `Authenticated`, or
`ManuallyDistrusted` if a distrust decision for the same key was carried out later in the same step
(all `authenticate()` calls of a cascade precede all `distrust()` calls). -/
theorem fired_takes_effect (c : Cfg) (s : Store) (op : Op) (e : Entry)
    (h : Ev.fired e ∈ (stepStore c s op).2) :
    (e.trust = false → (stepStore c s op).1.level e.owner e.key = .manDistrusted) ∧
    (e.trust = true → (stepStore c s op).1.level e.owner e.key = .authenticated ∨
                      (stepStore c s op).1.level e.owner e.key = .manDistrusted) := by
  rcases step_good_or_quiet c s op with g | q
  · obtain ⟨_, _, _, d, f⟩ := g.fired e h
    refine ⟨fun ht => ?_, f⟩
    rcases d ht with x | x
    · exact x
    · simp at x
  · exact absurd h (q.no_fired e)

/-- **Held until decided.**  A held-back entry leaves the store during a manual operation or a message
from an authenticated sender only by (i) firing, (ii) being superseded by a fired entry with the same
verdict for the same key id, or (iii) `distrust()` running on a key set that contains its sender key id and has
it in scope (an own key, or a key of the entry's owner, in the set).
(For a message from an unauthenticated sender see the last clause of `held_back`.) -/
theorem held_entry_leaves_only_when (c : Cfg) (s : Store) (op : Op) (e : Entry) (he : e ∈ s.postponed)
    (hgone : e ∉ (stepStore c s op).1.postponed)
    (hop : ∀ m, op = .message m → s.level m.fromAcc m.senderKey = .authenticated) :
    Ev.fired e ∈ (stepStore c s op).2 ∨ Superseded (stepStore c s op).2 e ∨
    ∃ K, Ev.dis K ∈ (stepStore c s op).2 ∧ e.sender ∈ K.map (·.2) ∧ InScopeOf c.own K e := by
  cases op with
  | setPolicy p => exact absurd he hgone
  | seed o k l => exact absurd he hgone
  | manual o a d => exact (manual_good (own := c.own) s o a d).removed e he hgone
  | message m =>
    simp only [stepStore] at hgone ⊢
    cases hp : processed c m
    · rw [handleMessage_not_processed _ _ _ hp] at hgone; exact absurd he hgone
    · rw [handleMessage_auth _ _ _ hp (hop m rfl)] at hgone ⊢
      exact (makeTrustDecisions_good s _ _).removed e he hgone

/-! ## Distrust discards -/

/-- **Discarded.**  Whenever `distrust()` runs on key set `K` during a step, at the end of the step no entry in the
scope of `K` (an own key in `K`, or a key of the entry's owner) is held under a sender key id in `K` — entries of
other accounts' devices that merely share the key ID stay held (repo commit 845d75c) — and every key of `K` is
`ManuallyDistrusted`. -/
theorem distrust_discards (c : Cfg) (s : Store) (op : Op) (K : List (Nat × Nat))
    (h : Ev.dis K ∈ (stepStore c s op).2) :
    (∀ e ∈ (stepStore c s op).1.postponed, e.sender ∈ K.map (·.2) → ¬ InScopeOf c.own K e) ∧
    (∀ r ∈ K, (stepStore c s op).1.level r.1 r.2 = .manDistrusted) := by
  rcases step_good_or_quiet c s op with g | q
  · exact g.dis K h
  · exact absurd h (q.no_dis K)

/-- Manual distrust of key `k` of `o` (not yet `ManuallyDistrusted`) reaches `distrust()`; hence afterwards
nothing about `o`'s keys — nothing at all when `o` is the own account — is held under sender key id `k`. -/
theorem manual_distrust_discards (c : Cfg) (s : Store) (o : Nat) (a d : List Nat) (k : Nat)
    (hk : k ∈ d) (hl : s.level o k ≠ .manDistrusted) :
    ∀ e ∈ (stepStore c s (.manual o a d)).1.postponed, e.sender = k → o ≠ c.own ∧ e.owner ≠ o := by
  obtain ⟨K, hK, hm⟩ := manual_dis_event (own := c.own) s o a d k hk hl
  intro e he hs
  have hn := (distrust_discards c s (.manual o a d) K hK).1 e he (List.mem_map.mpr ⟨(o, k), hm, hs.symm⟩)
  exact ⟨fun h => hn (Or.inl (List.mem_map.mpr ⟨(o, k), hm, h⟩)),
         fun h => hn (Or.inr (List.mem_map.mpr ⟨(o, k), hm, h.symm⟩))⟩

/-- An authorised message naming in-scope key `k` of `ko.jid` as distrusted: same. -/
theorem message_distrust_discards (c : Cfg) (s : Store) (m : Msg) (hatm : m.atm = true)
    (hself : ¬ (m.fromAcc = c.own ∧ m.fromRes = c.ownRes))
    (ha : s.level m.fromAcc m.senderKey = .authenticated) (ko : KeyOwner) (hko : ko ∈ m.owners)
    (hq : m.fromAcc = c.own ∨ m.fromAcc = ko.jid) (k : Nat) (hk : k ∈ ko.distrusted) :
    ∀ e ∈ (stepStore c s (.message m)).1.postponed, e.sender = k → ko.jid ≠ c.own ∧ e.owner ≠ ko.jid := by
  obtain ⟨K, hK, hm⟩ := (message_events c s m ((processed_iff c m).mpr ⟨hatm, hself⟩) ha ko hko hq k).2 hk
  intro e he hs
  have hn := (distrust_discards c s (.message m) K hK).1 e he (List.mem_map.mpr ⟨(ko.jid, k), hm, hs.symm⟩)
  exact ⟨fun h => hn (Or.inl (List.mem_map.mpr ⟨(ko.jid, k), hm, h⟩)),
         fun h => hn (Or.inr (List.mem_map.mpr ⟨(ko.jid, k), hm, h.symm⟩))⟩

/-- **…and never applied later.**  Once nothing is held under sender key id `ks`, then through any
continuation of the history in which no trust message carrying sender key `ks` arrives, nothing is
ever held under `ks` again and no entry with sender `ks` ever fires — even if `ks` is authenticated
later. -/
theorem distrust_discards_forever (c : Cfg) (ks : Nat) (s : Store) (ops : List Op)
    (h0 : ∀ e ∈ s.postponed, e.sender ≠ ks) (hops : ∀ op ∈ ops, NotFromKey ks op) :
    (∀ e ∈ (runStore c s ops).1.postponed, e.sender ≠ ks) ∧
    ∀ evs ∈ (runStore c s ops).2, ∀ e, Ev.fired e ∈ evs → e.sender ≠ ks :=
  noneFrom_run c ks ops s h0 hops

/-! ## TOAKAFA and the levels ATM produces -/

/-- **TOAKAFA.**  Under the policy, whenever `authenticate()` runs on a key of account `o` during a
step, no key of `o` is `AutomaticallyTrusted` at the end of the step. -/
theorem toakafa_policy (c : Cfg) (s : Store) (op : Op) (K : List (Nat × Nat)) (hp : s.policy = .toakafa)
    (h : Ev.auth K ∈ (stepStore c s op).2) :
    ∀ r ∈ K, ∀ k', (stepStore c s op).1.level r.1 k' ≠ .autoTrusted := by
  rcases step_good_or_quiet c s op with g | q
  · exact (g.auth K h).2.2.1 hp
  · exact absurd h (q.no_auth K)

/-- **Which levels a manual ATM operation or a received message can produce**: per key, unchanged; or
`Authenticated` / `ManuallyDistrusted`; or — only under TOAKAFA and only from `AutomaticallyTrusted` —
`AutomaticallyDistrusted`.  In particular without the policy nothing is automatically distrusted,
and the security policy itself is never changed by these operations. -/
theorem atm_levels (c : Cfg) (s : Store) (op : Op) (hop : ∀ o k l, op ≠ .seed o k l) (hop2 : ∀ p, op ≠ .setPolicy p)
    (o k : Nat) :
    ((stepStore c s op).1.level o k = s.level o k ∨
     (stepStore c s op).1.level o k = .authenticated ∨ (stepStore c s op).1.level o k = .manDistrusted ∨
     ((stepStore c s op).1.level o k = .autoDistrusted ∧ s.level o k = .autoTrusted ∧ s.policy = .toakafa)) ∧
    (stepStore c s op).1.policy = s.policy := by
  cases op with
  | setPolicy p => exact absurd rfl (hop2 p)
  | seed o' k' l => exact absurd rfl (hop o' k' l)
  | manual o' a d =>
    have g := manual_good (own := c.own) s o' a d
    refine ⟨?_, g.policy⟩
    rcases g.moves o k with x | x | x
    · exact Or.inl x
    · rcases x with x | x
      · exact Or.inr (Or.inl x)
      · exact Or.inr (Or.inr (Or.inl x))
    · exact Or.inr (Or.inr (Or.inr x))
  | message m =>
    simp only [stepStore]
    cases hp : processed c m
    · rw [handleMessage_not_processed _ _ _ hp]; exact ⟨Or.inl rfl, rfl⟩
    · by_cases ha : s.level m.fromAcc m.senderKey = .authenticated
      · rw [handleMessage_auth _ _ _ hp ha]
        have g := makeTrustDecisions_good (own := c.own) s (namedTrusted (inScope c m)) (namedDistrusted (inScope c m))
        refine ⟨?_, g.policy⟩
        rcases g.moves o k with x | x | x
        · exact Or.inl x
        · rcases x with x | x
          · exact Or.inr (Or.inl x)
          · exact Or.inr (Or.inr (Or.inl x))
        · exact Or.inr (Or.inr (Or.inr x))
      · rw [handleMessage_unauth _ _ _ hp ha]; exact ⟨Or.inl rfl, rfl⟩

/-! ## Contradicting decisions, order, replays -/

/-- **Distrust wins inside one message.**  An authorised message that names an in-scope key as distrusted
leaves it `ManuallyDistrusted`, whether or not it (or a held-back decision fired by it) also names the key as
trusted: within a step every `authenticate()` precedes every `distrust()`. -/
theorem distrust_wins_within_message (c : Cfg) (s : Store) (m : Msg) (hatm : m.atm = true)
    (hself : ¬ (m.fromAcc = c.own ∧ m.fromRes = c.ownRes))
    (ha : s.level m.fromAcc m.senderKey = .authenticated) (ko : KeyOwner) (hko : ko ∈ m.owners)
    (hq : m.fromAcc = c.own ∨ m.fromAcc = ko.jid) (k : Nat) (hk : k ∈ ko.distrusted) :
    (stepStore c s (.message m)).1.level ko.jid k = .manDistrusted := by
  obtain ⟨K, hK, hm⟩ := (message_events c s m ((processed_iff c m).mpr ⟨hatm, hself⟩) ha ko hko hq k).2 hk
  exact (distrust_discards c s (.message m) K hK).2 (ko.jid, k) hm

/-- **The cascade is a function of SETS.**  What `makeTrustDecisions` (manual operation or authorised message)
leaves behind — every level, the set of held-back entries, the policy — depends only on which keys are to be
authenticated / distrusted, on the stored levels and on the set of held-back entries, not on the order of any
list (the C++ iterates `QMultiHash`es).  The code fixes the one order that matters (authenticate a batch, apply
what it releases recursively, then distrust on the way back); so there is no confluence question inside a step,
and the transitive closure terminates (`authenticate_never_exhausts`).  Order dependence exists only ACROSS
steps (a later decision about a key overrides an earlier one; a held trust and a held distrust for one key from
two senders end as whichever sender is authenticated last — or `ManuallyDistrusted` when both are authenticated
in one step, `fired_takes_effect`) and in holding back (the last statement about a key in a message wins,
`held_back`): examples below. -/
theorem cascade_depends_on_sets_only (own : Nat) (s t : Store) (a b d d' : List (Nat × Nat)) (hs : s.Equiv t)
    (ha : ∀ r, r ∈ a ↔ r ∈ b) (hd : ∀ r, r ∈ d ↔ r ∈ d') :
    (s.makeTrustDecisions own a d).1.Equiv (t.makeTrustDecisions own b d').1 :=
  makeTrustDecisions_equiv s t a b d d' hs ha hd

/-! ## Termination of authenticate → makePostponedTrustDecisions → makeTrustDecisions → authenticate -/

/-- **The mutual recursion terminates**: the model runs it with fuel `postponed.length + 1`; no step ever
exhausts it (each nested round first removes at least the entries it is about to apply —
`round_decreases`), and more fuel changes nothing (`authF_fuel_irrelevant`). -/
theorem authenticate_never_exhausts (c : Cfg) (s : Store) (op : Op) :
    Ev.fuelExhausted ∉ (stepStore c s op).2 := by
  rcases step_good_or_quiet c s op with g | q
  · exact g.noExhaust
  · exact q.no_exh

/-- …so the model's `authenticate` satisfies the recursion equation of the C++ function: set the levels
(+ TOAKAFA), fetch the in-scope entries held under the new keys' ids, remove them, `authenticate` their
trusted targets (recursively, from the state reached), then `distrust` their distrusted targets. -/
theorem authenticate_recursion_equation (own : Nat) (s : Store) (keys : List (Nat × Nat)) (hk : keys ≠ []) :
    s.authenticate own keys =
      ((((s.beginAuth keys).takeFired (s.fetchQ own keys)).authenticate own
            (targets (s.fetchQ own keys) true)).1.distrust own (targets (s.fetchQ own keys) false),
       s.beginAuthEvs keys ++ (s.fetchQ own keys).map Ev.fired ++
       (((s.beginAuth keys).takeFired (s.fetchQ own keys)).authenticate own
            (targets (s.fetchQ own keys) true)).2 ++
       (((s.beginAuth keys).takeFired (s.fetchQ own keys)).authenticate own
            (targets (s.fetchQ own keys) true)).1.distrustEvs (targets (s.fetchQ own keys) false)) :=
  authenticate_unfold s keys hk

/-! ## Encryption namespaces are independent -/

/-- An operation addressed to one encryption namespace leaves every other namespace's store untouched
and acts on its own store exactly as `stepStore`. -/
theorem other_encryption_untouched (s : St) (e : EOp) :
    (∀ i, i ≠ e.enc → (step s e).1.stores i = s.stores i) ∧
    (step s e).1.stores e.enc = (stepStore s.cfg (s.stores e.enc) e.op).1 ∧
    (step s e).2 = (stepStore s.cfg (s.stores e.enc) e.op).2 ∧ (step s e).1.cfg = s.cfg := by
  refine ⟨fun i hi => ?_, ?_, rfl, rfl⟩
  · simp [step, hi]
  · simp [step]

/-! ## Non-vacuity: the hypotheses above are met by reachable states

own account 0 / resource 0; account 1 = contact B, account 2 = contact C. -/

/-- B's unauthenticated device k1 says "B:k2 trusted": held back, level untouched… -/
example : ((runStore ⟨0, 0⟩ {} [.message ⟨1, 1, 1, true, [⟨1, [2], []⟩]⟩]).1.postponed = [⟨1, 1, 2, true⟩]) ∧
    (runStore ⟨0, 0⟩ {} [.message ⟨1, 1, 1, true, [⟨1, [2], []⟩]⟩]).1.level 1 2 = .undecided := by decide
/-- …and fires exactly when the user authenticates B:k1 (events: auth, fired, auth of the target). -/
example : (stepStore ⟨0, 0⟩ (runStore ⟨0, 0⟩ {} [.message ⟨1, 1, 1, true, [⟨1, [2], []⟩]⟩]).1 (.manual 1 [1] [])).2 =
    [.auth [(1, 1)], .changed [(1, 1)], .fired ⟨1, 1, 2, true⟩, .auth [(1, 2)], .changed [(1, 2)]] := by decide
example : (runStore ⟨0, 0⟩ {} [.message ⟨1, 1, 1, true, [⟨1, [2], []⟩]⟩, .manual 1 [1] []]).1.level 1 2
    = .authenticated := by decide
/-- distrusting B:k1 instead discards it; authenticating B:k1 later applies nothing -/
example : (runStore ⟨0, 0⟩ {} [.message ⟨1, 1, 1, true, [⟨1, [2], []⟩]⟩, .manual 1 [] [1], .manual 1 [1] []]).1.level 1 2
    = .undecided ∧
    (runStore ⟨0, 0⟩ {} [.message ⟨1, 1, 1, true, [⟨1, [2], []⟩]⟩, .manual 1 [] [1]]).1.postponed = [] := by decide
/-- authorised contact message: in-scope owner applied, out-of-scope owner dropped -/
example : (runStore ⟨0, 0⟩ {} [.manual 1 [1] [], .message ⟨1, 1, 1, true, [⟨2, [2], []⟩, ⟨1, [2], [3]⟩]⟩]).1.trust
    = [((1, 1), .authenticated), ((1, 2), .authenticated), ((1, 3), .manDistrusted)] := by decide
/-- own other device (resource 1): any account -/
example : (runStore ⟨0, 0⟩ {} [.manual 0 [1] [], .message ⟨0, 1, 1, true, [⟨2, [2], []⟩]⟩]).1.level 2 2
    = .authenticated := by decide
/-- TOAKAFA: authenticating B:k1 turns B's automatically trusted k2 into automatically distrusted, C's k2 stays -/
example : (runStore ⟨0, 0⟩ {} [.setPolicy .toakafa, .seed 1 2 .autoTrusted, .seed 2 2 .autoTrusted, .manual 1 [1] []]).1.trust
    = [((1, 2), .autoDistrusted), ((2, 2), .autoTrusted), ((1, 1), .authenticated)] := by decide
/-- a cascade two rounds deep with a distrust at the end (k1 → k2 → {k3 trusted, k1 distrusted}) -/
example : (runStore ⟨0, 0⟩ {} [.message ⟨1, 1, 1, true, [⟨1, [2], []⟩]⟩, .message ⟨1, 1, 2, true, [⟨1, [3], [1]⟩]⟩,
      .manual 1 [1] []]).1.trust
    = [((1, 1), .manDistrusted), ((1, 2), .authenticated), ((1, 3), .authenticated)] := by decide
/-- the hypotheses of `postponed_fire_iff_authenticated` are met (held, not superseded) and both sides hold -/
example : (⟨1, 1, 2, true⟩ : Entry) ∈ (runStore ⟨0, 0⟩ {} [.message ⟨1, 1, 1, true, [⟨1, [2], []⟩]⟩]).1.postponed ∧
    ¬ Superseded (stepStore ⟨0, 0⟩ (runStore ⟨0, 0⟩ {} [.message ⟨1, 1, 1, true, [⟨1, [2], []⟩]⟩]).1 (.manual 1 [1] [])).2
        ⟨1, 1, 2, true⟩ := by
  refine ⟨by decide, ?_⟩
  rintro ⟨e', h1, h2, _⟩
  have : (stepStore ⟨0, 0⟩ (runStore ⟨0, 0⟩ {} [.message ⟨1, 1, 1, true, [⟨1, [2], []⟩]⟩]).1 (.manual 1 [1] [])).2 =
      [.auth [(1, 1)], .changed [(1, 1)], .fired ⟨1, 1, 2, true⟩, .auth [(1, 2)], .changed [(1, 2)]] := by decide
  rw [this] at h1
  simp at h1
  exact h2 h1
/-! ### What remains of filing held-back decisions under the sender's key ID alone

The store keeps no sender account.  None of the following lets anybody move trust outside his scope
(`trust_changes_only_if_authorized`), but with one key ID used with two accounts the second sentence of the
property ("held back and take effect exactly when, and only if, that key later becomes authenticated; …
distrusted … discarded") fails in these ways; with unshared key IDs none of them can occur.
* R2 — **recorded as finding** `C18:cross-account-discard`; anybody entitled to decide about one of his own keys can
  trigger it by NAMING a key ID in a decision: a held decision is dropped unapplied when a fired entry has the same
  verdict for the same key ID of ANOTHER owner (`C18_defect_cross_account_discard_by_supersession`); exact extent:
  `contact_touches_only_own_held_decisions_partial`, `held_entry_leaves_only_when`.  (R3, the same through a distrust of
  the sender key ID for another account, was fixed in 845d75c: `distrust_discards`.)
* R1, R4 — statistics only, they need two accounts' devices that really hold the same key pair (a SENDER key ID is
  what the decryption layer verified, it cannot be claimed): a decision sent with key id `ks` by account `S` is
  applied — or, on a distrust, discarded — when a key with id `ks` is authenticated / distrusted, for whatever
  account, in a batch that also contains an own key or a key of the decision's owner (`InScopeOf`; bounds:
  `postponed_fire_only_if_authenticated`, `distrust_discards`); and another account's unauthenticated message with
  sender key id `ks` can restate a held decision the other way (last clause of `held_back`).
The harness counts each kind (`cross_owner_superseded`, `cross_owner_discarded`, `fired_by_key_id_other_account`,
`cross_owner_overwritten`). -/

/-- the pre-a532e12 witness: C's held-back decision no longer fires on B's claim of key id 1 — it stays held -/
example : (runStore ⟨0, 0⟩ {} [.message ⟨2, 1, 1, true, [⟨2, [2], []⟩]⟩, .manual 1 [3] [],
      .message ⟨1, 1, 3, true, [⟨1, [1], []⟩]⟩]).1.level 2 2 = .undecided ∧
    (runStore ⟨0, 0⟩ {} [.message ⟨2, 1, 1, true, [⟨2, [2], []⟩]⟩, .manual 1 [3] [],
      .message ⟨1, 1, 3, true, [⟨1, [1], []⟩]⟩]).1.postponed = [⟨1, 2, 2, true⟩] := by decide
/-- R1: B's unauthenticated device k1 says "B:k2 trusted"; the user authenticates key id 1 as an OWN key: applied -/
example : (runStore ⟨0, 0⟩ {} [.message ⟨1, 1, 1, true, [⟨1, [2], []⟩]⟩, .manual 0 [1] []]).1.level 1 2
    = .authenticated := by decide
/-- R2: C:k1 and B:k1 (both unauthenticated) each say "my k2 is distrusted"; authenticating B:k1 applies B's and
deletes C's as well (same verdict, same key id 2); authenticating C:k1 later applies nothing -/
example : (runStore ⟨0, 0⟩ {} [.message ⟨2, 1, 1, true, [⟨2, [], [2]⟩]⟩, .message ⟨1, 1, 1, true, [⟨1, [], [2]⟩]⟩,
      .manual 1 [1] []]).1.postponed = [] ∧
    (runStore ⟨0, 0⟩ {} [.message ⟨2, 1, 1, true, [⟨2, [], [2]⟩]⟩, .message ⟨1, 1, 1, true, [⟨1, [], [2]⟩]⟩,
      .manual 1 [1] [], .manual 2 [1] []]).1.level 2 2 = .undecided := by decide

/-- contradicting verdicts in ONE authorised message: distrust wins -/
example : (runStore ⟨0, 0⟩ {} [.manual 1 [1] [], .message ⟨1, 1, 1, true, [⟨1, [2], [2]⟩]⟩]).1.level 1 2
    = .manDistrusted := by decide
/-- …in one HELD message: the later statement wins (trusted keys of a key owner are filed before its distrusted ones) -/
example : (runStore ⟨0, 0⟩ {} [.message ⟨1, 1, 1, true, [⟨1, [2], [2]⟩]⟩]).1.postponed = [⟨1, 1, 2, false⟩] ∧
    (runStore ⟨0, 0⟩ {} [.message ⟨1, 1, 1, true, [⟨1, [], [2]⟩, ⟨1, [2], []⟩]⟩]).1.postponed = [⟨1, 1, 2, true⟩] := by decide
/-- held "B:k3 trusted" from B:k1 and held "B:k3 distrusted" from B:k2: authenticated in one step → distrusted;
one after the other → the one authenticated last -/
example : (runStore ⟨0, 0⟩ {} [.message ⟨1, 1, 1, true, [⟨1, [3], []⟩]⟩, .message ⟨1, 1, 2, true, [⟨1, [], [3]⟩]⟩,
      .manual 1 [1, 2] []]).1.level 1 3 = .manDistrusted ∧
    (runStore ⟨0, 0⟩ {} [.message ⟨1, 1, 1, true, [⟨1, [3], []⟩]⟩, .message ⟨1, 1, 2, true, [⟨1, [], [3]⟩]⟩,
      .manual 1 [1] [], .manual 1 [2] []]).1.level 1 3 = .manDistrusted ∧
    (runStore ⟨0, 0⟩ {} [.message ⟨1, 1, 1, true, [⟨1, [3], []⟩]⟩, .message ⟨1, 1, 2, true, [⟨1, [], [3]⟩]⟩,
      .manual 1 [2] [], .manual 1 [1] []]).1.level 1 3 = .authenticated := by decide
/-- a replayed message is harmless when the first copy released nothing… -/
example : (runStore ⟨0, 0⟩ {} [.manual 1 [1] [], .message ⟨1, 1, 1, true, [⟨1, [2], [3]⟩]⟩]).1.trust =
    (runStore ⟨0, 0⟩ {} [.manual 1 [1] [], .message ⟨1, 1, 1, true, [⟨1, [2], [3]⟩]⟩,
      .message ⟨1, 1, 1, true, [⟨1, [2], [3]⟩]⟩]).1.trust := by decide
/-- …but re-asserts its verdict over a held-back decision that the first copy made fire (B:k2 had said "distrust
B:k2"; first copy: k2 authenticated, its held statement fires, k2 distrusted; replay: k2 authenticated again).
ATM has no ordering of trust messages; it relies on the replay protection of the encryption layer. -/
example : (runStore ⟨0, 0⟩ {} [.message ⟨1, 1, 2, true, [⟨1, [], [2]⟩]⟩, .manual 1 [1] [],
      .message ⟨1, 1, 1, true, [⟨1, [2], []⟩]⟩]).1.level 1 2 = .manDistrusted ∧
    (runStore ⟨0, 0⟩ {} [.message ⟨1, 1, 2, true, [⟨1, [], [2]⟩]⟩, .manual 1 [1] [],
      .message ⟨1, 1, 1, true, [⟨1, [2], []⟩]⟩, .message ⟨1, 1, 1, true, [⟨1, [2], []⟩]⟩]).1.level 1 2 = .authenticated := by decide

/-- supersession happens: two senders hold the same verdict for B:k3; when k1 is authenticated both entries go -/
example : (runStore ⟨0, 0⟩ {} [.message ⟨1, 1, 1, true, [⟨1, [3], []⟩]⟩, .message ⟨1, 1, 2, true, [⟨1, [3], []⟩]⟩,
      .manual 1 [1] []]).1.postponed = [] := by decide

end Qx.C18
