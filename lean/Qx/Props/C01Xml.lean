import Qx.Proofs.Xml
import Qx.Generated.NsConstants
/-!
C01, tier A (XML text layer): property theorems.

Model: `Qx/Xml/Tree.lean` (`escText`, `escAttr`, `render` — Qt 5.15's `QXmlStreamWriter` as qxmpp
drives it) and `Qx/Xml/Parse.lean` (`unesc`, `parse`, `view` — `QDomDocument::setContent`
restricted to the writer's output language).  Both are compared with the real Qt on every run by
`harness/cxx/xmllayer.cpp`.  Strings are lists of Unicode scalar values; every theorem is for
strings and trees of any size.

Since repo commit 6d0fec7 text reaches the wire in two ways (Qx/Xml/Writer.lean): through
`writeCharacters` (`escText`, CR literal) or through `writeXmlTextElement(w, name, value)` (`escTextCr`,
CR as `&#13;`).  `WNode`/`renderW` carry that choice per text node; `render` is the case "all through
writeCharacters".  Every statement below holds for both ways.
-/
namespace Qx.C01Xml
open Qx.Xml

/-! ## un-escaping inverts escaping -/

/-- Text: for every string, un-escaping the escaped form gives the string minus the characters
XML cannot carry (which the writer drops). Unconditional. -/
theorem unesc_escText_filter (s : Str) : unesc (escText s) = s.filter legalChar :=
  unescGo_flatMap false s

/-- Attribute values: the same. -/
theorem unesc_escAttr_filter (s : Str) : unesc (escAttr s) = s.filter legalChar :=
  unescGo_flatMap true s

/-- Text made of XML-legal characters (markup metacharacters, quotes, CR/LF/TAB, non-ASCII
included) comes back exactly. -/
theorem unesc_escText (s : Str) (h : ∀ c ∈ s, legalChar c = true) : unesc (escText s) = s := by
  rw [unesc_escText_filter, filter_legal_of_all h]

/-- Attribute values made of XML-legal characters come back exactly. -/
theorem unesc_escAttr (s : Str) (h : ∀ c ∈ s, legalChar c = true) : unesc (escAttr s) = s := by
  rw [unesc_escAttr_filter, filter_legal_of_all h]

/-- The hypothesis is exact: a text value comes back unchanged if AND ONLY IF all its characters are
XML-legal (the others — U+0000–U+001F except TAB/LF/CR, U+FFFE, U+FFFF — are dropped by the writer;
measured on the real writer for every such code point by the harness sweep). -/
theorem unesc_escText_iff (s : Str) : unesc (escText s) = s ↔ ∀ c ∈ s, legalChar c = true := by
  rw [unesc_escText_filter]; exact List.filter_eq_self

/-- The same for attribute values. -/
theorem unesc_escAttr_iff (s : Str) : unesc (escAttr s) = s ↔ ∀ c ∈ s, legalChar c = true := by
  rw [unesc_escAttr_filter]; exact List.filter_eq_self

example : unesc (escText ['a', Char.ofNat 1, 'b']) = ['a', 'b'] := by decide

/-- Text written by `writeXmlTextElement(w, name, value)` (CR as `&#13;`): un-escaping gives the string
minus the characters XML cannot carry, exactly as for `writeCharacters`. Unconditional. -/
theorem unesc_escTextCr_filter (s : Str) : unesc (escTextCr s) = s.filter legalChar :=
  Qx.Xml.unesc_escTextCr s

/-- … and text made of XML-legal characters (CR included) comes back exactly. -/
theorem unesc_escTextCr (s : Str) (h : ∀ c ∈ s, legalChar c = true) : unesc (escTextCr s) = s := by
  rw [unesc_escTextCr_filter, filter_legal_of_all h]

example : escTextCr "a\r\n<".toList = "a&#13;\n&lt;".toList := by decide

example : ∀ c ∈ "<>&\"' \t\r\n]]>&#60;</a>é😀".toList, legalChar c = true := by decide
example : unesc (escText "<>&\"' \t\r\n]]>&#60;</a>é😀".toList) = "<>&\"' \t\r\n]]>&#60;</a>é😀".toList := by decide
example : unesc (escAttr "<>&\"' \t\r\n]]>&#60;</a>é😀".toList) = "<>&\"' \t\r\n]]>&#60;</a>é😀".toList := by decide

/-! ## no markup injection: what escaped payloads can never contain (all strings, no hypothesis) -/

/-- Escaped text never contains `<`: a text value cannot open a tag. -/
theorem escText_no_lt (s : Str) : '<' ∉ escText s := flatMap_escChar_no_meta false s '<' (by simp)
/-- Escaped text never contains `>` (so never `]]>` either). -/
theorem escText_no_gt (s : Str) : '>' ∉ escText s := flatMap_escChar_no_meta false s '>' (by simp)
/-- Escaped text never contains a double quote. -/
theorem escText_no_quote (s : Str) : '"' ∉ escText s := flatMap_escChar_no_meta false s '"' (by simp)
/-- The same three for text written by `writeXmlTextElement(w, name, value)`. -/
theorem escTextCr_no_meta (s : Str) : '<' ∉ escTextCr s ∧ '>' ∉ escTextCr s ∧ '"' ∉ escTextCr s :=
  ⟨escMarked_no_meta _ '<' (by simp), escMarked_no_meta _ '>' (by simp), escMarked_no_meta _ '"' (by simp)⟩
/-- An escaped attribute value never contains the double quote that would end it. -/
theorem escAttr_no_quote (s : Str) : '"' ∉ escAttr s := flatMap_escChar_no_meta true s '"' (by simp)
/-- An escaped attribute value never contains `<`. -/
theorem escAttr_no_lt (s : Str) : '<' ∉ escAttr s := flatMap_escChar_no_meta true s '<' (by simp)
/-- An escaped attribute value never contains `>`. -/
theorem escAttr_no_gt (s : Str) : '>' ∉ escAttr s := flatMap_escChar_no_meta true s '>' (by simp)

/-- Wherever an `&` occurs in escaped text, the output from that `&` on begins with one of the
seven references the writer emits (`&lt;` `&gt;` `&amp;` `&quot;` `&#9;` `&#10;` `&#13;`): a value
cannot smuggle in a reference of its own. -/
theorem amp_only_starts_entity (s pre suf : Str) (h : escText s = pre ++ '&' :: suf) :
    startsEntity ('&' :: suf) = true :=
  ampOK_suffix (ampOK_flatMap false s) pre suf h

/-- The same for escaped attribute values. -/
theorem amp_only_starts_entity_attr (s pre suf : Str) (h : escAttr s = pre ++ '&' :: suf) :
    startsEntity ('&' :: suf) = true :=
  ampOK_suffix (ampOK_flatMap true s) pre suf h

example : escText "a&#60;&".toList = "a".toList ++ '&' :: "amp;#60;&amp;".toList := by decide

/-! ## the written document parses back to the tree that was written -/

/-- What the parser returns for a written tree, for ALL text and attribute-value strings
(namespace URIs included): `view t`, i.e. `t` with the characters the writer drops removed, adjacent
text merged and blank text runs gone (`view` does not look at anything else).  `NamesOK`
constrains only names. -/
theorem parse_render_view (n : Str) (as : List (Str × Str)) (ks : List Node)
    (h : NamesOK (.elem n as ks)) :
    parse (render (.elem n as ks)) = some (view (.elem n as ks)) :=
  Qx.Xml.parse_render_view n as ks h

/-- No field value can alter the element structure: whatever strings sit in attribute values
(`xmlns` included) and text nodes (metacharacters only, `]]>`, quotes, `&#60;`, `</x>` …), the written
document parses, and the parsed tree has exactly the elements, attribute names and nesting of the
tree that was written (`skeleton` erases text nodes and attribute values and keeps everything else). -/
theorem render_skeleton_indep (n : Str) (as : List (Str × Str)) (ks : List Node)
    (h : NamesOK (.elem n as ks)) :
    (parse (render (.elem n as ks))).map skeleton = some (skeleton (.elem n as ks)) := by
  rw [parse_render_view n as ks h, Option.map_some, skeleton_view]

/-- Consequence: two trees that differ only in their string payloads are written to documents
with the same element structure. -/
theorem payload_cannot_change_structure (t u : Node) (ht : NamesOK t) (hu : NamesOK u)
    (n : Str) (as : List (Str × Str)) (ks : List Node) (et : t = .elem n as ks)
    (n' : Str) (as' : List (Str × Str)) (ks' : List Node) (eu : u = .elem n' as' ks')
    (same : skeleton t = skeleton u) :
    (parse (render t)).map skeleton = (parse (render u)).map skeleton := by
  subst et eu
  rw [render_skeleton_indep n as ks ht, render_skeleton_indep n' as' ks' hu, same]

/-- The `shape` form (text nodes kept as empty place-holders): the shape of the parsed document is
the shape of the written tree as an XML parser sees it (`view`: adjacent text merged, blank text dropped). -/
theorem render_shape_indep (n : Str) (as : List (Str × Str)) (ks : List Node)
    (h : NamesOK (.elem n as ks)) :
    (parse (render (.elem n as ks))).map shape = some (shape (view (.elem n as ks))) := by
  rw [parse_render_view n as ks h, Option.map_some]

/-- The same for trees whose text nodes are written either way (`WNode`, `renderW`): what is read
back is `view` of the tree, whichever call wrote each text node. -/
theorem parse_renderW_view (n : Str) (as : List (Str × Str)) (ks : List WNode)
    (h : NamesOK (WNode.erase (.elem n as ks))) :
    parse (renderW (.elem n as ks)) = some (view (WNode.erase (.elem n as ks))) :=
  Qx.Xml.parse_renderW_view n as ks h

/-- … hence the element structure is that of the tree, for all payloads, either way of writing text. -/
theorem renderW_skeleton_indep (n : Str) (as : List (Str × Str)) (ks : List WNode)
    (h : NamesOK (WNode.erase (.elem n as ks))) :
    (parse (renderW (.elem n as ks))).map skeleton = some (skeleton (WNode.erase (.elem n as ks))) := by
  rw [parse_renderW_view n as ks h, Option.map_some, skeleton_view]

/-- … and an `XmlSafe` tree is read back exactly, either way of writing text. -/
theorem parse_renderW (n : Str) (as : List (Str × Str)) (ks : List WNode)
    (h : XmlSafe (WNode.erase (.elem n as ks))) :
    parse (renderW (.elem n as ks)) = some (WNode.erase (.elem n as ks)) := by
  rw [parse_renderW_view n as ks (namesOK_of_wellFormed _ h), view_of_wellFormed _ h]

/-- A reader that applies the line-end normalisation of XML 1.0 §2.11 (`parseStd`; QXmlStreamReader,
expat, libxml2 — not Qt 5.15's QDom) reads the same tree, CR included, provided no text node puts a
literal CR on the wire (`crSafe`: written by `writeXmlTextElement(w, name, value)`, or CR-free).
Attribute values never do (`escAttr` writes `&#13;`). -/
theorem conforming_reader_reads_the_same (n : Str) (as : List (Str × Str)) (ks : List WNode)
    (h : NamesOK (WNode.erase (.elem n as ks))) (hc : crSafe (.elem n as ks) = true) :
    parseStd (renderW (.elem n as ks)) = some (view (WNode.erase (.elem n as ks))) :=
  parseStd_renderW_view n as ks h hc

/-- `crSafe` is needed: a CR written by `writeCharacters` is read as LF by such a reader (and kept by QDom). -/
example : parseStd (render (.elem "a".toList [] [.text "x\ry".toList])) = some (.elem "a".toList [] [.text "x\ny".toList])
    ∧ parse (render (.elem "a".toList [] [.text "x\ry".toList])) = some (.elem "a".toList [] [.text "x\ry".toList]) := by
  decide +kernel
example : parseStd (renderW (.elem "a".toList [] [.text true "x\r\ny".toList])) = some (.elem "a".toList [] [.text "x\r\ny".toList]) := by
  decide +kernel

/-- The one place where the writer does NOT escape: Qt writes the argument of
`writeDefaultNamespace` / `writeNamespace` verbatim.  qxmpp passes only compile-time constants there
(checked on every run by translators/ns_constants.py, which regenerates `Qx.Generated.Ns` and fails
on any other argument); for each of them verbatim output and the model's escaped output are the
same bytes. -/
theorem ns_constants_ok : ∀ v ∈ Qx.Generated.Ns.allNamespaces, escAttr v.toList = v.toList := by
  have h : Qx.Generated.Ns.allNamespaces.all (fun v => v.toList.all plainAttrChar) = true := by decide +kernel
  intro v hv
  exact escAttr_plain _ (List.all_eq_true.mp (List.all_eq_true.mp h v hv))

example : Qx.Generated.Ns.allNamespaces.length > 100 ∧ "jabber:client" ∈ Qx.Generated.Ns.allNamespaces := by decide +kernel

/-- `view` spelled out with the shared `normalize` of Qx/Xml/Canon.lean: remove the characters the
writer drops (`legalize`), merge adjacent text and drop empty text (`normalize`), drop the text
runs that are blank (`dropBlank`, QDom's white-space rule). -/
theorem view_eq_normalize (t : Node) : view t = dropBlank (normalize (legalize t)) := view_eq t

/-- Text layer half of "serialize-then-parse is the identity", at character level: a tree whose
names are names, whose characters are all XML-legal, whose text nodes are non-blank and never adjacent is read back
exactly.  (CR/LF/TAB need no exclusion: Qt 5.15's QDom keeps them, measured by the harness.) -/
theorem parse_render (n : Str) (as : List (Str × Str)) (ks : List Node)
    (h : WellFormed (.elem n as ks)) :
    parse (render (.elem n as ks)) = some (.elem n as ks) := by
  rw [parse_render_view n as ks (namesOK_of_wellFormed _ h), view_of_wellFormed _ h]

/-- The same statement in the form the codec tier composes with (`Qx.Xml.parse_render_xmlSafe` in
Qx/Proofs/Xml.lean is the importable lemma): every `XmlSafe` tree with an element root. -/
theorem parse_render_xmlSafe (t : Node) (he : t.isElem = true) (h : XmlSafe t) : parse (render t) = some t :=
  Qx.Xml.parse_render_xmlSafe t he h

/-- a blank text node is NOT read back (QDom drops it): why `XmlSafe` demands non-blank text -/
example : parse (render (.elem "body".toList [] [.text " ".toList])) = some (.elem "body".toList [] []) := by decide +kernel

/-! ## non-vacuity -/

/-- a tree whose payloads are nothing but markup -/
def evil : Node :=
  .elem "a".toList [("k".toList, "\"><x y=\"".toList), ("xmlns".toList, "u\"><evil/></a><a xmlns=\"u".toList)]
    [.text "</a><b>".toList, .text "]]>&#60;<![CDATA[".toList,
     .elem "stream:b".toList [("q".toList, "&\"'<>&amp;".toList)] [.text "<".toList, .text ">".toList],
     .text "\"".toList, .elem "c".toList [] [.text " \r\n\t".toList]]

example : NamesOK evil := by decide
example : ¬ WellFormed evil := by decide
example : (parse (render evil)).map skeleton = some (skeleton evil) := by decide +kernel
example : parse (render evil) = some (view evil) := by decide +kernel

/-- a well-formed tree with metacharacters, quotes, CR/LF/TAB, non-BMP characters -/
def good : Node :=
  .elem "message".toList [("to".toList, "a@b/\"<&>'\t\r\n".toList), ("xml:lang".toList, "en".toList)]
    [.elem "body".toList [] [.text " </body> &lt; ]]> \r\n 😀 ".toList], .text "x".toList,
     .elem "x".toList [("xmlns".toList, "jabber:x:data".toList)] []]

example : WellFormed good := by decide
example : parse (render good) = some good := by decide +kernel
example : parse "<a k=\"&lt;&#9;&#x41;\">x&amp;&#65;<b/></a>".toList
    = some (.elem "a".toList [("k".toList, "<\tA".toList)] [.text "x&A".toList, .elem "b".toList [] []]) := by
  decide +kernel
example : parse "<a><b></a></b>".toList = none := by decide +kernel
example : parse "<a><!-- c --></a>".toList = none := by decide +kernel
example : parse "<a k=\"<\"/>".toList = none := by decide +kernel

end Qx.C01Xml
