import Qx.Props.C01Codec
/-!
# C02, tier C — one parse/serialize pass is a fixpoint, for EVERY input tree

`S.decode` is total on all trees (foreign elements, missing / duplicated / re-namespaced children,
garbage attribute values, …); `S.parse` adds the class's own type check.  Theorems only.
-/
namespace Qx.C02Codec
open Qx.Xml Qx.Xml.Codec Qx.C01Codec

/-- **Whatever tree the field readers are run on, the values they report are canonical**
(integers in range of the C++ type, enum indices valid, optional / repeated parts well shaped, an element the class
treats as absent reported as all defaults) — for every well-formed schema. -/
theorem decode_lands_canon_fields (S : Schema) (hS : S.WF) (x : Node) : canonFs S.fields (S.decode x) = true :=
  canonFs_decFs S.fields S.head.ns _ x hS.2.2.1

/-- **Every element the class's `fromDom` accepts yields a canonical value** — for EVERY tree `x`. -/
theorem decode_lands_canon (S : Schema) (hS : S.WF) (x : Node) (v : List Val) (h : S.parse x = some v) :
    S.Canon v := by
  simp only [Schema.parse] at h
  split at h
  · rename_i y _
    split at h
    · rename_i hm
      simp only [Option.some.injEq] at h
      subst h
      exact ⟨canonFs_decFs S.fields S.head.ns _ y hS.2.2.1, hm⟩
    · simp at h
  · simp at h

/-- for classes without mandatory parts the readers' result is canonical on every tree, accepted or not -/
theorem decode_lands_canon_total (S : Schema) (hS : S.WF) (hm : noMandFs S.fields = true) (x : Node) :
    S.Canon (S.decode x) :=
  ⟨canonFs_decFs S.fields S.head.ns _ x hS.2.2.1, mandOK_of_noMand _ _ hm⟩

/-- **One parse/serialize pass is a fixpoint.** If the class accepts `x` and serializes the result
to `y`, then it accepts `y` and serializes it to `y` again — for every tree `x`, not only the class's
own documents. -/
theorem norm_idem (S : Schema) (hS : S.WF) (x y : Node) (h : S.norm x = some y) : S.norm y = some y := by
  simp only [Schema.norm, Option.map_eq_some_iff] at h
  obtain ⟨v, hv, rfl⟩ := h
  exact reserialize_same S hS v (decode_lands_canon S hS x v hv)

/-- the same without the type check: `encode ∘ decode` is idempotent on all trees -/
theorem norm_idem_total (S : Schema) (hS : S.WF) (hm : noMandFs S.fields = true) (x : Node) :
    S.encode (S.decode (S.encode (S.decode x))) = S.encode (S.decode x) := by
  rw [decode_encode S hS _ (decode_lands_canon_total S hS hm x)]

/-- non-vacuity: a foreign element is a legitimate input of `norm_idem_total` -/
example : noMandFs Classes.Bind2Request.fields = true := by decide

end Qx.C02Codec
