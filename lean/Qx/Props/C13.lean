import Qx.Proofs.C13
import Qx.Proofs.C13Live
/-!
# C13 — a task's continuation runs exactly once, never after its context died

Property theorems only (helpers: `Qx/Proofs/C13.lean`, model: `Qx/Model/C13Task.lean`).
All statements quantify over every kind (void / value), every operation list of any
length, every continuation body.
-/
namespace Qx.C13

/-- **At most once.** Whatever the history, no continuation id occurs twice among the `ran`
events (every `then` allocates a fresh id, so "id" = "the continuation attached by that call"). -/
theorem cont_runs_at_most_once (kind : Kind) (ops : List Op) (k : Nat) :
    (ranIds (run (init kind) ops).2).count k ≤ 1 := by
  have h := (Inv.init kind).run ops
  simp only [List.nil_append] at h
  exact List.nodup_iff_count.mp h.nodup k

/-- **Never after context death.** Once context `c` (a real object, `c ≠ 0`) is destroyed, no
continuation registered with it runs in any continuation of the history — neither stored
ones at `finish` nor late or re-entrant attaches. -/
theorem never_after_context_death (s : St) (c : Nat) (hc : c ≠ 0) (ops : List Op)
    (hdead : c ∈ s.dead) : c ∉ ranCtxs (run s ops).2 := by
  intro hm
  rcases run_ctx ops s c hm with h | h
  · exact hc h
  · exact h hdead

/-- …in particular from the moment of the `destroyCtx` operation itself. -/
theorem never_after_destroy (s : St) (c : Nat) (hc : c ≠ 0) (ops : List Op) :
    c ∉ ranCtxs (run s (.destroyCtx c :: ops)).2 := by
  intro hm
  simp only [run] at hm
  rw [ranCtxs_append, List.mem_append] at hm
  rcases hm with hm | hm
  · rw [step_ranCtxs] at hm; simp [stepCore, ranCtxs] at hm
  · refine never_after_context_death _ c hc ops ?_ hm
    rw [step_fst]; simp [stepCore, hc]

/-! The one-step theorems below are stated for `stepCore`, the operation's own effect; `step` only
appends the end-of-step `released` report (`step_fst`, `step_ranIds`, `step_ranCtxs`). -/

/-- **Attached before finish, context alive ⇒ runs at `finish`, first, with the finished value.** -/
theorem finish_delivers_to_attached (s : St) (c : Cont) (v : Nat)
    (hrefs : s.refs ≠ 0) (hnf : s.finished = false) (hc : s.cont = some c)
    (halive : s.alive c.ctx = true) :
    (stepCore s (.finish v)).2.head? =
      some (.ran c.id c.ctx (deliveredOf s.kind v))
    ∧ (stepCore s (.finish v)).1.cont = none := by
  have halive' : c.ctx ∉ s.dead := alive_not_dead halive
  simp [stepCore, finishCore, hrefs, hnf, hc, halive', invokeCont]

/-- **Attached before finish, context dead ⇒ nothing runs and nothing is stored.** -/
theorem finish_skips_dead_context (s : St) (c : Cont) (v : Nat)
    (hrefs : s.refs ≠ 0) (hnf : s.finished = false) (hc : s.cont = some c)
    (hdead : s.alive c.ctx = false) :
    (stepCore s (.finish v)).2 = [] ∧ (stepCore s (.finish v)).1.result = s.result := by
  have hdead' : c.ctx ∈ s.dead := by simpa [St.alive] using hdead
  simp [stepCore, finishCore, hrefs, hnf, hc, hdead']

/-- **A later `then` replaces an earlier one (documented): the replaced continuation never runs.** -/
theorem replaced_never_runs (kind : Kind) (pre post : List Op) (ctx : Nat) (body : List Inner) :
    let s := (run (init kind) pre).1
    s.finished = false → s.refs ≠ 0 →
    ∀ c, s.cont = some c →
      c.id ∉ ranIds (run (step s (.thenOp ctx body)).1 post).2 := by
  intro s hnf hrefs c hc
  -- after the replacing `then`, the old id is below nextId, is not the stored continuation,
  -- and has not run: Inv with the old id appended to the log as a ghost "already ran" entry
  have hinv0 : Inv s (run (init kind) pre).2 := by
    have := (Inv.init kind).run pre; simpa using this
  have hlt := (hinv0.cont c hc).1
  have hstep : step s (.thenOp ctx body) =
      ({ s with nextId := s.nextId + 1,
                cont := some { id := s.nextId, ctx := s.effCtx ctx, body := body } }, []) := by
    simp [step, stepCore, hrefs, hnf]
  have hinv1 : Inv (step s (.thenOp ctx body)).1 [.ran c.id 0 none] := by
    rw [hstep]
    refine ⟨by simp, ?_, ?_⟩
    · intro k hk; simp at hk; subst hk; show c.id < s.nextId + 1; omega
    · intro c' hc'
      injection hc' with hc'
      subst hc'
      simp only [ranIds_ran, ranIds_nil, List.mem_singleton]
      omega
  have h2 := hinv1.run post
  have hnd := h2.nodup
  rw [ranIds_append, ranIds_ran, ranIds_nil] at hnd
  simp only [List.singleton_append, List.nodup_cons] at hnd
  exact hnd.1

/-- **Attached after finish (value task, result still stored) ⇒ runs immediately with the value,
and the stored result is consumed.** -/
theorem late_then_gets_value (s : St) (r : Nat) (ctx : Nat) (body : List Inner)
    (hrefs : s.refs ≠ 0) (hf : s.finished = true) (hk : s.kind = .value)
    (hr : s.result = some r) :
    (stepCore s (.thenOp ctx body)).2.head? = some (.ran s.nextId (s.effCtx ctx) (some r))
    ∧ (stepCore s (.thenOp ctx body)).1.result = none := by
  simp [stepCore, hrefs, hf, hk, hr]

/-- **Finishing with nobody attached stores the value** (value tasks) so that the first late
`then` receives exactly it (compose with `late_then_gets_value`). -/
theorem finish_stores_when_unattached (s : St) (v : Nat)
    (hrefs : s.refs ≠ 0) (hnf : s.finished = false) (hc : s.cont = none) (hk : s.kind = .value) :
    (stepCore s (.finish v)).1.result = some v ∧ (stepCore s (.finish v)).2 = [] := by
  simp [stepCore, finishCore, hrefs, hnf, hc, hk]

/-- **Documented surprise, stated so it cannot drift silently:** on a value task a second late
`then` (the value was already delivered) is dropped. -/
theorem late_attach_after_consumed_is_dropped (s : St) (ctx : Nat) (body : List Inner)
    (hrefs : s.refs ≠ 0) (hf : s.finished = true) (hk : s.kind = .value) (hr : s.result = none) :
    (stepCore s (.thenOp ctx body)).2 = [] := by
  simp [stepCore, hrefs, hf, hk, hr]

/-- **Nothing is retained by a late `then`.**  On a finished task that holds no continuation, a `then` —
whether it runs its continuation or (value already handed out) drops it — leaves no continuation stored in
the shared record: the closure is released when `then` returns.  (A `then` registered on a consumed task
would otherwise stay in the record with nothing left to invoke or clear it; if it captured a handle of the
task, record and closure would keep each other alive for ever.) -/
theorem late_then_retains_nothing (s : St) (ctx : Nat) (body : List Inner)
    (hf : s.finished = true) (hc : s.cont = none) :
    (stepCore s (.thenOp ctx body)).1.cont = none := by
  simp only [stepCore]
  split
  · exact hc
  · simp only [hf]
    split
    · cases h : (runInner _ body).1.cont with
      | none => rfl
      | some c => have := (runInner_frame body _).cont_sub c h; simp [hc] at this
    · split
      · show (runInner _ body).1.cont = none
        cases h : (runInner _ body).1.cont with
        | none => rfl
        | some c => have := (runInner_frame body _).cont_sub c h; simp [hc] at this
      · exact hc

/-- **A context destroyed while `finish` converts its argument.**  The converting overload
`finish(U&&)` builds the result with `T(U&&)` after it has tested the context and before the
continuation is invoked; if that conversion destroys context `c` (a real object), no continuation
registered with `c` runs in this step — the wrapper installed by `then` tests the context again — nor,
by `never_after_context_death`, ever after. -/
theorem context_killed_by_conversion_never_runs (s : St) (c : Nat) (hc : c ≠ 0) (v : Nat) :
    c ∉ ranCtxs (stepCore s (.finishK c v)).2 := by
  intro hm
  simp only [stepCore, finishCore] at hm
  split at hm
  · simp [ranCtxs] at hm
  · split at hm
    · rename_i k hk
      split at hm
      · rcases invokeCont_ctx _ k _ c hm with h | h
        · exact hc h
        · apply h; simp
      · simp [ranCtxs] at hm
    · split at hm <;> simp [ranCtxs] at hm

/-- **`takeResult()` consumes the value**: afterwards nothing is stored, so (with
`late_attach_after_consumed_is_dropped`) a later `then` is dropped instead of being handed a moved-from object. -/
theorem take_consumes (s : St) : (stepCore s .take).1.result = none ∨ s.refs = 0 := by
  simp only [stepCore]
  split
  · right; assumption
  · left; rfl

/-- **Release.** In every reachable state with no handle left, the shared record holds neither a
value nor a continuation (`shared_ptr` destruction frees both). -/
theorem released_when_unreferenced (kind : Kind) (ops : List Op) :
    (run (init kind) ops).1.refs = 0 →
    (run (init kind) ops).1.result = none ∧ (run (init kind) ops).1.cont = none :=
  run_released ops (init kind) (by intro h; simp [init] at h)

/-- **Every continuation that runs receives the value the promise was finished with** — for every
history, every kind, stored, late and re-entrant attaches alike.  (Before repo commit
"fix: QXmppTask::then() on a finished task …" this was false: a re-entrant late attach was
handed the moved-from value; the old model proved the negation with the witness
`[finish 7, then 1 [thenI 1]]`, which is kept in the harness corpus.) -/
theorem every_delivery_is_the_finished_value (kind : Kind) (ops : List Op) (v : Nat)
    (hops : ∀ op ∈ ops, ∀ v', op.finishVal = some v' → v' = v) :
    ∀ k c d, Ev.ran k c d ∈ (run (init kind) ops).2 → d = deliveredOf kind v :=
  run_deliv ops (init kind) v ⟨fun _ => rfl, fun r hr => by simp [init] at hr⟩ hops


/-! ### History level: "exactly once" (at least once + at most once)

The one-step theorems say what `finish` / a late `then` do in a given state; the two theorems
below lift them to whole histories: they name, in terms of the operation list alone, the
situations in which the property promises a run, and show the continuation runs exactly once in
the complete history, with the finished value, whatever precedes and follows. -/

/-- **Attached before the promise finishes.**  `pre` is any history after which a handle exists
and the promise is not finished; the continuation is attached; `mid` is any stretch of copying and
dropping handles and destroying contexts (no further `then`, which would replace it — see
`replaced_never_runs` — and no `finish`) that leaves a handle and the registered context alive;
the promise is finished with `v`; `post` is anything.  Then the continuation runs, with `v`,
exactly once in the whole history. -/
theorem attached_before_finish_runs_exactly_once (kind : Kind) (pre mid post : List Op)
    (ctx : Nat) (body : List Inner) (v : Nat) (hmid : ∀ op ∈ mid, op.quiet = true) :
    let s0 := (run (init kind) pre).1
    let s2 := (run (step s0 (.thenOp ctx body)).1 mid).1
    s0.refs ≠ 0 → s0.finished = false → s2.refs ≠ 0 → s2.alive (s0.effCtx ctx) = true →
    let evs := (run (init kind) (pre ++ .thenOp ctx body :: (mid ++ .finish v :: post))).2
    Ev.ran s0.nextId (s0.effCtx ctx) (deliveredOf kind v) ∈ evs ∧
      (ranIds evs).count s0.nextId = 1 := by
  intro s0 s2 hrefs hnf hrefs2 halive evs
  have hstep : step s0 (.thenOp ctx body) =
      ({ s0 with nextId := s0.nextId + 1,
                 cont := some { id := s0.nextId, ctx := s0.effCtx ctx, body := body } }, []) := by
    simp [step, stepCore, hrefs, hnf]
  have hw : Waiting (step s0 (.thenOp ctx body)).1
      { id := s0.nextId, ctx := s0.effCtx ctx, body := body } := by
    rw [hstep]; exact ⟨hnf, fun _ => rfl⟩
  have hq := quiet_run_waiting mid _ _ hmid hw
  have hc2 : s2.cont = some { id := s0.nextId, ctx := s0.effCtx ctx, body := body } :=
    hq.1.cont hrefs2
  have hk2 : s2.kind = kind := by
    show (run _ mid).1.kind = kind
    rw [run_kind, step_kind, run_kind]; rfl
  have hfin := (finish_delivers_to_attached s2 _ v hrefs2 hq.1.nf hc2 halive).1
  rw [hk2] at hfin
  have hmem : Ev.ran s0.nextId (s0.effCtx ctx) (deliveredOf kind v) ∈ evs := by
    show _ ∈ (run (init kind) (pre ++ .thenOp ctx body :: (mid ++ .finish v :: post))).2
    rw [run_split]
    refine List.mem_append_right _ (List.mem_append_right _ (List.mem_append_right _
      (List.mem_append_left _ (stepCore_sub_step _ _ _ ?_))))
    exact List.mem_of_mem_head? hfin
  refine ⟨hmem, ?_⟩
  have hle := cont_runs_at_most_once kind
    (pre ++ .thenOp ctx body :: (mid ++ .finish v :: post)) s0.nextId
  have hpos : 0 < (ranIds evs).count s0.nextId := List.count_pos_iff.mpr (mem_ranIds_of_mem hmem)
  show (ranIds (run (init kind) _).2).count s0.nextId = 1
  have hpos' : 0 < (ranIds (run (init kind)
      (pre ++ .thenOp ctx body :: (mid ++ .finish v :: post))).2).count s0.nextId := hpos
  omega

/-- **Attached after the promise finished.**  `pre` is any history after which a handle exists,
the promise is finished and (for value tasks) the value has not been handed out yet; then a
`then` runs its continuation at once with the stored value, and exactly once in the whole
history whatever follows. -/
theorem attached_after_finish_runs_exactly_once (kind : Kind) (pre post : List Op)
    (ctx : Nat) (body : List Inner) :
    let s0 := (run (init kind) pre).1
    s0.refs ≠ 0 → s0.finished = true → (kind = .value → s0.result.isSome) →
    let evs := (run (init kind) (pre ++ .thenOp ctx body :: post)).2
    (∃ d, Ev.ran s0.nextId (s0.effCtx ctx) d ∈ evs ∧ (kind = .value → d = s0.result)) ∧
      (ranIds evs).count s0.nextId = 1 := by
  intro s0 hrefs hf hres evs
  have hk : s0.kind = kind := by show (run _ pre).1.kind = kind; rw [run_kind]; rfl
  have hhead : ∃ d, Ev.ran s0.nextId (s0.effCtx ctx) d ∈ (stepCore s0 (.thenOp ctx body)).2 ∧
      (kind = .value → d = s0.result) := by
    cases kind with
    | void =>
      refine ⟨none, ?_, fun h => by cases h⟩
      simp [stepCore, hrefs, hf, hk]
    | value =>
      have := hres rfl
      cases hr : s0.result with
      | none => rw [hr] at this; cases this
      | some r =>
        refine ⟨some r, ?_, fun _ => rfl⟩
        exact List.mem_of_mem_head? (late_then_gets_value s0 r ctx body hrefs hf hk hr).1
  obtain ⟨d, hd, hdv⟩ := hhead
  have hmem : Ev.ran s0.nextId (s0.effCtx ctx) d ∈ evs := by
    show _ ∈ (run (init kind) (pre ++ .thenOp ctx body :: post)).2
    rw [run_append]; simp only [run]
    exact List.mem_append_right _ (List.mem_append_left _ (stepCore_sub_step _ _ _ hd))
  refine ⟨⟨d, hmem, hdv⟩, ?_⟩
  have hle := cont_runs_at_most_once kind (pre ++ .thenOp ctx body :: post) s0.nextId
  have hpos : 0 < (ranIds (run (init kind) (pre ++ .thenOp ctx body :: post)).2).count s0.nextId :=
    List.count_pos_iff.mpr (mem_ranIds_of_mem hmem)
  show (ranIds (run (init kind) _).2).count s0.nextId = 1
  omega

/-! ### Non-vacuity: the hypotheses above are met by reachable states. -/

example : (run (init .value) [.thenOp 1 [], .finish 5]).2 = [.ran 0 1 (some 5)] := by decide
example : (run (init .value) [.finish 5, .thenOp 1 []]).2 = [.ran 0 1 (some 5)] := by decide
example : (run (init .void) [.thenOp 1 [], .destroyCtx 1, .finish 5]).2 = [] := by decide
example : (run (init .void) [.thenOp 1 [], .thenOp 2 [.thenI 2], .finish 0]).2
    = [.ran 1 2 none, .ran 2 2 none] := by decide
example : (run (init .value) [.finish 7, .thenOp 1 [.thenI 1]]).2 = [.ran 0 1 (some 7)] := by decide
example : (run (init .value) [.finish 3, .copyHandle, .dropHandle, .dropHandle]).2
    = [.released] := by decide
/-- the owner of the promise deletes itself (all handles) from inside its own continuation: the
continuation still completes, the record is released at the end of the step -/
example : (run (init .value) [.copyHandle, .thenOp 1 [.dropAll, .thenI 1], .finish 5]).2
    = [.ran 0 1 (some 5), .released] := by decide

/-- hypotheses of `attached_before_finish_runs_exactly_once` met by a history with copies, a dropped
handle and a foreign context destroyed in between -/
example :
    let pre : List Op := [.copyHandle, .thenOp 3 []]
    let mid : List Op := [.copyHandle, .destroyCtx 2, .dropHandle, .dropHandle]
    let s0 := (run (init .value) pre).1
    let s2 := (run (step s0 (.thenOp 1 [.thenI 1])).1 mid).1
    (∀ op ∈ mid, op.quiet = true) ∧ s0.refs ≠ 0 ∧ s0.finished = false ∧ s2.refs ≠ 0 ∧
      s2.alive (s0.effCtx 1) = true := by decide
example : let s0 := (run (init .value) [.copyHandle, .finish 4, .dropHandle]).1
    s0.refs ≠ 0 ∧ s0.finished = true ∧ s0.result.isSome := by decide

example : (run (init .value) [.thenOp 1 [], .finishK 1 5]).2 = [] := by decide
example : (run (init .value) [.thenOp 1 [], .finishK 2 5]).2 = [.ran 0 1 (some 5)] := by decide
example : (run (init .value) [.finish 5, .take, .thenOp 1 []]).2 = [] := by decide

end Qx.C13
