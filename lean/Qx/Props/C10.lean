import Qx.Proofs.C10
/-!
# C10 — losing the connection at any point leaves a consistent client that can reconnect

Property theorems only.  Model: `Qx/Model/C04Negotiation.lean` (shared with C04), helpers `Qx/Proofs/C10.lean`.

Reading aid.  `run (init cfg) script` is the client after ANY history (`script` ranges over all event lists: server
elements, socket events, application calls).  `.socketDisconnected` is the cut.  `cutAndReconnect` = the cut, then
`connectToServer`, then the TCP connect.  `flowSaslBind`, `flowTlsSaslBind`, `flowSasl2Bind2` are protocol-conforming server
scripts (what a correct server says, in order); `flow.take k` is the flow cut after `k` elements.
`nC os` / `nD os` count the `connected` / `disconnected` signals in an output list.  `isConnected s` is what
`QXmppClient::isConnected()` returns (socket connected ∧ session flag).

Four parts of the property do NOT hold on today's code; each has a `C10_defect_*` theorem with an explicit witness that the
harness replays on the real client: legacy (XEP-0078) login never completes, `bind2Bound` survives a cut,
see-other-host during a session keeps the session flag, see-other-host on a TLS link hangs the reconnect.
-/
namespace Qx.C10
open Qx.C04

/-! ### after the cut -/

/-- **The cut leaves a disconnected client with no session reported.**  After ANY history that ends with a live connection,
cutting it yields: socket disconnected, session flag cleared, not authenticated, `isConnected()` false, and exactly one
`disconnected` signal (and no `connected`). -/
theorem cut_leaves_disconnected (cfg : Cfg) (script : List Ev)
    (hc : (run (init cfg) script).1.conn = .connected) :
    let r := step (run (init cfg) script).1 .socketDisconnected
    r.1.conn = .disconnected ∧ r.1.sessionStarted = false ∧ r.1.authenticated = false ∧ isConnected r.1 = false ∧
    nD r.2 = 1 ∧ nC r.2 = 0 := by
  intro r
  have hred : (run (init cfg) script).1.redirect = false := run_red script (init cfg) rfl
  simp [r, step, hc, onSocketDisconnected, hred, closeSession, isConnected]

/-- **Outstanding requests are completed or retained, and retained only when resumable.**  At the cut, if the stream is not
resumable every outstanding request of the application is finished with an error (one `iqDone` per request, before the
`disconnected` signal) and none is left; if it is resumable all of them are kept and none is finished. -/
theorem requests_completed_or_retained (cfg : Cfg) (script : List Ev)
    (hc : (run (init cfg) script).1.conn = .connected) :
    let s := (run (init cfg) script).1
    let r := step s .socketDisconnected
    (s.canResume = false → r.2 = iqDones s.pendingIq ++ [.sig .disconnected] ∧ r.1.pendingIq = 0) ∧
    (s.canResume = true → r.2 = [.sig .disconnected] ∧ r.1.pendingIq = s.pendingIq) := by
  intro s r
  have hred : s.redirect = false := run_red script (init cfg) rfl
  constructor
  · intro h
    simp [r, step, hc, onSocketDisconnected, hred, closeSession, h, s]
  · intro h
    simp [r, step, hc, onSocketDisconnected, hred, closeSession, h, s, iqDones]

/-- …and a retained request does not outlive the next session unless that session is a resumption: opening a session that
was not resumed finishes every outstanding request. -/
theorem retained_requests_end_with_new_session (s : St) (h : s.smResumed = false) :
    (openSession s).1.pendingIq = 0 := by
  have := (openSession_spec s).2.2.2
  simpa [h] using this

/-- a request issued while disconnected (and without stream management) fails at once -/
theorem request_while_disconnected_fails (s : St) (hc : s.conn ≠ .connected) (ha : s.ackEnabled = false) :
    .sig (.iqDone true) ∈ (step s .sendIq).2 ∧ (step s .sendIq).1.pendingIq = s.pendingIq := by
  simp [step, sendIq, ha, hc, sendStanza]

/-! ### the next attempt starts from scratch -/

/-- **Per-connection reset, except one field (`…_partial`).**  After ANY history with a live connection, cut + reconnect
puts every negotiation field back to its initial value: listener, stream id/version seen, encrypted, header cache, parser
state, authenticated, session flag, stream-management enabled/resumed, ack manager, redirect target.
Full statement (FALSE, see `C10_defect_bind2bound_survives_cut`): the same including `bind2Bound`.
Not reset by design and overwritten by the next features element before any use: `bindAvail`, `smAvail`, `csiAvail`
(`csiAvail` is read without a fresh features element only by an inline-resumed SASL2 session). -/
theorem per_connection_reset_partial (cfg : Cfg) (script : List Ev)
    (hc : (run (init cfg) script).1.conn = .connected) :
    negView (run (run (init cfg) script).1 cutAndReconnect).1 = negView (init cfg) := by
  have hred : (run (init cfg) script).1.redirect = false := run_red script (init cfg) rfl
  rw [cut_reconnect_state _ hc hred]
  generalize (run (init cfg) script).1 = s at hred
  simp only [negView, init, hred]

/-- SASL2 with bind2, cut right after `<success><bound/></success>` -/
def witnessBind2Cut : List Ev :=
  [.connectToServer, .socketConnected, .recv (.header true true),
   .recv (.features { sasl2 := some { mech := .plain, bind2 := true, bind2Ext := true, fast := false, smInline := false } }),
   .recv (.s2Success .plain .none false true)]

/-- **Defect: `bind2Bound` survives the cut.**  The full per-connection reset is false: after `witnessBind2Cut`, cut and
reconnect, `bind2Bound` is still set although nothing was bound on the new connection. -/
theorem C10_defect_bind2bound_survives_cut :
    ¬ (∀ (cfg : Cfg) (script : List Ev), (run (init cfg) script).1.conn = .connected →
        (run (run (init cfg) script).1 cutAndReconnect).1.bind2Bound = (init cfg).bind2Bound) := by
  intro h
  have := h { plainOk := true } witnessBind2Cut (by decide)
  revert this
  decide

/-- SASL + classic bind, the server offers client state indication after authentication -/
def flowSaslBindCsi : List Ev :=
  [.recv (.header true true), .recv (.features { mechs := some .plain }), .recv (.saslSuccess true),
   .recv (.header true true), .recv (.features { bind := true, csi := true }), .recv (.iq (.bindResult .ok))]

/-- …and it is observable: an inactive client tells a fresh server `<inactive/>` when the session starts, but after the
leaked `bind2Bound` it does not (it believes bind2 already carried the state), and `SessionBegin.bind2Used` is wrong. -/
theorem C10_defect_stale_bind2_changes_next_session :
    let cfg : Cfg := { plainOk := true, inactive := true }
    .sent .csiInactive .clear ∈ (run (init cfg) ([.connectToServer, .socketConnected] ++ flowSaslBindCsi)).2 ∧
    .sent .csiInactive .clear ∉ (run (init cfg) (witnessBind2Cut ++ cutAndReconnect ++ flowSaslBindCsi)).2 := by
  decide

/-- **The next attempt succeeds (SASL + bind).**  After ANY history with a live connection: cut, reconnect, and a conforming
server running SASL PLAIN and classic binding lead to `connected`, `isConnected()`, authenticated, negotiation listener
idle — for every configuration that may use SASL PLAIN and does not require TLS. -/
theorem next_attempt_succeeds_sasl_bind (cfg : Cfg) (script : List Ev)
    (hc : (run (init cfg) script).1.conn = .connected)
    (hsasl : cfg.useSasl = true) (hplain : cfg.plainOk = true) (htls : cfg.tls ≠ .required) :
    .sig .connected ∈ (run (run (init cfg) script).1 (cutAndReconnect ++ flowSaslBind)).2 ∧
    isConnected (run (run (init cfg) script).1 (cutAndReconnect ++ flowSaslBind)).1 = true ∧
    (run (run (init cfg) script).1 (cutAndReconnect ++ flowSaslBind)).1.authenticated = true ∧
    (run (run (init cfg) script).1 (cutAndReconnect ++ flowSaslBind)).1.listener = .idle := by
  have hred : (run (init cfg) script).1.redirect = false := run_red script (init cfg) rfl
  have hcfg : (run (init cfg) script).1.cfg = cfg := run_cfg script (init cfg)
  have h0 : Ph cfg false .idle false false (run (run (init cfg) script).1 cutAndReconnect).1 := by
    have := ph_after_cut _ hc hred
    rwa [hcfg] at this
  have a := flowSaslBind_connects h0 hsasl hplain (Or.inr htls)
  rw [run_append]
  dsimp only
  exact ⟨List.mem_append_right _ a.1, isConnected_of _ a.2.conn a.2.sess, a.2.auth, a.2.listener⟩

/-- **The next attempt succeeds (STARTTLS, then SASL + bind)** — also with TLS required, whenever TLS is available locally. -/
theorem next_attempt_succeeds_tls_sasl_bind (cfg : Cfg) (script : List Ev)
    (hc : (run (init cfg) script).1.conn = .connected)
    (hl : cfg.localTls = true) (ht : cfg.tls ≠ .disabled) (hsasl : cfg.useSasl = true) (hplain : cfg.plainOk = true) :
    .sig .connected ∈ (run (run (init cfg) script).1 (cutAndReconnect ++ flowTlsSaslBind)).2 ∧
    isConnected (run (run (init cfg) script).1 (cutAndReconnect ++ flowTlsSaslBind)).1 = true ∧
    (run (run (init cfg) script).1 (cutAndReconnect ++ flowTlsSaslBind)).1.authenticated = true ∧
    (run (run (init cfg) script).1 (cutAndReconnect ++ flowTlsSaslBind)).1.encrypted = true := by
  have hred : (run (init cfg) script).1.redirect = false := run_red script (init cfg) rfl
  have hcfg : (run (init cfg) script).1.cfg = cfg := run_cfg script (init cfg)
  have h0 : Ph cfg false .idle false false (run (run (init cfg) script).1 cutAndReconnect).1 := by
    have := ph_after_cut _ hc hred
    rwa [hcfg] at this
  have a := flowTlsSaslBind_connects h0 hl ht hsasl hplain
  rw [run_append]
  dsimp only
  exact ⟨List.mem_append_right _ a.1, isConnected_of _ a.2.conn a.2.sess, a.2.auth, a.2.enc⟩

/-- **The next attempt succeeds (SASL2 + bind2 with inline stream management).** -/
theorem next_attempt_succeeds_sasl2_bind2 (cfg : Cfg) (script : List Ev)
    (hc : (run (init cfg) script).1.conn = .connected)
    (hs2 : cfg.useSasl2 = true) (hplain : cfg.plainOk = true) (htls : cfg.tls ≠ .required) :
    .sig .connected ∈ (run (run (init cfg) script).1 (cutAndReconnect ++ flowSasl2Bind2)).2 ∧
    isConnected (run (run (init cfg) script).1 (cutAndReconnect ++ flowSasl2Bind2)).1 = true ∧
    (run (run (init cfg) script).1 (cutAndReconnect ++ flowSasl2Bind2)).1.authenticated = true := by
  have hred : (run (init cfg) script).1.redirect = false := run_red script (init cfg) rfl
  have hcfg : (run (init cfg) script).1.cfg = cfg := run_cfg script (init cfg)
  have h0 : Ph cfg false .idle false false (run (run (init cfg) script).1 cutAndReconnect).1 := by
    have := ph_after_cut _ hc hred
    rwa [hcfg] at this
  have a := flowSasl2Bind2_connects h0 hs2 hplain (Or.inr htls)
  rw [run_append]
  dsimp only
  exact ⟨List.mem_append_right _ a.1, isConnected_of _ a.2.conn a.2.sess, a.2.auth⟩

/-! ### `connected` once per connection, and only at the end -/

/-- **Every cut point of the conforming script.**  After ANY history, cut and reconnect: for every `k`, after the first `k`
elements of the SASL + bind script no `connected` (and no `disconnected`) has been reported and no session is flagged as
long as `k` is less than the length of the script; the last element reports `connected` exactly once. -/
theorem connected_once_and_only_when_done_sasl_bind (cfg : Cfg) (script : List Ev)
    (hc : (run (init cfg) script).1.conn = .connected)
    (hsasl : cfg.useSasl = true) (hplain : cfg.plainOk = true) (htls : cfg.tls ≠ .required) :
    let s0 := (run (run (init cfg) script).1 cutAndReconnect).1
    (∀ k, k < flowSaslBind.length →
        nC (run s0 (flowSaslBind.take k)).2 = 0 ∧ nD (run s0 (flowSaslBind.take k)).2 = 0 ∧
        isConnected (run s0 (flowSaslBind.take k)).1 = false) ∧
    nC (run s0 flowSaslBind).2 = 1 ∧ nD (run s0 flowSaslBind).2 = 0 := by
  intro s0
  have hred : (run (init cfg) script).1.redirect = false := run_red script (init cfg) rfl
  have hcfg : (run (init cfg) script).1.cfg = cfg := run_cfg script (init cfg)
  have h0 : Ph cfg false .idle false false s0 := by
    have := ph_after_cut _ hc hred
    rwa [hcfg] at this
  have cuts := flowSaslBind_cuts h0 hsasl hplain (Or.inr htls)
  have hpre : ∀ k, nC (run s0 (flowSaslBind.dropLast.take k)).2 = 0 ∧ nD (run s0 (flowSaslBind.dropLast.take k)).2 = 0 ∧
      (run s0 (flowSaslBind.dropLast.take k)).1.sessionStarted = false :=
    fun k => quietRun_prefix _ s0 h0.sess cuts.1 k
  constructor
  · intro k hk
    have hk' : k ≤ 5 := by simp [flowSaslBind] at hk; omega
    have e : flowSaslBind.take k = flowSaslBind.dropLast.take k := by
      have : flowSaslBind.dropLast = flowSaslBind.take 5 := rfl
      rw [this, List.take_take, Nat.min_eq_left hk']
    rw [e]
    have := hpre k
    exact ⟨this.1, this.2.1, not_isConnected_of _ this.2.2⟩
  · have e : flowSaslBind = flowSaslBind.dropLast ++ [.recv (.iq (.bindResult .ok))] := rfl
    have h5 := hpre 5
    have e5 : flowSaslBind.dropLast.take 5 = flowSaslBind.dropLast := rfl
    rw [e5] at h5
    rw [e, run_append]
    simp only [run, List.append_nil, nC_append, nD_append, h5.1, h5.2.1, Nat.zero_add]
    exact cuts.2

/-- **`connected` only when the negotiation has finished — every history, every event.**  Whatever happened before and
whatever comes next (server element, socket event, application call): the step reports `connected` at most once, and if it
does, then afterwards no negotiation request is outstanding (the listener is the idle one), the session flag is set, the
socket is connected and `isConnected()` is true.  (Whether the server made the client authenticate first is the server's
choice: a server that offers no authentication gets an unauthenticated session.) -/
theorem connected_only_when_done (cfg : Cfg) (script : List Ev) (e : Ev) :
    nC (step (run (init cfg) script).1 e).2 ≤ 1 ∧
    (nC (step (run (init cfg) script).1 e).2 = 1 →
      (step (run (init cfg) script).1 e).1.listener = .idle ∧
      (step (run (init cfg) script).1 e).1.sessionStarted = true ∧
      (step (run (init cfg) script).1 e).1.conn = .connected ∧
      isConnected (step (run (init cfg) script).1 e).1 = true) := by
  rcases step_done (run (init cfg) script).1 e with h | h
  · exact ⟨by omega, fun h1 => by omega⟩
  · exact ⟨by omega, fun _ => ⟨h.2.1, h.2.2.1, h.2.2.2, isConnected_of _ h.2.2.2 h.2.2.1⟩⟩

/-- **`connected` at most once per connection — every history of a server that sends no features into an established
session (`noFeaturesInSession`, the only conformance hypothesis).**  Scan everything the client did, in order (`alt false`):
`connected` is never reported while a session is already reported open, where only `disconnected` closes a session.  By
`disconnected_only_when_socket_gone` a `disconnected` is reported only by a step that loses the socket, so two `connected`
signals always belong to different connections.  (A hostile server that sends features again into a session does get a
second `connected` on the same connection: `Q_ASSERT(!d->sessionStarted)` is compiled out in release builds.) -/
theorem connected_at_most_once_per_connection (cfg : Cfg) (script : List Ev)
    (hconf : Along noFeaturesInSession (init cfg) script) :
    alt false (run (init cfg) script).2 = true :=
  run_alt script (init cfg) (by intro h; simp [init] at h) hconf

/-- `disconnected` is only reported by a step after which the socket is not connected and no session is flagged -/
theorem disconnected_only_when_socket_gone (cfg : Cfg) (script : List Ev) (e : Ev)
    (h : nD (step (run (init cfg) script).1 e).2 ≠ 0) :
    (step (run (init cfg) script).1 e).1.conn ≠ .connected ∧
    (step (run (init cfg) script).1 e).1.sessionStarted = false :=
  step_disconnected_means_socket_gone _ e h

/-- the hypothesis is necessary: features sent into an established session open it a second time -/
example : alt false (run (init { plainOk := true })
    ([.connectToServer, .socketConnected] ++ flowSaslBind ++ [.recv (.features {})])).2 = false := by decide

/-- …and it is met by conforming histories, e.g. session, cut, reconnect, session -/
example : Along noFeaturesInSession (init { plainOk := true })
    ([.connectToServer, .socketConnected] ++ flowSaslBind ++ cutAndReconnect ++ flowSaslBind) := by
  simp [Along, noFeaturesInSession, flowSaslBind, cutAndReconnect]
  decide

/-! ### what does not hold today -/

/-- **Defect: legacy (XEP-0078) login never completes.**  For every configuration, the conforming pre-1.0 script (header
without version, field offer, `<iq type='result'/>` for the password) never produces `connected`: the manager that sent the
password is replaced by the idle listener before the result arrives. -/
theorem C10_defect_legacy_auth_never_completes (cfg : Cfg) :
    nC (run (init cfg) ([.connectToServer, .socketConnected] ++ flowLegacy)).2 = 0 ∧
    (run (init cfg) ([.connectToServer, .socketConnected] ++ flowLegacy)).1.sessionStarted = false := by
  cases hns : cfg.useNonSasl <;> cases hp : cfg.nsPlain <;>
    simp [flowLegacy, run, step, init, recv, handleStart, handleStream, startNonSaslAuth, dispatch, nonSaslHandle,
      idleHandle, hns, hp, send]

/-- a session is established, then the server redirects (see-other-host) and the new TCP connection comes up -/
def witnessRedirectInSession : List Ev :=
  [.connectToServer, .socketConnected] ++ flowSaslBind ++ [.recv (.streamError true), .socketConnected]

/-- **Defect: see-other-host during a session keeps the session flag.**  After `witnessRedirectInSession` the client is on a
brand-new connection on which nothing has been negotiated (not authenticated), no `disconnected` was ever signalled, yet
`isConnected()` is true. -/
theorem C10_defect_redirect_in_session_reports_connected :
    let r := run (init { plainOk := true }) witnessRedirectInSession
    isConnected r.1 = true ∧ r.1.authenticated = false ∧ nD r.2 = 0 := by
  decide

/-- STARTTLS, then see-other-host over the encrypted link, then the environment tries to complete the new connection and a
conforming server is ready to talk -/
def witnessRedirectOverTls : List Ev :=
  [.connectToServer, .socketConnected, .recv (.header true true), .recv (.features { tls := .optional }),
   .recv (.proceed true), .recv (.header true true), .recv (.streamError true), .socketConnected] ++ flowTlsSaslBind

/-- **Defect: see-other-host on a TLS link hangs the reconnect.**  The redirected attempt never opens a stream: no
`connected`, the socket stays in the connecting state for ever, and even a cut does not bring the client back to
disconnected. -/
theorem C10_defect_redirect_over_tls_hangs :
    let r := run (init { plainOk := true }) (witnessRedirectOverTls ++ [.socketDisconnected])
    nC r.2 = 0 ∧ r.1.conn = .hung ∧ r.1.conn ≠ .disconnected := by
  decide

/-! ### Non-vacuity -/

/-- a history that ends with a live connection, an established resumable session and an outstanding request -/
def historySm : List Ev :=
  [.connectToServer, .socketConnected, .recv (.header true true), .recv (.features { mechs := some .plain }),
   .recv (.saslSuccess true), .recv (.header true true), .recv (.features { bind := true, sm := true }),
   .recv (.iq (.bindResult .ok)), .recv (.smEnabled true), .sendIq]

example : let s := (run (init { plainOk := true }) historySm).1
    s.conn = .connected ∧ s.canResume = true ∧ s.pendingIq = 1 ∧ isConnected s = true := by decide

example : let s := (run (init { plainOk := true }) ([.connectToServer, .socketConnected] ++ flowSaslBind ++ [.sendIq])).1
    s.conn = .connected ∧ s.canResume = false ∧ s.pendingIq = 1 := by decide

/-- the whole story on one concrete history: cut in the middle of binding, reconnect, conforming script -/
example : (run (init { plainOk := true })
    ([.connectToServer, .socketConnected] ++ flowSaslBind.take 5 ++ cutAndReconnect ++ flowSaslBind)).2 =
    [.sent .streamOpen .clear, .sent (.saslAuth .plain) .clear, .sent .streamOpen .clear, .sent .bind .clear,
     .sig .disconnected,
     .sent .streamOpen .clear, .sent (.saslAuth .plain) .clear, .sent .streamOpen .clear, .sent .bind .clear,
     .sent (.iqRequest true) .clear, .sig .connected, .sent .presence .clear] := by decide

end Qx.C10
