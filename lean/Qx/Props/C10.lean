import Qx.Proofs.C10
/-!
# C10 — losing the connection at any point leaves a consistent client that can reconnect

Property theorems only.  Model: `Qx/Model/C04Negotiation.lean` (shared with C04), helpers `Qx/Proofs/C10.lean`.

Reading aid.  `run (init cfg) script` is the client after ANY history (`script` ranges over all event lists: server
elements, socket events, application calls).  `.socketDisconnected` is the cut.  `cutAndReconnect` = the cut, then
`connectToServer`, then the TCP connect.  `flowSaslBind`, `flowTlsSaslBind`, `flowSasl2Bind2` are protocol-conforming server
scripts (what a correct server says, in order); `flow.take k` is the flow cut after `k` elements.
`nC os` / `nD os` count the `connected` / `disconnected` signals in an output list.  `isConnected s` is what
`QXmppClient::isConnected()` returns (socket connected ∧ session flag).

History.  Before the repository fixes 7771c2d (XEP-0078 authentication can never complete), 7a677f2 (a bind2 result of an
aborted attempt leaks into the next session) and e363fe9 (see-other-host leaves a stale session and hangs on TLS
connections) four parts of the property did not hold and this file carried `C10_defect_*` theorems; their witness scripts are
kept below as examples of what the repaired code does (and are replayed first by the harness).
-/
namespace Qx.C10
open Qx.C04

/-! ### a white space keep-alive changes nothing -/

/-- **White space between elements (RFC 6120 §4.6.1 keep-alive) is ignored in every state**: no signal, no send, no change of
state — in particular an established session stays established.  (Before 8d68c05 the null element that `XmppSocket` reports for
it was handed to the listeners, all of which rejected it: error, stream close, disconnected —
`C10:whitespace-keepalive-ends-connection`, former theorem `C10_defect_whitespace_keepalive_ends_session`.) -/
theorem whitespace_keepalive_is_ignored (s : St) : step s .recvWhitespace = (s, []) := rfl

/-- the former witness: a session established by the SASL + bind flow survives a keep-alive -/
example : isConnected (run (init { plainOk := true })
    ([.connectToServer, .socketConnected] ++ flowSaslBind ++ [.recvWhitespace])).1 = true := by decide

/-! ### where the next attempt goes -/

/-- **After a non-resumable end the next attempt targets the configured host.**  After ANY history with a live connection:
if the server ends the stream (`</stream:stream>`, alone or at the end of a read, e.g. after a stream error) — or in fact
whenever the client itself closes the stream (`disconnectFromHost`: rejected element, failed authentication, …) — the client is
disconnected, holds no resumable stream, and the next `connectToServer` goes to the configured host, NOT to a `location` that an
earlier `<enabled resume='true' location=…/>` announced (that address is only meant for resuming that stream). -/
theorem next_attempt_after_stream_end_targets_configured_host (cfg : Cfg) (script : List Ev)
    (hc : (run (init cfg) script).1.conn = .connected) :
    (step (run (init cfg) script).1 .closeTail).1.conn = .disconnected ∧
    (step (run (init cfg) script).1 .closeTail).1.canResume = false ∧
    (step (step (run (init cfg) script).1 .closeTail).1 .connectToServer).1.target = .configured ∧
    ((run (init cfg) script).1.headerSeen = true → (run (init cfg) script).1.wedged = false →
      (step (step (run (init cfg) script).1 (.recv .streamClose)).1 .connectToServer).1.target = .configured) := by
  have hred : (run (init cfg) script).1.redirect = false := run_red script (init cfg) rfl
  generalize (run (init cfg) script).1 = s at *
  refine ⟨?_, ?_, ?_, ?_⟩
  · simp [step, disconnectFromHost, socketClose, hc, onSocketDisconnected, hred, closeSession]
  · simp [step, disconnectFromHost, socketClose, hc, onSocketDisconnected, hred, closeSession]
  · simp [step, disconnectFromHost, socketClose, hc, onSocketDisconnected, hred, closeSession, connectTarget, connectTo, socketGone]
  · intro hh hw
    simp [step, recv, hh, hw, disconnectFromHost, socketClose, hc, onSocketDisconnected, hred, closeSession, connectTarget, connectTo, socketGone]

/-- SASL PLAIN + bind + `<enable/>` answered by `<enabled resume='true'/>`, with (`loc`) or without a `location` -/
def sessionSm (loc : Bool) : List Ev :=
  [.connectToServer, .socketConnected, .recv (.header true true), .recv (.features { mechs := some .plain }),
   .recv (.saslSuccess true), .recv (.header true true), .recv (.features { bind := true, sm := true }),
   .recv (.iq (.bindResult .ok)), .recv (.smEnabled true loc)]

/-- **A resume location does not outlive its stream.**  The former witness of `C10:next-attempt-targets-stale-resume-location`
(fixed by dcf656f; before, `onEnabled` never cleared `m_resumeHost/m_resumePort`): a resumable session whose `<enabled/>` names a
location; the server ends the stream; a NEW resumable session on the configured host whose `<enabled/>` names NO location; the
connection is lost — the reconnect goes to the configured host.  And in general, in every state: after an accepted `<enabled/>`
the stored location is exactly the one that element carried. -/
theorem resume_location_belongs_to_the_enabled_stream (s : St) (resume loc : Bool) :
    (onSmEnabled s resume loc).1.resumeLoc = (resume && loc) ∧
    (let script := sessionSm true ++ [.recv (.streamError false), .closeTail] ++ sessionSm false ++ [.socketDisconnected]
     (run (init { plainOk := true }) script).1.canResume = true ∧
     (step (run (init { plainOk := true }) script).1 .connectToServer).1.target = .configured) :=
  ⟨rfl, by decide⟩

/-- In every state: a client that holds no resumable stream connects to the configured host; the `location` is used exactly
when the stream manager can still resume (abrupt loss of a resumable session) and a location was announced. -/
theorem connect_target_spec (s : St) (hd : s.conn = .disconnected) :
    (s.canResume = false → (step s .connectToServer).1.target = .configured) ∧
    (s.canResume = true → s.resumeLoc = true → (step s .connectToServer).1.target = .location) ∧
    (s.resumeLoc = false → (step s .connectToServer).1.target = .configured) := by
  refine ⟨?_, ?_, ?_⟩ <;> intros <;> simp_all [step, connectTarget, connectTo, socketGone]

/-! ### after the cut -/

/-- **The cut leaves a disconnected client with no session reported.**  After ANY history that ends with a live connection,
cutting it yields: socket disconnected, session flag cleared, not authenticated, `isConnected()` false, and exactly one
`disconnected` signal (and no `connected`). -/
theorem cut_leaves_disconnected (cfg : Cfg) (script : List Ev)
    (hc : (run (init cfg) script).1.conn = .connected) :
    let r := step (run (init cfg) script).1 .socketDisconnected
    r.1.conn = .disconnected ∧ r.1.sessionStarted = false ∧ r.1.authenticated = false ∧ isConnected r.1 = false ∧
    nD r.2 = 1 ∧ nC r.2 = 0 := by
  intro r
  have hred : (run (init cfg) script).1.redirect = false := run_red script (init cfg) rfl
  simp [r, step, socketGone, hc, onSocketDisconnected, hred, closeSession, isConnected]

/-- **Outstanding requests are completed or retained, and retained only when resumable.**  At the cut, if the stream is not
resumable every outstanding request of the application is finished with an error before the `disconnected` signal and none is
left — INCLUDING the requests that failure continuations send during the teardown ("retry once"): the ack manager is switched
off before the requests are cancelled, so such a retry meets a dead socket and fails at once (`failedRetries`).  If the stream is
resumable all requests are kept and none is finished. -/
theorem requests_completed_or_retained (cfg : Cfg) (script : List Ev)
    (hc : (run (init cfg) script).1.conn = .connected) :
    let s := (run (init cfg) script).1
    let r := step s .socketDisconnected
    (s.canResume = false →
      r.2 = iqDones s.pendingIq ++ failedRetries s.pendingRetry ++ [.sig .disconnected] ∧
      r.1.pendingIq = 0 ∧ r.1.pendingRetry = 0) ∧
    (s.canResume = true → r.2 = [.sig .disconnected] ∧ r.1.pendingIq = s.pendingIq ∧ r.1.pendingRetry = s.pendingRetry) := by
  intro s r
  have hred : s.redirect = false := run_red script (init cfg) rfl
  constructor
  · intro h
    simp [r, step, socketGone, hc, onSocketDisconnected, hred, closeSession, h, s, retryN_down]
  · intro h
    simp [r, step, socketGone, hc, onSocketDisconnected, hred, closeSession, h, s, iqDones, retryN]

/-- **No request outlives an orderly end either**: when the server closes the stream (`</stream:stream>`, alone or at the end of
a read) nothing can be resumed, and afterwards no request is outstanding — plain, retrying, or created by a continuation while
the session was torn down. -/
theorem no_request_outlives_a_stream_end (cfg : Cfg) (script : List Ev)
    (hc : (run (init cfg) script).1.conn = .connected) :
    (step (run (init cfg) script).1 .closeTail).1.pendingIq = 0 ∧
    (step (run (init cfg) script).1 .closeTail).1.pendingRetry = 0 ∧
    (step (run (init cfg) script).1 .closeTail).1.conn = .disconnected := by
  have hred : (run (init cfg) script).1.redirect = false := run_red script (init cfg) rfl
  generalize (run (init cfg) script).1 = s at *
  simp [step, disconnectFromHost, socketClose, hc, onSocketDisconnected, hred, closeSession, retryN_down]

/-- …and a retained request does not outlive the next session unless that session is a resumption: opening a session that
was not resumed finishes every outstanding request (what the failure continuations of retry-requests send then belongs to the
new session and is outstanding there). -/
theorem retained_requests_end_with_new_session (s : St) (h : s.smResumed = false) :
    (openSession s).1.pendingRetry = 0 ∧ (s.pendingRetry = 0 → (openSession s).1.pendingIq = 0) := by
  refine ⟨?_, fun h0 => ?_⟩
  · simp [openSession, cancelOld, h, csiOnSessionOpened, csiSendState]
    (repeat' split) <;> simp [sendStanza] <;> (repeat' split) <;> simp
  · have := (openSession_spec s).2.2.2 h0
    simpa [h] using this

/-- a request issued while disconnected (and without stream management) fails at once -/
theorem request_while_disconnected_fails (s : St) (hc : s.conn ≠ .connected) (ha : s.ackEnabled = false) :
    .sig (.iqDone true) ∈ (step s .sendIq).2 ∧ (step s .sendIq).1.pendingIq = s.pendingIq := by
  simp [step, sendIq, ha, hc, sendStanza]

/-! ### the next attempt starts from scratch -/

/-- **Per-connection reset (12 model fields + the bind2 result).**  After ANY history with a live connection, cut + reconnect
puts the negotiation fields of the MODEL back to their initial values: the 12 fields of `negView` (listener, stream id seen,
stream version seen, encrypted, header cache, parser wedged, authenticated, session flag, stream-management enabled / resumed,
ack manager enabled, redirect target) and `bind2Bound`.  C++ state without a model field is outside this theorem: `streamFrom`,
`authenticationMethod`, the carbon manager's `m_enabled/m_requested`, FAST `m_tokenChanged`, the resume location
`m_resumeHost/m_resumePort` (from `<enabled location=…/>`), the DNS/SRV address list and its indices (TryNext fallback).
(Deliberately kept across connections: resumption data, outstanding requests of a resumable stream, unacknowledged stanzas,
the CSI state; `bindAvail`, `smAvail`, `csiAvail` are overwritten by the next features element before any use.) -/
theorem per_connection_reset (cfg : Cfg) (script : List Ev)
    (hc : (run (init cfg) script).1.conn = .connected) :
    negView (run (run (init cfg) script).1 cutAndReconnect).1 = negView (init cfg) ∧
    (run (run (init cfg) script).1 cutAndReconnect).1.bind2Bound = (init cfg).bind2Bound := by
  have hred : (run (init cfg) script).1.redirect = false := run_red script (init cfg) rfl
  rw [cut_reconnect_state _ hc hred]
  generalize (run (init cfg) script).1 = s at hred
  simp [negView, init, hred]

/-- SASL + classic bind on a server that advertises client state indication -/
def flowSaslBindCsi0 : List Ev :=
  [.recv (.header true true), .recv (.features { mechs := some .plain }), .recv (.saslSuccess true),
   .recv (.header true true), .recv (.features { bind := true, csi := true }), .recv (.iq (.bindResult .ok))]

/-- **The fields `handleStart` does not reset (`bindAvail`, `smAvail`, `csiAvail`) are written on the connection that uses
them — any history, any event.**  `EL` = the listeners from which a session can be opened without a further features element
(bind, enable, resume, and the two XEP-0078 ones).  (1) A step that enters `EL` has written the fields: it received a features
element and `csiAvail` — and, for the bind / enable / resume listeners, `bindAvail` and `smAvail`, the two fields those
listeners read — hold exactly what it advertised, or it received a version-less header and `csiAvail` is false.  Since
`per_connection_reset` puts the listener back to idle (not in `EL`), nothing of an earlier connection is read there.
(2) A session is only ever opened by the idle listener on a features element (which stores the fields first, in the same
step), from an `EL` listener, or — the stated exception — by a SASL2 success carrying `<resumed/>`: an inline-resumed
session deliberately keeps the CSI availability of the session it resumes. -/
theorem avail_fields_written_before_use (cfg : Cfg) (script : List Ev) (e : Ev) :
    (¬ EL (run (init cfg) script).1.listener → EL (step (run (init cfg) script).1 e).1.listener →
      (∃ f, e = .recv (.features f) ∧ Wrote f (step (run (init cfg) script).1 e).1) ∨
      (∃ i, e = .recv (.header false i) ∧ (step (run (init cfg) script).1 e).1.listener = .nonSaslFields ∧
        (step (run (init cfg) script).1 e).1.csiAvail = false)) ∧
    (nC (step (run (init cfg) script).1 e).2 ≠ 0 →
      (∃ f, e = .recv (.features f) ∧ (run (init cfg) script).1.listener = .idle) ∨
      EL (run (init cfg) script).1.listener ∨ (∃ b tok p, e = .recv (.s2Success b .resumed tok p))) :=
  ⟨el_entered_only_by_a_write _ e, session_opened_from _ e⟩

/-- the two former stale-CSI witnesses: after a session on a server that advertised CSI, a legacy login (version-less header,
or XEP-0078 offered as a feature) no longer sends the client state -/
example :
    let cfg : Cfg := { plainOk := true, inactive := true }
    let first : List Ev := [.connectToServer, .socketConnected] ++ flowSaslBindCsi0 ++ cutAndReconnect
    .sent .csiInactive .clear ∈ (run (init cfg) first).2 ∧
    nC (run (run (init cfg) first).1 flowLegacy).2 = 1 ∧
    .sent .csiInactive .clear ∉ (run (run (init cfg) first).1 flowLegacy).2 ∧
    .sent .csiInactive .clear ∉ (run (run (init cfg) first).1
      [.recv (.header true true), .recv (.features { legacyAuth := true }), .recv (.iq (.authFields true true)),
       .recv (.iq (.authResult true))]).2 := by
  decide

/-- SASL2 with bind2, cut right after `<success><bound/></success>` (the former witness of the `bind2Bound` leak) -/
def witnessBind2Cut : List Ev :=
  [.connectToServer, .socketConnected, .recv (.header true true),
   .recv (.features { sasl2 := some { mech := .plain, bind2 := true, bind2Ext := true, fast := false, smInline := false } }),
   .recv (.s2Success .plain .none false true)]

/-- SASL + classic bind, the server offers client state indication after authentication -/
def flowSaslBindCsi : List Ev :=
  [.recv (.header true true), .recv (.features { mechs := some .plain }), .recv (.saslSuccess true),
   .recv (.header true true), .recv (.features { bind := true, csi := true }), .recv (.iq (.bindResult .ok))]

/-- after the former leak scenario an inactive client tells the new server `<inactive/>` exactly as a fresh client does -/
example :
    let cfg : Cfg := { plainOk := true, inactive := true }
    .sent .csiInactive .clear ∈ (run (init cfg) ([.connectToServer, .socketConnected] ++ flowSaslBindCsi)).2 ∧
    .sent .csiInactive .clear ∈ (run (init cfg) (witnessBind2Cut ++ cutAndReconnect ++ flowSaslBindCsi)).2 := by
  decide

/-- **The next attempt succeeds (SASL + bind).**  After ANY history with a live connection: cut, reconnect, and a conforming
server running SASL PLAIN and classic binding lead to `connected`, `isConnected()`, authenticated, negotiation listener
idle — for every configuration that may use SASL PLAIN and does not require TLS. -/
theorem next_attempt_succeeds_sasl_bind (cfg : Cfg) (script : List Ev)
    (hc : (run (init cfg) script).1.conn = .connected) (hreg : cfg.registerOnConnect = false)
    (hsasl : cfg.useSasl = true) (hplain : cfg.plainOk = true) (htls : cfg.tls ≠ .required) :
    .sig .connected ∈ (run (run (init cfg) script).1 (cutAndReconnect ++ flowSaslBind)).2 ∧
    isConnected (run (run (init cfg) script).1 (cutAndReconnect ++ flowSaslBind)).1 = true ∧
    (run (run (init cfg) script).1 (cutAndReconnect ++ flowSaslBind)).1.authenticated = true ∧
    (run (run (init cfg) script).1 (cutAndReconnect ++ flowSaslBind)).1.listener = .idle := by
  have hred : (run (init cfg) script).1.redirect = false := run_red script (init cfg) rfl
  have hcfg : (run (init cfg) script).1.cfg = cfg := run_cfg script (init cfg)
  have h0 : Ph cfg false .idle false false (run (run (init cfg) script).1 cutAndReconnect).1 := by
    have := ph_after_cut _ hc hred (by rw [hcfg]; exact hreg)
    rwa [hcfg] at this
  have a := flowSaslBind_connects h0 hsasl hplain (Or.inr htls)
  rw [run_append]
  dsimp only
  exact ⟨List.mem_append_right _ a.1, isConnected_of _ a.2.conn a.2.sess, a.2.auth, a.2.listener⟩

/-- **The next attempt succeeds (STARTTLS, then SASL + bind)** — also with TLS required, whenever TLS is available locally. -/
theorem next_attempt_succeeds_tls_sasl_bind (cfg : Cfg) (script : List Ev)
    (hc : (run (init cfg) script).1.conn = .connected) (hreg : cfg.registerOnConnect = false)
    (hl : cfg.localTls = true) (ht : cfg.tls ≠ .disabled) (hsasl : cfg.useSasl = true) (hplain : cfg.plainOk = true) :
    .sig .connected ∈ (run (run (init cfg) script).1 (cutAndReconnect ++ flowTlsSaslBind)).2 ∧
    isConnected (run (run (init cfg) script).1 (cutAndReconnect ++ flowTlsSaslBind)).1 = true ∧
    (run (run (init cfg) script).1 (cutAndReconnect ++ flowTlsSaslBind)).1.authenticated = true ∧
    (run (run (init cfg) script).1 (cutAndReconnect ++ flowTlsSaslBind)).1.encrypted = true := by
  have hred : (run (init cfg) script).1.redirect = false := run_red script (init cfg) rfl
  have hcfg : (run (init cfg) script).1.cfg = cfg := run_cfg script (init cfg)
  have h0 : Ph cfg false .idle false false (run (run (init cfg) script).1 cutAndReconnect).1 := by
    have := ph_after_cut _ hc hred (by rw [hcfg]; exact hreg)
    rwa [hcfg] at this
  have a := flowTlsSaslBind_connects h0 hl ht hsasl hplain
  rw [run_append]
  dsimp only
  exact ⟨List.mem_append_right _ a.1, isConnected_of _ a.2.conn a.2.sess, a.2.auth, a.2.enc⟩

/-- **The next attempt succeeds (SASL2 + bind2 with inline stream management).** -/
theorem next_attempt_succeeds_sasl2_bind2 (cfg : Cfg) (script : List Ev)
    (hc : (run (init cfg) script).1.conn = .connected) (hreg : cfg.registerOnConnect = false)
    (hs2 : cfg.useSasl2 = true) (hplain : cfg.plainOk = true) (htls : cfg.tls ≠ .required) :
    .sig .connected ∈ (run (run (init cfg) script).1 (cutAndReconnect ++ flowSasl2Bind2)).2 ∧
    isConnected (run (run (init cfg) script).1 (cutAndReconnect ++ flowSasl2Bind2)).1 = true ∧
    (run (run (init cfg) script).1 (cutAndReconnect ++ flowSasl2Bind2)).1.authenticated = true := by
  have hred : (run (init cfg) script).1.redirect = false := run_red script (init cfg) rfl
  have hcfg : (run (init cfg) script).1.cfg = cfg := run_cfg script (init cfg)
  have h0 : Ph cfg false .idle false false (run (run (init cfg) script).1 cutAndReconnect).1 := by
    have := ph_after_cut _ hc hred (by rw [hcfg]; exact hreg)
    rwa [hcfg] at this
  have a := flowSasl2Bind2_connects h0 hs2 hplain (Or.inr htls)
  rw [run_append]
  dsimp only
  exact ⟨List.mem_append_right _ a.1, isConnected_of _ a.2.conn a.2.sess, a.2.auth⟩

/-- **The next attempt succeeds (legacy XEP-0078 login against a pre-1.0 server)** — for every configuration that allows
legacy authentication and does not require TLS; nothing is reported before the last element, which reports `connected`
exactly once. -/
theorem next_attempt_succeeds_legacy (cfg : Cfg) (script : List Ev)
    (hc : (run (init cfg) script).1.conn = .connected) (hreg : cfg.registerOnConnect = false)
    (hns : cfg.useNonSasl = true) (htls : cfg.tls ≠ .required) :
    .sig .connected ∈ (run (run (init cfg) script).1 (cutAndReconnect ++ flowLegacy)).2 ∧
    isConnected (run (run (init cfg) script).1 (cutAndReconnect ++ flowLegacy)).1 = true ∧
    (run (run (init cfg) script).1 (cutAndReconnect ++ flowLegacy)).1.authenticated = true ∧
    nC (run (run (run (init cfg) script).1 cutAndReconnect).1 flowLegacy).2 = 1 := by
  have hred : (run (init cfg) script).1.redirect = false := run_red script (init cfg) rfl
  have hcfg : (run (init cfg) script).1.cfg = cfg := run_cfg script (init cfg)
  have h0 : Ph cfg false .idle false false (run (run (init cfg) script).1 cutAndReconnect).1 := by
    have := ph_after_cut _ hc hred (by rw [hcfg]; exact hreg)
    rwa [hcfg] at this
  have hv : (run (run (init cfg) script).1 cutAndReconnect).1.streamVersionSet = false := by
    rw [cut_reconnect_state _ hc hred]
  have a := flowLegacy_connects h0 hv hns (Or.inr htls)
  rw [run_append]
  dsimp only
  exact ⟨List.mem_append_right _ a.1, isConnected_of _ a.2.1.conn a.2.1.sess, a.2.1.auth, a.2.2.1⟩

/-- **The next attempt succeeds — each of the 11 named conforming flows, every cut point.**  This is a theorem about the 11
constructors of `Flow`, not about every conforming server: the product {STARTTLS?} × {SASL | SASL2 | legacy | legacy as feature}
× {bind | bind2} × {SM none | enable | resume ok | resume refused} × {CSI?} × {redirect?} has members that are not in `Flow`
(they are exercised by the harness policies only).  `Flow` lists these conforming server scripts
(SASL PLAIN / SCRAM incl. the server-signature step / SASL2+bind2 / SASL2+FAST token / legacy, with or without STARTTLS, classic
bind with `<enable/>`, `<resume/>` accepted, `<resume/>` refused followed by bind and `<enable/>`, see-other-host followed by a
full flow); `fl.applicable cfg canResume` says that the configuration allows the flow and, for the resumption flows, that the
client holds a resumable stream.  After ANY history that ends with a live connection (in particular: an earlier attempt cut at
any point), cut + reconnect + the flow: `connected` is reported exactly once, by the last element; before it nothing is
reported and `isConnected()` is false at every cut point `k` of the flow; no `disconnected`; the client ends connected and
authenticated. -/
theorem next_attempt_succeeds (fl : Flow) (cfg : Cfg) (script : List Ev)
    (hc : (run (init cfg) script).1.conn = .connected) (hreg : cfg.registerOnConnect = false)
    (happ : fl.applicable cfg (run (init cfg) script).1.canResume) :
    nC (run (run (run (init cfg) script).1 cutAndReconnect).1 fl.script).2 = 1 ∧
    nD (run (run (run (init cfg) script).1 cutAndReconnect).1 fl.script).2 = 0 ∧
    isConnected (run (run (run (init cfg) script).1 cutAndReconnect).1 fl.script).1 = true ∧
    (run (run (run (init cfg) script).1 cutAndReconnect).1 fl.script).1.authenticated = true ∧
    (∀ k, k < fl.script.length →
      nC (run (run (run (init cfg) script).1 cutAndReconnect).1 (fl.script.take k)).2 = 0 ∧
      nD (run (run (run (init cfg) script).1 cutAndReconnect).1 (fl.script.take k)).2 = 0 ∧
      isConnected (run (run (run (init cfg) script).1 cutAndReconnect).1 (fl.script.take k)).1 = false) := by
  have hred : (run (init cfg) script).1.redirect = false := run_red script (init cfg) rfl
  have hcfg : (run (init cfg) script).1.cfg = cfg := run_cfg script (init cfg)
  have st := start_after_cut _ hc hred (by rw [hcfg]; exact hreg)
  rw [hcfg] at st
  exact opensAtEnd_spec _ _ st.ph.sess (flow_opens fl st happ)

/-- the same for the very first attempt of a fresh client -/
theorem first_attempt_succeeds (fl : Flow) (cfg : Cfg) (happ : fl.applicable cfg false)
    (hreg : cfg.registerOnConnect = false) :
    nC (run (init cfg) ([.connectToServer, .socketConnected] ++ fl.script)).2 = 1 ∧
    isConnected (run (init cfg) ([.connectToServer, .socketConnected] ++ fl.script)).1 = true ∧
    (run (init cfg) ([.connectToServer, .socketConnected] ++ fl.script)).1.authenticated = true := by
  have st : Start cfg false (run (init cfg) [.connectToServer, .socketConnected]).1 := by
    refine ⟨⟨⟨?_, hreg⟩, ?_, ?_, ?_, ?_, ?_, ?_, ?_⟩, ?_, ?_, ?_, ?_⟩ <;> simp [run, step, connectTo, socketGone, init, handleStart]
  have h := opensAtEnd_spec _ _ st.ph.sess (flow_opens fl st happ)
  rw [run_append]
  dsimp only
  have h0 : nC (run (init cfg) [.connectToServer, .socketConnected]).2 = 0 := by simp [run, step, connectTo, socketGone, init, handleStart]
  exact ⟨by rw [nC_append, h0, h.1], h.2.2.1, h.2.2.2.1⟩

/-- every flow is applicable for some configuration (non-vacuity), e.g. -/
example : Flow.scramBind.applicable {} false := by simp [Flow.applicable]
example : Flow.resumeRefused.applicable { plainOk := true } true := by simp [Flow.applicable]
example : Flow.sasl2Fast.applicable { fastUa := true, token := true } false := by simp [Flow.applicable]
example : Flow.tlsSasl2Bind2.applicable { tls := .required, plainOk := true } false := by simp [Flow.applicable]

/-! ### `connected` once per connection, and only at the end -/

/-- **Every cut point of the conforming script.**  After ANY history, cut and reconnect: for every `k`, after the first `k`
elements of the SASL + bind script no `connected` (and no `disconnected`) has been reported and no session is flagged as
long as `k` is less than the length of the script; the last element reports `connected` exactly once. -/
theorem connected_once_and_only_when_done_sasl_bind (cfg : Cfg) (script : List Ev)
    (hc : (run (init cfg) script).1.conn = .connected) (hreg : cfg.registerOnConnect = false)
    (hsasl : cfg.useSasl = true) (hplain : cfg.plainOk = true) (htls : cfg.tls ≠ .required) :
    let s0 := (run (run (init cfg) script).1 cutAndReconnect).1
    (∀ k, k < flowSaslBind.length →
        nC (run s0 (flowSaslBind.take k)).2 = 0 ∧ nD (run s0 (flowSaslBind.take k)).2 = 0 ∧
        isConnected (run s0 (flowSaslBind.take k)).1 = false) ∧
    nC (run s0 flowSaslBind).2 = 1 ∧ nD (run s0 flowSaslBind).2 = 0 := by
  intro s0
  have hred : (run (init cfg) script).1.redirect = false := run_red script (init cfg) rfl
  have hcfg : (run (init cfg) script).1.cfg = cfg := run_cfg script (init cfg)
  have h0 : Ph cfg false .idle false false s0 := by
    have := ph_after_cut _ hc hred (by rw [hcfg]; exact hreg)
    rwa [hcfg] at this
  have cuts := flowSaslBind_cuts h0 hsasl hplain (Or.inr htls)
  have hpre : ∀ k, nC (run s0 (flowSaslBind.dropLast.take k)).2 = 0 ∧ nD (run s0 (flowSaslBind.dropLast.take k)).2 = 0 ∧
      (run s0 (flowSaslBind.dropLast.take k)).1.sessionStarted = false :=
    fun k => quietRun_prefix _ s0 h0.sess cuts.1 k
  constructor
  · intro k hk
    have hk' : k ≤ 5 := by simp [flowSaslBind] at hk; omega
    have e : flowSaslBind.take k = flowSaslBind.dropLast.take k := by
      have : flowSaslBind.dropLast = flowSaslBind.take 5 := rfl
      rw [this, List.take_take, Nat.min_eq_left hk']
    rw [e]
    have := hpre k
    exact ⟨this.1, this.2.1, not_isConnected_of _ this.2.2⟩
  · have e : flowSaslBind = flowSaslBind.dropLast ++ [.recv (.iq (.bindResult .ok))] := rfl
    have h5 := hpre 5
    have e5 : flowSaslBind.dropLast.take 5 = flowSaslBind.dropLast := rfl
    rw [e5] at h5
    rw [e, run_append]
    simp only [run, List.append_nil, nC_append, nD_append, h5.1, h5.2.1, Nat.zero_add]
    exact cuts.2

/-- **`connected` only when the negotiation has finished — every history, every event.**  Whatever happened before and
whatever comes next (server element, socket event, application call): the step reports `connected` at most once, and if it
does, then afterwards no negotiation request is outstanding (the listener is the idle one), the session flag is set, the
socket is connected and `isConnected()` is true.  (Whether the server made the client authenticate first is the server's
choice: a server that offers no authentication gets an unauthenticated session.) -/
theorem connected_only_when_done (cfg : Cfg) (script : List Ev) (e : Ev) :
    nC (step (run (init cfg) script).1 e).2 ≤ 1 ∧
    (nC (step (run (init cfg) script).1 e).2 = 1 →
      (step (run (init cfg) script).1 e).1.listener = .idle ∧
      (step (run (init cfg) script).1 e).1.sessionStarted = true ∧
      (step (run (init cfg) script).1 e).1.conn = .connected ∧
      isConnected (step (run (init cfg) script).1 e).1 = true) := by
  rcases step_done (run (init cfg) script).1 e with h | h
  · exact ⟨by omega, fun h1 => by omega⟩
  · exact ⟨by omega, fun _ => ⟨h.2.1, h.2.2.1, h.2.2.2, isConnected_of _ h.2.2.2 h.2.2.1⟩⟩

/-- **`connected` at most once per connection — every history of a server that does not restart negotiation inside an
established session** (`noNegotiationInSession`: while a session is established no stream features, and no stream header that
would restart XEP-0078 authentication — version-less, on a stream whose version is not recorded, legacy authentication
enabled; the only conformance hypothesis, and each part is necessary).  Scan everything the client did, in order (`alt false`): `connected` is never reported while a
session is already reported open, where only `disconnected` closes a session.  By `disconnected_only_when_socket_gone` a
`disconnected` is reported only by a step that loses the socket, so two `connected` signals always belong to different
connections.  (The hypothesis is necessary: `openSession` is not guarded, its Q_ASSERT is compiled out in release builds.) -/
theorem connected_at_most_once_per_connection (cfg : Cfg) (script : List Ev)
    (hconf : Along noNegotiationInSession (init cfg) script) :
    alt false (run (init cfg) script).2 = true :=
  run_alt script (init cfg) (by intro h; simp [init] at h) hconf

/-- `disconnected` is only reported by a step after which the socket is not connected and no session is flagged -/
theorem disconnected_only_when_socket_gone (cfg : Cfg) (script : List Ev) (e : Ev)
    (h : nD (step (run (init cfg) script).1 e).2 ≠ 0) :
    (step (run (init cfg) script).1 e).1.conn ≠ .connected ∧
    (step (run (init cfg) script).1 e).1.sessionStarted = false :=
  step_disconnected_means_socket_gone _ e h

/-- **`isConnected()` means a session was really established on the current connection — every history, no hypothesis.**
Whenever `isConnected()` is true, the last session signal the client reported is `connected` (no `disconnected` since), and
conversely the session flag is never set while the socket is not connected. -/
theorem isConnected_means_session_established (cfg : Cfg) (script : List Ev) :
    (isConnected (run (init cfg) script).1 = true → altEnd false (run (init cfg) script).2 = true) ∧
    ((run (init cfg) script).1.sessionStarted = true → (run (init cfg) script).1.conn = .connected) := by
  constructor
  · intro h
    have := run_altEnd script (init cfg)
    rw [show (init cfg).sessionStarted = false from rfl] at this
    rw [this]
    simp [isConnected] at h
    exact h.2
  · exact run_minv script (init cfg) (by intro h; simp [init] at h)

/-- **`isConnected()` implies authenticated — every history of a server that demands authentication** (`demandsAuth`: a
features element received while the client is not authenticated always leads it into STARTTLS or into an authentication
exchange its configuration uses; i.e. the server never offers binding or a bare session to an unauthenticated client).  Also
while binding, enabling or resuming the client is authenticated. -/
theorem isConnected_implies_authenticated (cfg : Cfg) (script : List Ev)
    (hd : Along demandsAuth (init cfg) script) :
    (isConnected (run (init cfg) script).1 = true → (run (init cfg) script).1.authenticated = true) ∧
    ((run (init cfg) script).1.sessionStarted = true → (run (init cfg) script).1.authenticated = true) := by
  have hi : AInv (run (init cfg) script).1 :=
    run_ainv script (init cfg) ⟨by intro h; simp [init] at h, by intro h; simp [init] at h⟩ (by intro h; simp [init] at h) hd
  refine ⟨fun h => hi.1 ?_, hi.1⟩
  simp [isConnected] at h
  exact h.2

/-- the hypothesis is necessary: a server that offers nothing to authenticate with gets an unauthenticated session -/
example : let s := (run (init {}) [.connectToServer, .socketConnected, .recv (.header true true), .recv (.features {})]).1
    isConnected s = true ∧ s.authenticated = false := by decide

/-- the hypothesis of `connected_at_most_once_per_connection` is necessary: features sent into an established session open it
a second time -/
example : alt false (run (init { plainOk := true })
    ([.connectToServer, .socketConnected] ++ flowSaslBind ++ [.recv (.features {})])).2 = false := by decide

/-- …and it is met by conforming histories, e.g. session, cut, reconnect, session -/
example : Along noNegotiationInSession (init { plainOk := true })
    ([.connectToServer, .socketConnected] ++ flowSaslBind ++ cutAndReconnect ++ flowSaslBind) := by
  simp [Along, noNegotiationInSession, flowSaslBind, cutAndReconnect]
  decide

/-! ### the former witnesses, on the repaired code -/

/-- legacy login completes for every configuration that allows it without TLS (former `C10_defect_legacy_auth_never_completes`) -/
example : nC (run (init {}) ([.connectToServer, .socketConnected] ++ flowLegacy)).2 = 1 ∧
    isConnected (run (init {}) ([.connectToServer, .socketConnected] ++ flowLegacy)).1 = true := by decide

/-- a session is established, then the server redirects (see-other-host) and the new TCP connection comes up -/
def witnessRedirectInSession : List Ev :=
  [.connectToServer, .socketConnected] ++ flowSaslBind ++ [.recv (.streamError true), .socketConnected]

/-- see-other-host during a session now ends the session: `disconnected` is signalled and `isConnected()` is false while the
new connection negotiates -/
example :
    let r := run (init { plainOk := true }) witnessRedirectInSession
    isConnected r.1 = false ∧ r.1.authenticated = false ∧ nD r.2 = 1 ∧ r.1.conn = .connected := by
  decide

/-- STARTTLS, then see-other-host over the encrypted link, then the new connection and a conforming server -/
def witnessRedirectOverTls : List Ev :=
  [.connectToServer, .socketConnected, .recv (.header true true), .recv (.features { tls := .optional }),
   .recv (.proceed true), .recv (.header true true), .recv (.streamError true), .socketConnected] ++ flowTlsSaslBind

/-- see-other-host on a TLS link: the redirected attempt negotiates from scratch and succeeds -/
example :
    let r := run (init { plainOk := true }) witnessRedirectOverTls
    nC r.2 = 1 ∧ isConnected r.1 = true ∧ r.1.encrypted = true := by
  decide

/-! ### Non-vacuity -/

/-- a history that ends with a live connection, an established resumable session and an outstanding request -/
def historySm : List Ev :=
  [.connectToServer, .socketConnected, .recv (.header true true), .recv (.features { mechs := some .plain }),
   .recv (.saslSuccess true), .recv (.header true true), .recv (.features { bind := true, sm := true }),
   .recv (.iq (.bindResult .ok)), .recv (.smEnabled true), .sendIq]

example : let s := (run (init { plainOk := true }) historySm).1
    s.conn = .connected ∧ s.canResume = true ∧ s.pendingIq = 1 ∧ isConnected s = true := by decide

example : let s := (run (init { plainOk := true }) ([.connectToServer, .socketConnected] ++ flowSaslBind ++ [.sendIq])).1
    s.conn = .connected ∧ s.canResume = false ∧ s.pendingIq = 1 := by decide

/-- the whole story on one concrete history: cut in the middle of binding, reconnect, conforming script -/
example : (run (init { plainOk := true })
    ([.connectToServer, .socketConnected] ++ flowSaslBind.take 5 ++ cutAndReconnect ++ flowSaslBind)).2 =
    [.sent .streamOpen .clear, .sent (.saslAuth .plain) .clear, .sent .streamOpen .clear, .sent .bind .clear,
     .sig .disconnected,
     .sent .streamOpen .clear, .sent (.saslAuth .plain) .clear, .sent .streamOpen .clear, .sent .bind .clear,
     .sent (.iqRequest true) .clear, .sig .connected, .sent .presence .clear] := by decide

end Qx.C10
