import Qx.Proofs.C04
import Qx.Proofs.C10
/-!
# C04 — with TLS required, no credential or stanza is sent before the link is encrypted

Property theorems only.  Model: `Qx/Model/C04Negotiation.lean` (the client negotiation machine as the code has it),
helpers: `Qx/Proofs/C04.lean`.

Reading aid.  `run (init cfg) script` feeds a script of events (server elements `recv …`, environment events, application
calls) to a fresh client with configuration `cfg`; `.2` is everything the client did, in order: `Out.sent kind link`
(`link = .clear` means: written to a connected socket that is not encrypted, i.e. readable on the wire) and signals.
`o.clearOk` says: if `o` went over the wire in clear, it is a stream open, `<starttls/>` or a stream close.

History.  The guard of fa0779c looked at jabber:client elements only: an `<iq xmlns='urn:foo'>` carrying a jabber:iq:version
query, or a stream-management `<r/>` after a redirect, was answered in clear; the main theorem then needed the hypothesis
`noEarlyBypass` and `C04_defect_foreign_namespace_iq_answered_in_clear` proved it necessary.  Repaired by e3d3c0f (before
encryption only stream features and stream errors are processed); the witness is kept below with what it produces now.
`connectToHost()` on a socket that was still connected (reconnect timer after a TLS close_notify without TCP close, or a second
`connectToServer`) reset the socket to plaintext and kept the session (`C04_defect_cleartext_after_reconnect_on_live_socket`);
repaired by 6235115 (abort first).  Since then neither `appWaits` nor `appUsesSession` says anything about connects.
Before the repository fixes e0bbad9 ("legacy authentication sends credentials in clear although TLS is required")
and fa0779c ("stanzas received before STARTTLS are processed and answered in clear although TLS is required") the statement
needed two more hypotheses (every header carries a version; no IQ request before encryption) and two defect theorems proved
that it was false without them; the two witness scripts are kept below (and first in the harness corpus) with what they
produce now.
-/
namespace Qx.C04

/-- **The property.**  TLS required.  For every script of any length — headers with or without version or id, any features,
any sequence of authentication / bind / stream-management answers, jabber:client IQ requests, messages, presences, stanza-shaped
elements in foreign / empty / jabber:server namespaces, `<r/>`, `<a/>`, whitespace keep-alives, partial elements, stream errors
(with or without the closing tag in the same read), redirects, closes, connection losses — everything the client ever writes to
an unencrypted wire is a stream open, `<starttls/>` or a stream close.  The scripts include time (`tick`), TLS close_notify
without TCP close, the reconnect timer, and `connectToServer` in ANY state.  No hypothesis about the server.
`appWaits` is the application-side scope (the property quantifies over servers): the application itself does not send requests
over an unencrypted link.  (Nothing is assumed about when it calls `connectToServer`.) -/
theorem tls_required_no_secret_before_encrypted (cfg : Cfg) (hreq : cfg.tls = .required) (script : List Ev)
    (happ : Along appWaits (init cfg) script) :
    ∀ o ∈ (run (init cfg) script).2, o.clearOk :=
  (Qx.C10.run_ginv_w script (init cfg) hreq
    ⟨init_inv cfg, (by intro h; simp [init] at h), fun h => absurd (nc_of_not_connected (by simp [init])) h⟩ happ).1

/-- In the words of the property (same hypotheses): nothing that carries the password, a digest of it or the token is ever
written to an unencrypted wire. -/
theorem no_secret_in_clear (cfg : Cfg) (hreq : cfg.tls = .required) (script : List Ev)
    (happ : Along appWaits (init cfg) script) :
    ∀ k, Out.sent k .clear ∈ (run (init cfg) script).2 → k.carriesSecret = false := by
  intro k hk
  have h := tls_required_no_secret_before_encrypted cfg hreq script happ _ hk
  cases k <;> simp_all [Out.clearOk, Kind.preTlsOk, Kind.carriesSecret]

/-- **A second consumer of stream features.**  With `registerOnConnect` a `QXmppRegistrationManager` takes every stream features
element before the client's own handler sees it.  TLS required: in every history neither the request for the registration form nor
the filled-in form (user name, password) is written to an unencrypted link — the manager calls the client's `handleStarttls`
first, which starts TLS or gives up. -/
theorem registration_never_in_clear (cfg : Cfg) (hreq : cfg.tls = .required) (script : List Ev)
    (happ : Along appWaits (init cfg) script) (form : Bool) :
    Out.sent (.register form) .clear ∉ (run (init cfg) script).2 := by
  intro h
  have := tls_required_no_secret_before_encrypted cfg hreq script happ _ h
  simp [Out.clearOk, Kind.preTlsOk] at this

/-- non-vacuity: over TLS the cached form is sent (once), then the form is requested -/
example : (run (init { tls := .required, registerOnConnect := true, regForm := true })
    ([.connectToServer, .socketConnected, .recv (.header true true), .recv (.features { tls := .optional, register := true }),
      .recv (.proceed true), .recv (.header true true), .recv (.features { register := true }),
      .recv (.features { register := true })])).2 =
    [.sent .streamOpen .clear, .sent .startTls .clear, .sent .streamOpen .enc, .sent (.register true) .enc,
     .sent (.register false) .enc] := by decide

/-- **Time.**  `tick` = the keep-alive interval elapses.  With TLS required, in every history (the server may stall at any point
of the negotiation for any number of intervals), neither a keep-alive ping nor the `<r/>` that replaces it under stream
management is ever written to an unencrypted link. -/
theorem no_keepalive_before_encryption (cfg : Cfg) (hreq : cfg.tls = .required) (script : List Ev)
    (happ : Along appWaits (init cfg) script) :
    Out.sent .ping .clear ∉ (run (init cfg) script).2 ∧ Out.sent .smReq .clear ∉ (run (init cfg) script).2 := by
  constructor <;> intro h <;>
    have := tls_required_no_secret_before_encrypted cfg hreq script happ _ h <;>
    simp [Out.clearOk, Kind.preTlsOk] at this

/-- witness: an encrypted session; the server sends a TLS close_notify but keeps the TCP connection (socket error
RemoteHostClosedError, the client stays connected, automatic reconnection starts its timer); the timer fires: `connectToHost()` on
the live socket; then the keep-alive interval elapses -/
def witnessLiveReconnect : List Ev :=
  [.connectToServer, .socketConnected] ++ Qx.C10.flowTlsSaslBind ++ [.tlsCloseNotify, .reconnectTick, .tick]

/-- what the former witness of `C04:encryption-dropped-on-live-connection` does now (6235115: a connect starts from an unconnected
socket): the timer's `connectToHost()` aborts the half-closed connection — the session ends with `disconnected` — and opens a new
one; nothing is written in clear, the keep-alive timer is not running any more.  (Before, `QSslSocket::connectToHost()` reset the
live socket to unencrypted mode: the session went on in clear, `C04_defect_cleartext_after_reconnect_on_live_socket`.) -/
example : let r := run (init { tls := .required, plainOk := true, autoReconnect := true, keepAlive := true }) witnessLiveReconnect
    r.1.conn = .connecting ∧ isConnected r.1 = false ∧ Out.sig .disconnected ∈ r.2 ∧ Out.sent .ping .clear ∉ r.2 := by decide

/-- **A (re)connect never leaves an old session on the wire**: in ANY state `connectToHost()` (application or reconnect timer)
ends with the socket not connected — an old connection is aborted, its session closed — and writes nothing at all (stated for a
client without outstanding retry-requests: what their failure continuations send is written to the closed socket, link `down`). -/
theorem connect_starts_from_an_unconnected_socket (s : St) (hr0 : s.pendingRetry = 0) :
    (connectTo s).1.conn = .connecting ∧ (connectTo s).1.sessionStarted = (socketGone s).1.sessionStarted ∧
    (∀ k l, Out.sent k l ∉ (connectTo s).2) ∧
    (s.conn = .connected → s.redirect = false → (connectTo s).1.sessionStarted = false ∧ Out.sig .disconnected ∈ (connectTo s).2) := by
  refine ⟨rfl, rfl, ?_, ?_⟩
  · intro k l
    simp only [connectTo, socketGone, onSocketDisconnected, closeSession, hr0]
    (repeat' split) <;> simp [iqDones, retryN]
  · intro hc hr
    simp [connectTo, socketGone, hc, onSocketDisconnected, hr, closeSession]

/-- **The ping timer only runs inside a session** (any TLS mode, any history, no hypothesis): when time passes, something is
written only if keep-alive is configured and a session is open (the timer is started by `connected`, stopped by
`disconnected`); what is written is one ping, or one `<r/>` if stream management is on; the state does not change. -/
theorem keepalive_only_in_session (cfg : Cfg) (script : List Ev) :
    ((run (init cfg) script).1.sessionStarted = false ∨ cfg.keepAlive = false →
      step (run (init cfg) script).1 .tick = ((run (init cfg) script).1, [])) ∧
    (step (run (init cfg) script).1 .tick).1 = (run (init cfg) script).1 ∧
    (∀ o ∈ (step (run (init cfg) script).1 .tick).2,
      o = send (run (init cfg) script).1 .ping ∨ o = send (run (init cfg) script).1 .smReq) := by
  have hcfg : (run (init cfg) script).1.cfg = cfg := by rw [run_cfg]; rfl
  generalize (run (init cfg) script).1 = s at *
  refine ⟨?_, ?_, ?_⟩
  · intro h
    have hp : s.pingArmed = false := by
      rcases h with h | h
      · simp [St.pingArmed, h]
      · simp [St.pingArmed, hcfg, h]
    simp [step, hp]
  · simp only [step, sendPing]; (repeat' split) <;> rfl
  · simp only [step, sendPing]; (repeat' split) <;> simp

/-- former witness (c): right after the header, an `<iq type='get'>` carrying a jabber:iq:version query whose OWN namespace is
not jabber:client (e.g. `<iq xmlns='urn:foo' …>`) -/
def witnessForeignIq : List Ev :=
  [.connectToServer, .socketConnected, .recv (.header true true), .recv (.xiq .getKnown)]

/-- what (c) does now: no answer; error, stream close, disconnected -/
example : (run (init { tls := .required }) witnessForeignIq).2 =
    [.sent .streamOpen .clear, .sig .error, .sent .streamClose .clear, .sig .disconnected] := by decide

/-- **Before encryption nothing but stream features and stream errors is processed** (TLS required; any reachable idle state on
a connected, unencrypted link): every other element — whatever its shape or namespace — is rejected: error, stream close,
disconnected, no session, no other send. -/
theorem pre_tls_element_is_rejected (cfg : Cfg) (hreq : cfg.tls = .required) (script : List Ev) (e : El)
    (hc : (run (init cfg) script).1.conn = .connected) (hh : (run (init cfg) script).1.headerSeen = true)
    (hw : (run (init cfg) script).1.wedged = false) (hl : (run (init cfg) script).1.listener = .idle)
    (hr0 : (run (init cfg) script).1.pendingRetry = 0)   -- no request with a re-sending failure continuation is outstanding
    (he : (run (init cfg) script).1.encrypted = false)
    (hne : e.isStreamLevel = false) (hnh : ∀ v i, e ≠ .header v i) :
    (step (run (init cfg) script).1 (.recv e)).1.conn = .disconnected ∧
    (step (run (init cfg) script).1 (.recv e)).1.sessionStarted = false ∧
    (∀ k l, Out.sent k l ∈ (step (run (init cfg) script).1 (.recv e)).2 → k = .streamClose) ∧
    .sig .disconnected ∈ (step (run (init cfg) script).1 (.recv e)).2 := by
  have hred : (run (init cfg) script).1.redirect = false := run_red script (init cfg) rfl
  have hcfg : (run (init cfg) script).1.cfg.tls = .required := by rw [run_cfg]; exact hreq
  generalize (run (init cfg) script).1 = s at *
  cases e <;>
    first
    | (exfalso; exact hnh _ _ rfl)
    | (simp [El.isStreamLevel] at hne; done)
    | (simp [step, recv, hc, hw, hh, dispatch, hl, idleHandle, idleGuarded, St.preTls, he, hcfg, El.isStreamLevel, reject,
        disconnectFromHost, socketClose, onSocketDisconnected, hred, closeSession, send, iqDones, hr0, retryN]; done)
    | (rename_i k; cases k <;>
        simp [step, recv, hc, hw, hh, dispatch, hl, idleHandle, idleGuarded, St.preTls, he, hcfg, El.isStreamLevel, reject,
          disconnectFromHost, socketClose, onSocketDisconnected, hred, closeSession, send, iqDones, hr0, retryN])

/-- **If STARTTLS is refused the client gives up.**  TLS required; in any reachable state where the client has sent
`<starttls/>` and waits for the answer on a connected, unencrypted link: `<failure/>` (or anything but `<proceed/>`) makes it
report an error, send the stream close and nothing else, and end disconnected without session. -/
theorem starttls_failure_disconnects (cfg : Cfg) (script : List Ev)
    (hc : (run (init cfg) script).1.conn = .connected) (hh : (run (init cfg) script).1.headerSeen = true)
    (hw : (run (init cfg) script).1.wedged = false) (hl : (run (init cfg) script).1.listener = .starttls)
    (hr0 : (run (init cfg) script).1.pendingRetry = 0) :
    (step (run (init cfg) script).1 (.recv .tlsFailure)).1.conn = .disconnected ∧
    (step (run (init cfg) script).1 (.recv .tlsFailure)).1.sessionStarted = false ∧
    (∀ k l, Out.sent k l ∈ (step (run (init cfg) script).1 (.recv .tlsFailure)).2 → k = .streamClose) ∧
    .sig .disconnected ∈ (step (run (init cfg) script).1 (.recv .tlsFailure)).2 := by
  have hred : (run (init cfg) script).1.redirect = false := run_red script (init cfg) rfl
  generalize (run (init cfg) script).1 = s at *
  simp [step, recv, hc, hw, hh, dispatch, hl, starttlsHandle, reject, disconnectFromHost, socketClose, onSocketDisconnected,
    hred, closeSession, send, iqDones, hr0, retryN]

/-- **If the TLS handshake fails after `<proceed/>` the client gives up**: error, no further send at all, `disconnected`,
socket disconnected, no session. -/
theorem failed_handshake_disconnects (cfg : Cfg) (script : List Ev)
    (hc : (run (init cfg) script).1.conn = .connected) (hh : (run (init cfg) script).1.headerSeen = true)
    (hw : (run (init cfg) script).1.wedged = false) (hl : (run (init cfg) script).1.listener = .starttls)
    (hr0 : (run (init cfg) script).1.pendingRetry = 0) :
    (step (run (init cfg) script).1 (.recv (.proceed false))).1.conn = .disconnected ∧
    (step (run (init cfg) script).1 (.recv (.proceed false))).1.sessionStarted = false ∧
    (∀ k l, Out.sent k l ∉ (step (run (init cfg) script).1 (.recv (.proceed false))).2) ∧
    .sig .disconnected ∈ (step (run (init cfg) script).1 (.recv (.proceed false))).2 := by
  have hred : (run (init cfg) script).1.redirect = false := run_red script (init cfg) rfl
  generalize (run (init cfg) script).1 = s at *
  simp [step, recv, hc, hw, hh, dispatch, hl, starttlsHandle, onSocketDisconnected, armReconnect, hred, closeSession, iqDones, hr0, retryN]

/-- **The scope hypothesis is tight for `sendIq`/`sendPacket`: what the application sends is written to the socket as is.**
In ANY state: if the socket is connected and not encrypted, a request of the application goes over the wire in clear (the
library does not hold it back until the session exists) — so the hypothesis cannot be dropped; and in every other state
(disconnected, connecting, closing, or encrypted) nothing the call produces can reach the wire in clear: while the socket is
not connected the stanza is only logged (or, with stream management, queued and re-sent later over the then current link,
which the main theorem covers). -/
theorem app_send_leaks_exactly_on_a_clear_link (s : St) :
    (link s = .clear → Out.sent (.iqRequest false) .clear ∈ (step s .sendIq).2) ∧
    (link s ≠ .clear → ∀ o ∈ (step s .sendIq).2, o.isClear = false) := by
  constructor
  · intro h
    simp only [step, sendIq, sendStanza, send, h]
    split <;> split <;> simp
  · intro h
    have hnc : NC s := by
      intro hc
      cases he : s.encrypted
      · simp [link, hc, he] at h
      · rfl
    exact (sendIq_nc s hnc).1

/-- **An application that sends only while `isConnected()` is safe, for every server.**  TLS required; the application sends
requests only while `isConnected()` is true (`appUsesSession`, the documented way to use the client; it may call
`connectToServer` at any time).  Then for every script nothing but stream open / `<starttls/>` / stream close ever goes over an
unencrypted wire, and whenever `isConnected()` is true the link is encrypted (a session is never established, nor kept, on an
unencrypted link when TLS is required). -/
theorem app_that_waits_for_session_is_safe (cfg : Cfg) (hreq : cfg.tls = .required) (script : List Ev)
    (happ : Along Qx.C10.appUsesSession (init cfg) script) :
    (∀ o ∈ (run (init cfg) script).2, o.clearOk) ∧
    (isConnected (run (init cfg) script).1 = true → (run (init cfg) script).1.encrypted = true) := by
  have hg0 : Qx.C10.GInv (init cfg) :=
    ⟨init_inv cfg, (by intro h; simp [init] at h), fun h => absurd (nc_of_not_connected (by simp [init])) h⟩
  have h := Qx.C10.run_ginv script (init cfg) hreq hg0 happ
  refine ⟨h.1, fun hi => ?_⟩
  simp [isConnected] at hi
  by_cases hnc : NC (run (init cfg) script).1
  · exact hnc hi.1
  · have := h.2.2.2 hnc
    rw [this] at hi; cases hi.2

/-- former witness (a): the server's stream header has no `version`, then the XEP-0078 fields are offered -/
def witnessVersionless : List Ev :=
  [.connectToServer, .socketConnected, .recv (.header false true), .recv (.iq (.authFields true true))]

/-- former witness (b): an `<iq type='get'>` (e.g. jabber:iq:version) right after the header -/
def witnessIqRequest : List Ev :=
  [.connectToServer, .socketConnected, .recv (.header true true), .recv (.iq (.get true))]

/-- **A version-less header makes the client give up, for every configuration that requires TLS**: it closes the stream and
disconnects; the field offer that follows is not even read. -/
theorem versionless_header_gives_up (cfg : Cfg) (hreq : cfg.tls = .required) (hns : cfg.useNonSasl = true) :
    (run (init cfg) witnessVersionless).2 = [.sent .streamOpen .clear, .sent .streamClose .clear, .sig .disconnected] ∧
    (run (init cfg) witnessVersionless).1.conn = .disconnected := by
  simp [witnessVersionless, run, step, connectTo, socketGone, init, recv, handleStart, handleStream, hreq, hns, disconnectFromHost, socketClose,
    onSocketDisconnected, closeSession, send, link, iqDones, retryN]

/-- **An IQ request before encryption is refused, not answered**: error, stream close, disconnect. -/
theorem iq_request_before_tls_is_rejected (cfg : Cfg) (hreq : cfg.tls = .required) :
    (run (init cfg) witnessIqRequest).2 =
      [.sent .streamOpen .clear, .sig .error, .sent .streamClose .clear, .sig .disconnected] := by
  simp [witnessIqRequest, run, step, connectTo, socketGone, init, recv, handleStart, handleStream, hreq, dispatch, idleHandle, idleGuarded, El.isStreamLevel, St.preTls, reject,
    disconnectFromHost, socketClose, onSocketDisconnected, closeSession, send, link, iqDones, retryN]

/-- **If encryption cannot be negotiated the client gives up and disconnects.**  TLS required; after ANY script that leaves
the client connected, unencrypted, past the stream header and waiting for features: a features element without
`<starttls/>` — or any features element when no local TLS support exists — makes the client send the stream close (and
nothing else), cancel outstanding requests, report `disconnected`, and end disconnected, unauthenticated, without session. -/
theorem tls_unavailable_disconnects (cfg : Cfg) (script : List Ev) (f : Features) (hreq : cfg.tls = .required)
    (hc : (run (init cfg) script).1.conn = .connected)
    (he : (run (init cfg) script).1.encrypted = false)
    (hh : (run (init cfg) script).1.headerSeen = true)
    (hw : (run (init cfg) script).1.wedged = false)
    (hl : (run (init cfg) script).1.listener = .idle)
    (hr0 : (run (init cfg) script).1.pendingRetry = 0)   -- no request with a re-sending failure continuation is outstanding
    (hf : f.tls = .absent ∨ cfg.localTls = false) :
    let s := (run (init cfg) script).1
    let r := step s (.recv (.features f))
    r.2 = .sent .streamClose .clear :: (iqDones s.pendingIq ++ [.sig .disconnected]) ∧
    r.1.conn = .disconnected ∧ r.1.sessionStarted = false ∧ r.1.authenticated = false ∧ r.1.pendingIq = 0 := by
  intro s r
  have hcfg : s.cfg = cfg := run_cfg script (init cfg)
  exact tls_unavailable_core s f (by rw [hcfg]; exact hreq) hc he hh hw hl (run_red script (init cfg) rfl) hr0
    (by rw [hcfg]; exact hf)

/-! ### Non-vacuity: a script that meets the scope hypothesis, reaches the encrypted phase and sends a secret there -/

/-- STARTTLS, SASL PLAIN over TLS, bind: the password travels, but only through TLS -/
def goodScript : List Ev :=
  [.connectToServer, .socketConnected, .recv (.header true true),
   .recv (.features { tls := .optional, mechs := some .plain }), .recv (.proceed true),
   .recv (.header true true), .recv (.features { mechs := some .plain }), .recv (.saslSuccess true),
   .recv (.header true true), .recv (.features { bind := true }), .recv (.iq (.bindResult .ok))]

example : Along appWaits (init { tls := .required, plainOk := true }) goodScript := by
  simp [goodScript, Along, appWaits, init]

example : (run (init { tls := .required, plainOk := true }) goodScript).2 =
    [.sent .streamOpen .clear, .sent .startTls .clear, .sent .streamOpen .enc, .sent (.saslAuth .plain) .enc,
     .sent .streamOpen .enc, .sent .bind .enc, .sent (.iqRequest true) .enc, .sig .connected, .sent .presence .enc] := by
  decide

/-- the hypotheses of `tls_unavailable_disconnects` are met right after the header -/
example : let s := (run (init { tls := .required }) [.connectToServer, .socketConnected, .recv (.header true true)]).1
    s.conn = .connected ∧ s.encrypted = false ∧ s.headerSeen = true ∧ s.wedged = false ∧ s.listener = .idle := by
  decide

/-- hostile scripts meet the scope hypothesis as well (it constrains the application, not the server) -/
example : Along appWaits (init { tls := .required }) witnessVersionless := by
  simp [witnessVersionless, Along, appWaits, init]
example : Along appWaits (init { tls := .required }) witnessIqRequest := by
  simp [witnessIqRequest, Along, appWaits, init]

end Qx.C04
