import Qx.Proofs.C04
/-!
# C04 — with TLS required, no credential or stanza is sent before the link is encrypted

Property theorems only.  Model: `Qx/Model/C04Negotiation.lean` (the client negotiation machine as the code has it),
helpers and the three named hypotheses: `Qx/Proofs/C04.lean`.

Reading aid.  `run (init cfg) script` feeds a script of events (server elements `recv …`, environment events, application
calls) to a fresh client with configuration `cfg`; `.2` is everything the client did, in order: `Out.sent kind link`
(`link = .clear` means: written to a connected socket that is not encrypted, i.e. readable on the wire) and signals.
`o.clearOk` says: if `o` went over the wire in clear, it is a stream open, `<starttls/>` or a stream close.

The full property — for EVERY server script nothing but those three is ever sent in clear — is false on today's code in
two independent ways (`C04_defect_*`, each replayed on the real client by the harness).  What is proved is the statement
under the two named hypotheses that exclude exactly those two ways.
-/
namespace Qx.C04

/-- **The property, as far as it holds today (`…_partial`).**  TLS required.  For every script of any length in which
(H1 `versionedHeader`) every stream header received on an unencrypted link carries a `version`,
(H2 `noEarlyIqRequest`) no `<iq type=get|set>` is received on an unencrypted link, and
(H3 `appWaits`, scope) the application itself neither sends requests over an unencrypted link nor calls `connectToServer`
on a live connection:
everything the client ever writes to an unencrypted wire is a stream open, `<starttls/>` or a stream close — no
authentication exchange of any kind, no bind, no stanza.

Full statement (FALSE today, see the two defect theorems): the same without H1 and H2. -/
theorem tls_required_no_secret_before_encrypted_partial (cfg : Cfg) (hreq : cfg.tls = .required) (script : List Ev)
    (h1 : Along versionedHeader (init cfg) script)
    (h2 : Along noEarlyIqRequest (init cfg) script)
    (h3 : Along appWaits (init cfg) script) :
    ∀ o ∈ (run (init cfg) script).2, o.clearOk :=
  run_safe script (init cfg) hreq (init_inv cfg) h1 h2 h3

/-- Consequence in the words of the property: under the same hypotheses nothing that carries the password, a digest of it
or the token is ever written to an unencrypted wire. -/
theorem no_secret_in_clear_partial (cfg : Cfg) (hreq : cfg.tls = .required) (script : List Ev)
    (h1 : Along versionedHeader (init cfg) script)
    (h2 : Along noEarlyIqRequest (init cfg) script)
    (h3 : Along appWaits (init cfg) script) :
    ∀ k, Out.sent k .clear ∈ (run (init cfg) script).2 → k.carriesSecret = false := by
  intro k hk
  have h := tls_required_no_secret_before_encrypted_partial cfg hreq script h1 h2 h3 _ hk
  cases k <;> simp_all [Out.clearOk, Kind.preTlsOk, Kind.carriesSecret]

/-- witness (a): the server's stream header has no `version`; the client asks for the XEP-0078 fields at once and, when
they are offered, sends the password digest — all before any `<starttls/>` -/
def witnessVersionless : List Ev :=
  [.connectToServer, .socketConnected, .recv (.header false true), .recv (.iq (.authFields true true))]

/-- witness (b): an `<iq type='get'>` (e.g. jabber:iq:version) right after the header is answered in clear -/
def witnessIqRequest : List Ev :=
  [.connectToServer, .socketConnected, .recv (.header true true), .recv (.iq (.get true))]

/-- **Defect (a): a stream header without `version`.**  Even if the server never sends an IQ request (H2) and the
application is passive (H3), the property fails: with the default configuration plus TLS required, the script
`witnessVersionless` makes the client send the XEP-0078 query and then the password digest over the unencrypted link. -/
theorem C04_defect_versionless_header :
    ¬ (∀ (cfg : Cfg) (script : List Ev), cfg.tls = .required →
        Along noEarlyIqRequest (init cfg) script → Along appWaits (init cfg) script →
        ∀ o ∈ (run (init cfg) script).2, o.clearOk) := by
  intro h
  have hw := h { tls := .required } witnessVersionless rfl
    ⟨trivial, trivial, trivial, trivial, trivial⟩ ⟨rfl, trivial, trivial, trivial, trivial⟩
    (.sent (.nonSaslAuth false) .clear) (by decide)
  simp [Out.clearOk, Kind.preTlsOk] at hw

/-- **Defect (b): an IQ request before encryption is answered in clear.**  Even if every header carries a version (H1) and
the application is passive (H3), the property fails: `witnessIqRequest` makes the client send an IQ result (its software
name, version and operating system for jabber:iq:version) over the unencrypted link. -/
theorem C04_defect_iq_answered_in_clear :
    ¬ (∀ (cfg : Cfg) (script : List Ev), cfg.tls = .required →
        Along versionedHeader (init cfg) script → Along appWaits (init cfg) script →
        ∀ o ∈ (run (init cfg) script).2, o.clearOk) := by
  intro h
  have hw := h { tls := .required } witnessIqRequest rfl
    ⟨trivial, trivial, Or.inr rfl, trivial, trivial⟩ ⟨rfl, trivial, trivial, trivial, trivial⟩
    (.sent (.iqReply false) .clear) (by decide)
  simp [Out.clearOk, Kind.preTlsOk] at hw

/-- **If encryption cannot be negotiated the client gives up and disconnects.**  TLS required; after ANY script that leaves
the client connected, unencrypted, past the stream header and waiting for features: a features element without
`<starttls/>` — or any features element when no local TLS support exists — makes the client send the stream close (and
nothing else), cancel outstanding requests, report `disconnected`, and end disconnected, unauthenticated, without session. -/
theorem tls_unavailable_disconnects (cfg : Cfg) (script : List Ev) (f : Features) (hreq : cfg.tls = .required)
    (hc : (run (init cfg) script).1.conn = .connected)
    (he : (run (init cfg) script).1.encrypted = false)
    (hh : (run (init cfg) script).1.headerSeen = true)
    (hw : (run (init cfg) script).1.wedged = false)
    (hl : (run (init cfg) script).1.listener = .idle)
    (hf : f.tls = .absent ∨ cfg.localTls = false) :
    let s := (run (init cfg) script).1
    let r := step s (.recv (.features f))
    r.2 = .sent .streamClose .clear :: (iqDones s.pendingIq ++ [.sig .disconnected]) ∧
    r.1.conn = .disconnected ∧ r.1.sessionStarted = false ∧ r.1.authenticated = false ∧ r.1.pendingIq = 0 := by
  intro s r
  have hcfg : s.cfg = cfg := run_cfg script (init cfg)
  exact tls_unavailable_core s f (by rw [hcfg]; exact hreq) hc he hh hw hl (run_red script (init cfg) rfl)
    (by rw [hcfg]; exact hf)

/-! ### Non-vacuity: scripts that meet H1–H3, reach the encrypted phase and send a secret there -/

/-- STARTTLS, SASL PLAIN over TLS, bind: the password travels, but only through TLS -/
def goodScript : List Ev :=
  [.connectToServer, .socketConnected, .recv (.header true true),
   .recv (.features { tls := .optional, mechs := some .plain }), .recv (.proceed true),
   .recv (.header true true), .recv (.features { mechs := some .plain }), .recv (.saslSuccess true),
   .recv (.header true true), .recv (.features { bind := true }), .recv (.iq (.bindResult .ok))]

example : Along versionedHeader (init { tls := .required, plainOk := true }) goodScript := by
  simp [goodScript, Along, versionedHeader]
example : Along noEarlyIqRequest (init { tls := .required, plainOk := true }) goodScript := by
  simp [goodScript, Along, noEarlyIqRequest]
example : Along appWaits (init { tls := .required, plainOk := true }) goodScript := by
  simp [goodScript, Along, appWaits, init]

example : (run (init { tls := .required, plainOk := true }) goodScript).2 =
    [.sent .streamOpen .clear, .sent .startTls .clear, .sent .streamOpen .enc, .sent (.saslAuth .plain) .enc,
     .sent .streamOpen .enc, .sent .bind .enc, .sent (.iqRequest true) .enc, .sig .connected, .sent .presence .enc] := by
  decide

/-- the hypotheses of `tls_unavailable_disconnects` are met right after the header -/
example : let s := (run (init { tls := .required }) [.connectToServer, .socketConnected, .recv (.header true true)]).1
    s.conn = .connected ∧ s.encrypted = false ∧ s.headerSeen = true ∧ s.wedged = false ∧ s.listener = .idle := by
  decide

/-- what the two witnesses make the client do -/
example : (run (init { tls := .required }) witnessVersionless).2 =
    [.sent .streamOpen .clear, .sent .nonSaslQuery .clear, .sent (.nonSaslAuth false) .clear] := by decide
example : (run (init { tls := .required }) witnessIqRequest).2 =
    [.sent .streamOpen .clear, .sent (.iqReply false) .clear] := by decide

end Qx.C04
