import Qx.Proofs.C20
/-!
# C20 — the entity-capabilities hash is the XEP-0115 value, order- and duplicate-blind

Property theorems only (model: `Qx/Model/C20Caps.lean`, helpers and the predicates used below:
`Qx/Proofs/C20.lean`).  `verStringCode` is the string S built by `QXmppDiscoveryIq::verificationString()`,
`verStringSpec` is XEP-0115 §5.1 applied to what the same object writes to the wire, `ver H i = H (verStringCode i)`
for an arbitrary hash `H` (the C++: `H = SHA-1 ∘ UTF-8`, base64 in the presence).  All statements quantify over
every info set (any number of identities, features, fields, values; any well-formed Unicode strings).

Vocabulary: `l ~ l'` permutation; `FormPermuted f f'` fields reordered and the values inside each field reordered;
`DistinctKeys` the `var`s of the form are pairwise different (XEP-0004 §3.2); `NoChar c i` character `c` occurs in no
component; `NoSlash i` no `/` in a category, type or language tag; `canon i` the content as the hash sees it (sorted
identities, sorted distinct features, FORM_TYPE value and per key the appended values); `XepForm` unique `var`s and a
single-valued string FORM_TYPE.

Form values are opaque strings: the wire view (`Value.wire`) is one `<value/>` per list element whose text is the element;
a conforming XML parser reads it back unchanged (the writer escapes markup characters and CR; the reader keeps LF, TAB, blanks).

Scope: the property is about the hash this client GENERATES and advertises versus what it ANSWERS.  The verification
direction (checking the `ver` other entities advertise against their disco#info, XEP-0115 §5.4) is not part of it: qxmpp
has no such code path (`verificationString()` is only called from `addProperCapability`), and `verStringSpec` is applied
to the wire view of our own objects.  XEP-0390 (Entity Capabilities 2.0) is not emitted by the library (no `urn:xmpp:caps`
anywhere in src/), so there is nothing to relate.

State of the tree: repo commits 0beac74 (sorting by UTF-8 octets), eee8133 (`capabilities()` removes repeated features),
03b8892 (form field values hashed exactly as written) and 032336b (caps recomputed wherever the stored presence is
emitted or handed out) are in and the model follows them; the former witnesses stay in the harness corpus and as examples
below.  Also in: "caps hash includes an empty but non-null form value, as the form is written" (0e1114e), after
`QXmppDataForm::toXml` started to write such a value as `<value/>`, and "a carriage return in element text is written as a
character reference" (6d0fec7).  No defect theorem is left.
-/
namespace Qx.C20
open List

/-! ## order- and duplicate-blind -/

/-- **Reordering changes nothing.** Identities in any order, features in any order, form fields in any order and
the values inside every field in any order give the same verification string, for every hash `H`.
(Needs distinct `var`s: with a repeated key the QMap keeps the last one — see `field_order_matters_when_keys_repeat`.) -/
theorem ver_perm_invariant {β : Type} (H : Str → β) (a b : Info)
    (hids : a.ids ~ b.ids) (hfeats : a.feats ~ b.feats)
    (hkeys : DistinctKeys a.form) (hform : FormPermuted a.form b.form) :
    ver H a = ver H b := by
  simp only [ver, verStringCode, sortedIdentitiesCode, sortedFeaturesCode]
  rw [isort_eq_of_perm (identityLessThan_strictTotal lt8_strictTotal) hids,
    isort_eq_of_perm lt8_strictTotal hfeats, formStrCode_eq_of_permuted hkeys hform]

/-- **Only the set of features counts**: two feature lists with the same members (any order, any
multiplicities) give the same verification string. -/
theorem ver_feature_set_invariant {β : Type} (H : Str → β) (a b : Info)
    (hids : a.ids = b.ids) (hform : a.form = b.form) (hm : ∀ f, f ∈ a.feats ↔ f ∈ b.feats) :
    ver H a = ver H b := by
  simp only [ver, verStringCode, sortedIdentitiesCode, sortedFeaturesCode]
  rw [hids, hform, canonFeats_eq_of_mem_iff lt8_strictTotal hm]

/-- **Repeating a feature changes nothing.** -/
theorem ver_dup_feature_invariant {β : Type} (H : Str → β) (i : Info) (f : Str) (hf : f ∈ i.feats) :
    ver H { i with feats := f :: i.feats } = ver H i :=
  ver_feature_set_invariant H _ i rfl rfl (fun g => by
    simp only [mem_cons]
    constructor
    · rintro (rfl | h)
      · exact hf
      · exact h
    · exact Or.inr)

/-- Limit of `ver_perm_invariant`, stated so it cannot drift silently: with a repeated `var` (not allowed by
XEP-0004) the last field wins in the `QMap`, so the field order matters. -/
theorem field_order_matters_when_keys_repeat :
    ∃ f g : Field, f.key = g.key ∧
      verStringCode { ids := [], feats := [], form := some [⟨formTypeKey, .text ['t']⟩, f, g] } ≠
      verStringCode { ids := [], feats := [], form := some [⟨formTypeKey, .text ['t']⟩, g, f] } :=
  ⟨⟨['k'], .text ['1']⟩, ⟨['k'], .text ['2']⟩, rfl, by decide⟩

/-! ## changes whenever something is added, removed or altered -/

/-- **S is an injective encoding of its token list**: if no component contains `<`, equal verification strings
have the same sequence of `…<`-terminated tokens (identity tokens `category/type/lang/name`, features, FORM_TYPE,
keys and values). -/
theorem ver_string_injective_tokens (a b : Info) (ha : NoChar '<' a) (hb : NoChar '<' b)
    (h : verStringCode a = verStringCode b) : tokens a = tokens b :=
  tokens_eq_of_verString_eq ha hb h

/-- **Injective on canonical content.** No `<` in any component, no `/` in category/type/lang, and the same
shape (number of identities, of distinct features, of values per form key): equal verification strings ⇒ equal
canonical content.  The shape hypothesis is necessary for XEP-0115's string format itself
(`xep_string_ambiguous_across_sections`), as is the `<` hypothesis (`xep_string_ambiguous_with_lt`, XEP-0115 §5.4
lets a receiver reject such input). -/
theorem ver_string_injective_on_canonical (a b : Info)
    (ha : NoChar '<' a) (hb : NoChar '<' b) (hsa : NoSlash a) (hsb : NoSlash b)
    (hshape : (canon a).shape = (canon b).shape)
    (h : verStringCode a = verStringCode b) : canon a = canon b :=
  canon_eq_of_tokens_eq hsa hsb hshape (tokens_eq_of_verString_eq ha hb h)

/-- **…hence the hash changes**, under the named assumption `H_injective_on` (no SHA-1 collision between the two
strings at hand): different canonical content of the same shape ⇒ different `ver`. -/
theorem ver_changes_when_altered {β : Type} (H : Str → β) (a b : Info)
    (H_injective_on : H (verStringCode a) = H (verStringCode b) → verStringCode a = verStringCode b)
    (ha : NoChar '<' a) (hb : NoChar '<' b) (hsa : NoSlash a) (hsb : NoSlash b)
    (hshape : (canon a).shape = (canon b).shape) (hne : canon a ≠ canon b) : ver H a ≠ ver H b :=
  fun h => hne (ver_string_injective_on_canonical a b ha hb hsa hsb hshape (H_injective_on h))

/-- **An identity added, removed or altered** (features and form untouched): `ver` changes — no shape hypothesis. -/
theorem ver_changes_when_identities_change {β : Type} (H : Str → β) (a b : Info)
    (H_injective_on : H (verStringCode a) = H (verStringCode b) → verStringCode a = verStringCode b)
    (ha : NoChar '<' a) (hb : NoChar '<' b) (hsa : NoSlash a) (hsb : NoSlash b)
    (hfeats : (canon a).feats = (canon b).feats) (hform : (canon a).form = (canon b).form)
    (hne : (canon a).ids ≠ (canon b).ids) : ver H a ≠ ver H b := by
  intro h
  have ht := tokens_eq_of_verString_eq ha hb (H_injective_on h)
  rw [tokens_eq_canon, tokens_eq_canon, hfeats, hform] at ht
  exact hne (map_idToken_inj (sortedIds_noSlash hsa) (sortedIds_noSlash hsb) (append_cancel_right ht))

/-- **A feature added, removed or altered** (identities and form untouched): `ver` changes. -/
theorem ver_changes_when_features_change {β : Type} (H : Str → β) (a b : Info)
    (H_injective_on : H (verStringCode a) = H (verStringCode b) → verStringCode a = verStringCode b)
    (ha : NoChar '<' a) (hb : NoChar '<' b)
    (hids : (canon a).ids = (canon b).ids) (hform : (canon a).form = (canon b).form)
    (hne : (canon a).feats ≠ (canon b).feats) : ver H a ≠ ver H b := by
  intro h
  have ht := tokens_eq_of_verString_eq ha hb (H_injective_on h)
  rw [tokens_eq_canon, tokens_eq_canon, hids, hform] at ht
  exact hne (append_cancel_right (append_cancel_left ht))

/-- **A form value (or key, or FORM_TYPE) altered** (identities and features untouched, same number of values per
key): `ver` changes. -/
theorem ver_changes_when_form_value_altered {β : Type} (H : Str → β) (a b : Info)
    (H_injective_on : H (verStringCode a) = H (verStringCode b) → verStringCode a = verStringCode b)
    (ha : NoChar '<' a) (hb : NoChar '<' b)
    (hids : (canon a).ids = (canon b).ids) (hfeats : (canon a).feats = (canon b).feats)
    (hshape : (canon a).shape.2.2 = (canon b).shape.2.2)
    (hne : (canon a).form ≠ (canon b).form) : ver H a ≠ ver H b := by
  intro h
  have ht := tokens_eq_of_verString_eq ha hb (H_injective_on h)
  rw [tokens_eq_canon, tokens_eq_canon, hids, hfeats] at ht
  exact hne (canonForm_eq_of_tokens hshape (append_cancel_left (append_cancel_left ht)))

/-- **A form value or field added or removed** (identities and features untouched; the number of form tokens
differs): `ver` changes. -/
theorem ver_changes_when_form_value_added_or_removed {β : Type} (H : Str → β) (a b : Info)
    (H_injective_on : H (verStringCode a) = H (verStringCode b) → verStringCode a = verStringCode b)
    (ha : NoChar '<' a) (hb : NoChar '<' b)
    (hids : (canon a).ids = (canon b).ids) (hfeats : (canon a).feats = (canon b).feats)
    (hne : (canonFormTokens (canon a).form).length ≠ (canonFormTokens (canon b).form).length) :
    ver H a ≠ ver H b := by
  intro h
  have ht := tokens_eq_of_verString_eq ha hb (H_injective_on h)
  rw [tokens_eq_canon, tokens_eq_canon, hids, hfeats] at ht
  exact hne (congrArg length (append_cancel_left (append_cancel_left ht)))

/-- Limit inherent in XEP-0115's format (not specific to this code): a `<` inside a component makes S ambiguous —
one feature `a<b` and the two features `a`, `b` give the same S. -/
theorem xep_string_ambiguous_with_lt :
    ∃ a b : Info, canon a ≠ canon b ∧ verStringCode a = verStringCode b ∧ verStringSpec a = verStringSpec b :=
  ⟨{ ids := [], feats := [['a', '<', 'b']], form := none },
   { ids := [], feats := [['a'], ['b']], form := none }, by decide, by decide, by decide⟩

/-- Limit inherent in XEP-0115's format: sections are not delimited — an identity `a/b/c/d` and a feature
`a/b/c/d` give the same S although no component contains `<` and no category/type/lang contains `/`. -/
theorem xep_string_ambiguous_across_sections :
    ∃ a b : Info, NoChar '<' a ∧ NoChar '<' b ∧ NoSlash a ∧ NoSlash b ∧
      canon a ≠ canon b ∧ verStringCode a = verStringCode b ∧ verStringSpec a = verStringSpec b :=
  ⟨{ ids := [⟨['a'], ['b'], ['c'], ['d']⟩], feats := [], form := none },
   { ids := [], feats := [['a', '/', 'b', '/', 'c', '/', 'd']], form := none },
   by decide, by decide, by decide, by decide, by decide, by decide, by decide⟩

/-! ## the computed string is the XEP-0115 §5.1 string -/

/-- **The C++ string is the XEP string of what a peer reads from the wire** for every info set whose form is in the
XEP's domain (unique `var`s, a string FORM_TYPE with one value) — no condition on characters (line feeds, carriage returns,
tabs, blanks only, `<`, `&`, quotes, U+2028, any length), any number of identities, features, fields, values, any field
kinds (strings incl. the empty one, lists, booleans, value-less fields). -/
theorem code_eq_spec (i : Info) (hx : XepForm i.form) : verStringCode i = verStringSpec i := by
  simp only [verStringCode, verStringSpec, sortedIdentitiesCode, sortedFeaturesCode]
  rw [formStr_agree hx]

/-- without a form nothing is assumed at all -/
theorem code_eq_spec_without_form (i : Info) (h : i.form = none) : verStringCode i = verStringSpec i :=
  code_eq_spec i (by rw [h]; trivial)

/-- **The wire view is element-wise**: a multi-valued field puts exactly one `<value/>` per list element on the wire, its
text the element (never split, joined or trimmed), a single-valued field its string unless null, a boolean `1`/`0`. -/
theorem wire_view_is_one_value_per_element (vs : List Str) (s : Str) (b : Bool) :
    (Value.list vs).wire = vs ∧ (Value.text s).wire = [s] ∧ Value.null.wire = [] ∧
    (Value.bool b).wire = [[if b then '1' else '0']] := by
  cases b <;> exact ⟨rfl, rfl, rfl, rfl⟩

/-- **The collation used is the XEP's, and it is code point order**: i;octet on the UTF-8 encodings compares the
sequences of code points (so e.g. U+FF5E sorts before U+1F600, unlike in UTF-16). -/
theorem octet_order_is_code_point_order (s t : Str) : lt8 s t = lexLt (cps s) (cps t) :=
  lt8_eq_cp s t

/-! ### former witnesses of deviations from the XEP string (all fixed; each replayed on the real library by `harness/cxx/caps.cpp`) -/

example : ('😀').toNat = 0x1F600 ∧ ('～').toNat = 0xFF5E := by decide

def idSmile : Identity := ⟨"client".toList, "pc".toList, [], ['😀']⟩
def idTilde : Identity := ⟨"client".toList, "pc".toList, [], ['～']⟩
/-- two identities whose names are U+1F600 (😀) and U+FF5E (～, fullwidth tilde) -/
def witnessUtf16 : Info := { ids := [idSmile, idTilde], feats := [], form := none }
/-- FORM_TYPE `urn:t` and one boolean field `b` = true -/
def witnessBool : Info :=
  { ids := [], feats := [], form := some [⟨formTypeKey, .text "urn:t".toList⟩, ⟨['b'], .bool true⟩] }
/-- FORM_TYPE `urn:t` and one text field `b` without a value (null string) -/
def witnessValueless : Info :=
  { ids := [], feats := [], form := some [⟨formTypeKey, .text "urn:t".toList⟩, ⟨['b'], .null⟩] }
/-- FORM_TYPE `urn:t` and one text field `b` whose value is the empty (non-null) string, written as `<value/>` -/
def witnessEmptyValue : Info :=
  { ids := [], feats := [], form := some [⟨formTypeKey, .text "urn:t".toList⟩, ⟨['b'], .text []⟩] }

/-- the former collation witness (fixed by 0beac74): U+FF5E (`EF BD 9E`) now comes before U+1F600 (`F0 9F 98 80`)
and the string is the XEP string -/
example : sortedIdentitiesCode witnessUtf16 = [idTilde, idSmile] ∧
    verStringCode witnessUtf16 = verStringSpec witnessUtf16 ∧ lt16 ['😀'] ['～'] = true ∧ lt8 ['～'] ['😀'] = true := by decide

/-- the former boolean-field and value-less-field witnesses (fixed by 03b8892): the strings are the XEP strings
`urn:t<b<1<` and `urn:t<b<`, and an empty value added to a value-less list field now changes the string -/
example : verStringCode witnessBool = "urn:t<b<1<".toList ∧ verStringSpec witnessBool = "urn:t<b<1<".toList ∧
    verStringCode witnessValueless = "urn:t<b<".toList ∧ verStringSpec witnessValueless = "urn:t<b<".toList ∧
    verStringCode { witnessValueless with form := some [⟨formTypeKey, .text "urn:t".toList⟩, ⟨['b'], .list []⟩] } ≠
    verStringCode { witnessValueless with form := some [⟨formTypeKey, .text "urn:t".toList⟩, ⟨['b'], .list [[]]⟩] } := by
  decide

/-- the former empty-value witness (fixed by 0e1114e): `<value/>` is written and hashed, `urn:t<b<<` -/
example : verStringCode witnessEmptyValue = "urn:t<b<<".toList ∧ verStringSpec witnessEmptyValue = "urn:t<b<<".toList := by decide

/-- FORM_TYPE `urn:t` and one text-multi field `b` with the single value `x CR y` -/
def witnessCR : Info :=
  { ids := [], feats := [], form := some [⟨formTypeKey, .text "urn:t".toList⟩, ⟨['b'], .list [['x', '\r', 'y']]⟩] }

/-- the former CR witness (fixed by 6d0fec7): the CR is written as `&#13;`, read back as CR, and hashed as CR -/
example : verStringCode witnessCR = "urn:t<b<x\ry<".toList ∧ verStringSpec witnessCR = "urn:t<b<x\ry<".toList := by decide

/-! ## advertised = answered -/

/-- **The advertised `ver` is the `ver` of the answered info set**: `addProperCapability` and the reply to a disco#info
`get` for `node#anything` (and for no node) both use `capabilities()`. -/
theorem advertised_eq_answered {β : Type} (H : Str → β) (c : ClientCfg) (v : Str) :
    (answeredInfo c (c.node ++ '#' :: v)).map (ver H) = some (advertisedVer H c) ∧
    (answeredInfo c []).map (ver H) = some (advertisedVer H c) := by
  simp [answeredInfo, advertisedVer, isPrefixOf_self_append]

/-- **…and it is the XEP-0115 hash of that answer** (what a verifying peer recomputes) whenever the client's info form
is in the XEP's domain (always when no info form is set). -/
theorem advertised_eq_xep_hash_of_answer {β : Type} (H : Str → β) (c : ClientCfg) (v : Str)
    (hx : XepForm c.infoForm) :
    (answeredInfo c (c.node ++ '#' :: v)).map (fun i => H (verStringSpec i)) = some (advertisedVer H c) := by
  have e := code_eq_spec (capabilities c) hx
  simp [answeredInfo, advertisedVer, isPrefixOf_self_append, ver, e]

/-! ### every emission site over any history -/

/-- **What fresh caps mean**: node = the configured node, `ver` = hash of `capabilities()`, and a disco#info `get` for
`node#ver…`, for the plain node and without node is answered with an info set of exactly that `ver`. -/
theorem fresh_caps_are_answered {β : Type} (H : Str → β) (c : ClientCfg) (n : Str) (v : β)
    (h : freshCaps H c = some (n, v)) :
    n = c.node ∧ v = advertisedVer H c ∧ ∀ x : Str,
      (answeredInfo c (n ++ '#' :: x)).map (ver H) = some v ∧ (answeredInfo c n).map (ver H) = some v ∧
      (answeredInfo c []).map (ver H) = some v := by
  simp only [freshCaps] at h
  split at h
  · simp at h
  · simp only [Option.some.injEq, Prod.mk.injEq] at h
    obtain ⟨rfl, rfl⟩ := h
    refine ⟨rfl, rfl, fun x => ?_⟩
    have h1 := isPrefixOf_self_append c.node []
    simp only [append_nil] at h1
    simp [answeredInfo, isPrefixOf_self_append, h1, advertisedVer]

/-- **Every emitted presence, at every site and in every history, advertises the caps of that moment**: whatever
sequence of reconfigurations (`addExtension`, `removeExtension`, `setClientName/Type/Category/InfoForm/CapabilitiesNode`),
`setClientPresence` (fresh presence or one derived from `clientPresence()`), `connectToServer`, session starts (also
after automatic reconnection), MUC joins, `disconnectFromServer` and queries — each presence carries exactly
`freshCaps` of the configuration in force when it is emitted (no caps element iff the node is empty). -/
theorem every_emitted_presence_has_fresh_caps {β : Type} (H : Str → β) (s : ClientSt β) (ops : List ClientOp)
    (s' : ClientSt β) (p : Option (Str × β)) (hm : (s', ClientOut.presence p) ∈ (clientRun H s ops).2) :
    p = freshCaps H s'.cfg := by
  induction ops generalizing s with
  | nil => simp [clientRun] at hm
  | cons op ops ih =>
    simp only [clientRun, mem_append, mem_map] at hm
    rcases hm with ⟨o, ho, he⟩ | hm
    · cases op with
      | configure c => simp [clientStep] at ho
      | connectToServer d => simp [clientStep] at ho
      | query n => simp only [clientStep, mem_singleton] at ho; subst ho; simp at he
      | setClientPresence d =>
        simp only [clientStep, mem_singleton] at ho
        subst ho
        simp only [Prod.mk.injEq, ClientOut.presence.injEq] at he
        obtain ⟨rfl, rfl⟩ := he
        rfl
      | emitStored site =>
        simp only [clientStep, mem_singleton] at ho
        subst ho
        simp only [Prod.mk.injEq, ClientOut.presence.injEq] at he
        obtain ⟨rfl, rfl⟩ := he
        rfl
    · exact ih _ hm

/-- **…hence it advertises the hash of the disco#info answer of that moment**: for every presence with a caps element
emitted anywhere in any history, its node is the configured node, its `ver` is the hash of `capabilities()` then, and a
`get` for `node#ver…`, for the plain node or without node is answered — under the configuration in force at the emission —
with an info set of exactly that `ver`. -/
theorem every_emitted_presence_advertises_the_answer_of_that_moment {β : Type} (H : Str → β) (s : ClientSt β)
    (ops : List ClientOp) (s' : ClientSt β) (n : Str) (v : β)
    (hm : (s', ClientOut.presence (some (n, v))) ∈ (clientRun H s ops).2) :
    n = s'.cfg.node ∧ v = advertisedVer H s'.cfg ∧ ∀ x : Str,
      (answeredInfo s'.cfg (n ++ '#' :: x)).map (ver H) = some v ∧ (answeredInfo s'.cfg n).map (ver H) = some v ∧
      (answeredInfo s'.cfg []).map (ver H) = some v :=
  fresh_caps_are_answered H s'.cfg n v (every_emitted_presence_has_fresh_caps H s ops s' _ hm).symm

/-- **…and the XEP-0115 hash a peer computes from the wire**: if the info form in force at the emission is in the XEP's
domain (no condition on characters), the `ver` of every presence emitted anywhere in any history equals the hash, per
XEP-0115 §5.1 on the wire view, of the info set answered at that moment. -/
theorem every_emitted_presence_advertises_the_wire_hash_of_the_answer {β : Type} (H : Str → β) (s : ClientSt β)
    (ops : List ClientOp) (s' : ClientSt β) (n : Str) (v : β)
    (hm : (s', ClientOut.presence (some (n, v))) ∈ (clientRun H s ops).2)
    (hx : XepForm s'.cfg.infoForm) (x : Str) :
    (answeredInfo s'.cfg (n ++ '#' :: x)).map (fun i => H (verStringSpec i)) = some v := by
  have h := every_emitted_presence_advertises_the_answer_of_that_moment H s ops s' n v hm
  rw [h.1, h.2.1]
  exact advertised_eq_xep_hash_of_answer H s'.cfg x hx

/-- two configurations with different hashes (for the examples below; `H` = identity) -/
def cfgOld : ClientCfg :=
  { category := "client".toList, type := "pc".toList, name := ['a'], baseFeatures := [['f']], extFeatures := [],
    extIdentities := [], infoForm := none, node := ['n'] }
def cfgNew : ClientCfg := { cfgOld with extFeatures := [[['g']]] }

/-- **The advertised node is always answered**: `node#anything`, the plain node and the empty node are never
item-not-found, whatever characters the configured node contains. -/
theorem advertised_node_always_answered (c : ClientCfg) (x : Str) :
    answeredInfo c (c.node ++ '#' :: x) = some (capabilities c) ∧ answeredInfo c c.node = some (capabilities c) ∧
    answeredInfo c [] = some (capabilities c) := by
  have h := isPrefixOf_self_append c.node []
  simp only [append_nil] at h
  simp [answeredInfo, isPrefixOf_self_append, h]

/-- **The answer lists every feature once** (XEP-0115 §5.4 item 4 makes a verifying peer reject a repeated feature),
whatever the client and its extensions contribute — since eee8133. -/
theorem reply_features_nodup (c : ClientCfg) : (capabilities c).feats.Nodup :=
  removeDuplicatesGo_nodup _ []

/-- …and no contributed feature is lost -/
theorem reply_features_complete (c : ClientCfg) (f : Str) :
    f ∈ (capabilities c).feats ↔ f ∈ c.baseFeatures ∨ ∃ l ∈ c.extFeatures, f ∈ l := by
  simp [capabilities, mem_removeDuplicates]

/-! ### Non-vacuity: concrete, non-trivial info sets meet the hypotheses above -/

/-- XEP-0115 §5.2 ("simple generation example") -/
def xepSimple : Info :=
  { ids := [⟨"client".toList, "pc".toList, [], "Exodus 0.9.1".toList⟩]
    feats := ["http://jabber.org/protocol/disco#info".toList, "http://jabber.org/protocol/muc".toList,
              "http://jabber.org/protocol/caps".toList, "http://jabber.org/protocol/disco#items".toList]
    form := none }

/-- the model reproduces the S documented in XEP-0115 §5.2 -/
example : verStringCode xepSimple =
    ("client/pc//Exodus 0.9.1<http://jabber.org/protocol/caps<http://jabber.org/protocol/disco#info<" ++
     "http://jabber.org/protocol/disco#items<http://jabber.org/protocol/muc<").toList := by decide +kernel

def formA : List Field :=
  [⟨formTypeKey, .text "urn:xmpp:dataforms:softwareinfo".toList⟩, ⟨"ip_version".toList, .list ["ipv4".toList, "ipv6".toList]⟩,
   ⟨"os".toList, .text "Mac".toList⟩]
def formB : List Field :=
  [⟨"os".toList, .text "Mac".toList⟩, ⟨"ip_version".toList, .list ["ipv6".toList, "ipv4".toList]⟩,
   ⟨formTypeKey, .text "urn:xmpp:dataforms:softwareinfo".toList⟩]
def infoA : Info := { xepSimple with ids := xepSimple.ids ++ [⟨"client".toList, "pc".toList, "el".toList, ['Ψ']⟩], form := some formA }
def infoB : Info :=
  { ids := infoA.ids.reverse, feats := infoA.feats.reverse, form := some formB }

example : infoA.ids ~ infoB.ids := (reverse_perm _).symm
example : infoA.feats ~ infoB.feats := (reverse_perm _).symm
example : DistinctKeys infoA.form := by decide
example : FormPermuted infoA.form infoB.form :=
  ⟨[formA[2], formA[1], formA[0]], by decide,
   .cons ⟨rfl, rfl⟩ (.cons ⟨rfl, Perm.swap _ _ _⟩ (.cons ⟨rfl, rfl⟩ .nil))⟩
example : verStringCode infoA = verStringCode infoB := by decide +kernel
example : NoChar '<' infoA ∧ NoSlash infoA ∧ XepForm infoA.form := by
  refine ⟨by decide, by decide, ⟨by decide, ?_⟩⟩
  intro f hf hk
  simp only [formA, mem_cons, not_mem_nil, or_false] at hf
  rcases hf with rfl | rfl | rfl
  · exact ⟨⟨_, rfl⟩, fun b h => by cases h⟩
  · exact absurd hk (by decide)
  · exact absurd hk (by decide)
/-- altering one value keeps the shape and changes the canonical content (hypotheses of `ver_changes_when_altered`) -/
example : (canon infoA).shape = (canon { infoA with form := some (formA.set 2 ⟨"os".toList, .text "Mac OS".toList⟩) }).shape ∧
    canon infoA ≠ canon { infoA with form := some (formA.set 2 ⟨"os".toList, .text "Mac OS".toList⟩) } := by decide +kernel
example : verStringCode infoA = verStringSpec infoA := by decide +kernel
/-- all hypotheses of `ver_changes_when_altered` hold together (with the identity as a trivially injective `H`) -/
example : ver id infoA ≠ ver id { infoA with form := some (formA.set 2 ⟨"os".toList, .text "Mac OS".toList⟩) } :=
  ver_changes_when_altered id _ _ id (by decide) (by decide) (by decide) (by decide) (by decide +kernel) (by decide +kernel)

/-- a client configuration meeting the hypotheses of `advertised_eq_xep_hash_of_answer` -/
def cfgA : ClientCfg :=
  { category := "client".toList, type := "pc".toList, name := "Caf\u00e9 1.0".toList,
    baseFeatures := ["jabber:x:data".toList, "jabber:x:conference".toList],
    extFeatures := [["http://jabber.org/protocol/disco#info".toList], ["jabber:iq:version".toList]],
    extIdentities := [[], [⟨"automation".toList, "rpc".toList, [], []⟩]],
    infoForm := some formA, node := "https://example.org/client".toList }
example : DistinctKeys cfgA.infoForm := by decide
/-- the former stale-caps witness (fixed by 032336b): after `connectToServer` and a reconfiguration the session start —
and a MUC join, a disconnect — advertise the NEW caps; the two hashes really differ -/
example : ((clientRun (fun s => s) { cfg := cfgOld } [.connectToServer false, .emitStored .sessionStart, .configure cfgNew,
    .emitStored .sessionStart, .emitStored .mucJoin, .emitStored .disconnect]).2.map (·.2)) =
    [.presence (freshCaps (fun s => s) cfgOld), .presence (freshCaps (fun s => s) cfgNew), .presence (freshCaps (fun s => s) cfgNew),
     .presence (freshCaps (fun s => s) cfgNew)] ∧
    freshCaps (fun s => s) cfgOld ≠ freshCaps (fun s => s) cfgNew := by decide
/-- a capabilities node that itself contains `#` (XEP-0115 allows any URI): `node#ver` and the plain node are answered -/
example : (answeredInfo { cfgA with node := "http://example.org/products#demo".toList } "http://example.org/products#demo#q07IKJEyjvHSyhy//CH0CxmKi8w=".toList).isSome = true ∧
    (answeredInfo { cfgA with node := "http://example.org/products#demo".toList } "http://example.org/products#demo".toList).isSome = true ∧
    (answeredInfo { cfgA with node := "http://example.org/products#demo".toList } "http://example.org/products".toList).isSome = false := by
  decide +kernel
/-- the former repeated-feature witness (fixed by eee8133): `jabber:x:conference` contributed by the client and by an
extension is answered once -/
example : (capabilities { cfgA with extFeatures := [["jabber:x:conference".toList]] }).feats =
    ["jabber:x:data".toList, "jabber:x:conference".toList] := by decide +kernel

end Qx.C20
