/-
C01, tier B: "typed fields over their whole lexical range … integers at type bounds, date-times
with and without milliseconds" — serialize-then-parse is the identity for every typed scalar helper
of src/base/QXmppUtils.cpp.  The functions named `…Code` are the model of today's C++ (tied to it by
harness/cxx/scalars.cpp on every run); `…Spec` are the strict lexical forms of the XEPs.

Every theorem is for ALL values (no bound, no sampling); the `example`s instantiate the integer
theorems at each type bound and show the hypotheses of the implications are satisfiable.
-/
import Qx.Proofs.Scalar

namespace Qx.Xml.Codec.Scalar
open Qx.Xml (Str)
open Qx (Bytes)

/-! ## Integers: `parseInt<T>(serializeInt<T>(v)) == v` -/

/-- Reading back the decimal digits of any natural number gives that number. -/
theorem parseNat_natToStr (n : Nat) : parseNat (natToStr n) = some n := by
  unfold parseNat
  have hne : (natToStr n).isEmpty = false := by
    cases h : natToStr n with
    | nil => exact absurd h (natToStr_ne_nil n)
    | cons _ _ => rfl
  rw [hne]
  exact digitsVal_natToStr n

/-- For every integer type of the library (8, 16, 32, 64 bits, signed or unsigned) and EVERY value
`v` of that type, `parseInt<T>` applied to `QString::number(v)` returns `v` — the type bounds
included. -/
theorem parseInt_serializeInt (bits : Nat) (signed : Bool) (v : Int)
    (hb : bits = 8 ∨ bits = 16 ∨ bits = 32 ∨ bits = 64) (hv : inRange bits signed v) :
    parseIntCode bits signed (intToStr v) = some v := by
  have hm := inRange_mono hb hv
  rw [parseIntCode_intToStr, if_neg, if_pos hm.2, if_pos hm.1, if_pos hv]
  cases signed
  · have : ¬ v < 0 := by have := hv; simp [inRange] at this; omega
    simp [this]
  · simp

/-- The decimal form of a value OUTSIDE the type's range is refused (no silent wrap-around or
truncation), for every width. -/
theorem parseInt_rejects_out_of_range (bits : Nat) (signed : Bool) (v : Int) (hv : ¬ inRange bits signed v) :
    parseIntCode bits signed (intToStr v) = none := by
  rw [parseIntCode_intToStr]
  repeat' split
  all_goals first | rfl | contradiction

/-- The same two facts for the strict lexical form (`-?digits`). -/
theorem parseIntSpec_serializeInt (bits : Nat) (signed : Bool) (v : Int) (hv : inRange bits signed v) :
    parseIntSpec bits signed (intToStr v) = some v := by
  rw [parseSpec_intToStr, if_neg, if_pos hv]
  cases signed
  · have : ¬ v < 0 := by have := hv; simp [inRange] at this; omega
    simp [this]
  · simp

/-- On the canonical decimal form of ANY integer (in range or not) today's `parseInt<T>` and the
strict form agree, for every type of the library: the range tests of the code are exactly the
type's range (this is the statement that failed for `uint8_t` before commit 025393a, witness 128). -/
theorem parseIntCode_eq_spec_on_canonical (bits : Nat) (signed : Bool) (v : Int)
    (hb : bits = 8 ∨ bits = 16 ∨ bits = 32 ∨ bits = 64) :
    parseIntCode bits signed (intToStr v) = parseIntSpec bits signed (intToStr v) := by
  by_cases hv : inRange bits signed v
  · rw [parseInt_serializeInt bits signed v hb hv, parseIntSpec_serializeInt bits signed v hv]
  · rw [parseInt_rejects_out_of_range bits signed v hv, parseSpec_intToStr]
    repeat' split
    all_goals first | rfl | contradiction

/-- The parse side over the WHOLE strict lexical range, not only the canonical forms: every string
`-?digits` (leading zeros, `-0`, any length) that denotes a value of the type is accepted by
today's `parseInt<T>` with exactly that value. -/
theorem parseInt_accepts_strict_lexical_range (bits : Nat) (signed : Bool) (s : Str) (v : Int)
    (hb : bits = 8 ∨ bits = 16 ∨ bits = 32 ∨ bits = 64) (h : parseIntSpec bits signed s = some v) :
    parseIntCode bits signed s = some v := parseIntCode_of_spec hb h

/-- non-vacuity of the hypothesis beyond canonical forms: leading zeros and a negative zero -/
example : parseIntSpec 8 false ['0', '0', '2', '5', '5'] = some 255 ∧ parseIntSpec 16 true ['-', '0'] = some 0 ∧
    parseIntSpec 8 false ['2', '5', '6'] = none := by decide

/-! integers at the type bounds (instances of the theorems above, evaluated on the model as well) -/
example : parseIntCode 8 true (intToStr (-128)) = some (-128) := parseInt_serializeInt 8 true _ (by decide) (by decide)
example : parseIntCode 8 true (intToStr 127) = some 127 := parseInt_serializeInt 8 true _ (by decide) (by decide)
example : parseIntCode 8 true (intToStr 128) = none := parseInt_rejects_out_of_range 8 true _ (by decide)
example : parseIntCode 8 true (intToStr (-129)) = none := parseInt_rejects_out_of_range 8 true _ (by decide)
example : parseIntCode 8 false (intToStr 255) = some 255 := parseInt_serializeInt 8 false _ (by decide) (by decide)
example : parseIntCode 8 false (intToStr 128) = some 128 := parseInt_serializeInt 8 false _ (by decide) (by decide)
example : parseIntCode 8 false (intToStr 256) = none := parseInt_rejects_out_of_range 8 false _ (by decide)
example : parseIntCode 8 false (intToStr (-1)) = none := parseInt_rejects_out_of_range 8 false _ (by decide)
example : parseIntCode 16 true (intToStr (-32768)) = some (-32768) := parseInt_serializeInt 16 true _ (by decide) (by decide)
example : parseIntCode 16 true (intToStr 32767) = some 32767 := parseInt_serializeInt 16 true _ (by decide) (by decide)
example : parseIntCode 16 true (intToStr 32768) = none := parseInt_rejects_out_of_range 16 true _ (by decide)
example : parseIntCode 16 false (intToStr 65535) = some 65535 := parseInt_serializeInt 16 false _ (by decide) (by decide)
example : parseIntCode 16 false (intToStr 65536) = none := parseInt_rejects_out_of_range 16 false _ (by decide)
example : parseIntCode 32 true (intToStr (-2147483648)) = some (-2147483648) := parseInt_serializeInt 32 true _ (by decide) (by decide)
example : parseIntCode 32 true (intToStr 2147483647) = some 2147483647 := parseInt_serializeInt 32 true _ (by decide) (by decide)
example : parseIntCode 32 true (intToStr 2147483648) = none := parseInt_rejects_out_of_range 32 true _ (by decide)
example : parseIntCode 32 false (intToStr 4294967295) = some 4294967295 := parseInt_serializeInt 32 false _ (by decide) (by decide)
example : parseIntCode 32 false (intToStr 4294967296) = none := parseInt_rejects_out_of_range 32 false _ (by decide)
example : parseIntCode 64 true (intToStr (-9223372036854775808)) = some (-9223372036854775808) :=
  parseInt_serializeInt 64 true _ (by decide) (by decide)
example : parseIntCode 64 true (intToStr 9223372036854775807) = some 9223372036854775807 :=
  parseInt_serializeInt 64 true _ (by decide) (by decide)
example : parseIntCode 64 true (intToStr 9223372036854775808) = none := parseInt_rejects_out_of_range 64 true _ (by decide)
example : parseIntCode 64 true (intToStr (-9223372036854775809)) = none := parseInt_rejects_out_of_range 64 true _ (by decide)
example : parseIntCode 64 false (intToStr 18446744073709551615) = some 18446744073709551615 :=
  parseInt_serializeInt 64 false _ (by decide) (by decide)
example : parseIntCode 64 false (intToStr 18446744073709551616) = none := parseInt_rejects_out_of_range 64 false _ (by decide)
/-- the printed form itself, at a bound -/
example : intToStr (-128) = ['-', '1', '2', '8'] := by
  have h : natToStr 128 = ['1', '2', '8'] := by
    rw [natToStr, if_neg (by decide), natToStr, if_neg (by decide), natToStr, if_pos (by decide)]; decide
  exact congrArg (List.cons '-') h

/-! ## Booleans -/

/-- `parseBoolean(serializeBoolean(b)) == b` for both values. -/
theorem parseBool_serializeBool (b : Bool) : parseBoolCode (boolToStr b) = some b := by
  cases b <;> decide

/-! ## Base64 -/

/-- `parseBase64(serializeBase64(bytes)) == bytes` for EVERY byte string (any length, so all three
residues of the length mod 3, i.e. with two, one and no padding characters), for the lenient
decoder the library uses (Qt's default options). -/
theorem b64_decode_encode (bs : Bytes) : b64decodeCode (b64encode bs) = some bs := by
  unfold b64decodeCode
  rw [b64go_encode]

/-- … and the library's encoding is also accepted, with the same result, by a strict RFC 4648 decoder. -/
theorem b64_strict_decode_encode (bs : Bytes) : b64decodeSpec (b64encode bs) = some bs := b64spec_encode bs

/-- The parse side over the whole strict lexical range: every text a strict RFC 4648 decoder
accepts is decoded by the library's lenient decoder to the same bytes. -/
theorem b64_accepts_strict_lexical_range (s : Str) (bs : Bytes) (h : b64decodeSpec s = some bs) :
    b64decodeCode s = some bs := by
  unfold b64decodeCode
  rw [b64go_of_spec h]

/-- Today's `parseBase64` never reports an error: whatever the text, a value comes back
(measured: Qt's default is `IgnoreBase64DecodingErrors`; `parseBase64`'s `nullopt` branch is dead). -/
theorem b64_code_never_rejects (s : Str) : b64decodeCode s ≠ none := by
  simp [b64decodeCode]

example : b64encode [0x41] = ['Q', 'Q', '=', '='] := by decide
example : b64encode [0x41, 0x42] = ['Q', 'U', 'I', '='] := by decide
example : b64encode [0x41, 0x42, 0x43] = ['Q', 'U', 'J', 'D'] := by decide
/-- lenient vs strict on a text with a foreign character -/
example : b64decodeCode ['Q', 'U', '*', 'J', 'D'] = some [0x41, 0x42, 0x43] ∧ b64decodeSpec ['Q', 'U', '*', 'J', 'D'] = none := by decide

/-! ## XEP-0082 date-times -/

/-- `datetimeFromString(datetimeToString(d)) == d` for EVERY UTC date-time of the XEP-0082 lexical
range: any year 1..9999, any valid calendar day (leap years included), any time of day, with
milliseconds (printed as `.zzz`) and without (msec = 0, no fraction printed) — in a process running
in ANY time zone (`loc` = its offset from UTC): the printed form carries `Z`, so the reader's zone is
never consulted. -/
theorem dt_roundtrip_at (loc : Int) (d : Dt) (hv : ValidDt d) : dtParseCodeAt loc (dtToStr d) = some d := by
  obtain ⟨hy1, hy2, hm1, hm2, hd1, hd2, hh, hmi, hs, hms⟩ := hv
  have hyr : ((d.year.toNat : Nat) : Int) = d.year := Int.toNat_of_nonneg (by omega)
  have hvd : validDate ((d.year.toNat : Nat) : Int) d.month d.day := by
    rw [hyr]; exact ⟨by omega, hm1, hm2, hd1, hd2⟩
  have hciv : CivilDt d ∧ 1 ≤ d.year ∧ d.year ≤ 9999 :=
    ⟨⟨⟨by omega, hm1, hm2, hd1, hd2⟩, hh, hmi, hs, hms⟩, hy1, hy2⟩
  have key := fun body hb => dtParseCode_own loc (Y := d.year.toNat) (M := d.month) (D := d.day) (h := d.hour)
    (mi := d.minute) (sc := d.second) (ms := d.msec) (body := body) (by omega) (by omega) hvd hh hmi hs hms hb
  unfold dtToStr
  rw [if_pos hciv]
  by_cases h0 : d.msec = 0
  · have e := key _ (Or.inl ⟨rfl, h0⟩)
    simp only [h0, ne_eq, not_true_eq_false, if_false, List.append_nil, List.append_assoc, List.cons_append] at e ⊢
    rw [e, hyr]
    cases d; simp_all
  · have e := key _ (Or.inr ⟨rfl, hms⟩)
    simp only [ne_eq, h0, not_false_eq_true, if_true, List.append_assoc, List.cons_append] at e ⊢
    rw [e, hyr]

/-- the same for a process running in UTC (the form the schema tier uses) -/
theorem dt_roundtrip (d : Dt) (hv : ValidDt d) : dtParseCode (dtToStr d) = some d := dt_roundtrip_at 0 d hv

/-! ### values of any time spec (UTC, local time, fixed offset, time zone)

A `Stamp` is a QDateTime as the application built it: wall-clock fields plus what its time spec is
ahead of UTC.  The instant it denotes is `utcOf x`.  `stampToStr` is `datetimeToString`, whose two
branches both convert to UTC first (the correspondence compares it with the real function on values
of every spec, with and without milliseconds). -/

/-- THE PROPERTY OVER INSTANTS: for a date-time value of ANY time spec whose instant lies in the
XEP-0082 range, `datetimeFromString(datetimeToString(x))` is the SAME INSTANT as `x` (its UTC fields),
with and without milliseconds, whatever zone the reading process runs in. -/
theorem dt_roundtrip_any_spec (loc : Int) (x : Stamp) (hv : ValidDt (utcOf x)) :
    dtParseCodeAt loc (stampToStr x) = some (utcOf x) := dt_roundtrip_at loc (utcOf x) hv

/-- The XML depends on the instant only, not on the time spec the value happened to be built with. -/
theorem dt_print_depends_on_instant_only (x y : Stamp) (h : utcOf x = utcOf y) : stampToStr x = stampToStr y := by
  unfold stampToStr; rw [h]

/-- serialize → parse → serialize is the identity on the text, for every time spec. -/
theorem dt_reserialize_identity (loc : Int) (x : Stamp) (hv : ValidDt (utcOf x)) :
    (dtParseCodeAt loc (stampToStr x)).map (fun d => stampToStr ⟨d, 0⟩) = some (stampToStr x) := by
  rw [dt_roundtrip_any_spec loc x hv]
  have hc : CivilDt (utcOf x) := by
    obtain ⟨hy1, _, hm1, hm2, hd1, hd2, hh, hmi, hs, hms⟩ := hv
    exact ⟨⟨by omega, hm1, hm2, hd1, hd2⟩, hh, hmi, hs, hms⟩
  simp only [Option.map_some, stampToStr, utcOf_utc hc]

/-- Whatever is printed carries the UTC designator: the text is empty (instant outside the four-digit
range) or ends in `Z` — never a bare wall-clock time, never a numeric offset. -/
theorem dt_print_ends_in_Z (x : Stamp) : stampToStr x = [] ∨ (stampToStr x).getLast? = some 'Z' := by
  unfold stampToStr dtToStr
  split
  · right; exact List.getLast?_concat
  · left; rfl

/-- a UTC value is its own instant -/
theorem dt_utc_stamp_is_itself (w : Dt) (hc : CivilDt w) : utcOf ⟨w, 0⟩ = w := utcOf_utc hc

/-- non-vacuity / what the conversion does: 03:04:05.123 at +05:30, at −09:30 across midnight and a
year boundary, and a value with an odd-second offset -/
example : stampToStr ⟨⟨2020, 1, 2, 3, 4, 5, 123⟩, 19800⟩ = "2020-01-01T21:34:05.123Z".toList := by decide
example : stampToStr ⟨⟨2020, 12, 31, 20, 0, 0, 7⟩, -34200⟩ = "2021-01-01T05:30:00.007Z".toList := by decide
example : stampToStr ⟨⟨2024, 3, 1, 0, 0, 0, 0⟩, 3601⟩ = "2024-02-29T22:59:59Z".toList := by decide
example : ValidDt (utcOf ⟨⟨2020, 1, 2, 3, 4, 5, 123⟩, 19800⟩) := by decide
example : utcOf ⟨⟨2020, 1, 2, 3, 4, 5, 123⟩, 19800⟩ = utcOf ⟨⟨2020, 1, 1, 16, 34, 5, 123⟩, -18000⟩ := by decide

/-- … and the printed form is also inside the strict XEP-0082 profile (`CCYY-MM-DDThh:mm:ss[.sss]Z`)
and means the same value there. -/
theorem dt_print_in_strict_profile (d : Dt) (hv : ValidDt d) : dtParseSpec (dtToStr d) = some d := by
  obtain ⟨hy1, hy2, hm1, hm2, hd1, hd2, hh, hmi, hs, hms⟩ := hv
  have hv' : ValidDt d := ⟨hy1, hy2, hm1, hm2, hd1, hd2, hh, hmi, hs, hms⟩
  have hyr : ((d.year.toNat : Nat) : Int) = d.year := Int.toNat_of_nonneg (by omega)
  have hY : d.year.toNat ≤ 9999 := by omega
  have hciv : CivilDt d ∧ 1 ≤ d.year ∧ d.year ≤ 9999 :=
    ⟨⟨⟨by omega, hm1, hm2, hd1, hd2⟩, hh, hmi, hs, hms⟩, hy1, hy2⟩
  have hD : d.day ≤ 31 := by
    have := hd2
    unfold daysIn at this
    split at this
    · split at this <;> omega
    · split at this <;> omega
  have dg : ∀ n, n < 10 → isDigit (digitChar n) = true ∧ digitVal (digitChar n) = n :=
    fun n h => ⟨isDigit_digitChar h, digitVal_digitChar h⟩
  have q1 := dg (d.year.toNat / 1000) (by omega)
  have q2 := dg (d.year.toNat / 100 % 10) (by omega)
  have q3 := dg (d.year.toNat / 10 % 10) (by omega)
  have q4 := dg (d.year.toNat % 10) (by omega)
  have q5 := dg (d.month / 10) (by omega)
  have q6 := dg (d.month % 10) (by omega)
  have q7 := dg (d.day / 10) (by omega)
  have q8 := dg (d.day % 10) (by omega)
  have q9 := dg (d.hour / 10) (by omega)
  have q10 := dg (d.hour % 10) (by omega)
  have q11 := dg (d.minute / 10) (by omega)
  have q12 := dg (d.minute % 10) (by omega)
  have q13 := dg (d.second / 10) (by omega)
  have q14 := dg (d.second % 10) (by omega)
  have q15 := dg (d.msec / 100) (by omega)
  have q16 := dg (d.msec / 10 % 10) (by omega)
  have q17 := dg (d.msec % 10) (by omega)
  have e1 : d.year.toNat / 1000 * 1000 + d.year.toNat / 100 % 10 * 100 + d.year.toNat / 10 % 10 * 10 +
      d.year.toNat % 10 = d.year.toNat := by omega
  have e2 : d.month / 10 * 10 + d.month % 10 = d.month := by omega
  have e3 : d.day / 10 * 10 + d.day % 10 = d.day := by omega
  have e4 : d.hour / 10 * 10 + d.hour % 10 = d.hour := by omega
  have e5 : d.minute / 10 * 10 + d.minute % 10 = d.minute := by omega
  have e6 : d.second / 10 * 10 + d.second % 10 = d.second := by omega
  have e7 : d.msec / 100 * 100 + d.msec / 10 % 10 * 10 + d.msec % 10 = d.msec := by omega
  unfold dtToStr
  rw [if_pos hciv]
  by_cases h0 : d.msec = 0
  · simp only [h0, ne_eq, not_true_eq_false, if_false, List.append_nil, pad4, pad2, List.cons_append,
      List.nil_append, dtParseSpec, List.all_cons, List.all_nil, q1, q2, q3, q4, q5, q6, q7, q8, q9, q10, q11, q12,
      q13, q14, Bool.and_self, if_true, e1, e2, e3, e4, e5, e6, hyr]
    have hd' : (⟨d.year, d.month, d.day, d.hour, d.minute, d.second, 0⟩ : Dt) = d := by cases d; simp_all
    rw [hd', if_pos hv']
  · simp only [ne_eq, h0, not_false_eq_true, if_true, pad4, pad2, pad3, List.cons_append,
      List.nil_append, dtParseSpec, List.all_cons, List.all_nil, q1, q2, q3, q4, q5, q6, q7, q8, q9, q10, q11, q12,
      q13, q14, q15, q16, q17, Bool.and_self, if_true, e1, e2, e3, e4, e5, e6, e7, hyr]
    rw [if_pos hv']

/-- The parse side over the whole strict XEP-0082 UTC profile: EVERY string of the form
`CCYY-MM-DDThh:mm:ss[.sss]Z` that denotes a valid date-time (so also `.000`, which the library never
prints) is read by today's `datetimeFromString` as exactly that date-time. -/
theorem dt_accepts_strict_profile (loc : Int) (s : Str) (d : Dt) (h : dtParseSpec s = some d) :
    dtParseCodeAt loc s = some d :=
  dtParseCode_of_spec loc h

example : dtParseSpec "2024-02-29T23:59:59.000Z".toList = some ⟨2024, 2, 29, 23, 59, 59, 0⟩ ∧
    dtParseSpec "2023-02-29T23:59:59Z".toList = none := by decide

/-- The boundary of the lexical range: a date-time whose year has more than four digits (or is
not positive) is printed by `datetimeToString` as the EMPTY string, which does not parse — such
values are outside what XEP-0082 (`CCYY`) can express, so they are not covered by `dt_roundtrip`. -/
theorem dt_outside_lexical_range_prints_empty (d : Dt) (hy : d.year < 1 ∨ 9999 < d.year) :
    dtToStr d = [] ∧ ∀ loc, dtParseCodeAt loc (dtToStr d) = none := by
  have h : dtToStr d = [] := by
    unfold dtToStr
    rw [if_neg]
    intro hc; omega
  rw [h]
  exact ⟨rfl, fun loc => dtParseCodeAt_nil loc⟩

/-- non-vacuity: values with and without milliseconds, a leap day, the ends of the range -/
example : ValidDt ⟨2024, 2, 29, 23, 59, 59, 999⟩ ∧ ValidDt ⟨1, 1, 1, 0, 0, 0, 0⟩ ∧ ValidDt ⟨9999, 12, 31, 23, 59, 59, 1⟩ ∧
    ¬ ValidDt ⟨2023, 2, 29, 0, 0, 0, 0⟩ ∧ ¬ ValidDt ⟨1900, 2, 29, 0, 0, 0, 0⟩ ∧ ValidDt ⟨2000, 2, 29, 0, 0, 0, 0⟩ := by decide
example : dtToStr ⟨2024, 2, 29, 23, 59, 59, 0⟩ = "2024-02-29T23:59:59Z".toList := by decide
example : dtToStr ⟨2024, 2, 29, 23, 59, 59, 7⟩ = "2024-02-29T23:59:59.007Z".toList := by decide

/-! ## Time zone offsets -/

/-- `timezoneOffsetFromString(timezoneOffsetToString(secs)) == secs` for every offset the
`[+-]hh:mm` form can express: whole minutes, less than a day either way. -/
theorem tzo_roundtrip (secs : Int) (h60 : secs % 60 = 0) (hlo : -86400 < secs) (hhi : secs < 86400) :
    tzoParseCode (tzoToStr secs) = secs := by
  unfold tzoToStr
  by_cases h0 : secs = 0
  · subst h0; decide
  · rw [if_neg h0]
    have ha : secs.natAbs % 86400 = secs.natAbs := Nat.mod_eq_of_lt (by omega)
    have hform := tzoAt_form (if secs < 0 then '-' else '+') (by split <;> simp)
      (H := secs.natAbs % 86400 / 3600) (M := secs.natAbs % 86400 / 60 % 60) (by omega) (by omega)
    simp only [pad2, List.cons_append, List.nil_append] at hform ⊢
    simp only [tzoParseCode, hform]
    by_cases hn : secs < 0
    · simp only [hn, if_true]; omega
    · simp only [hn, if_false]
      have : ('+' = '-') = False := by decide
      simp only [this, if_false]; omega

/-! ## Enumerations -/

/-- For a table of pairwise distinct names, `enumFromString(values, values[i]) == i` for every
enumerator `i` (the `enumFromString(...).value_or(default)` pattern never falls back to the default
for a value the library itself wrote). -/
theorem enum_roundtrip (names : List Str) (hn : names.Nodup) (i : Nat) (hi : i < names.length) :
    (enumToString names i).bind (enumFromString names) = some i := by
  unfold enumToString
  rw [List.getElem?_eq_getElem hi]
  exact enumFromString_getElem hn hi

/-- The distinctness hypothesis is necessary: with a repeated name the later enumerator is read
back as the earlier one. -/
theorem enum_duplicate_names_collide :
    (enumToString [['a'], ['b'], ['a']] 2).bind (enumFromString [['a'], ['b'], ['a']]) = some 0 := by decide

example : [['c', 'h', 'a', 't'], ['n', 'o', 'r', 'm', 'a', 'l']].Nodup := by decide

end Qx.Xml.Codec.Scalar
