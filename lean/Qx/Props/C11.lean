import Qx.Proofs.C11
/-!
# C11 — carbon copies are trusted only when they come from the user's own account

Property theorems only (model: `Qx/Model/C11Carbons.lean`, helpers: `Qx/Proofs/C11.lean`).
`own` is the value of `client()->configuration().jidBare()` at the time the stanza is handled, `sender` the
value of the outer stanza's `from` attribute as `QDomElement::attribute` reads it (empty string when the
attribute is absent).  Every statement quantifies over ALL strings and ALL child lists of any length; both
carbon manager generations are covered (`…_v2`: QXmppCarbonManagerV2, `…_v1`: QXmppCarbonManager).

Subtlety stated precisely (not a defect): the comparison is plain string equality with the CONFIGURED bare
JID.  If that is the empty string (a client object on which no JID was ever set) a stanza without `from`
compares equal and is unwrapped — `empty_sender_unwrapped_only_if_unconfigured` shows this is the only way an
empty/absent `from` is ever accepted.  It is not reachable by a contact: stanzas are only handled on an
established session, where the configuration holds the JID bound by the server (QXmppOutgoingClient.cpp:513-515),
and a stanza relayed for a contact always carries the contact's `from`; a stanza without `from` is by RFC 6120
§8.1.2.1 from the own account anyway.
-/
namespace Qx.C11

/-- **Unwrapped iff own sender (V2).** QXmppCarbonManagerV2 unwraps and injects message `m` exactly when
the outer `from` is string-equal to the configured bare JID and the (sender-independent) wrapper lookup
reaches `m`. -/
theorem carbon_unwrapped_iff_v2 (own sender : String) (kids : List Child) (m : Msg) :
    acceptCarbonV2 own sender kids = some m ↔ sender = own ∧ extractV2 kids = some m := by
  unfold acceptCarbonV2 extractV2
  rw [msg?_eq_some]
  constructor
  · rintro ⟨sent, hv⟩
    obtain ⟨hs, c, n, hc, hn, _, hm⟩ := (verdictV2_accepted_iff _ _ _ _ _).mp hv
    exact ⟨hs, by simp [hc, hn, hm]⟩
  · rintro ⟨hs, he⟩
    cases hc : wrapperV2 kids with
    | none => simp [hc] at he
    | some c =>
      cases hn : innerOf c with
      | none => simp [hc, hn] at he
      | some n =>
        simp only [hc, hn, Option.map_some, Option.some.injEq] at he
        exact ⟨c.tag == "sent", (verdictV2_accepted_iff _ _ _ _ _).mpr ⟨hs, c, n, hc, hn, rfl, he.symm⟩⟩

/-- **Unwrapped iff own sender (V1).** Same for the older QXmppCarbonManager. -/
theorem carbon_unwrapped_iff_v1 (own sender : String) (kids : List Child) (m : Msg) :
    acceptCarbonV1 own sender kids = some m ↔ sender = own ∧ extractV1 kids = some m := by
  unfold acceptCarbonV1 extractV1
  rw [msg?_eq_some]
  constructor
  · rintro ⟨sent, hv⟩
    obtain ⟨hs, sc, n, hc, hn, _, hm⟩ := (verdictV1_accepted_iff _ _ _ _ _).mp hv
    exact ⟨hs, by simp [hc, hn, hm]⟩
  · rintro ⟨hs, he⟩
    cases hc : wrapperV1 kids with
    | none => simp [hc] at he
    | some sc =>
      cases hn : innerOf sc.2 with
      | none => simp [hc, hn] at he
      | some n =>
        simp only [hc, hn, Option.map_some, Option.some.injEq] at he
        exact ⟨sc.1, (verdictV1_accepted_iff _ _ _ _ _).mpr ⟨hs, sc, n, hc, hn, rfl, he.symm⟩⟩

/-- **A foreign sender is never unwrapped.** The comparison the code makes is exact, case-SENSITIVE string
equality (`QString::operator!=`, no JID normalisation, no case folding — although XMPP compares node and domain
case-insensitively, the code errs on the strict side: `Romeo@montague.example` is NOT accepted for
`romeo@montague.example`).  Whatever the children look like, any outer `from` that is not
string-equal to the own bare JID — own full JIDs, case variants, look-alikes, prefix/suffix extensions, the
empty string, other contacts — makes both managers decline. -/
theorem foreign_sender_never_unwrapped (own sender : String) (kids : List Child) (h : sender ≠ own) :
    acceptCarbonV2 own sender kids = none ∧ acceptCarbonV1 own sender kids = none := by
  constructor
  · cases hv : acceptCarbonV2 own sender kids with
    | none => rfl
    | some m => exact absurd ((carbon_unwrapped_iff_v2 _ _ _ _).mp hv).1 h
  · cases hv : acceptCarbonV1 own sender kids with
    | none => rfl
    | some m => exact absurd ((carbon_unwrapped_iff_v1 _ _ _ _).mp hv).1 h

/-- …in particular every own *full* JID and every other non-empty suffix extension of the own bare JID
(`own/resource`, `own.evil.example`, `own ` …). -/
theorem own_with_suffix_never_unwrapped (own x : String) (kids : List Child) (hx : x ≠ "") :
    acceptCarbonV2 own (own ++ x) kids = none ∧ acceptCarbonV1 own (own ++ x) kids = none :=
  foreign_sender_never_unwrapped own (own ++ x) kids (append_ne_self_right own x hx)

/-- …and every non-empty prefix extension (`not-own`, ` own` …). -/
theorem own_with_prefix_never_unwrapped (own x : String) (kids : List Child) (hx : x ≠ "") :
    acceptCarbonV2 own (x ++ own) kids = none ∧ acceptCarbonV1 own (x ++ own) kids = none :=
  foreign_sender_never_unwrapped own (x ++ own) kids (append_ne_self_left own x hx)

/-- **An absent or empty `from` is only ever accepted by a client whose own JID is unset** (see the header
for why that corner is not reachable by a contact). -/
theorem empty_sender_unwrapped_only_if_unconfigured (own : String) (kids : List Child) (m : Msg)
    (h : acceptCarbonV2 own (attrVal none) kids = some m ∨ acceptCarbonV1 own (attrVal none) kids = some m ∨
         acceptCarbonV2 own "" kids = some m ∨ acceptCarbonV1 own "" kids = some m) : own = "" := by
  rcases h with h | h | h | h
  · exact ((carbon_unwrapped_iff_v2 _ _ _ _).mp h).1.symm
  · exact ((carbon_unwrapped_iff_v1 _ _ _ _).mp h).1.symm
  · exact ((carbon_unwrapped_iff_v2 _ _ _ _).mp h).1.symm
  · exact ((carbon_unwrapped_iff_v1 _ _ _ _).mp h).1.symm

/-- **What is presented is exactly an inner message, flagged as forwarded (V2).** The unwrapped message is
the `<message xmlns='jabber:client'/>` found inside `<forwarded xmlns='urn:xmpp:forward:0'/>` inside a
`<sent/>` or `<received/>` child in the carbons namespace of this very stanza: id, from, to, body and type are
the inner element's — nothing of the outer stanza (not its from, id, to, type or body) leaks in — and
`isCarbonForwarded` is set.  (Equality on the remaining QXmppMessage fields is judged by the harness oracle, which
compares the serialised delivered message with the inner element.) -/
theorem carbon_presented_is_inner_v2 (own sender : String) (kids : List Child) (m : Msg)
    (h : acceptCarbonV2 own sender kids = some m) :
    ∃ c ∈ kids, ∃ f ∈ c.kids, ∃ n ∈ f.kids,
      c.ns = nsCarbons ∧ (c.tag = "sent" ∨ c.tag = "received") ∧
      f.ns = nsForwarding ∧ f.tag = "forwarded" ∧ n.ns = nsClient ∧ n.tag = "message" ∧
      m = { id := attrVal n.id, sender := attrVal n.sender, to := attrVal n.to, body := bodyVal n.body,
            type := msgType n.typ, carbonForwarded := true } := by
  obtain ⟨sent, hv⟩ := (msg?_eq_some _ _).mp h
  obtain ⟨_, c, n, hc, hn, _, hm⟩ := (verdictV2_accepted_iff _ _ _ _ _).mp hv
  obtain ⟨hck, hcns, hctag⟩ := wrapperV2_spec kids c hc
  obtain ⟨f, hfk, hnk, hfns, hftag, hnns, hntag⟩ := innerOf_spec c n hn
  exact ⟨c, hck, f, hfk, n, hnk, hcns, hctag, hfns, hftag, hnns, hntag, hm⟩

/-- **What is presented is exactly an inner message, flagged as forwarded (V1).** -/
theorem carbon_presented_is_inner_v1 (own sender : String) (kids : List Child) (m : Msg)
    (h : acceptCarbonV1 own sender kids = some m) :
    ∃ c ∈ kids, ∃ f ∈ c.kids, ∃ n ∈ f.kids,
      c.ns = nsCarbons ∧ (c.tag = "sent" ∨ c.tag = "received") ∧
      f.ns = nsForwarding ∧ f.tag = "forwarded" ∧ n.ns = nsClient ∧ n.tag = "message" ∧
      m = { id := attrVal n.id, sender := attrVal n.sender, to := attrVal n.to, body := bodyVal n.body,
            type := msgType n.typ, carbonForwarded := true } := by
  obtain ⟨sent, hv⟩ := (msg?_eq_some _ _).mp h
  obtain ⟨_, sc, n, hc, hn, _, hm⟩ := (verdictV1_accepted_iff _ _ _ _ _).mp hv
  obtain ⟨hck, hcns, hctag⟩ := wrapperV1_spec kids sc hc
  obtain ⟨f, hfk, hnk, hfns, hftag, hnns, hntag⟩ := innerOf_spec sc.2 n hn
  refine ⟨sc.2, hck, f, hfk, n, hnk, hcns, ?_, hfns, hftag, hnns, hntag, hm⟩
  cases hb : sc.1 <;> simp [hb] at hctag <;> simp [hctag]

/-- **A rejected wrapper is delivered — not dropped — as an ordinary message.** When the manager does not unwrap
(for whatever reason: foreign sender, no wrapper, nothing inside), the stanza is not consumed and reaches the
application exactly once per channel — message handlers and `QXmppClient::messageReceived` — as the OUTER stanza
parsed as it stands: sender, id, to, type and body are the outer ones (the body is the outer's own last `<body/>`
child, never text from inside the wrapper), and the forwarded flag is not set. -/
theorem rejected_is_ordinary (g : Gen) (own : String) (o : Outer) (ht : o.tag = "message")
    (h : (verdict g own o).msg? = none) :
    (handle g own o).consumed = false ∧
    (handle g own o).events = [.handler (parseOuter o), .clientReceived (parseOuter o)] ∧
    (parseOuter o).sender = attrVal o.sender ∧ (parseOuter o).id = attrVal o.id ∧
    (parseOuter o).to = attrVal o.to ∧ (parseOuter o).type = msgType o.typ ∧
    (parseOuter o).body = lastBody o.kids ∧ (parseOuter o).carbonForwarded = false :=
  ⟨(handle_of_not_accepted g own o ht h).1, (handle_of_not_accepted g own o ht h).2, rfl, rfl, rfl, rfl, rfl, rfl⟩

/-- **A foreign sender's wrapper is always handled as an ordinary message of that sender**, for both
generations and every child list. -/
theorem foreign_sender_is_ordinary (g : Gen) (own : String) (o : Outer) (ht : o.tag = "message")
    (hs : attrVal o.sender ≠ own) :
    (handle g own o).consumed = false ∧
    (handle g own o).events = [.handler (parseOuter o), .clientReceived (parseOuter o)] := by
  have hv : (verdict g own o).msg? = none := by
    cases g
    · exact (foreign_sender_never_unwrapped own _ o.kids hs).2
    · exact (foreign_sender_never_unwrapped own _ o.kids hs).1
  exact ⟨(rejected_is_ordinary g own o ht hv).1, (rejected_is_ordinary g own o ht hv).2.1⟩

/-- **Nobody can make the application display someone else's words.** Every message that surfaces for one
incoming stanza, on any channel, is either the outer stanza itself (sender = outer `from`, not flagged) or —
only if the outer `from` equals the own bare JID — the unwrapped inner message, flagged as forwarded. -/
theorem presented_is_outer_or_own_carbon (g : Gen) (own : String) (o : Outer) (ev : Ev)
    (hev : ev ∈ (handle g own o).events) :
    (ev.msg = parseOuter o ∧ ev.msg.sender = attrVal o.sender ∧ ev.msg.carbonForwarded = false) ∨
    (attrVal o.sender = own ∧ ev.msg.carbonForwarded = true ∧ (verdict g own o).msg? = some ev.msg) := by
  rcases handle_events g own o ev hev with ⟨hm, _⟩ | ⟨sent, hv⟩
  · left; rw [hm]; exact ⟨rfl, rfl, rfl⟩
  · right
    exact ⟨verdict_accepted_sender g own o sent _ hv, verdict_accepted_flag g own o sent _ hv,
           (msg?_eq_some _ _).mpr ⟨sent, hv⟩⟩

/-- **The forwarded flag tells the truth**: a presented message carries it iff it is the unwrapped one. -/
theorem flag_iff_unwrapped (g : Gen) (own : String) (o : Outer) (ev : Ev)
    (hev : ev ∈ (handle g own o).events) :
    ev.msg.carbonForwarded = true ↔ (verdict g own o).msg? = some ev.msg := by
  rcases handle_events g own o ev hev with ⟨hm, hn⟩ | ⟨sent, hv⟩
  · rw [hn, hm]; simp [parseOuter]
  · constructor
    · intro _; exact (msg?_eq_some _ _).mpr ⟨sent, hv⟩
    · intro _; exact verdict_accepted_flag g own o sent _ hv

/-- **An accepted carbon replaces the wrapper**: when the stanza is consumed, the outer stanza itself is
not shown in addition — everything presented carries the flag. -/
theorem consumed_presents_only_the_inner (g : Gen) (own : String) (o : Outer)
    (hc : (handle g own o).consumed = true) :
    attrVal o.sender = own ∧ ∀ ev ∈ (handle g own o).events, ev.msg.carbonForwarded = true := by
  by_cases ht : o.tag = "message"
  · cases hm : (verdict g own o).msg? with
    | none => rw [(handle_of_not_accepted g own o ht hm).1] at hc; cases hc
    | some m =>
      obtain ⟨sent, hv⟩ := (msg?_eq_some _ _).mp hm
      refine ⟨verdict_accepted_sender g own o sent m hv, ?_⟩
      intro ev hev
      rcases handle_events g own o ev hev with ⟨_, hn⟩ | ⟨sent', hv'⟩
      · rw [hm] at hn; cases hn
      · exact verdict_accepted_flag g own o sent' _ hv'
  · unfold handle at hc; simp [ht] at hc

/-- **Over whole histories.** For every sequence of client (re)configurations and incoming stanzas of any
length, each flagged message that ever surfaces stems from a stanza whose outer `from` equalled the bare JID
configured at that moment. -/
theorem history_flagged_only_from_own (s : St) (ops : List Op) (ev : Ev)
    (hev : ev ∈ presented (run s ops).2) (hf : ev.msg.carbonForwarded = true) :
    ∃ pre o post, ops = pre ++ .stanza o :: post ∧
      attrVal o.sender = (run s pre).1.own ∧
      ev ∈ (handle (run s pre).1.gen (run s pre).1.own o).events := by
  induction ops generalizing s with
  | nil => simp [run, presented] at hev
  | cons op ops ih =>
    simp only [run, presented_append, List.mem_append] at hev
    rcases hev with hev | hev
    · cases op with
      | configure g own => simp [step, presented] at hev
      | bound jid => simp [step, presented] at hev
      | stanza o =>
        simp only [step, presented, List.flatMap_cons, List.flatMap_nil, List.append_nil] at hev
        refine ⟨[], o, ops, rfl, ?_, by simpa [run] using hev⟩
        rcases presented_is_outer_or_own_carbon s.gen s.own o ev hev with ⟨_, _, h0⟩ | ⟨h1, _, _⟩
        · rw [h0] at hf; cases hf
        · simpa [run] using h1
    · obtain ⟨pre, o, post, hops, hs, hin⟩ := ih (step s op).1 hev
      refine ⟨op :: pre, o, post, by simp [hops], ?_, ?_⟩
      · simpa [run] using hs
      · simpa [run] using hin

/-- **…and every unflagged one is the stanza it arrived in**, sender included. -/
theorem history_unflagged_is_outer (s : St) (ops : List Op) (ev : Ev)
    (hev : ev ∈ presented (run s ops).2) (hf : ev.msg.carbonForwarded = false) :
    ∃ o, Op.stanza o ∈ ops ∧ ev.msg = parseOuter o ∧ ev.msg.sender = attrVal o.sender := by
  induction ops generalizing s with
  | nil => simp [run, presented] at hev
  | cons op ops ih =>
    simp only [run, presented_append, List.mem_append] at hev
    rcases hev with hev | hev
    · cases op with
      | configure g own => simp [step, presented] at hev
      | bound jid => simp [step, presented] at hev
      | stanza o =>
        simp only [step, presented, List.flatMap_cons, List.flatMap_nil, List.append_nil] at hev
        rcases presented_is_outer_or_own_carbon s.gen s.own o ev hev with ⟨h0, h1, _⟩ | ⟨_, h1, _⟩
        · exact ⟨o, by simp, h0, h1⟩
        · rw [h1] at hf; cases hf
    · obtain ⟨o, ho, h0, h1⟩ := ih (step s op).1 hev
      exact ⟨o, by simp [ho], h0, h1⟩

/-- **After a login the own account is the bare part of the JID the server bound** — and nothing else: whatever was
configured before (an alias, a bare domain for anonymous login), whatever the resource looks like (it may contain `@`
and further `/`), a wrapper is unwrapped afterwards only from `bareOf jid`. -/
theorem bound_only_bare_of_bound_jid (s : St) (jid : String) (o : Outer) (ev : Ev)
    (hev : ev ∈ presented (run s [.bound jid, .stanza o]).2) (hf : ev.msg.carbonForwarded = true) :
    attrVal o.sender = bareOf jid := by
  simp only [run, step, presented, List.nil_append, List.append_nil, List.flatMap_cons, List.flatMap_nil] at hev
  rcases presented_is_outer_or_own_carbon s.gen (bareOf jid) o ev hev with ⟨_, _, h0⟩ | ⟨h1, _, _⟩
  · rw [h0] at hf; cases hf
  · exact h1

/-- **The bare part is cut at the FIRST slash only**: for a bare JID `b` without `/` and ANY resource `r` (with `@`,
with more slashes), `bareOf (b/r) = b`; a JID without slash is its own bare part. -/
theorem bareOf_full (b r : String) (hb : '/' ∉ b.toList) : bareOf (b ++ "/" ++ r) = b := by
  unfold bareOf
  have h1 : (b ++ "/" ++ r).toList = b.toList ++ '/' :: r.toList := by
    simp [String.toList_append, List.append_assoc]
  rw [h1, takeWhile_noslash_append b.toList hb r.toList]
  exact String.ofList_toList

/-- …and a JID without any slash is its own bare part. -/
theorem bareOf_bare (b : String) (hb : '/' ∉ b.toList) : bareOf b = b := by
  unfold bareOf
  rw [takeWhile_noslash b.toList hb]
  exact String.ofList_toList

/-! ### Non-vacuity: the hypotheses above are met by concrete, non-trivial stanzas. -/

section examples

private def juliet : MsgNode :=
  { tag := "message", ns := nsClient, id := some "m1", sender := some "juliet@capulet.example/balcony",
    to := some "romeo@montague.example/garden", body := some "What man art thou?", typ := some "chat",
    nested := false, extras := 0 }

private def forged : MsgNode := { juliet with body := some "send money to mallory", nested := true }

private def carbon (t : String) (n : MsgNode) : Child :=
  { tag := t, ns := nsCarbons, text := "", kids := [{ tag := "forwarded", ns := nsForwarding, kids := [n] }] }

private def stanza (sender : Option String) (kids : List Child) : Outer :=
  { tag := "message", id := some "o1", sender := sender, to := some "romeo@montague.example/home",
    typ := some "headline", kids := kids }

/-- accepted: outer from = own bare JID (both generations; V1 tells sent from received) -/
example : acceptCarbonV2 "romeo@montague.example" "romeo@montague.example" [carbon "received" juliet]
    = some (forwardedMsg juliet) := by decide
example : (handle .v1 "romeo@montague.example" (stanza (some "romeo@montague.example") [carbon "sent" juliet])).events
    = [.v1Sent (forwardedMsg juliet)] := by decide
example : (handle .v2 "romeo@montague.example" (stanza (some "romeo@montague.example") [carbon "sent" juliet]))
    = { consumed := true, warned := false,
        events := [.handler (forwardedMsg juliet), .clientReceived (forwardedMsg juliet)] } := by decide

/-- rejected: the classic CVE-2017-5603 forgery, own full JID, case variant, absent from -/
example : handle .v2 "romeo@montague.example"
      (stanza (some "mallory@evil.example") [carbon "received" forged, ⟨"body", nsClient, "hi", []⟩])
    = { consumed := false, warned := true,
        events := [.handler ⟨"o1", "mallory@evil.example", "romeo@montague.example/home", "hi", "headline", false⟩,
                   .clientReceived ⟨"o1", "mallory@evil.example", "romeo@montague.example/home", "hi", "headline", false⟩] } := by
  decide
example : acceptCarbonV2 "romeo@montague.example" "romeo@montague.example/home" [carbon "sent" forged] = none := by decide
example : acceptCarbonV1 "romeo@montague.example" "Romeo@montague.example" [carbon "sent" forged] = none := by decide
example : acceptCarbonV1 "romeo@montague.example" (attrVal none) [carbon "received" forged] = none := by decide

/-- the unset-JID corner of `empty_sender_unwrapped_only_if_unconfigured` exists in the model -/
example : acceptCarbonV2 "" (attrVal none) [carbon "received" juliet] = some (forwardedMsg juliet) := by decide

/-- the generations differ where the wrapper is looked up, never in the sender check -/
example : acceptCarbonV2 "a@b" "a@b" [⟨"private", nsCarbons, "", []⟩, carbon "sent" juliet] = none := by decide
example : acceptCarbonV1 "a@b" "a@b" [⟨"private", nsCarbons, "", []⟩, carbon "sent" juliet]
    = some (forwardedMsg juliet) := by decide

/-- histories: reconfiguring the client changes which sender is accepted -/
example : presented (run init [.configure .v2 "a@b", .stanza (stanza (some "a@b") [carbon "sent" juliet]),
                              .configure .v2 "c@d", .stanza (stanza (some "a@b") [carbon "sent" juliet])]).2
    = [.handler (forwardedMsg juliet), .clientReceived (forwardedMsg juliet),
       .handler ⟨"o1", "a@b", "romeo@montague.example/home", "", "headline", false⟩,
       .clientReceived ⟨"o1", "a@b", "romeo@montague.example/home", "", "headline", false⟩] := by decide

/-- logins: alias / anonymous / resource with `@` and `/` -/
example : bareOf "romeo@montague.example/mobile@home.lan" = "romeo@montague.example" := by decide
example : bareOf "romeo@montague.example/a/b@c/d" = "romeo@montague.example" := by decide
example : presented (run init [.configure .v2 "r.montague@montague.example", .bound "romeo@montague.example/orchard",
      .stanza (stanza (some "r.montague@montague.example") [carbon "sent" juliet]),
      .stanza (stanza (some "romeo@montague.example") [carbon "sent" juliet])]).2
    = [.handler ⟨"o1", "r.montague@montague.example", "romeo@montague.example/home", "", "headline", false⟩,
       .clientReceived ⟨"o1", "r.montague@montague.example", "romeo@montague.example/home", "", "headline", false⟩,
       .handler (forwardedMsg juliet), .clientReceived (forwardedMsg juliet)] := by decide

end examples

end Qx.C11
