import Qx.Proofs.C17
import Qx.Generated.SceTable
/-!
# C17 — the public part of an encrypted message never contains its sensitive content

Property theorems only (model: `Qx/Model/C17Sce.lean`, helpers: `Qx/Proofs/C17.lean`, data:
`Qx/Generated/SceTable.lean`, regenerated from the C++ source on every check run).

The generic theorems hold for EVERY table satisfying the decidable predicates `WFwrite` / `WFshape` / `WFtable`
and for EVERY message; the `table_*` theorems then evaluate those predicates (by `decide`, in the kernel) on the
table extracted from today's source.  "Public part" = `QXmppMessage::toXml(writer, ScePublic)` (what
`QXmppClient::sendSensitive` puts on the wire), "sensitive part" = `serializeExtensions(writer, SceSensitive,
ns_client)` (what the OMEMO manager puts into the SCE envelope), "unsplit" = `toXml(writer, SceAll)`.
-/
namespace Qx.C17
open Qx.Generated.SceTable

/-! ## Generic theorems: any well-formed table, all messages -/

/-- **No payload in the public part.** Every element of the public part is a value of a field whose row is
classified routing / hint / id / fallback — never `payload` (body, subject, thread, attachments, reactions,
receipts, markers, … and every row the hand classification does not know). -/
theorem public_has_no_sensitive (T : Table) (h : WFwrite T) (m : Msg) :
    ∀ e ∈ publicPart T m, ∃ r ∈ T.rows, e ∈ m r.name ∧ r.cls ≠ .payload := by
  intro e he
  unfold publicPart writeMode at he
  obtain ⟨r, hr, her⟩ := List.mem_flatMap.mp he
  obtain ⟨hmem, hon, _⟩ := emits_sub r m .pub her
  refine ⟨r, hr, hmem, ?_⟩
  intro hc
  have hw := wfWrite_of_mem h hr
  unfold Row.wfWrite at hw
  simp only [Bool.and_eq_true, Bool.or_eq_true, bne_iff_ne, ne_eq, hc, not_true_eq_false, false_or,
    beq_iff_eq] at hw
  rw [hw.1.1.1] at hon
  cases hon

/-- …equivalently: a payload-class row writes nothing at all in public mode, whatever the message. -/
theorem payload_row_silent_in_public (T : Table) (h : WFwrite T) (m : Msg) (r : Row) (hr : r ∈ T.rows)
    (hc : r.cls = .payload) : r.emits m .pub = [] := by
  have hw := wfWrite_of_mem h hr
  unfold Row.wfWrite at hw
  simp only [Bool.and_eq_true, Bool.or_eq_true, bne_iff_ne, ne_eq, hc, not_true_eq_false, false_or,
    beq_iff_eq] at hw
  apply emits_eq_nil_of_off
  rw [hw.1.1.1]; rfl

/-- **The two parts together are the unsplit message.** As multisets: unsplit ++ (one extra copy of what is written
under the `both` / `pubOnly` guards) = public ++ sensitive … -/
theorem parts_partition (T : Table) (h : WFwrite T) (m : Msg) :
    (writeMode T m .all ++ fallbackCopies T m).Perm (publicPart T m ++ sensitivePart T m) := by
  unfold writeMode fallbackCopies publicPart sensitivePart writeMode writeExt
  apply perm_flatMap_split
  intro r hr
  exact row_partition r m (wfWrite_of_mem h hr)

/-- …where that extra copy consists of explicit-fallback fields only (the "aside" of the property text). -/
theorem fallbackCopies_are_fallback (T : Table) (h : WFwrite T) (m : Msg) :
    ∀ e ∈ fallbackCopies T m, ∃ r ∈ T.rows, e ∈ m r.name ∧ r.cls = .fallback := by
  intro e he
  unfold fallbackCopies at he
  obtain ⟨r, hr, her⟩ := List.mem_flatMap.mp he
  split at her
  · rename_i hc
    refine ⟨r, hr, her, ?_⟩
    have hw := wfWrite_of_mem h hr
    unfold Row.wfWrite at hw
    simp only [Bool.and_eq_true, Bool.or_eq_true, Bool.not_eq_true', beq_iff_eq] at hw hc
    have hwr : r.wrapper = false := by simpa using hc.1.1
    rcases hw.1.1.2 with (h1 | h1) | h1
    · rcases hc.1.2 with h2 | h2 <;> simp_all
    · exact h1
    · rw [hwr] at h1; cases h1
  · cases her

/-- **Each element in exactly one part.** An element that is not an explicit-fallback copy occurs in the public and
sensitive parts together exactly as often as in the unsplit message … -/
theorem each_in_exactly_one_part (T : Table) (h : WFwrite T) (m : Msg) (e : Elem)
    (he : e ∉ fallbackCopies T m) :
    (writeMode T m .all).count e = (publicPart T m).count e + (sensitivePart T m).count e := by
  have := (List.perm_iff_count.mp (parts_partition T h m)) e
  simp only [List.count_append, List.count_eq_zero_of_not_mem he] at this
  omega

/-- …and a row guarded `pub` or `sens` contributes to one part only. -/
theorem row_in_one_part (T : Table) (m : Msg) (r : Row) (_hr : r ∈ T.rows)
    (hg : r.writeGuard = .pub ∨ r.writeGuard = .sens) :
    r.emits m .pub = [] ∨ r.emits m .sens = [] := by
  rcases hg with hg | hg
  · right; apply emits_eq_nil_of_off; rw [hg]; rfl
  · left; apply emits_eq_nil_of_off; rw [hg]; rfl

/-- **Parsing the public part and then the sensitive part recovers every field** (receive path: `parse(outer,
ScePublic)`, then `parseExtensions(content, SceSensitive)` into the same object), explicit fallback markers —
which accompany both parts — aside; and nothing ends up as an unknown extension. -/
theorem split_parse_recovers (T : Table) (h : WFtable T) (m : Msg) (hv : Msg.Valid T m) :
    (∀ r ∈ T.rows, (r.writeGuard ≠ .both ∨ r.wrapper = true) → (recover T m).msg r.name = m r.name)
    ∧ (recover T m).unknown = []
    ∧ (parseMode T (publicPart T m) .pub true Msg.empty).unknown = [] := by
  obtain ⟨hw, hs, hp⟩ := h
  refine ⟨?_, ?_, ?_⟩
  · intro r hr hnb
    have hpr := List.all_eq_true.mp hp r hr
    rw [recover_field hs hv hr hpr]
    have hwr := wfWrite_of_mem hw hr
    have hl := (hv r hr).2
    unfold Row.wfWrite at hwr
    cases hwrap : r.wrapper <;> cases hg : r.writeGuard <;>
      simp_all [emits_eq_of_on, emits_eq_nil_of_off, Guard.on]
  · unfold recover
    rw [parseMode_unknown]
    unfold sensitivePart writeExt
    apply unknown_nil hs hp .sens (Or.inr rfl)
    intro r hr e he
    split at he
    · cases he
    · exact valid_emits hv .sens r hr e he
  · rw [parseMode_unknown]
    unfold publicPart writeMode
    exact unknown_nil hs hp .pub (Or.inl rfl) _ (valid_emits hv .pub)

/-- The "aside": a field written in both parts (explicit fallback markers) is read twice by the two-step parse.
(The OMEMO manager clears the public markers before parsing the sensitive part for this reason.) -/
theorem split_parse_fallback_twice (T : Table) (h : WFtable T) (m : Msg) (hv : Msg.Valid T m)
    (r : Row) (hr : r ∈ T.rows) (hb : r.writeGuard = .both) (hnw : r.wrapper = false) :
    (recover T m).msg r.name = m r.name ++ m r.name := by
  obtain ⟨_, hs, hp⟩ := h
  rw [recover_field hs hv hr (List.all_eq_true.mp hp r hr)]
  have hl := (hv r hr).2
  simp [hnw, emits_eq_of_on r m _ (by rw [hb]; rfl) hl]

/-- Row-wise version that does not need the whole table to be sound: if the table is globally distinguishable,
every row whose recogniser sits under the guard of its writer is recovered — whatever is wrong with other rows. -/
theorem split_parse_recovers_row (T : Table) (hw : WFwrite T) (hs : WFshape T) (m : Msg) (hv : Msg.Valid T m)
    (r : Row) (hr : r ∈ T.rows) (hp : r.wfParse = true) (hnb : r.writeGuard ≠ .both ∨ r.wrapper = true) :
    (recover T m).msg r.name = m r.name := by
  rw [recover_field hs hv hr hp]
  have hwr := wfWrite_of_mem hw hr
  have hl := (hv r hr).2
  unfold Row.wfWrite at hwr
  cases hwrap : r.wrapper <;> cases hg : r.writeGuard <;>
    simp_all [emits_eq_of_on, emits_eq_nil_of_off, Guard.on]

/-- If no wrapper row is active in sensitive mode, `toXml(SceSensitive)` writes exactly what
`serializeExtensions(SceSensitive)` writes, so the `toXml`/`parse` pair and the real split coincide. -/
theorem toXml_sensitive_is_content (T : Table) (h : offendingToXml T = []) (m : Msg) :
    writeMode T m .sens = writeExt T m .sens := by
  unfold writeMode writeExt
  apply flatMap_congr'
  intro r hr
  cases hw : r.wrapper
  · rfl
  · unfold offendingToXml at h
    simp only [List.map_eq_nil_iff, List.filter_eq_nil_iff, Bool.and_eq_true, not_and, Bool.not_eq_true] at h
    simp [emits_eq_nil_of_off r m .sens (h r hr hw)]

/-! ## Today's source (generated table) -/

/-- The code that performs the split uses exactly the modes the theorems speak about: `QXmppClient::sendSensitive`
puts `toXml(ScePublic)` on the wire (so the wire carries `publicPart`), the OMEMO envelope content is
`serializeExtensions(SceSensitive)` (`sensitivePart`), and the receive path is `parse(…, ScePublic)` followed by
`parseExtensions(content, SceSensitive)` (`recover`).  Sending with `SceAll` would make this `decide` fail. -/
theorem split_call_sites :
    sendPathMode = .pub ∧ envelopeContentMode = .sens ∧ receiveOuterMode = .pub ∧ receiveContentMode = .sens := by
  decide

/-- Write side of today's table is well-formed: hence `public_has_no_sensitive`, `parts_partition`,
`each_in_exactly_one_part` hold of the code as it is.  Moving any payload writer out of the sensitive block, or
adding an unclassified writer to the public block or the tail, makes this `decide` fail. -/
theorem table_wf_write : WFwrite table := by decide

/-- Recognisers pairwise distinguishable on everything the writers produce, names unique, chain = rows. -/
theorem table_wf_shape : WFshape table := by decide

/-- No row has its recogniser under a different guard than its writer.  (Before /repo commit 968e727 this list was
`["jingleMessageInitiationElement", "callInviteElement"]`: parsed in the public block, written in the sensitive one.) -/
theorem table_offending_parse : offendingParse table = [] := by decide

/-- No wrapper row is written by `toXml(SceSensitive)`.  (Before /repo commit 7d68095 this list was
`["extendedAddresses"]`: `toXml` did not forward its mode to `QXmppStanza::extensionsToXml`.) -/
theorem table_offending_toXml : offendingToXml table = [] := by decide

/-- **The whole generated table is well-formed** (every row's parse guard = its write guard, no payload-class row
written under a public or shared guard, recognisers pairwise distinguishable). -/
theorem table_wf : WFtable table := by decide

/-- No payload in the public part — today's code, all messages. -/
theorem today_public_has_no_sensitive (m : Msg) :
    ∀ e ∈ publicPart table m, ∃ r ∈ table.rows, e ∈ m r.name ∧ r.cls ≠ .payload :=
  public_has_no_sensitive table table_wf_write m

/-- Partition — today's code, all messages. -/
theorem today_parts_partition (m : Msg) :
    (writeMode table m .all ++ fallbackCopies table m).Perm (publicPart table m ++ sensitivePart table m) :=
  parts_partition table table_wf_write m

/-- **Recovery — today's code, all valid messages, every row** (rows written in both parts, i.e. the explicit
fallback markers, aside): the receive path gives back each field, and neither step leaves an unknown extension. -/
theorem today_split_parse_recovers (m : Msg) (hv : Msg.Valid table m) :
    (∀ r ∈ table.rows, (r.writeGuard ≠ .both ∨ r.wrapper = true) → (recover table m).msg r.name = m r.name)
    ∧ (recover table m).unknown = []
    ∧ (parseMode table (publicPart table m) .pub true Msg.empty).unknown = [] :=
  split_parse_recovers table table_wf m hv

/-- `toXml(SceSensitive)` writes exactly the envelope content — today's code, all messages: the `toXml` reading of
"sensitive part" and the real split coincide. -/
theorem today_toXml_sensitive_is_content (m : Msg) : writeMode table m .sens = writeExt table m .sens :=
  toXml_sensitive_is_content table table_offending_toXml m

/-! ## Non-vacuity and regression witnesses -/

/-- former counterexample (fixed by 968e727): only a Jingle-Message-Initiation `<propose/>` set -/
def jmiMsg : Msg := Msg.empty.set "jingleMessageInitiationElement"
  [{ tag := "propose", ns := "urn:xmpp:jingle-message:0", val := "jmi-1" }]

/-- former counterexample (fixed by 968e727): only a Call-Invite `<invite/>` set -/
def callInviteMsg : Msg := Msg.empty.set "callInviteElement"
  [{ tag := "invite", ns := "urn:xmpp:call-invites:0", val := "ci-1" }]

/-- former counterexample (fixed by 7d68095): one extended address set -/
def addrMsg : Msg := Msg.empty.set "extendedAddresses"
  [{ tag := "addresses", ns := "http://jabber.org/protocol/address", val := "addr-1" }]

/-- The three former counterexamples are valid messages and now behave as the property demands: the element is in
the sensitive part only and comes back through the receive path; the address is in the public part only and is
read once, also through the `toXml`/`parse` pair. -/
example :
    Msg.Valid table jmiMsg ∧ publicPart table jmiMsg = []
    ∧ (recover table jmiMsg).msg "jingleMessageInitiationElement" = jmiMsg "jingleMessageInitiationElement"
    ∧ (recover table jmiMsg).unknown = []
    ∧ Msg.Valid table callInviteMsg
    ∧ (recover table callInviteMsg).msg "callInviteElement" = callInviteMsg "callInviteElement"
    ∧ (recover table callInviteMsg).unknown = []
    ∧ Msg.Valid table addrMsg ∧ writeMode table addrMsg .sens = []
    ∧ (recoverToXml table addrMsg).msg "extendedAddresses" = addrMsg "extendedAddresses" := by decide

/-- a message with a public, a sensitive, a list-valued, a fallback and a wrapper field set -/
def sampleMsg : Msg :=
  ((((Msg.empty.set "body" [{ tag := "body", ns := "", val := "b" }]).set "hints"
      [{ tag := "no-store", ns := "urn:xmpp:hints", val := "h1" }, { tag := "store", ns := "urn:xmpp:hints", val := "h2" }]).set
      "fallbackMarkers" [{ tag := "fallback", ns := "urn:xmpp:fallback:0", val := "f" }]).set
      "extendedAddresses" [{ tag := "addresses", ns := "http://jabber.org/protocol/address", val := "a" }]).set
      "e2eeFallbackBody" [{ tag := "body", ns := "", val := "fb" }]

/-- The hypotheses of the generic theorems and of `today_split_parse_recovers` are met by a non-trivial message, and
the three parts are what one expects. -/
example :
    Msg.Valid table sampleMsg
    ∧ (publicPart table sampleMsg).map (·.val) = ["fb", "h1", "h2", "f", "a"]
    ∧ (sensitivePart table sampleMsg).map (·.val) = ["b", "f"]
    ∧ (writeMode table sampleMsg .all).map (·.val) = ["h1", "h2", "b", "f", "a"]
    ∧ (fallbackCopies table sampleMsg).map (·.val) = ["fb", "f"]
    ∧ (recover table sampleMsg).msg "body" = sampleMsg "body"
    ∧ (recover table sampleMsg).msg "hints" = sampleMsg "hints" := by decide

/-- The predicates can fail, and name the row: the pre-968e727 guard of the JMI recogniser, the pre-7d68095 guard of
the addresses writer, and a payload row moved to the unguarded tail are each rejected. -/
example :
    offendingParse { rows := [{ r_jingleMessageInitiationElement with parseGuard := .pub }], parse := [] }
      = ["jingleMessageInitiationElement"]
    ∧ offendingToXml { rows := [{ r_extendedAddresses with writeGuard := .both }], parse := [] } = ["extendedAddresses"]
    ∧ offendingWrite { rows := [{ r_body with writeGuard := .both }], parse := [] } = ["body"] := by decide

end Qx.C17
