import Qx.Proofs.C17
import Qx.Generated.SceTable
/-!
# C17 — the public part of an encrypted message never contains its sensitive content

Property theorems only.  Three independent ingredients:
* the SPECIFICATION `Qx/Model/C17Spec.lean`: which wire elements (name, namespace — as the XEPs define them) are
  conversational payload and which are routing / hint / id / explicit fallback.  Written from the property text and
  the XEPs; it mentions nothing of the C++.
* the TABLE `Qx/Generated/SceTable.lean`, regenerated on every check run by `translators/sce_table.py` from the real
  `toXml` / `serializeExtensions` / `parseExtension` branches: per element kind, what is written (tags, namespaces),
  under which mode guard, how it is recognised and under which guard.
* the generic MODEL `Qx/Model/C17Sce.lean` of writing and parsing by such a table (tied to the library by the
  correspondence run).
The theorems say: IF a table agrees with the specification (decidable predicates `WFwrite`, `WFsplit`, `WFshape`,
`WFtable`), THEN for every message the public part carries only what the specification allows, the parts partition the
unsplit message and the receive path recovers it; and the `table_*` theorems decide (kernel `decide`) whether TODAY'S
extracted table agrees with the specification, row by row, naming the rows that do not.
"Public part" = `QXmppMessage::toXml(writer, ScePublic)` (what `QXmppClient::sendSensitive` puts on the wire),
"sensitive part" = `serializeExtensions(writer, SceSensitive, ns_client)` (what the OMEMO manager puts into the SCE
envelope), "unsplit" = `toXml(writer, SceAll)`.
-/
namespace Qx.C17
open Qx.Generated.SceTable

/-! ## Generic theorems: any table, all messages -/

/-- **What can be in the public part, for ANY table** (no hypothesis): every element of the public part is a value of
a field whose class — decided by the spec from the row's wire identities — is not `payload`, or of one of the rows the
decidable check `offendingWrite` names. -/
theorem public_has_no_sensitive_except (T : Table) (m : Msg) :
    ∀ e ∈ publicPart T m, ∃ r ∈ T.rows, e ∈ m r.name ∧ (r.cls ≠ .payload ∨ r.name ∈ offendingWrite T) := by
  intro e he
  unfold publicPart writeMode at he
  obtain ⟨r, hr, her⟩ := List.mem_flatMap.mp he
  obtain ⟨hmem, hon, _⟩ := emits_sub r m .pub her
  refine ⟨r, hr, hmem, ?_⟩
  rcases wfWrite_or_offending (T := T) hr with hw | hw
  · left
    intro hc
    unfold Row.wfWrite Row.wfPayload at hw
    simp only [Bool.and_eq_true, Bool.or_eq_true, bne_iff_ne, ne_eq, hc, not_true_eq_false, false_or,
      beq_iff_eq] at hw
    rw [hw.1.1] at hon
    cases hon
  · right; exact hw

/-- **No payload in the public part.** If the table agrees with the spec on the write side, every element of the
public part belongs to a field classified routing / hint / id / fallback — never `payload` (body, subject, thread,
attachments, reactions, receipts, markers, …, unknown extensions, and everything the spec does not know). -/
theorem public_has_no_sensitive (T : Table) (h : WFwrite T) (m : Msg) :
    ∀ e ∈ publicPart T m, ∃ r ∈ T.rows, e ∈ m r.name ∧ r.cls ≠ .payload := by
  intro e he
  obtain ⟨r, hr, hmem, hc⟩ := public_has_no_sensitive_except T m e he
  refine ⟨r, hr, hmem, ?_⟩
  rcases hc with hc | hc
  · exact hc
  · exfalso
    unfold offendingWrite at hc
    obtain ⟨r', hr', _⟩ := List.mem_map.mp hc
    have h1 := (List.mem_filter.mp hr').2
    have h2 := wfWrite_of_mem h (List.mem_filter.mp hr').1
    simp [h2] at h1

/-- **The same, stated on the WIRE and against the spec alone**: every element of the public part has a (name,
namespace) that `C17Spec.classOfWire` does not classify as payload — or it is the value of the designated
explicit-fallback-text field.  (This is the statement that does not mention rows or guards at all.) -/
theorem public_elements_allowed_by_spec (T : Table) (h : WFwrite T) (m : Msg) (hv : Msg.Valid T m) :
    ∀ e ∈ publicPart T m, classOfWire e.tag e.ns ≠ .payload ∨ e ∈ m fallbackTextField := by
  intro e he
  obtain ⟨r, hr, hmem, hc⟩ := public_has_no_sensitive T h m e he
  by_cases hn : r.name = fallbackTextField
  · right; rw [← hn]; exact hmem
  · left
    have ho := (hv r hr).1 e hmem
    have hca : r.catchAll = false := by
      cases hca : r.catchAll
      · rfl
      · exact absurd (cls_catchAll hca) hc
    unfold Row.owns at ho
    simp only [hca, Bool.false_eq_true, if_false] at ho
    rw [(cls_of_wire hn hc ho.1 ho.2).1]
    exact hc

/-- …equivalently: a payload-class row writes nothing at all in public mode, whatever the message. -/
theorem payload_row_silent_in_public (T : Table) (h : WFwrite T) (m : Msg) (r : Row) (hr : r ∈ T.rows)
    (hc : r.cls = .payload) : r.emits m .pub = [] := by
  have hw := wfWrite_of_mem h hr
  unfold Row.wfWrite Row.wfPayload at hw
  simp only [Bool.and_eq_true, Bool.or_eq_true, bne_iff_ne, ne_eq, hc, not_true_eq_false, false_or,
    beq_iff_eq] at hw
  apply emits_eq_nil_of_off
  rw [hw.1.1]; rfl

/-- **The two parts together are the unsplit message.** As multisets: unsplit ++ (one extra copy of what is written
under the `both` / `pubOnly` guards) = public ++ sensitive … -/
theorem parts_partition (T : Table) (h : WFsplit T) (m : Msg) :
    (writeMode T m .all ++ fallbackCopies T m).Perm (publicPart T m ++ sensitivePart T m) := by
  unfold writeMode fallbackCopies publicPart sensitivePart writeMode writeExt
  apply perm_flatMap_split
  intro r hr
  exact row_partition r m (wfSplit_of_mem h hr).2

/-- …where that extra copy consists of explicit-fallback fields only (the "aside" of the property text). -/
theorem fallbackCopies_are_fallback (T : Table) (h : WFsplit T) (m : Msg) :
    ∀ e ∈ fallbackCopies T m, ∃ r ∈ T.rows, e ∈ m r.name ∧ r.cls = .fallback := by
  intro e he
  unfold fallbackCopies at he
  obtain ⟨r, hr, her⟩ := List.mem_flatMap.mp he
  split at her
  · rename_i hc
    refine ⟨r, hr, her, ?_⟩
    have hw := (wfSplit_of_mem h hr).1
    unfold Row.wfShared at hw
    simp only [Bool.and_eq_true, Bool.or_eq_true, Bool.not_eq_true', beq_iff_eq] at hw hc
    have hwr : r.wrapper = false := by simpa using hc.1.1
    rcases hw with (h1 | h1) | h1
    · rcases hc.1.2 with h2 | h2 <;> simp_all
    · exact h1
    · rw [hwr] at h1; cases h1
  · cases her

/-- **Each element in exactly one part.** An element that is not an explicit-fallback copy occurs in the public and
sensitive parts together exactly as often as in the unsplit message … -/
theorem each_in_exactly_one_part (T : Table) (h : WFsplit T) (m : Msg) (e : Elem)
    (he : e ∉ fallbackCopies T m) :
    (writeMode T m .all).count e = (publicPart T m).count e + (sensitivePart T m).count e := by
  have := (List.perm_iff_count.mp (parts_partition T h m)) e
  simp only [List.count_append, List.count_eq_zero_of_not_mem he] at this
  omega

/-- …and a row guarded `pub` or `sens` contributes to one part only. -/
theorem row_in_one_part (T : Table) (m : Msg) (r : Row) (_hr : r ∈ T.rows)
    (hg : r.writeGuard = .pub ∨ r.writeGuard = .sens) :
    r.emits m .pub = [] ∨ r.emits m .sens = [] := by
  rcases hg with hg | hg
  · right; apply emits_eq_nil_of_off; rw [hg]; rfl
  · left; apply emits_eq_nil_of_off; rw [hg]; rfl

/-- **Parsing the public part and then the sensitive part recovers every field** (receive path: `parse(outer,
ScePublic)`, then `parseExtensions(content, SceSensitive)` into the same object), explicit fallback markers —
which accompany both parts — aside; the unknown extensions that come out are exactly the ones that went in; and the
public part alone leaves no unknown extension. -/
theorem split_parse_recovers (T : Table) (h : WFtable T) (m : Msg) (hv : Msg.Valid T m) :
    (∀ r ∈ T.rows, r.catchAll = false → (r.writeGuard ≠ .both ∨ r.wrapper = true) →
        (recover T m).msg r.name = m r.name)
    ∧ (recover T m).unknown = catchAllValue T m
    ∧ (parseMode T (publicPart T m) .pub true Msg.empty).unknown = [] := by
  obtain ⟨hw, hs, hp⟩ := h
  -- a catch-all row of a table that agrees with the spec is payload, hence sensitive-guarded and not a wrapper
  have hcatch : ∀ r ∈ T.rows, r.catchAll = true → r.writeGuard = .sens ∧ r.wrapper = false := by
    intro r hr hca
    have hwr := wfWrite_of_mem hw hr
    have hc := cls_catchAll hca
    unfold Row.wfWrite Row.wfPayload Row.wfShared Row.wfWrapper at hwr
    simp only [hc, bne_self_eq_false, Bool.false_or, Bool.and_eq_true, beq_iff_eq] at hwr
    refine ⟨hwr.1.1, ?_⟩
    cases hwrap : r.wrapper
    · rfl
    · have := hwr.2.1
      simp [hwrap, hwr.1.1] at this
  refine ⟨?_, ?_, ?_⟩
  · intro r hr hca hnb
    have hpr := List.all_eq_true.mp hp r hr
    rw [recover_field hs hv hr hpr hca]
    have hwr := wfWrite_of_mem hw hr
    have hl := (hv r hr).2
    unfold Row.wfWrite Row.wfWrapper at hwr
    cases hwrap : r.wrapper <;> cases hg : r.writeGuard <;>
      simp_all [emits_eq_of_on, emits_eq_nil_of_off, Guard.on]
  · unfold recover
    rw [parseMode_unknown]
    unfold sensitivePart writeExt
    rw [unknown_part hs hp .sens trivial _ (valid_emits_ext hv)]
    unfold catchAllValue
    apply flatMap_congr'
    intro r hr
    cases hca : r.catchAll
    · rfl
    · obtain ⟨hg, hnw⟩ := hcatch r hr hca
      simp only [if_true, hnw, Bool.false_eq_true, if_false]
      exact emits_eq_of_on r m .sens (by rw [hg]; rfl) (hv r hr).2
  · rw [parseMode_unknown]
    unfold publicPart writeMode
    rw [unknown_part hs hp .pub trivial _ (valid_emits hv .pub)]
    apply flatMap_eq_nil_of
    intro r hr
    cases hca : r.catchAll
    · rfl
    · obtain ⟨hg, _⟩ := hcatch r hr hca
      simp only [if_true]
      exact emits_eq_nil_of_off r m .pub (by rw [hg]; rfl)

/-- The "aside": a field written in both parts (explicit fallback markers) is read twice by the two-step parse.
(The OMEMO manager clears the public markers before parsing the sensitive part for this reason.) -/
theorem split_parse_fallback_twice (T : Table) (h : WFtable T) (m : Msg) (hv : Msg.Valid T m)
    (r : Row) (hr : r ∈ T.rows) (hca : r.catchAll = false) (hb : r.writeGuard = .both) (hnw : r.wrapper = false) :
    (recover T m).msg r.name = m r.name ++ m r.name := by
  obtain ⟨_, hs, hp⟩ := h
  rw [recover_field hs hv hr (List.all_eq_true.mp hp r hr) hca]
  have hl := (hv r hr).2
  simp [hnw, emits_eq_of_on r m _ (by rw [hb]; rfl) hl]

/-- Row-wise version that does not need the whole table to be sound: if the table is globally distinguishable,
every row whose recogniser sits under the guard of its writer is recovered — whatever is wrong with other rows. -/
theorem split_parse_recovers_row (T : Table) (hw : WFsplit T) (hs : WFshape T) (m : Msg) (hv : Msg.Valid T m)
    (r : Row) (hr : r ∈ T.rows) (hp : r.wfParse = true) (hca : r.catchAll = false)
    (hnb : r.writeGuard ≠ .both ∨ r.wrapper = true) :
    (recover T m).msg r.name = m r.name := by
  rw [recover_field hs hv hr hp hca]
  have hwr := (wfSplit_of_mem hw hr).2
  have hl := (hv r hr).2
  unfold Row.wfWrapper at hwr
  cases hwrap : r.wrapper <;> cases hg : r.writeGuard <;>
    simp_all [emits_eq_of_on, emits_eq_nil_of_off, Guard.on]

/-! ### Histories: a message that has been through a combined-mode cycle before it is split -/

/-- **A combined-mode cycle (`toXml(SceAll)` → `parse(SceAll)` into a fresh object) keeps every known field**: the
field of every row comes back as what the row writes in the unsplit form — i.e. unchanged, except for the explicit
fallback text (`pubOnly`), which the unsplit form does not carry and which therefore comes back EMPTY, never filled. -/
theorem cycle_keeps_fields (T : Table) (h : WFtable T) (m : Msg) (hv : Msg.Valid T m)
    (r : Row) (hr : r ∈ T.rows) (hca : r.catchAll = false) :
    cycleAll T m r.name = r.emits m .all
    ∧ (r.writeGuard ≠ .pubOnly → cycleAll T m r.name = m r.name)
    ∧ (r.writeGuard = .pubOnly → cycleAll T m r.name = []) := by
  obtain ⟨hw, hs, hp⟩ := h
  have hpr := List.all_eq_true.mp hp r hr
  have h1 : cycleAll T m r.name = r.emits m .all := by
    unfold cycleAll
    rw [ofPSt_known hs _ hr hca, cycle_field hs hv hr hpr hca]
  refine ⟨h1, ?_, ?_⟩
  · intro hg
    rw [h1]
    have hwr := (wfSplit_of_mem (wfSplit_of_wfWrite hw) hr).2
    unfold Row.wfWrapper at hwr
    apply emits_eq_of_on r m .all _ (hv r hr).2
    cases hgd : r.writeGuard <;> simp_all [Guard.on]
  · intro hg
    rw [h1]
    exact emits_eq_nil_of_off r m .all (by rw [hg]; rfl)

/-- **A combined-mode cycle adds nothing to the public part**: whatever the public part of the re-parsed message
contains was already in the public part of the original — in particular no payload value can move into a public field
(such as the clear-text fallback `<body/>`) by storing and re-reading a message before it is encrypted. -/
theorem cycle_adds_nothing_public (T : Table) (h : WFtable T) (m : Msg) (hv : Msg.Valid T m) :
    ∀ e ∈ publicPart T (cycleAll T m), e ∈ publicPart T m := by
  intro e he
  unfold publicPart writeMode at he ⊢
  obtain ⟨r, hr, her⟩ := List.mem_flatMap.mp he
  obtain ⟨hmem, hon, _⟩ := emits_sub r (cycleAll T m) .pub her
  have hca : r.catchAll = false := by
    cases hca : r.catchAll
    · rfl
    · exfalso
      have hwr := wfWrite_of_mem h.1 hr
      have hc := cls_catchAll hca
      unfold Row.wfWrite Row.wfPayload at hwr
      simp only [hc, bne_self_eq_false, Bool.false_or, Bool.and_eq_true, beq_iff_eq] at hwr
      rw [hwr.1.1] at hon
      cases hon
  rw [(cycle_keeps_fields T h m hv r hr hca).1] at hmem
  obtain ⟨hm0, _, hl⟩ := emits_sub r m .all hmem
  refine List.mem_flatMap.mpr ⟨r, hr, ?_⟩
  unfold Row.emits
  simp [hon, hl, hm0]

/-- If no wrapper row is active in sensitive mode, `toXml(SceSensitive)` writes exactly what
`serializeExtensions(SceSensitive)` writes, so the `toXml`/`parse` pair and the real split coincide. -/
theorem toXml_sensitive_is_content (T : Table) (h : offendingToXml T = []) (m : Msg) :
    writeMode T m .sens = writeExt T m .sens := by
  unfold writeMode writeExt
  apply flatMap_congr'
  intro r hr
  cases hw : r.wrapper
  · rfl
  · unfold offendingToXml at h
    simp only [List.map_eq_nil_iff, List.filter_eq_nil_iff, Bool.and_eq_true, not_and, Bool.not_eq_true] at h
    simp [emits_eq_nil_of_off r m .sens (h r hr hw)]

/-! ## Today's source (generated table) -/

/-- The code that performs the split uses exactly the modes the theorems speak about: `QXmppClient::sendSensitive`
puts `toXml(ScePublic)` on the wire (so the wire carries `publicPart`), the OMEMO envelope content is
`serializeExtensions(SceSensitive)` (`sensitivePart`), and the receive path is `parse(…, ScePublic)` followed by
`parseExtensions(content, SceSensitive)` (`recover`).  Sending with `SceAll` would make this `decide` fail. -/
theorem split_call_sites :
    sendPathMode = .pub ∧ envelopeContentMode = .sens ∧ receiveOuterMode = .pub ∧ receiveContentMode = .sens := by
  decide

/-- OMEMO-encrypted IQs: the outer `<iq/>` is a fresh object that receives id, type, lang, from, to and the ciphertext —
nothing else — and the envelope content is the IQ's payload (or, for an error reply, its error).  Read off
`QXmppOmemoManager::encryptIq` / `createSceEnvelope` by the translator; the client side (`sendSensitive(iq)`,
`sendSensitiveIq`, error replies to encrypted requests) is exercised on the real `QXmppClient` by the harness. -/
theorem iq_outer_carries_no_payload :
    omemoIqOuterSetters = ["setId", "setType", "setLang", "setFrom", "setTo", "setOmemoElement"]
    ∧ iqPayloadInEnvelope = true := by decide

/-- **Today's extracted table agrees with the specification, row by row, in both directions** (payload ⇒ sensitive
guard; routing / hint / id ⇒ public guard; explicit fallback ⇒ a guard reaching the public part).  (Before /repo
commit e2ea074 this list was `["extensions"]`: unknown extensions were written in every mode.) -/
theorem table_agrees_with_spec : specDisagreements table.rows = [] := by decide

/-- The spec knows the wire identity of every element the code can write (no row is payload merely by default). -/
theorem table_spec_covers_every_row : specUnknown table.rows = [] := by decide

/-- The write-side predicate holds for every row.  Moving any payload writer out of the sensitive block, or adding a
writer the spec does not know to the public block or the tail, puts its row into this list. -/
theorem table_offending_write : offendingWrite table = [] := by decide

/-- Recognisers pairwise distinguishable on everything the writers produce, names unique, chain = rows. -/
theorem table_wf_shape : WFshape table := by decide

/-- No row has its recogniser under a different guard than its writer.  (Before /repo commit 968e727 this list was
`["jingleMessageInitiationElement", "callInviteElement"]`.) -/
theorem table_offending_parse : offendingParse table = [] := by decide

/-- `toXml(SceSensitive)` writes nothing the envelope content lacks.  (`extendedAddresses` left this list with /repo
commit 7d68095, `extensions` with e2ea074.) -/
theorem table_offending_toXml : offendingToXml table = [] := by decide

/-- **The whole generated table is well-formed**: it agrees with the spec on the write side, every row is recognised
under the guard it is written under, recognisers are pairwise distinguishable. -/
theorem table_wf : WFtable table := by decide

/-- **No payload in the public part — today's code, all messages.** -/
theorem today_public_has_no_sensitive (m : Msg) :
    ∀ e ∈ publicPart table m, ∃ r ∈ table.rows, e ∈ m r.name ∧ r.cls ≠ .payload :=
  public_has_no_sensitive table table_wf.1 m

/-- **…stated on the wire against the spec alone — today's code, all valid messages**: every element of the public part
has a (name, namespace) the spec allows outside the envelope, or is the designated explicit fallback text. -/
theorem today_public_elements_allowed_by_spec (m : Msg) (hv : Msg.Valid table m) :
    ∀ e ∈ publicPart table m, classOfWire e.tag e.ns ≠ .payload ∨ e ∈ m fallbackTextField :=
  public_elements_allowed_by_spec table table_wf.1 m hv

/-- **Partition — today's code, all messages.** -/
theorem today_parts_partition (m : Msg) :
    (writeMode table m .all ++ fallbackCopies table m).Perm (publicPart table m ++ sensitivePart table m) :=
  parts_partition table (wfSplit_of_wfWrite table_wf.1) m

/-- **Recovery — today's code, all valid messages, every field** (rows written in both parts, i.e. the explicit
fallback markers, aside): the receive path gives back each known field and exactly the unknown extensions that were
set, and the public part alone yields no unknown extension. -/
theorem today_split_parse_recovers (m : Msg) (hv : Msg.Valid table m) :
    (∀ r ∈ table.rows, r.catchAll = false → (r.writeGuard ≠ .both ∨ r.wrapper = true) →
        (recover table m).msg r.name = m r.name)
    ∧ (recover table m).unknown = catchAllValue table m
    ∧ (parseMode table (publicPart table m) .pub true Msg.empty).unknown = [] :=
  split_parse_recovers table table_wf m hv

/-- **Histories — today's code, all valid messages**: storing a message in combined mode and reading it back keeps
every known field (the explicit fallback text comes back empty) and adds nothing to its public part. -/
theorem today_cycle_adds_nothing_public (m : Msg) (hv : Msg.Valid table m) :
    (∀ r ∈ table.rows, r.catchAll = false → cycleAll table m r.name = r.emits m .all)
    ∧ ∀ e ∈ publicPart table (cycleAll table m), e ∈ publicPart table m :=
  ⟨fun r hr hca => (cycle_keeps_fields table table_wf m hv r hr hca).1, cycle_adds_nothing_public table table_wf m hv⟩

/-- `toXml(SceSensitive)` writes exactly the envelope content — today's code, all messages. -/
theorem today_toXml_sensitive_is_content (m : Msg) : writeMode table m .sens = writeExt table m .sens :=
  toXml_sensitive_is_content table table_offending_toXml m

/-! ## Non-vacuity and regression witnesses -/

/-- former counterexample (fixed by e2ea074): only one application-supplied unknown extension set -/
def extMsg : Msg := Msg.empty.set "extensions" [{ tag := "app-ext", ns := "verif:app", val := "custom payload" }]

/-- former counterexample (fixed by 968e727): only a Jingle-Message-Initiation `<propose/>` set -/
def jmiMsg : Msg := Msg.empty.set "jingleMessageInitiationElement"
  [{ tag := "propose", ns := "urn:xmpp:jingle-message:0", val := "jmi-1" }]

/-- former counterexample (fixed by 968e727): only a Call-Invite `<invite/>` set -/
def callInviteMsg : Msg := Msg.empty.set "callInviteElement"
  [{ tag := "invite", ns := "urn:xmpp:call-invites:0", val := "ci-1" }]

/-- former counterexample (fixed by 7d68095): one extended address set -/
def addrMsg : Msg := Msg.empty.set "extendedAddresses"
  [{ tag := "addresses", ns := "http://jabber.org/protocol/address", val := "addr-1" }]

/-- The four former counterexamples are valid messages and now behave as the property demands. -/
example :
    Msg.Valid table extMsg ∧ publicPart table extMsg = []
    ∧ sensitivePart table extMsg = extMsg "extensions" ∧ (recover table extMsg).unknown = extMsg "extensions"
    ∧ Msg.Valid table jmiMsg ∧ publicPart table jmiMsg = []
    ∧ (recover table jmiMsg).msg "jingleMessageInitiationElement" = jmiMsg "jingleMessageInitiationElement"
    ∧ (recover table jmiMsg).unknown = []
    ∧ Msg.Valid table callInviteMsg
    ∧ (recover table callInviteMsg).msg "callInviteElement" = callInviteMsg "callInviteElement"
    ∧ (recover table callInviteMsg).unknown = []
    ∧ Msg.Valid table addrMsg ∧ writeMode table addrMsg .sens = []
    ∧ (recoverToXml table addrMsg).msg "extendedAddresses" = addrMsg "extendedAddresses" := by decide

/-- a message with a public, a sensitive, a list-valued, a fallback and a wrapper field set -/
def sampleMsg : Msg :=
  ((((Msg.empty.set "body" [{ tag := "body", ns := "", val := "b" }]).set "hints"
      [{ tag := "no-store", ns := "urn:xmpp:hints", val := "h1" }, { tag := "store", ns := "urn:xmpp:hints", val := "h2" }]).set
      "fallbackMarkers" [{ tag := "fallback", ns := "urn:xmpp:fallback:0", val := "f" }]).set
      "extendedAddresses" [{ tag := "addresses", ns := "http://jabber.org/protocol/address", val := "a" }]).set
      "e2eeFallbackBody" [{ tag := "body", ns := "", val := "fb" }]

/-- The hypotheses of the generic theorems and of the `today_*` theorems are met by a non-trivial valid message that also
carries an unknown extension; the parts are what one expects and everything comes back. -/
example :
    Msg.Valid table (sampleMsg.set "extensions" (extMsg "extensions"))
    ∧ (publicPart table (sampleMsg.set "extensions" (extMsg "extensions"))).map (·.val) = ["fb", "h1", "h2", "f", "a"]
    ∧ (sensitivePart table (sampleMsg.set "extensions" (extMsg "extensions"))).map (·.val) = ["b", "f", "custom payload"]
    ∧ (writeMode table (sampleMsg.set "extensions" (extMsg "extensions")) .all).map (·.val)
        = ["h1", "h2", "b", "f", "a", "custom payload"]
    ∧ (fallbackCopies table sampleMsg).map (·.val) = ["fb", "f"]
    ∧ (recover table (sampleMsg.set "extensions" (extMsg "extensions"))).unknown = extMsg "extensions"
    ∧ (recover table sampleMsg).msg "body" = sampleMsg "body"
    ∧ (recover table sampleMsg).msg "hints" = sampleMsg "hints" := by decide

/-- the shape of seeded change C17_d1: a real body, an XEP-0380 encryption method, no explicit fallback body -/
def emeMsg : Msg :=
  (Msg.empty.set "body" [{ tag := "body", ns := "", val := "secret" }]).set "encryptionMethod"
    [{ tag := "encryption", ns := "urn:xmpp:eme:0", val := "eme" }]

/-- …after one and after two combined-mode cycles its public part is still the `<encryption/>` element alone and the
fallback-text field is still empty; a message with an explicit fallback text loses it in the cycle (never gains one). -/
example :
    Msg.Valid table emeMsg
    ∧ (publicPart table (cycleAll table emeMsg)).map (·.val) = ["eme"]
    ∧ (publicPart table (cycleAll table (cycleAll table emeMsg))).map (·.val) = ["eme"]
    ∧ cycleAll table emeMsg "e2eeFallbackBody" = [] ∧ cycleAll table emeMsg "body" = emeMsg "body"
    ∧ (publicPart table sampleMsg).map (·.val) = ["fb", "h1", "h2", "f", "a"]
    ∧ (publicPart table (cycleAll table sampleMsg)).map (·.val) = ["h1", "h2", "f", "a"]
    ∧ (publicPart table (resplit table emeMsg)).map (·.val) = ["eme"] := by decide

/-- The predicates can fail, and name the row: the pre-968e727 guard of the JMI recogniser, the pre-7d68095 guard of
the addresses writer, a payload row moved to the unguarded tail, a hint moved into the ciphertext (spec
disagreement in the other direction) and the pre-e2ea074 placement of the unknown extensions are each rejected. -/
example :
    offendingParse { rows := [{ r_jingleMessageInitiationElement with parseGuard := .pub }], parse := [] }
      = ["jingleMessageInitiationElement"]
    ∧ offendingToXml { rows := [{ r_extendedAddresses with writeGuard := .both }], parse := [] } = ["extendedAddresses"]
    ∧ offendingWrite { rows := [{ r_body with writeGuard := .both }], parse := [] } = ["body"]
    ∧ specDisagreements [{ r_hints with writeGuard := .sens }] = ["hints"]
    ∧ offendingWrite { rows := [{ r_extensions with writeGuard := .both, wrapper := true }], parse := [] } = ["extensions"]
    := by decide

/-- The classification really comes from the wire identity: the same row under another namespace changes class. -/
example :
    r_hints.cls = .hint ∧ ({ r_hints with nss := ["urn:example:unknown"] } : Row).cls = .payload
    ∧ r_body.cls = .payload ∧ r_e2eeFallbackBody.cls = .fallback ∧ r_stanzaIds.cls = .id
    ∧ classOfWire "received" "urn:xmpp:receipts" = .payload ∧ classOfWire "store" "urn:xmpp:hints" = .hint := by decide

end Qx.C17
