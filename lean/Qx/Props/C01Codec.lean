import Qx.Proofs.Codec
import Qx.Xml.Codec.Classes
/-!
# C01, tier C — schema-driven codecs lose nothing

Property theorems only (definitions: `Qx/Xml/Codec/Schema.lean`, class schemas:
`Qx/Xml/Codec/Classes.lean`, helper lemmas: `Qx/Proofs/Codec.lean`).

`S.encode v` is the class's `toXml` output as a tree, `S.decode x` what its field readers report on
ANY tree `x`, `S.parse x` = `fromDom` (type check + readers + mandatory parts).  All theorems hold for
every well-formed schema `S` (a decidable syntactic condition, discharged per class by `decide`),
every canonical value list `v` — strings are arbitrary `List Char` (markup characters, blanks, empty
where the class can hold an empty string), integers range over the whole C++ type, every
present/absent combination of optional parts, any number of repeated items, any nesting.
-/
namespace Qx.C01Codec
open Qx.Xml Qx.Xml.Codec

/-- **Serialize, then read back: every field reports the value that was written.**
One generic proof (`decFs_encFs`, induction over the field list). -/
theorem decode_encode (S : Schema) (hS : S.WF) (v : List Val) (hv : S.Canon v) :
    S.decode (S.encode v) = v := by
  obtain ⟨hok, _, hwf, _⟩ := hS
  have hx := encFs_no_xmlns v hwf
  simp only [Schema.decode, Schema.encode]
  rw [nsOf_mk' S.head S.inh _ _ hok hx]
  have := decFs_encFs S.fields S.head.ns S.head.tag (nsAttr S.head.decl S.head.ns) [] v hwf hv.1
    (by
      intro kv hkv f hf
      have hk : kv.1 = xmlnsKey := by
        unfold nsAttr at hkv
        split at hkv <;> simp at hkv
        rw [hkv]
      rw [hk]; exact wfF_reads_xmlns (wfFs_mem hwf f hf))
    (by simp)
  simpa [Head.mk'] using this

/-- the class's own type check admits its own output -/
theorem admit_encode (S : Schema) (hS : S.WF) (v : List Val) : S.admit (S.encode v) = some (S.encode v) := by
  obtain ⟨hok, _, hwf, _⟩ := hS
  have hns := nsOf_mk' S.head S.inh _ (encFs S.fields v).2 hok (encFs_no_xmlns v hwf)
  simp only [Schema.encode] at hns ⊢
  simp only [Head.mk'] at hns
  simp only [Schema.admit]
  split
  · simp [hns, Head.mk', Node.isElem, Node.name]
  · rfl
  · simp [Head.mk', Node.isElem, Node.name]

/-- **`fromDom(toXml(obj))` succeeds and reports the same field values**, for every canonical
assignment of values to the fields. -/
theorem parse_encode (S : Schema) (hS : S.WF) (v : List Val) (hv : S.Canon v) :
    S.parse (S.encode v) = some v := by
  simp only [Schema.parse, admit_encode S hS v, decode_encode S hS v hv, hv.2, if_true]

/-- **…and serializes to the same XML again.** -/
theorem reserialize_same (S : Schema) (hS : S.WF) (v : List Val) (hv : S.Canon v) :
    S.norm (S.encode v) = some (S.encode v) := by
  simp [Schema.norm, parse_encode S hS v hv]

/-- **A document in the library's own output form survives parse-then-serialize unchanged**
(exactly, not merely up to sibling order). -/
theorem encode_decode_own_form (S : Schema) (hS : S.WF) (d : Node) (v : List Val)
    (hd : d = S.encode v) (hv : S.Canon v) : S.encode (S.decode d) = d ∧ S.norm d = some d := by
  subst hd
  exact ⟨by rw [decode_encode S hS v hv], reserialize_same S hS v hv⟩

/-! ## classes whose writer drops an attribute the parser reads (`Field.attrReadOnly`)

`S.fix` is the repaired schema, `resetFs` forgets in a value exactly the dropped attributes. -/

/-- the parsers of the code as it is and of the repaired class agree on every tree -/
theorem parse_fix (S : Schema) (x : Node) : S.fix.parse x = S.parse x := by
  have hd : ∀ y, S.fix.decode y = S.decode y := fun y => decFs_fix S.fields _ y
  have ha : S.fix.admit x = S.admit x := rfl
  simp only [Schema.parse, ha]
  split
  · rename_i y _
    rw [hd y]
    simp only [Schema.fix, mandOK_fix]
  · rfl

/-- today's output for `v` is the repaired class's output for `v` with the dropped attributes forgotten -/
theorem encode_code_eq (S : Schema) (hS : S.fix.WF) (v : List Val) :
    S.fix.encode (resetFs S.fields v) = S.encode v := by
  obtain ⟨_, _, hwf, _⟩ := hS
  simp only [Schema.encode, Schema.fix] at hwf ⊢
  rw [encFs_fix_reset S.fields _ v hwf]

/-- **Round trip of the code as it is: every field survives except the attributes the writer drops**,
which read back as their default.  (For a schema without such attributes `resetFs` is the identity and
this is `decode_encode`.) -/
theorem decode_encode_code (S : Schema) (hS : S.fix.WF) (v : List Val) (hv : S.Canon v) :
    S.parse (S.encode v) = some (resetFs S.fields v) := by
  have hc : S.fix.Canon (resetFs S.fields v) :=
    ⟨canonFs_fix_reset S.fields v hv.1, by
      show mandOK (fixFs S.fields) (resetFs S.fields v) = true
      rw [mandOK_fix, mandOK_reset]; exact hv.2⟩
  rw [← parse_fix, ← encode_code_eq S hS v]
  exact parse_encode S.fix hS _ hc

/-! ## the modelled classes: each inherits the theorems above -/
open Classes

theorem wf_SmEnable : SmEnable.WF := by decide
theorem wf_SmEnabled : SmEnabled.WF := by decide
theorem wf_SmResume : SmResume.WF := by decide
theorem wf_SmResumed : SmResumed.WF := by decide
theorem wf_SmFailed : SmFailed.WF := by decide
theorem wf_SmAck : SmAck.WF := by decide
theorem wf_SmRequest : SmRequest.WF := by decide
theorem wf_SaslSuccess : SaslSuccess.WF := by decide
theorem wf_StarttlsRequest : StarttlsRequest.WF := by decide
theorem wf_StarttlsProceed : StarttlsProceed.WF := by decide
theorem wf_Bind2Feature : Bind2Feature.WF := by decide
theorem wf_Bind2Request : Bind2Request.WF := by decide
theorem wf_Bind2Bound : Bind2Bound.WF := by decide
theorem wf_FastTokenRequest : FastTokenRequest.WF := by decide
theorem wf_FastRequest : FastRequest.WF := by decide
theorem wf_Sasl2Failure : Sasl2Failure.WF := by decide
theorem wf_Sasl2Abort : Sasl2Abort.WF := by decide
theorem wf_ExtendedAddress : ExtendedAddress.WF := by decide
theorem wf_BindIq : BindIq.WF := by decide
theorem wf_VersionIq : VersionIq.WF := by decide
theorem wf_IbbCloseIq : IbbCloseIq.WF := by decide
theorem wf_SaslAuth : SaslAuth.WF := by decide
theorem wf_SaslChallenge : SaslChallenge.WF := by decide
theorem wf_SaslResponse : SaslResponse.WF := by decide
theorem wf_Sasl2Challenge : Sasl2Challenge.WF := by decide
theorem wf_Sasl2Response : Sasl2Response.WF := by decide
theorem wf_Sasl2Continue : Sasl2Continue.WF := by decide
theorem wf_Hash : Hash.WF := by decide
theorem wf_MixInvitation : MixInvitation.WF := by decide
theorem wf_OutOfBandUrl : OutOfBandUrl.WF := by decide
theorem wf_PubSubAffiliation : PubSubAffiliation.WF := by decide
theorem wf_SdpParameter : SdpParameter.WF := by decide
theorem wf_RtpFeedbackInterval : RtpFeedbackInterval.WF := by decide
theorem wf_TrustMessageKeyOwner : TrustMessageKeyOwner.WF := by decide
theorem wf_TrustMessageElement : TrustMessageElement.WF := by decide
/-- `FastFeature` / the SASL 2 stream feature once `tls-0rtt` is written (fixes/C01-fastfeature-tls0rtt.diff) -/
theorem wf_FastFeature_fixed : FastFeature.WF := by decide
theorem wf_Sasl2StreamFeature_fixed : Sasl2StreamFeature.WF := by decide
theorem wf_StreamFeatures_fixed : StreamFeatures.WF := by decide

/-! ## defect of today's code -/

/-- **`FastFeature` (XEP-0484 stream feature) loses `tls0rtt`.** `fromDom` reads the `tls-0rtt`
attribute, `toXml` never writes it: the object `{mechanisms = [], tls0rtt = true}` serializes to
`<fast xmlns="urn:xmpp:fast:0"/>` and reads back with `tls0rtt = false`.  The full round-trip
statement is false for the schema of the code as it is. -/
theorem C01_defect_fastfeature_tls0rtt :
    ¬ (∀ v, FastFeatureCode.Canon v → FastFeatureCode.decode (FastFeatureCode.encode v) = v) := by
  intro h
  have h1 := h [.list [], .flag true] (by decide)
  have h2 : FastFeatureCode.decode (FastFeatureCode.encode [.list [], .flag true]) = [.list [], .flag false] := by
    rfl
  rw [h2] at h1
  simp at h1

/-- the same loss inside `<authentication xmlns="urn:xmpp:sasl:2"><inline><fast tls-0rtt="true"/>…` -/
theorem C01_defect_sasl2feature_tls0rtt :
    ¬ (∀ v, Sasl2StreamFeatureCode.Canon v →
        Sasl2StreamFeatureCode.decode (Sasl2StreamFeatureCode.encode v) = v) := by
  intro h
  have h1 := h [.list [], .record [.absent, .record [.list [], .flag true], .absent]] (by decide)
  have h2 : Sasl2StreamFeatureCode.decode (Sasl2StreamFeatureCode.encode
      [.list [], .record [.absent, .record [.list [], .flag true], .absent]])
      = [.list [], .record [.absent, .record [.list [], .flag false], .absent]] := by
    rfl
  rw [h2] at h1
  simp at h1

/-- the repaired schemas are exactly the `fix` of the schemas of the code as it is, so
`decode_encode_code` and `C02Codec.norm_idem_code` apply to today's classes -/
theorem fix_FastFeatureCode : FastFeatureCode.fix.WF := by decide
theorem fix_Sasl2StreamFeatureCode : Sasl2StreamFeatureCode.fix.WF := by decide
theorem fix_StreamFeaturesCode : StreamFeaturesCode.fix.WF := by decide

/-- the generic theorems do not apply to the schemas of the code as it is: they are not well-formed -/
theorem not_wf_FastFeatureCode : ¬ FastFeatureCode.WF := by decide
theorem not_wf_Sasl2StreamFeatureCode : ¬ Sasl2StreamFeatureCode.WF := by decide
theorem not_wf_StreamFeaturesCode : ¬ StreamFeaturesCode.WF := by decide

/-! ## non-vacuity: concrete values meeting the hypotheses -/

/-- all optional parts present, strings made of markup characters and blanks only -/
example : Bind2Request.WF ∧ Bind2Request.Canon
    [.record [.str "<&\"'> ]]>".toList], .record [], .record [], .record [.flag true, .nat 18446744073709551615]] := by
  decide
/-- all optional parts absent -/
example : Bind2Request.Canon [.record [.str []], .absent, .absent, .absent] := by decide
/-- repeated items, including an empty string -/
example : Bind2Feature.Canon [.record [.list [.record [.str "urn:xmpp:carbons:2".toList], .record [.str []]]]] := by decide
/-- a mandatory enumerated child and free text -/
example : Sasl2Failure.WF ∧ Sasl2Failure.Canon [.opt (some 9), .record [.str " \n<not-authorized/>".toList]] := by decide
/-- out-of-range values are excluded, not silently accepted -/
example : ¬ SmAck.Canon [.nat 4294967296] := by decide
example : ¬ Sasl2Failure.Canon [.opt none, .record [.str []]] := by decide
/-- Base64 bodies: any byte string, including NUL and 0xFF; a mandatory non-empty list -/
example : Sasl2Continue.WF ∧ Sasl2Continue.Canon
    [.record [.str [Char.ofNat 0, Char.ofNat 255, 'M']], .record [.list [.record [.str "a<b".toList]]], .record [.str []]] := by
  decide
example : ¬ Sasl2Continue.Canon [.record [.str []], .record [.list []], .record [.str []]] := by decide

end Qx.C01Codec
