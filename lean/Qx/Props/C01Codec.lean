import Qx.Proofs.Codec
import Qx.Proofs.Xml
import Qx.Xml.Codec.Classes
import Qx.Xml.Codec.Literals
/-!
# C01, tier C — schema-driven codecs lose nothing

Property theorems only (definitions: `Qx/Xml/Codec/Schema.lean`, class schemas:
`Qx/Xml/Codec/Classes.lean`, helper lemmas: `Qx/Proofs/Codec.lean`).

`S.encode v` is the class's `toXml` output as a tree, `S.decode x` what its field readers report on
ANY tree `x`, `S.parse x` = `fromDom` (type check + readers + mandatory parts).  All theorems hold for
every well-formed schema `S` (a decidable syntactic condition, discharged per class by `decide`),
every canonical value list `v` — strings are arbitrary `List Char` (markup characters, blanks, empty
where the class can hold an empty string), integers range over the whole C++ type, every
present/absent combination of optional parts, any number of repeated items, any nesting.
-/
namespace Qx.C01Codec
open Qx.Xml Qx.Xml.Codec

/-- **Serialize, then read back: every field reports the value that was written.**
One generic proof (`decFs_encFs`, induction over the field list). -/
theorem decode_encode (S : Schema) (hS : S.WF) (v : List Val) (hv : S.Canon v) :
    S.decode (S.encode v) = v := by
  obtain ⟨hok, _, hwf, _, hex⟩ := hS
  have hx := mk_no_xmlns hex v hwf
  simp only [Schema.decode, Schema.encode]
  rw [nsOf_mk' S.head S.inh _ _ hok hx]
  have := decFs_encFs S.fields S.head.ns S.head.tag (nsAttr S.head.decl S.head.ns ++ S.head.extra) [] v hwf hv.1
    (prefix_not_read hex hwf) (by simp)
  simpa [Head.mk'] using this

/-- the class's own type check admits its own output -/
theorem admit_encode (S : Schema) (hS : S.WF) (v : List Val) : S.admit (S.encode v) = some (S.encode v) := by
  obtain ⟨hok, _, hwf, _, hex⟩ := hS
  have hns := nsOf_mk' S.head S.inh _ (encFs S.fields v).2 hok (mk_no_xmlns hex v hwf)
  simp only [Schema.encode] at hns ⊢
  simp only [Head.mk'] at hns
  simp only [Schema.admit]
  split
  · simp only [List.append_assoc] at hns
    simp [hns, Head.mk', Node.isElem, Node.name]
  · rfl
  · simp [Head.mk', Node.isElem, Node.name]

/-- **`fromDom(toXml(obj))` succeeds and reports the same field values**, for every canonical
assignment of values to the fields. -/
theorem parse_encode (S : Schema) (hS : S.WF) (v : List Val) (hv : S.Canon v) :
    S.parse (S.encode v) = some v := by
  simp only [Schema.parse, admit_encode S hS v, decode_encode S hS v hv, hv.2, if_true]

/-- **…and serializes to the same XML again.** -/
theorem reserialize_same (S : Schema) (hS : S.WF) (v : List Val) (hv : S.Canon v) :
    S.norm (S.encode v) = some (S.encode v) := by
  simp [Schema.norm, parse_encode S hS v hv]

/-- **A document in the library's own output form survives parse-then-serialize unchanged**
(exactly, not merely up to sibling order). -/
theorem encode_decode_own_form (S : Schema) (hS : S.WF) (d : Node) (v : List Val)
    (hd : d = S.encode v) (hv : S.Canon v) : S.encode (S.decode d) = d ∧ S.norm d = some d := by
  subst hd
  exact ⟨by rw [decode_encode S hS v hv], reserialize_same S hS v hv⟩

/-! ## composition with tier A: from field values to CHARACTERS and back -/

/-- **End to end: field values → `toXml` → the characters on the wire → XML parser → `fromDom` → the same field values.**
`Qx.Xml.render` is the model of `QXmlStreamWriter`'s output and `Qx.Xml.parse` the model of the reader (tier A, both
compared with the real Qt on every run); the hypothesis is exactly the one tier A needs: the written tree is
`XmlSafe` — every character of every string is XML-legal, no text node is blank (QDom drops those: the property says
"non-blank") and the names are names (true of every schema, whose tags are constants).  It is decidable for each value
(`by decide`, see the example below); the strings themselves are arbitrary otherwise: markup characters, quotes, `]]>`,
CR/LF/TAB, non-ASCII. -/
theorem codec_roundtrip_chars (S : Schema) (hS : S.WF) (v : List Val) (hv : S.Canon v)
    (hx : Qx.Xml.XmlSafe (S.encode v)) :
    Qx.Xml.parse (Qx.Xml.render (S.encode v)) = some (S.encode v) ∧ S.parse (S.encode v) = some v := by
  refine ⟨Qx.Xml.parse_render_xmlSafe (S.encode v) ?_ hx, parse_encode S hS v hv⟩
  simp [Schema.encode, Head.mk', Node.isElem]

/-- the same as one chain: parsing the written characters and handing the tree to `fromDom` yields the values -/
theorem codec_roundtrip_chars_bind (S : Schema) (hS : S.WF) (v : List Val) (hv : S.Canon v)
    (hx : Qx.Xml.XmlSafe (S.encode v)) :
    (Qx.Xml.parse (Qx.Xml.render (S.encode v))).bind S.parse = some v := by
  obtain ⟨h1, h2⟩ := codec_roundtrip_chars S hS v hv hx
  rw [h1]; exact h2

/-- **No field value can alter the element structure, end to end**: for ALL strings in the values (no hypothesis on
them at all) the written characters parse, to the written tree with the characters the writer drops removed and
blank text gone (`view`, tier A); only the schema's names must be names. -/
theorem codec_render_parses_for_all_strings (S : Schema) (v : List Val) (hn : Qx.Xml.NamesOK (S.encode v)) :
    Qx.Xml.parse (Qx.Xml.render (S.encode v)) = some (Qx.Xml.view (S.encode v)) := by
  have h : ∃ n as ks, S.encode v = .elem n as ks := ⟨_, _, _, rfl⟩
  obtain ⟨n, as, ks, e⟩ := h
  rw [e] at hn ⊢
  exact Qx.Xml.parse_render_view n as ks hn

/-! ## the modelled classes: each inherits the theorems above -/
open Classes

theorem wf_SmEnable : SmEnable.WF := by decide
theorem wf_SmEnabled : SmEnabled.WF := by decide
theorem wf_SmResume : SmResume.WF := by decide
theorem wf_SmResumed : SmResumed.WF := by decide
theorem wf_SmFailed : SmFailed.WF := by decide
theorem wf_SmAck : SmAck.WF := by decide
theorem wf_SmRequest : SmRequest.WF := by decide
theorem wf_SaslSuccess : SaslSuccess.WF := by decide
theorem wf_StarttlsRequest : StarttlsRequest.WF := by decide
theorem wf_StarttlsProceed : StarttlsProceed.WF := by decide
theorem wf_Bind2Feature : Bind2Feature.WF := by decide
theorem wf_Bind2Request : Bind2Request.WF := by decide
theorem wf_Bind2Bound : Bind2Bound.WF := by decide
theorem wf_FastTokenRequest : FastTokenRequest.WF := by decide
theorem wf_FastRequest : FastRequest.WF := by decide
theorem wf_Sasl2Failure : Sasl2Failure.WF := by decide
theorem wf_Sasl2Abort : Sasl2Abort.WF := by decide
theorem wf_ExtendedAddress : ExtendedAddress.WF := by decide
theorem wf_BindIq : BindIq.WF := by decide
theorem wf_VersionIq : VersionIq.WF := by decide
theorem wf_IbbCloseIq : IbbCloseIq.WF := by decide
theorem wf_SaslAuth : SaslAuth.WF := by decide
theorem wf_SaslChallenge : SaslChallenge.WF := by decide
theorem wf_SaslResponse : SaslResponse.WF := by decide
theorem wf_Sasl2Challenge : Sasl2Challenge.WF := by decide
theorem wf_Sasl2Response : Sasl2Response.WF := by decide
theorem wf_Sasl2Continue : Sasl2Continue.WF := by decide
theorem wf_Hash : Hash.WF := by decide
theorem wf_MixInvitation : MixInvitation.WF := by decide
theorem wf_OutOfBandUrl : OutOfBandUrl.WF := by decide
theorem wf_PubSubAffiliation : PubSubAffiliation.WF := by decide
theorem wf_SdpParameter : SdpParameter.WF := by decide
theorem wf_RtpFeedbackInterval : RtpFeedbackInterval.WF := by decide
theorem wf_TrustMessageKeyOwner : TrustMessageKeyOwner.WF := by decide
theorem wf_TrustMessageElement : TrustMessageElement.WF := by decide
theorem wf_FastFeature : FastFeature.WF := by decide
theorem wf_Sasl2StreamFeature : Sasl2StreamFeature.WF := by decide
theorem wf_StreamFeatures : StreamFeatures.WF := by decide
theorem wf_ResultSetQuery : ResultSetQuery.WF := by decide
theorem wf_FastToken : FastToken.WF := by decide
theorem wf_Sasl2Success : Sasl2Success.WF := by decide
theorem wf_ResultSetReply : ResultSetReply.WF := by decide
theorem wf_PubSubIqUnsubscribe : PubSubIqUnsubscribe.WF := by decide
theorem wf_PubSubIqSubscribe : PubSubIqSubscribe.WF := by decide
theorem wf_PubSubIqOptions : PubSubIqOptions.WF := by decide
theorem wf_PubSubIqCreate : PubSubIqCreate.WF := by decide
theorem wf_PubSubIqDelete : PubSubIqDelete.WF := by decide
theorem wf_PubSubIqPurge : PubSubIqPurge.WF := by decide
theorem wf_PubSubIqConfigure : PubSubIqConfigure.WF := by decide
theorem wf_PubSubIqDefault : PubSubIqDefault.WF := by decide
theorem wf_PubSubIqOwnerDefault : PubSubIqOwnerDefault.WF := by decide
theorem wf_StanzaError : StanzaError.WF := by decide
theorem wf_MucItem : MucItem.WF := by decide
theorem wf_MucAdminIq : MucAdminIq.WF := by decide
theorem wf_JingleReason : JingleReason.WF := by decide
theorem wf_IbbDataIq : IbbDataIq.WF := by decide
theorem wf_HashUsed : HashUsed.WF := by decide
theorem wf_MamResultIq : MamResultIq.WF := by decide
theorem wf_RosterItem : RosterItem.WF := by decide
theorem wf_RosterIq : RosterIq.WF := by decide
theorem wf_VCardAddress : VCardAddress.WF := by decide
theorem wf_VCardEmail : VCardEmail.WF := by decide
theorem wf_VCardPhone : VCardPhone.WF := by decide
theorem wf_PubSubSubscription : PubSubSubscription.WF := by decide
theorem wf_PubSubSubscriptionEvent : PubSubSubscriptionEvent.WF := by decide
theorem wf_PubSubSubscriptionOwner : PubSubSubscriptionOwner.WF := by decide
theorem wf_DataForm : DataForm.WF := by decide
theorem wf_MucOwnerIq : MucOwnerIq.WF := by decide
theorem wf_DiscoInfoIq : DiscoInfoIq.WF := by decide
theorem wf_DiscoItemsIq : DiscoItemsIq.WF := by decide
theorem wf_MamQueryIq : MamQueryIq.WF := by decide
theorem wf_Iq : Iq.WF := by decide
theorem wf_Presence : Presence.WF := by decide +kernel
theorem wf_Message : Message.WF := by decide +kernel
theorem wf_JingleRtpEncryption : JingleRtpEncryption.WF := by decide

/-! ## data forms: the value that did not survive before /repo 06b3045 -/

/-- a submit form with one text-single field `var="a"` whose value is the empty, non-null string (`<value/>`) -/
def formWitness : List Val := [.record [.opt (some 1), .record [.str []], .record [.str []],
  .list [.record [.record [.nat 9, .str [], .list []], .str [], .str "a".toList, .record [.str []], .absent]]]]

/-- it is a canonical value of the class as it is now, so `decode_encode` covers it (fixed findings
C01:field-mismatch:DataForm:form.3.*.0.1 and relatives) -/
example : DataForm.decode (DataForm.encode formWitness) = formWitness :=
  decode_encode DataForm wf_DataForm formWitness (by decide)
/-- the behaviour before the repair (a single value written only when non-EMPTY) is not a well-formed codec -/
example : ¬ DataFormOld.WF := by decide

/-- a MAM query with query id "q1" and nothing else: the value that did not survive before /repo dfee378 (fixed finding
C01:field-mismatch:MamQueryIq:queryId) -/
def mamWitness : List Val := [.str [], .str "q1".toList, .record [.opt none, .record [.str []], .record [.str []], .list []],
  .record [.record [.opt none], .absent, .absent, .record [.opt none]]]
example : MamQueryIq.decode (MamQueryIq.encode mamWitness) = mamWitness :=
  decode_encode MamQueryIq wf_MamQueryIq mamWitness (by decide)

/-! ## a recorded limitation of `QXmppStanza::Error` -/

/-- an error object with `by` and a text but neither type nor condition -/
def errorWitness : List Val := [.record [.str "a@b".toList, .opt none, .opt none, .record [.opt none, .str []], .record [.str "x".toList]]]

/-- **Recorded finding `C01:field-mismatch:StanzaError:fields-without-type-and-condition`.**  The setters accept `by`,
`code` and a text on an error that has neither type nor condition, but `toXml` writes NOTHING for such an object, so these
fields do not survive serialize-then-parse.  The schema's canonical values exclude the assignment (`wrapGuard`);
dropping that restriction, i.e. asking only that every field has a value of its type, the round trip fails: -/
theorem C01_defect_error_fields_without_condition :
    ¬ (∀ v, canonFs (match StanzaError.fields with | [.child _ fs _] => fs | _ => []) (v.headD .absent).recVals = true →
        StanzaError.decode (StanzaError.encode v) = v) := by
  intro h
  have h1 := h errorWitness (by decide)
  have h2 : (((StanzaError.decode (StanzaError.encode errorWitness)).headD .absent).recVals.getD 0 .absent).getStr = [] := by
    decide +kernel
  rw [h1] at h2
  revert h2
  decide

/-! ## tie of the hand-written schemas to the C++ source (literal drift) -/

/-- **Every tag / attribute name and namespace of every schema occurs in the bodies of the class's `toXml` and
`parse`/`fromDom`, and every string literal and `ns_*` constant of those bodies is accounted for by the schema** (or by
the explicit per-class exceptions of `Qx/Xml/Codec/Literals.lean`).  The literals are regenerated from /repo's working
tree by translators/codec_literals.py on every check run: a renamed attribute, a new or dropped field or a changed
namespace makes this obligation fail. -/
theorem codec_literals_tied : Literals.checkAll = true := by decide +kernel

/-- the check can fail: the schema of `<a h=…/>` against a source that calls the attribute `hh` or adds one -/
example : Literals.checkWith ["a", "hh"] ["ns_stream_management"] {} SmAck = false := by decide +kernel
example : Literals.checkWith ["a", "h", "extra"] ["ns_stream_management"] {} SmAck = false := by decide +kernel
example : Literals.checkWith ["a", "h"] ["ns_sasl"] {} SmAck = false := by decide +kernel
example : Literals.checkWith ["a", "h"] ["ns_stream_management"] {} SmAck = true := by decide +kernel

/-! ## non-vacuity: concrete values meeting the hypotheses -/

/-- all optional parts present, strings made of markup characters and blanks only -/
example : Bind2Request.WF ∧ Bind2Request.Canon
    [.record [.str "<&\"'> ]]>".toList], .record [], .record [], .record [.flag true, .nat 18446744073709551615]] := by
  decide
/-- …and that value meets the hypothesis of `codec_roundtrip_chars` (its strings consist of markup characters) -/
example : Qx.Xml.XmlSafe (Bind2Request.encode
    [.record [.str "<&\"'> ]]>".toList], .record [], .record [], .record [.flag true, .nat 18446744073709551615]]) := by
  decide +kernel
/-- a blank string does not (QDom would drop the text node): excluded by the property ("non-blank") -/
example : ¬ Qx.Xml.XmlSafe (Bind2Request.encode [.record [.str " ".toList], .absent, .absent, .absent]) := by decide +kernel
/-- all optional parts absent -/
example : Bind2Request.Canon [.record [.str []], .absent, .absent, .absent] := by decide
/-- repeated items, including an empty string -/
example : Bind2Feature.Canon [.record [.list [.record [.str "urn:xmpp:carbons:2".toList], .record [.str []]]]] := by decide
/-- a mandatory enumerated child and free text -/
example : Sasl2Failure.WF ∧ Sasl2Failure.Canon [.opt (some 9), .record [.str " \n<not-authorized/>".toList]] := by decide
/-- out-of-range values are excluded, not silently accepted -/
example : ¬ SmAck.Canon [.nat 4294967296] := by decide
/-- the value that did not survive before /repo e3c2af8 (`tls0rtt = true`) is a canonical value of the
repaired class, so `decode_encode` now covers it -/
example : FastFeature.Canon [.list [], .flag true] := by decide
/-- likewise "count unset" of a result-set reply (lost before /repo 4885fb5) -/
example : ResultSetReply.Canon [.record [.record [.opt none, .str "a".toList], .absent, .record [.opt none]]] := by decide
example : ¬ Sasl2Failure.Canon [.opt none, .record [.str []]] := by decide
/-- Base64 bodies: any byte string, including NUL and 0xFF; a mandatory non-empty list -/
example : Sasl2Continue.WF ∧ Sasl2Continue.Canon
    [.record [.str [Char.ofNat 0, Char.ofNat 255, 'M']], .record [.list [.record [.str "a<b".toList]]], .record [.str []]] := by
  decide
example : ¬ Sasl2Continue.Canon [.record [.str []], .record [.list []], .record [.str []]] := by decide
/-- stanza error: condition `gone` (last-match child with a text payload) carrying a redirection URI made of markup
characters, type, `by`, code and text all set -/
example : StanzaError.WF ∧ StanzaError.Canon [.record [.str "a@b".toList, .opt (some 0), .opt (some 404),
    .record [.opt (some 4), .str "xmpp:<&>\"".toList], .record [.str "gone <away>".toList]]] := by decide
/-- …the URI is part of the value only for gone / redirect: with `bad-request` it is not canonical (the class never writes it) -/
example : ¬ StanzaError.Canon [.record [.str [], .opt (some 0), .opt none,
    .record [.opt (some 0), .str "xmpp:x".toList], .record [.str []]]] := by decide
/-- …and without type and condition the object is "no error": `by` / code / text set is not canonical, all unset is -/
example : ¬ StanzaError.Canon [.record [.str "a@b".toList, .opt none, .opt none, .record [.opt none, .str []], .record [.str []]]] := by
  decide
example : StanzaError.Canon [.record [.str [], .opt none, .opt none, .record [.opt none, .str []], .record [.str []]]] := by decide
/-- roster item: the groups are a set — strictly increasing is canonical, anything else is not -/
example : RosterItem.WF ∧ RosterItem.Canon [.str "a@b".toList, .str [], .opt (some 1), .str [], .flag true,
    .list [.str [], .str "Friends".toList, .str "friends".toList], .record [.str "123".toList]] := by decide
example : ¬ RosterItem.Canon [.str [], .str [], .opt none, .str [], .flag false,
    .list [.str "b".toList, .str "a".toList], .absent] := by decide
example : ¬ RosterItem.Canon [.str [], .str [], .opt none, .str [], .flag false,
    .list [.str "a".toList, .str "a".toList], .absent] := by decide
/-- IQ envelope: the payload is an uninterpreted tree in the REST; canonical = an element no typed field claims, in the normal form
`QXmppElement` writes (`normE`) -/
example : Iq.WF ∧ Iq.Canon [.str "de".toList, .str "i1".toList, .str [], .str "a@b/<&>".toList, .nat 2,
    .list [.node (.elem "query".toList [("xmlns".toList, "urn:verif:q".toList), ("a".toList, "<\"&".toList)] [.text "t".toList, .elem "item".toList [] []])],
    .record [.str [], .opt none, .opt none, .record [.opt none, .str []], .record [.str []]]] := by decide +kernel
/-- …an `<error/>` element is claimed by the error field, so it is not a canonical member of the rest; nor is a tree that
`QXmppElement` would rewrite (an attribute with an empty value) -/
example : ¬ Iq.Canon [.str [], .str [], .str [], .str [], .nat 1, .list [.node (.elem "error".toList [] [])],
    .record [.str [], .opt none, .opt none, .record [.opt none, .str []], .record [.str []]]] := by decide +kernel
example : ¬ Iq.Canon [.str [], .str [], .str [], .str [], .nat 1, .list [.node (.elem "q".toList [("a".toList, [])] [])],
    .record [.str [], .opt none, .opt none, .record [.opt none, .str []], .record [.str []]]] := by decide +kernel
/-- presence: signed priority, a conjunctive guard (capabilities need hash, node AND ver), addresses with mandatory jid and type -/
example : FTy.canon (.sint 31 true) (.int true 128) = true ∧ FTy.canon (.sint 31 true) (.int true 0) = false := by decide
/-- MUC item: an enum looked up after lower-casing -/
example : MucItem.WF ∧ MucItem.Canon [.opt (some 4), .str [], .str "nick".toList, .opt (some 3), .record [.str []], .record [.str []]] := by
  decide

end Qx.C01Codec
