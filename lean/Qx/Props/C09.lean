import Qx.Proofs.C09
/-!
# C09 — stream management: a stanza is confirmed only when acked, else resent, in order

Property theorems only (model: `Qx/Model/C09Sm.lean`, helpers: `Qx/Proofs/C09.lean`).
`run init ops` is the `StreamAckManager` after an arbitrary history `ops` of
send / `<a h/>` / `<r/>` / received element / session closed / `<enabled/>` / `<resume/>` request /
`<resumed h/>` / `resetCache`, each write succeeding or failing (`up`), in any order and of any length.
"After history `pre`, operation `op` outputs `o`" is written `o ∈ (step (run init pre).1 op).2`;
`Qx.C09.mem_run` (Proofs) shows that the output of a whole run consists of exactly these.
Counters are unbounded; the 32-bit wrap of the C++ counters is outside the model.
-/
namespace Qx.C09

/-! ## Key invariant -/

/-- **Key invariant.** After every history the sequence numbers in the unacknowledged map are the
`n` consecutive numbers ending at `lastOut` (so: strictly increasing, all between 1 and `lastOut`,
and the next `++lastOut` is a fresh key). -/
theorem unacked_keys_invariant (ops : List Op) :
    let s := (run init ops).1
    let n := s.unacked.length
    n ≤ s.lastOut ∧
    keys s.unacked = List.range' (s.lastOut + 1 - n) n ∧
    (keys s.unacked).Pairwise (· < ·) ∧
    ∀ k ∈ keys s.unacked, 1 ≤ k ∧ k ≤ s.lastOut := by
  exact keys_facts _ (Inv.reachable ops).keys

/-! ## Reports -/

/-- **No report fires twice.** In the whole output of any history every packet id occurs at most once
among the reports (of any kind: sent, acknowledged, write error, disconnected). -/
theorem report_at_most_once (ops : List Op) (p : Nat) :
    (reportedIds (run init ops).2).count p ≤ 1 := by
  have hnd := (Inv.reachable ops).nodup
  simp only [pool, List.nodup_append] at hnd
  exact List.nodup_iff_count.mp hnd.2.1 p

/-- **No packet is forgotten.** Every packet created so far is either still stored (waiting for an
ack, to be resent) or has its report — never both, never neither. -/
theorem every_packet_pending_or_reported (ops : List Op) (p : Nat)
    (hp : p < (run init ops).1.nextId) :
    (p ∈ ids (run init ops).1.unacked ∧ p ∉ reportedIds (run init ops).2) ∨
    (p ∉ ids (run init ops).1.unacked ∧ p ∈ reportedIds (run init ops).2) := by
  have hinv := Inv.reachable ops
  have hnd := hinv.nodup
  simp only [pool, List.nodup_append] at hnd
  rcases List.mem_append.mp (hinv.all p hp) with h | h
  · exact Or.inl ⟨h, fun h2 => hnd.2.2 p h p h2 rfl⟩
  · exact Or.inr ⟨fun h2 => hnd.2.2 p h2 p h rfl, h⟩

/-- **Acknowledged only if covered.** Whenever, after any history, an operation reports packet `p`
as *acknowledged*, that operation carries a handled count `h` (`op.ackH = some h`: it is the
processing of `<a h/>` — then stream management is on — or of `<resumed h/>`, with or without
re-entrant continuations), and there is a number `k ≤ h` such that `p` is stored under `k` at that
moment, or — only possible with re-entrant continuations and an `h` beyond the last number used —
`p` was sent by a continuation during this very operation and numbered `k` beyond `lastOut`. -/
theorem ack_only_if_covered (pre : List Op) (op : Op) (p : Nat)
    (hm : Out.report p .acked ∈ (step (run init pre).1 op).2) :
    ∃ h k, op.ackH = some h ∧ (op.isA = true → (run init pre).1.enabled = true) ∧ k ≤ h ∧
      ((k, p) ∈ (run init pre).1.unacked ∨
       ((run init pre).1.lastOut < k ∧ (run init pre).1.nextId ≤ p)) :=
  step_acked _ op p hm

/-- … the same, phrased on the output of a whole history: every *acknowledged* report in it was
produced at some position by an operation whose `h` covered the packet's number at that position. -/
theorem ack_only_if_covered_run (ops : List Op) (p : Nat)
    (hm : Out.report p .acked ∈ (run init ops).2) :
    ∃ pre op post h k, ops = pre ++ op :: post ∧ op.ackH = some h ∧
      (op.isA = true → (run init pre).1.enabled = true) ∧ k ≤ h ∧
      ((k, p) ∈ (run init pre).1.unacked ∨
       ((run init pre).1.lastOut < k ∧ (run init pre).1.nextId ≤ p)) := by
  obtain ⟨pre, op, post, he, hs⟩ := (mem_run init ops _).mp hm
  obtain ⟨h, k, h1, h2, h3, h4⟩ := ack_only_if_covered pre op p hs
  exact ⟨pre, op, post, h, k, he, h1, h2, h3, h4⟩

/-- The sequence number of a stored packet is unambiguous (so "`k ≤ h`" above speaks about *the*
number of `p`). -/
theorem stored_number_unique (ops : List Op) (p k₁ k₂ : Nat)
    (h1 : (k₁, p) ∈ (run init ops).1.unacked) (h2 : (k₂, p) ∈ (run init ops).1.unacked) : k₁ = k₂ := by
  have hnd := (Inv.reachable ops).nodup
  simp only [pool, List.nodup_append] at hnd
  exact ids_nodup_unique hnd.1 h1 h2

/-- **Confirmed when acked** (the converse direction): with stream management on, `<a h/>` reports
every stored packet whose number is `≤ h` as acknowledged and removes exactly those. -/
theorem acked_if_covered (pre : List Op) (h k p : Nat)
    (hen : (run init pre).1.enabled = true) (hmem : (k, p) ∈ (run init pre).1.unacked) (hk : k ≤ h) :
    Out.report p .acked ∈ (step (run init pre).1 (.ack h)).2 ∧
    (step (run init pre).1 (.ack h)).1.unacked =
      (run init pre).1.unacked.filter (fun e => decide (h < e.1)) := by
  obtain ⟨a, _, hkf, _⟩ := (Inv.reachable pre).keys
  simp only [step, hen, if_true]
  refine ⟨?_, hkf.keptPart_eq_filter⟩
  rw [hkf.ackedPart_eq_filter]
  simp only [ackReports, List.mem_map, List.mem_filter, decide_eq_true_eq]
  exact ⟨(k, p), ⟨hmem, hk⟩, rfl⟩

/-! ## Resending -/

/-- **Resent exactly, in order, before newer traffic — resumption.** Split any history at a
`<resumed h/>` whose writes succeed: what reaches the wire is everything written before, then
exactly the stored packets with number `> h` in their original (sequence) order followed by one
`<r/>` (nothing if there is none), then whatever later operations write. -/
theorem resend_exact_in_order_resumed (pre post : List Op) (h : Nat) :
    let s := (run init pre).1
    wireOf (run init (pre ++ .resumed h true :: post)).2 =
      wireOf (run init pre).2 ++
      resendBlock (s.unacked.filter fun e => decide (h < e.1)) ++
      wireOf (run (step s (.resumed h true)).1 post).2 := by
  intro s
  obtain ⟨a, _, hkf, _⟩ := (Inv.reachable pre).keys
  rw [run_append, run_cons]
  simp only [wireOf_append, wireOf_step_resumed_up, List.append_assoc]
  rw [hkf.keptPart_eq_filter]

/-- **… — new session.** Same for `<enabled/>` (fresh session after a failed resume): *all* stored
packets, in their original order, then one `<r/>`. -/
theorem resend_exact_in_order_enabledNew (pre post : List Op) :
    let s := (run init pre).1
    wireOf (run init (pre ++ .enabledNew true :: post)).2 =
      wireOf (run init pre).2 ++ resendBlock s.unacked ++
      wireOf (run (step s (.enabledNew true)).1 post).2 := by
  intro s
  rw [run_append, run_cons]
  simp only [wireOf_append, wireOf_step_enabledNew_up, List.append_assoc]
  rfl

/-- If the socket write fails during `<resumed/>` / `<enabled/>` processing nothing reaches the wire
(the packets stay stored: see `every_packet_pending_or_reported`). -/
theorem resend_nothing_when_write_fails (s : St) (h : Nat) :
    wireOf (step s (.resumed h false)).2 = [] ∧ wireOf (step s (.enabledNew false)).2 = [] :=
  ⟨wireOf_step_resumed_down s h, wireOf_step_enabledNew_down s⟩

/-! ### Delivery reports whose continuation sends (re-entrancy) -/

/-- Without sending continuations the re-entrant operations are the plain ones. -/
theorem reentrant_ops_without_sending_continuations (s : St) (h : Nat) (up : Bool) :
    step s (.ackRe h [] up) = step s (.ack h) ∧ step s (.resumedRe h [] up) = step s (.resumed h up) :=
  ⟨step_ackRe_nil s h up, step_resumedRe_nil s h up⟩

/-- **`<a/>` site.** With stream management on, every stanza a continuation sends while `<a h/>` is
processed is numbered and stored behind everything already stored (or, if `h` is beyond, confirmed
at once): nothing goes to the wire unnumbered. -/
theorem ackRe_reentrant_sends_are_numbered (s : St) (h : Nat) (re : List Nat) (up : Bool)
    (hen : s.enabled = true) :
    ∀ p ∈ pktsOf (step s (.ackRe h re up)).2,
      p ∈ ids (step s (.ackRe h re up)).1.unacked ∨ Out.report p .acked ∈ (step s (.ackRe h re up)).2 := by
  simp only [step, hen, if_true]
  exact ackPhase_stored s h re up hen

/-- **Partial (`<resumed/>` site).** `resend_exact_in_order_resumed` extends to re-entrant
continuations as long as none of the packets being acknowledged has a sending continuation.
Missing for the full statement (every `re`): a continuation that sends while `<resumed/>` is
processed — see `C09_defect_resumed_reentrant_send_unnumbered_and_first`. -/
theorem resend_exact_in_order_resumedRe_partial (pre post : List Op) (h : Nat) (re : List Nat)
    (hn : ∀ e ∈ (run init pre).1.unacked, e.1 ≤ h → re.contains e.2 = false) :
    let s := (run init pre).1
    wireOf (run init (pre ++ .resumedRe h re true :: post)).2 =
      wireOf (run init pre).2 ++
      resendBlock (s.unacked.filter fun e => decide (h < e.1)) ++
      wireOf (run (step s (.resumedRe h re true)).1 post).2 := by
  intro s
  obtain ⟨a, _, hkf, _⟩ := (Inv.reachable pre).keys
  rw [run_append, run_cons, step_resumedRe_none _ h re true hn]
  simp only [wireOf_append, wireOf_step_resumed_up, List.append_assoc]
  rw [hkf.keptPart_eq_filter]

/-- **Defect of today's code.** Full statement: for *every* set of sending continuations, processing
`<resumed h/>` writes the stored packets with number `> h` first (then whatever the continuations
send), and every packet it writes is stored, i.e. numbered, afterwards.  False: `onResumed` fires
the reports before stream management is switched on and before the resend, so a stanza sent by a
continuation is written *before* the resent ones and is *not* numbered, although the server counts
it on the resumed session.  Witness: two stanzas stored, connection lost, `<resumed h=1/>`, the
continuation of packet 0 sends: wire = new packet 2, then packet 1, `<r/>`; packet 2 is reported
"sent" and not stored. -/
theorem C09_defect_resumed_reentrant_send_unnumbered_and_first :
    ¬ (∀ (pre : List Op) (h : Nat) (re : List Nat),
        let s := (run init pre).1
        (∃ newer, wireOf (step s (.resumedRe h re true)).2 =
            resendBlock (s.unacked.filter fun e => decide (h < e.1)) ++ newer) ∧
        ∀ p ∈ pktsOf (step s (.resumedRe h re true)).2, p ∈ ids (step s (.resumedRe h re true)).1.unacked) := by
  intro hall
  have := (hall [.enabledNew true, .send true true, .send true true, .sessionClosed] 1 [0]).2 2 (by decide)
  revert this
  decide

/-! ### `<failed h/>`: the handled count of a failed resumption -/

/-- Today `onResumeFailed` does nothing at all, whatever `h` the server reports. -/
theorem resumeFailed_is_ignored (s : St) (h : Option Nat) : step s (.resumeFailed h) = (s, []) := rfl

/-- **Defect of today's code.** Full statement ("covered ones are never resent", coverage announced
by the `h` of `<failed/>`, XEP-0198 section 5): after `<failed h/>` no stored packet with number
`≤ h` is ever written again.  False: the count is not read, so the new session retransmits what the
server had already handled.  Witness: one stanza stored under number 1, connection lost,
`<failed h=1/>`, `<enabled/>`: packet 0 is written again.  The part that holds is
`covered_never_resent` (coverage announced by `<a/>` or `<resumed/>`). -/
theorem C09_defect_failed_h_ignored_covered_resent :
    ¬ (∀ (pre post : List Op) (h k p : Nat),
        (k, p) ∈ (run init pre).1.unacked → k ≤ h →
        p ∉ pktsOf (run (run init pre).1 (.resumeFailed (some h) :: post)).2) := by
  intro hall
  have := hall [.enabledNew true, .send true true, .sessionClosed] [.enabledNew true] 1 1 0
    (by decide) (by decide)
  revert this
  decide

/-- **Covered packets are never resent.** Once a packet has a report (in particular once it was
acknowledged), no continuation of the history puts it on the wire again. -/
theorem covered_never_resent (pre post : List Op) (p : Nat)
    (hp : p ∈ reportedIds (run init pre).2) :
    p ∉ pktsOf (run (run init pre).1 post).2 :=
  run_pkts_not_reported post _ _ (Inv.reachable pre) p hp

/-- … stated for an *acknowledged* report. -/
theorem acknowledged_never_resent (pre post : List Op) (p : Nat)
    (hp : Out.report p .acked ∈ (run init pre).2) :
    p ∉ pktsOf (run (run init pre).1 post).2 := by
  apply covered_never_resent
  simp only [reportedIds, List.mem_filterMap]
  exact ⟨_, hp, rfl⟩

/-- **Renumbering from one.** `<enabled/>` (in any state whatsoever) renumbers the stored packets
`1, 2, …, n` keeping their order, sets `lastOut = n` and the inbound counter to 0. -/
theorem renumber_from_one (s : St) (up : Bool) :
    (step s (.enabledNew up)).1.unacked =
      (List.range' 1 s.unacked.length).zip (ids s.unacked) ∧
    (step s (.enabledNew up)).1.lastOut = s.unacked.length ∧
    (step s (.enabledNew up)).1.lastIn = 0 ∧
    (step s (.enabledNew up)).1.enabled = true := by
  simp [step, renumber_eq_zip]

/-! ## The handled-count reported to the server -/

/-- **h = stanzas received on that session.** Whenever, after any history `pre`, an `<a h=k/>` or a
`<resume h=k/>` is written, `k` is the number of message / presence / iq elements received on the
current stream-management session: since its `<enabled/>`, while stream management was on
(nonzas, `<a/>`, `<r/>`, and anything received while it was off are not counted).
(Before repo commit 6d4ec74 this was false: the counter also ran while stream management was off;
the old model proved the negation with the witness `[enabledNew, sessionClosed, recv message]`
followed by `resumeReq`, which wrote `resume 1`; the witness is kept in the harness corpus.) -/
theorem h_equals_session_stanzas (pre : List Op) (op : Op) (k : Nat)
    (hm : Out.wire (.a k) ∈ (step (run init pre).1 op).2 ∨
          Out.wire (.resume k) ∈ (step (run init pre).1 op).2) :
    k = stanzasOnSession pre := by
  have hk : k = (run init pre).1.lastIn := by
    rcases hm with h | h
    · exact (step_wire_a _ op k h).1
    · exact (step_wire_resume _ op k h).1
  rw [hk]
  exact (run_sessionCount pre init (false, 0) rfl rfl).2

/-- An `<a/>` is only ever written in answer to `<r/>` while stream management is on. -/
theorem a_only_when_enabled (pre : List Op) (op : Op) (k : Nat)
    (hm : Out.wire (.a k) ∈ (step (run init pre).1 op).2) :
    (run init pre).1.enabled = true ∧ op = .ackReq true :=
  (step_wire_a _ op k hm).2

/-- An element received while stream management is off leaves the counter alone. -/
theorem recv_not_counted_when_disabled (s : St) (k : RecvKind) (hd : s.enabled = false) :
    step s (.recv k) = (s, []) := by
  simp [step, hd]

/-! ## Documented behaviour of the code (so it cannot drift silently) -/

/-- Without stream management, or for a nonza, `send` reports at once — *sent* if the write
succeeded, *write error* otherwise — and stores nothing: such a packet is never resent. -/
theorem send_without_sm_reports_immediately (s : St) (stanza up : Bool)
    (h : s.enabled = false ∨ stanza = false) :
    (step s (.send stanza up)).1.unacked = s.unacked ∧
    (step s (.send stanza up)).2 =
      emit up (.pkt s.nextId) ++ [.report s.nextId (if up then .sent else .writeError), .written up] := by
  rcases h with h | h <;> simp [step, sendStep, h]

/-- With stream management on, a stanza is stored under the next number and gets no report yet —
also when the write failed (`up = false`, `send` returns *not written*): it waits for resumption. -/
theorem send_with_sm_stores_and_waits (s : St) (up : Bool) (h : s.enabled = true) :
    (step s (.send true up)).1.unacked = s.unacked ++ [(s.lastOut + 1, s.nextId)] ∧
    (step s (.send true up)).1.lastOut = s.lastOut + 1 ∧
    reportedIds (step s (.send true up)).2 = [] ∧
    Out.written up ∈ (step s (.send true up)).2 := by
  simp [step, sendStep, h, reportedIds_append]

/-- An `<a/>` arriving while stream management is off (e.g. after the session closed) is ignored. -/
theorem ack_ignored_when_disabled (s : St) (h : Nat) (hd : s.enabled = false) :
    step s (.ack h) = (s, []) := by
  simp [step, hd]

/-- A stale `<a h/>` (h below every stored number) changes nothing and reports nothing. -/
theorem stale_ack_does_nothing (pre : List Op) (h : Nat)
    (hs : ∀ e ∈ (run init pre).1.unacked, h < e.1) :
    step (run init pre).1 (.ack h) = ((run init pre).1, []) := by
  obtain ⟨a, _, hkf, _⟩ := (Inv.reachable pre).keys
  simp only [step]
  split
  · rw [hkf.keptPart_eq_filter, hkf.ackedPart_eq_filter, filter_gt_self hs, filter_le_nil hs]
    rfl
  · rfl

/-- An `<a h/>` with `h` at or beyond the last number used (there is no upper check) confirms
everything stored. -/
theorem ack_beyond_confirms_everything (pre : List Op) (h : Nat)
    (hen : (run init pre).1.enabled = true) (hb : (run init pre).1.lastOut ≤ h) :
    (step (run init pre).1 (.ack h)).1.unacked = [] ∧
    reportedIds (step (run init pre).1 (.ack h)).2 = ids (run init pre).1.unacked := by
  obtain ⟨a, _, hkf, _⟩ := (Inv.reachable pre).keys
  have hall := (unacked_keys_invariant pre).2.2.2
  have hle : ∀ e ∈ (run init pre).1.unacked, e.1 ≤ h := by
    intro e he
    have := hall e.1 (by simp only [keys, List.mem_map]; exact ⟨e, he, rfl⟩)
    omega
  simp only [step, hen, if_true]
  rw [hkf.keptPart_eq_filter, hkf.ackedPart_eq_filter, reportedIds_ackReports]
  constructor
  · apply List.filter_eq_nil_iff.mpr
    intro e he; have := hle e he; simp; omega
  · congr 1
    apply List.filter_eq_self.mpr
    intro e he; simpa using hle e he

/-! ## Non-vacuity: the hypotheses above are met by concrete, non-trivial histories -/

-- acknowledged only if covered / confirmed when acked: two stored stanzas, `<a h=1/>` confirms the first only
example : (run init [.enabledNew true, .send true true, .send true true, .ack 1]).2 =
    [.wire (.pkt 0), .wire .r, .written true, .wire (.pkt 1), .wire .r, .written true, .report 0 .acked] := by decide
example : (run init [.enabledNew true, .send true true, .send true true, .ack 1]).1.unacked = [(2, 1)] := by decide
-- resumption resends exactly the uncovered ones, in order, then <r/>
example : wireOf (step (run init [.enabledNew true, .send true true, .send true false, .send true true,
    .sessionClosed]).1 (.resumed 1 true)).2 = [.pkt 1, .pkt 2, .r] := by decide
-- a new session resends all of them renumbered from 1
example : (step (run init [.enabledNew true, .send true true, .send true true, .send true true, .ack 1,
    .sessionClosed]).1 (.enabledNew true)) =
    ({ enabled := true, unacked := [(1, 1), (2, 2)], lastOut := 2, lastIn := 0, nextId := 3 },
     [.wire (.pkt 1), .wire (.pkt 2), .wire .r]) := by decide
-- h: two stanzas and a nonza received, <r/> is answered with h=2
example : (step (run init [.enabledNew true, .recv .message, .recv .nonza, .recv .iq]).1 (.ackReq true)).2 =
    [.wire (.a 2)] := by decide
-- covered_never_resent: hypothesis met (packet 0 acknowledged), packet 1 still resent later
example : 0 ∈ reportedIds (run init [.enabledNew true, .send true true, .send true true, .ack 1]).2 := by decide
example : pktsOf (run (run init [.enabledNew true, .send true true, .send true true, .ack 1]).1
    [.sessionClosed, .resumed 1 true]).2 = [1] := by decide
-- acked_if_covered: stream management on, packet 0 stored under number 1, `<a h=1/>` covers it
example : (run init [.enabledNew true, .send true true, .send true true]).1.enabled = true ∧
    (1, 0) ∈ (run init [.enabledNew true, .send true true, .send true true]).1.unacked := by decide
-- h theorems: an `<a/>` and a `<resume/>` are really written after histories meeting the hypotheses
example : Out.wire (.a 2) ∈ (step (run init [.enabledNew true, .recv .message, .sessionClosed,
    .resumed 0 true, .recv .iq]).1 (.ackReq true)).2 := by decide
example : Out.wire (.resume 1) ∈ (step (run init [.enabledNew true, .recv .presence, .recv .nonza,
    .sessionClosed]).1 (.resumeReq true)).2 := by decide
-- the former defect witness: the stanza received while stream management is off is not counted
example : (step (run init [.enabledNew true, .sessionClosed, .recv .message]).1 (.resumeReq true)).2 =
    [.wire (.resume 0)] := by decide
example : stanzasOnSession [.enabledNew true, .recv .message, .sessionClosed, .recv .presence,
    .resumed 0 true, .recv .iq] = 2 := by decide
-- stale ack / ack beyond: hypotheses met
example : ∀ e ∈ (run init [.enabledNew true, .send true true, .send true true, .ack 1]).1.unacked, 1 < e.1 := by decide
example : (run init [.enabledNew true, .send true true, .send true true]).1.enabled = true ∧
    (run init [.enabledNew true, .send true true, .send true true]).1.lastOut ≤ 7 := by decide
-- sending without stream management / a nonza with it
example : (run init [.send true true, .send true false, .enabledNew true, .send false true]).2 =
    [.wire (.pkt 0), .report 0 .sent, .written true, .report 1 .writeError, .written false,
     .wire (.pkt 2), .report 2 .sent, .written true] := by decide
-- resetCache reports what is still stored as disconnected
example : (run init [.enabledNew true, .send true true, .sessionClosed, .resetCache]).2 =
    [.wire (.pkt 0), .wire .r, .written true, .report 0 .disconnected] := by decide

-- re-entrant continuations at the `<a/>` site: both reports send; the new stanzas are numbered 3 and 4 behind everything
example : (step (run init [.enabledNew true, .send true true, .send true true]).1 (.ackRe 2 [0, 1] true)) =
    ({ enabled := true, unacked := [(3, 2), (4, 3)], lastOut := 4, lastIn := 0, nextId := 4 },
     [.report 0 .acked, .wire (.pkt 2), .wire .r, .written true,
      .report 1 .acked, .wire (.pkt 3), .wire .r, .written true]) := by decide
-- … and with `h` beyond the last number used the loop reaches the first of them
example : (step (run init [.enabledNew true, .send true true, .send true true]).1 (.ackRe 3 [0, 1] true)).1.unacked
    = [(4, 3)] := by decide
-- the `<resumed/>` defect witness, spelled out: new packet 2 first, reported "sent", not stored
example : (step (run init [.enabledNew true, .send true true, .send true true, .sessionClosed]).1
    (.resumedRe 1 [0] true)) =
    ({ enabled := true, unacked := [(2, 1)], lastOut := 2, lastIn := 0, nextId := 3 },
     [.report 0 .acked, .wire (.pkt 2), .report 2 .sent, .written true, .wire (.pkt 1), .wire .r]) := by decide
-- partial theorem: hypothesis met with a sending continuation that is not among the acknowledged ones
example : ∀ e ∈ (run init [.enabledNew true, .send true true, .send true true, .sessionClosed]).1.unacked,
    e.1 ≤ 1 → [1].contains e.2 = false := by decide
-- the `<failed h/>` defect witness: packet 0, covered by h = 1, is written again on the new session
example : pktsOf (run (run init [.enabledNew true, .send true true, .sessionClosed]).1
    [.resumeFailed (some 1), .enabledNew true]).2 = [0] := by decide

end Qx.C09
