import Qx.Proofs.C09
/-!
# C09 — stream management: a stanza is confirmed only when acked, else resent, in order

Property theorems only (model: `Qx/Model/C09Sm.lean`, helpers: `Qx/Proofs/C09.lean`).
`run init ops` is the `StreamAckManager` after an arbitrary history `ops` of
send / `<a h/>` / `<r/>` / received element / session closed / `<enabled/>` / `<resume/>` request /
`<resumed h/>` / `<failed [h]/>` / `resetCache`, each write succeeding or failing (`up`), in any order
and of any length.  The operations that fire delivery reports carry `re`, the ids of the packets
whose report continuation sends one new stanza from inside the report (re-entrancy); `re = []` is a
client without such continuations, and every theorem below that mentions `re` holds for every `re`.
"After history `pre`, operation `op` outputs `o`" is written `o ∈ (step (run init pre).1 op).2`;
`Qx.C09.mem_run` (Proofs) shows that the output of a whole run consists of exactly these.
Counters are unbounded; the 32-bit wrap of the C++ counters is outside the model and outside every
theorem here (the harness probes it on the real class).
-/
namespace Qx.C09

/-! ## Key invariant -/

/-- **Key invariant.** After every history the sequence numbers in the unacknowledged map are the
`n` consecutive numbers ending at `lastOut` (so: strictly increasing, all between 1 and `lastOut`,
and the next `++lastOut` is a fresh key). -/
theorem unacked_keys_invariant (ops : List Op) :
    let s := (run init ops).1
    let n := s.unacked.length
    n ≤ s.lastOut ∧
    keys s.unacked = List.range' (s.lastOut + 1 - n) n ∧
    (keys s.unacked).Pairwise (· < ·) ∧
    ∀ k ∈ keys s.unacked, 1 ≤ k ∧ k ≤ s.lastOut := by
  exact keys_facts _ (Inv.reachable ops).keys

/-! ## Reports -/

/-- **No report fires twice.** In the whole output of any history every packet id occurs at most once
among the reports (of any kind: sent, acknowledged, write error, disconnected). -/
theorem report_at_most_once (ops : List Op) (p : Nat) :
    (reportedIds (run init ops).2).count p ≤ 1 := by
  have hnd := (Inv.reachable ops).nodup
  simp only [pool, List.nodup_append] at hnd
  exact List.nodup_iff_count.mp hnd.2.1 p

/-- **No packet is forgotten.** Every packet created so far — also one sent from inside a delivery
report — is either still stored (waiting for an ack, to be resent) or has its report; never both,
never neither. -/
theorem every_packet_pending_or_reported (ops : List Op) (p : Nat)
    (hp : p < (run init ops).1.nextId) :
    (p ∈ ids (run init ops).1.unacked ∧ p ∉ reportedIds (run init ops).2) ∨
    (p ∉ ids (run init ops).1.unacked ∧ p ∈ reportedIds (run init ops).2) := by
  have hinv := Inv.reachable ops
  have hnd := hinv.nodup
  simp only [pool, List.nodup_append] at hnd
  rcases List.mem_append.mp (hinv.all p hp) with h | h
  · exact Or.inl ⟨h, fun h2 => hnd.2.2 p h p h2 rfl⟩
  · exact Or.inr ⟨fun h2 => hnd.2.2 p h2 p h rfl, h⟩

/-- After `resetCache` nothing is stored, hence (previous theorem) every packet created so far has
its report — including stanzas that report continuations sent while `resetCache` was running. -/
theorem resetCache_leaves_nothing_unreported (pre : List Op) (re : List Nat) (up : Bool) (p : Nat)
    (hp : p < (run init (pre ++ [.resetCache re up])).1.nextId) :
    p ∈ reportedIds (run init (pre ++ [.resetCache re up])).2 := by
  have hu : (run init (pre ++ [.resetCache re up])).1.unacked = [] := by
    rw [run_append]
    simp only [run, step]
    exact (discAll_fields _ re up).1
  rcases every_packet_pending_or_reported _ p hp with h | h
  · rw [hu] at h; simp [ids] at h
  · exact h.2

/-- **Acknowledged only if covered.** Whenever, after any history, an operation reports packet `p`
as *acknowledged*, `p` is stored at that moment under a sequence number `k`, and `k ≤ h` where `h`
is either the handled count of the element being processed (`op.ackH = some h`: `<a h/>` — then
stream management is on — or `<resumed h/>`) or the handled count a `<failed h/>` has left behind
(`handled = some h`, see `handled_only_from_failed`). -/
theorem ack_only_if_covered (pre : List Op) (op : Op) (p : Nat)
    (hm : Out.report p .acked ∈ (step (run init pre).1 op).2) :
    ∃ h k, k ≤ h ∧ (k, p) ∈ (run init pre).1.unacked ∧
      ((op.ackH = some h ∧ (op.isA = true → (run init pre).1.enabled = true)) ∨
       (run init pre).1.handled = some h) :=
  step_acked _ op p hm

/-- A pending handled count can only come from a `<failed h/>` received earlier. -/
theorem handled_only_from_failed (ops : List Op) (h : Nat)
    (hh : (run init ops).1.handled = some h) : Op.resumeFailed (some h) ∈ ops := by
  rcases run_handled ops init h hh with h1 | h1
  · cases h1
  · exact h1

/-- … the same, phrased on the output of a whole history: every *acknowledged* report in it was
produced at some position where an `h` received from the server covered the packet's number. -/
theorem ack_only_if_covered_run (ops : List Op) (p : Nat)
    (hm : Out.report p .acked ∈ (run init ops).2) :
    ∃ pre op post h k, ops = pre ++ op :: post ∧ k ≤ h ∧ (k, p) ∈ (run init pre).1.unacked ∧
      ((op.ackH = some h ∧ (op.isA = true → (run init pre).1.enabled = true)) ∨
       Op.resumeFailed (some h) ∈ pre) := by
  obtain ⟨pre, op, post, he, hs⟩ := (mem_run init ops _).mp hm
  obtain ⟨h, k, h1, h2, h3⟩ := ack_only_if_covered pre op p hs
  refine ⟨pre, op, post, h, k, he, h1, h2, ?_⟩
  rcases h3 with h3 | h3
  · exact Or.inl h3
  · exact Or.inr (handled_only_from_failed pre h h3)

/-- The sequence number of a stored packet is unambiguous (so "`k ≤ h`" above speaks about *the*
number of `p`). -/
theorem stored_number_unique (ops : List Op) (p k₁ k₂ : Nat)
    (h1 : (k₁, p) ∈ (run init ops).1.unacked) (h2 : (k₂, p) ∈ (run init ops).1.unacked) : k₁ = k₂ := by
  have hnd := (Inv.reachable ops).nodup
  simp only [pool, List.nodup_append] at hnd
  exact ids_nodup_unique hnd.1 h1 h2

/-- **Confirmed when acked** (the converse direction): with stream management on, `<a h/>` reports
every stored packet whose number is `≤ h` as acknowledged; and (client without sending
continuations) what stays stored is exactly the packets with number `> h`. -/
theorem acked_if_covered (pre : List Op) (h k p : Nat) (re : List Nat) (up : Bool)
    (hen : (run init pre).1.enabled = true) (hmem : (k, p) ∈ (run init pre).1.unacked) (hk : k ≤ h) :
    Out.report p .acked ∈ (step (run init pre).1 (.ack h re up)).2 ∧
    (step (run init pre).1 (.ack h [] up)).1.unacked =
      (run init pre).1.unacked.filter (fun e => decide (h < e.1)) := by
  obtain ⟨a, _, hkf, _⟩ := (Inv.reachable pre).keys
  simp only [step, hen, if_true]
  refine ⟨?_, ?_⟩
  · apply fire_reports .acked re up _ _ (k, p)
    rw [hkf.ackedPart_eq_filter]
    simp [hmem, hk]
  · rw [fire_nil]; exact hkf.keptPart_eq_filter

/-! ## Resending -/

/-- **Resent exactly, in order, before newer traffic — resumption.** Split any history at a
`<resumed h/>` whose writes succeed, for any set `re` of sending continuations: what reaches the
wire is everything written before, then exactly the stored packets with number `> h` (and beyond a
pending `<failed/>` count, if any) in their original order followed by one `<r/>` (nothing if there
is none), then `newer` — what the continuations of the reports send, all of it packets created
during this operation — then whatever later operations write. -/
theorem resend_exact_in_order_resumed (pre post : List Op) (h : Nat) (re : List Nat) :
    let s := (run init pre).1
    ∃ newer : List Wire,
      wireOf (run init (pre ++ .resumed h re true :: post)).2 =
        wireOf (run init pre).2 ++
        resendBlock (beyond s.handled (s.unacked.filter fun e => decide (h < e.1))) ++ newer ++
        wireOf (run (step s (.resumed h re true)).1 post).2 ∧
      (∀ i, Wire.pkt i ∈ newer → s.nextId ≤ i) ∧ (re = [] → newer = []) := by
  intro s
  obtain ⟨a, _, hkf, _⟩ := (Inv.reachable pre).keys
  obtain ⟨a', _, hkf', _⟩ := keysInv_kept s h (Inv.reachable pre).keys
  have hu := takeHandled_eq_beyond { s with unacked := keptPart h s.unacked } hkf'
  simp only at hu
  rw [hkf.keptPart_eq_filter] at hu
  refine ⟨wireOf (fire .acked re true
      (enableCore (takeHandled { s with unacked := keptPart h s.unacked }).1 false true).1
      (takeHandled { s with unacked := keptPart h s.unacked }).2).2 ++
    wireOf (fire .acked re true (fire .acked re true
      (enableCore (takeHandled { s with unacked := keptPart h s.unacked }).1 false true).1
      (takeHandled { s with unacked := keptPart h s.unacked }).2).1 (ackedPart h s.unacked)).2, ?_, ?_, ?_⟩
  · rw [run_append, run_cons]
    simp only [step, wireOf_append, wireOf_enableCore_up, List.append_assoc]
    rw [← hu, hkf.keptPart_eq_filter]
  · intro i hi
    have tf := takeHandled_fields { s with unacked := keptPart h s.unacked }
    have ef := enableCore_fields (takeHandled { s with unacked := keptPart h s.unacked }).1 false true
    have m1 := (fire_mono .acked re true (takeHandled { s with unacked := keptPart h s.unacked }).2
      (enableCore (takeHandled { s with unacked := keptPart h s.unacked }).1 false true).1).1
    simp only at tf
    have key : ∀ (o : List Out), Wire.pkt i ∈ wireOf o → i ∈ pktsOf o := by
      intro o ho
      simp only [wireOf, pktsOf, List.mem_filterMap] at ho ⊢
      obtain ⟨x, hx, hw⟩ := ho
      exact ⟨x, hx, by cases x <;> simp_all⟩
    rcases List.mem_append.mp hi with hi | hi
    · have := fire_pkts .acked re true _ _ i (key _ hi); omega
    · have := fire_pkts .acked re true _ _ i (key _ hi); omega
  · intro hre; subst hre
    rw [wireOf_fire_nil, wireOf_fire_nil]; rfl

/-- **… — new session.** Same for `<enabled/>` (fresh session after a failed resume): *all* stored
packets — except those a `<failed h/>` declared handled — in their original order, then one `<r/>`,
then what the continuations of the reports send. -/
theorem resend_exact_in_order_enabledNew (pre post : List Op) (re : List Nat) :
    let s := (run init pre).1
    ∃ newer : List Wire,
      wireOf (run init (pre ++ .enabledNew re true :: post)).2 =
        wireOf (run init pre).2 ++ resendBlock (beyond s.handled s.unacked) ++ newer ++
        wireOf (run (step s (.enabledNew re true)).1 post).2 ∧
      (∀ i, Wire.pkt i ∈ newer → s.nextId ≤ i) ∧ (re = [] → newer = []) := by
  intro s
  obtain ⟨a, _, hkf, _⟩ := (Inv.reachable pre).keys
  have hu := takeHandled_eq_beyond s hkf
  refine ⟨wireOf (fire .acked re true (enableCore (takeHandled s).1 true true).1 (takeHandled s).2).2, ?_, ?_, ?_⟩
  · rw [run_append, run_cons]
    simp only [step, wireOf_append, wireOf_enableCore_up, List.append_assoc]
    rw [← hu]
  · intro i hi
    have tf := takeHandled_fields s
    have ef := enableCore_fields (takeHandled s).1 true true
    have : i ∈ pktsOf (fire .acked re true (enableCore (takeHandled s).1 true true).1 (takeHandled s).2).2 := by
      simp only [wireOf, pktsOf, List.mem_filterMap] at hi ⊢
      obtain ⟨x, hx, hw⟩ := hi
      exact ⟨x, hx, by cases x <;> simp_all⟩
    have := fire_pkts .acked re true _ _ i this; omega
  · intro hre; subst hre
    rw [wireOf_fire_nil]

/-- **Everything written while a session is (re)established is numbered.** Every packet that
`<resumed/>` or `<enabled/>` processing puts on the wire — resent ones and stanzas sent by report
continuations alike — is stored under a sequence number afterwards. -/
theorem session_start_writes_only_numbered (s : St) (h : Nat) (re : List Nat) (up : Bool) :
    (∀ p ∈ pktsOf (step s (.resumed h re up)).2, p ∈ ids (step s (.resumed h re up)).1.unacked) ∧
    (∀ p ∈ pktsOf (step s (.enabledNew re up)).2, p ∈ ids (step s (.enabledNew re up)).1.unacked) := by
  constructor
  · intro p hp
    simp only [step, pktsOf_append] at hp ⊢
    have ef := enableCore_fields (takeHandled { s with unacked := keptPart h s.unacked }).1 false up
    obtain ⟨x1, u1, _⟩ := fire_unacked .acked re up (takeHandled { s with unacked := keptPart h s.unacked }).2
      (enableCore (takeHandled { s with unacked := keptPart h s.unacked }).1 false up).1
    obtain ⟨x2, u2, _⟩ := fire_unacked .acked re up (ackedPart h s.unacked)
      (fire .acked re up (enableCore (takeHandled { s with unacked := keptPart h s.unacked }).1 false up).1
        (takeHandled { s with unacked := keptPart h s.unacked }).2).1
    have m1 := fire_mono .acked re up (takeHandled { s with unacked := keptPart h s.unacked }).2
      (enableCore (takeHandled { s with unacked := keptPart h s.unacked }).1 false up).1
    rcases List.mem_append.mp hp with hp | hp
    · rcases List.mem_append.mp hp with hp | hp
      · have := enableCore_pkts _ false up p hp
        rw [← ef.2.2.2.1] at this
        rw [u2, u1]; simp only [ids, List.map_append, List.mem_append] at this ⊢
        exact Or.inl (Or.inl this)
      · have := fire_stored .acked re up _ _ ef.2.1 p hp
        rw [u2]; simp only [ids, List.map_append, List.mem_append] at this ⊢
        exact Or.inl this
    · exact fire_stored .acked re up _ _ (by rw [m1.2.2.1]; exact ef.2.1) p hp
  · intro p hp
    simp only [step, pktsOf_append] at hp ⊢
    have ef := enableCore_fields (takeHandled s).1 true up
    obtain ⟨x1, u1, _⟩ := fire_unacked .acked re up (takeHandled s).2 (enableCore (takeHandled s).1 true up).1
    rcases List.mem_append.mp hp with hp | hp
    · have := enableCore_pkts _ true up p hp
      rw [← ef.2.2.2.1] at this
      rw [u1]; simp only [ids, List.map_append, List.mem_append] at this ⊢
      exact Or.inl this
    · exact fire_stored .acked re up _ _ ef.2.1 p hp

/-- **`<a/>` site.** With stream management on, every stanza a continuation sends while `<a h/>` is
processed is numbered and stored behind everything already stored. -/
theorem ack_reentrant_sends_are_numbered (s : St) (h : Nat) (re : List Nat) (up : Bool)
    (hen : s.enabled = true) :
    ∀ p ∈ pktsOf (step s (.ack h re up)).2, p ∈ ids (step s (.ack h re up)).1.unacked := by
  intro p hp
  simp only [step] at hp ⊢
  rw [if_pos hen] at hp ⊢
  exact fire_stored .acked re up _ { s with unacked := keptPart h s.unacked } hen p hp

/-- If the socket write fails during `<resumed/>` / `<enabled/>` processing nothing reaches the wire
(the packets stay stored: see `every_packet_pending_or_reported`). -/
theorem resend_nothing_when_write_fails (s : St) (h : Nat) (re : List Nat) :
    wireOf (step s (.resumed h re false)).2 = [] ∧ wireOf (step s (.enabledNew re false)).2 = [] := by
  constructor
  · simp only [step, wireOf_append, wireOf_enableCore_down, wireOf_fire_down, List.append_nil]
  · simp only [step, wireOf_append, wireOf_enableCore_down, wireOf_fire_down, List.append_nil]

/-- **Covered packets are never resent.** Once a packet has a report (in particular once it was
acknowledged), no continuation of the history puts it on the wire again. -/
theorem covered_never_resent (pre post : List Op) (p : Nat)
    (hp : p ∈ reportedIds (run init pre).2) :
    p ∉ pktsOf (run (run init pre).1 post).2 :=
  run_pkts_not_reported post _ _ (Inv.reachable pre) p hp

/-- … stated for an *acknowledged* report. -/
theorem acknowledged_never_resent (pre post : List Op) (p : Nat)
    (hp : Out.report p .acked ∈ (run init pre).2) :
    p ∉ pktsOf (run (run init pre).1 post).2 := by
  apply covered_never_resent
  simp only [reportedIds, List.mem_filterMap]
  exact ⟨_, hp, rfl⟩

/-- **Covered by `<failed h/>`: never resent.** After a `<failed h/>` (handled count of the session
that could not be resumed, XEP-0198 section 5) no stored packet with number `≤ h` is ever written
again, in any continuation of the history in which the server does not later report a *lower* count
for the same dead session.
Hypothesis `hmono` is an **environment assumption**, not a restriction on the client: XEP-0198 makes
`h` non-decreasing within a session, so a conforming server cannot answer a later `<resume/>` for the
same `previd` with a smaller `<failed h/>`.  It is needed because the code overwrites the stored
count with the latest one (it does not keep the maximum); a non-conforming server lowering its count
would get the stanzas between the two counts retransmitted (duplicates, no loss). -/
theorem failed_h_covered_never_resent (pre post : List Op) (h k p : Nat)
    (hm : (k, p) ∈ (run init pre).1.unacked) (hk : k ≤ h)
    (hmono : ∀ h', Op.resumeFailed (some h') ∈ post → h ≤ h') :
    p ∉ pktsOf (run (run init pre).1 (.resumeFailed (some h) :: post)).2 := by
  rw [run_cons]
  simp only [step, pktsOf_nil, List.nil_append]
  have hinv : Inv { (run init pre).1 with handled := some h } (run init pre).2 := by
    have := Inv.reachable pre
    exact ⟨this.keys, this.cnt⟩
  exact run_cov post _ _ hinv p h ⟨k, h, hm, rfl, hk, Nat.le_refl _⟩ hmono

/-- … and they are confirmed: when the new session is enabled (or the cache is reset) every stored
packet the pending count covers is reported as acknowledged. -/
theorem failed_h_covered_are_acknowledged (pre : List Op) (hf k p : Nat) (re : List Nat) (up : Bool)
    (hh : (run init pre).1.handled = some hf) (hm : (k, p) ∈ (run init pre).1.unacked) (hk : k ≤ hf) :
    Out.report p .acked ∈ (step (run init pre).1 (.enabledNew re up)).2 ∧
    Out.report p .acked ∈ (step (run init pre).1 (.resetCache re up)).2 := by
  have hinv := Inv.reachable pre
  have hnd : (ids (run init pre).1.unacked).Nodup := by
    have := hinv.nodup; simp only [pool, List.nodup_append] at this; exact this.1
  have ht := (taken_of_covered _ hinv.keys hnd hm hh hk).1
  constructor
  · simp only [step]
    exact List.mem_append.mpr (Or.inr (fire_reports .acked re up _ _ (k, p) ht))
  · simp only [step]
    exact List.mem_append.mpr (Or.inl (fire_reports .acked re up _ _ (k, p) ht))

/-- **Renumbering from one.** `<enabled/>` renumbers the stored packets that are not covered by a
pending `<failed/>` count `1, 2, …, n` keeping their order, sets `lastOut = n`, the inbound counter
to 0 and consumes the pending count (client without sending continuations; with them the new
stanzas follow as `n+1, …`, see `session_start_writes_only_numbered`). -/
theorem renumber_from_one (pre : List Op) (up : Bool) :
    let s := (run init pre).1
    let rest := beyond s.handled s.unacked
    (step s (.enabledNew [] up)).1.unacked = (List.range' 1 rest.length).zip (ids rest) ∧
    (step s (.enabledNew [] up)).1.lastOut = rest.length ∧
    (step s (.enabledNew [] up)).1.lastIn = 0 ∧
    (step s (.enabledNew [] up)).1.enabled = true ∧
    (step s (.enabledNew [] up)).1.handled = none := by
  intro s rest
  obtain ⟨a, _, hkf, _⟩ := (Inv.reachable pre).keys
  have hu : (takeHandled s).1.unacked = rest := takeHandled_eq_beyond s hkf
  have tf := takeHandled_fields s
  simp only [step, fire_nil, enableCore, if_true]
  rw [hu]
  refine ⟨renumber_eq_zip 0 rest, ?_, ?_, ?_, ?_⟩ <;> first | rfl | trivial | exact tf.2.2.2.2

/-! ## The handled-count reported to the server -/

/-- **h = stanzas received on that session.** Whenever, after any history `pre`, an `<a h=k/>` or a
`<resume h=k/>` is written, `k` is the number of message / presence / iq elements received on the
current stream-management session: since its `<enabled/>`, while stream management was on
(nonzas, `<a/>`, `<r/>`, and anything received while it was off are not counted).
(Before repo commit 6d4ec74 this was false: the counter also ran while stream management was off;
the old model proved the negation with the witness `[enabledNew, sessionClosed, recv message]`
followed by `resumeReq`, which wrote `resume 1`; the witness is kept in the harness corpus.) -/
theorem h_equals_session_stanzas (pre : List Op) (op : Op) (k : Nat)
    (hm : Out.wire (.a k) ∈ (step (run init pre).1 op).2 ∨
          Out.wire (.resume k) ∈ (step (run init pre).1 op).2) :
    k = stanzasOnSession pre := by
  have hk : k = (run init pre).1.lastIn := by
    rcases hm with h | h
    · exact (step_wire_a _ op k h).1
    · exact (step_wire_resume _ op k h).1
  rw [hk]
  exact (run_sessionCount pre init (false, 0) rfl rfl).2

/-- An `<a/>` is only ever written in answer to `<r/>` while stream management is on. -/
theorem a_only_when_enabled (pre : List Op) (op : Op) (k : Nat)
    (hm : Out.wire (.a k) ∈ (step (run init pre).1 op).2) :
    (run init pre).1.enabled = true ∧ op = .ackReq true :=
  (step_wire_a _ op k hm).2

/-- An element received while stream management is off leaves the counter alone. -/
theorem recv_not_counted_when_disabled (s : St) (k : RecvKind) (hd : s.enabled = false) :
    step s (.recv k) = (s, []) := by
  simp [step, hd]

/-! ## Documented behaviour of the code (so it cannot drift silently) -/

/-- Without stream management, or for a nonza, `send` reports at once — *sent* if the write
succeeded, *write error* otherwise — and stores nothing: such a packet is never resent. -/
theorem send_without_sm_reports_immediately (s : St) (stanza up : Bool)
    (h : s.enabled = false ∨ stanza = false) :
    (step s (.send stanza up)).1.unacked = s.unacked ∧
    (step s (.send stanza up)).2 =
      emit up (.pkt s.nextId) ++ [.report s.nextId (if up then .sent else .writeError), .written up] := by
  rcases h with h | h <;> simp [step, sendStep, h]

/-- With stream management on, a stanza is stored under the next number and gets no report yet —
also when the write failed (`up = false`, `send` returns *not written*): it waits for resumption. -/
theorem send_with_sm_stores_and_waits (s : St) (up : Bool) (h : s.enabled = true) :
    (step s (.send true up)).1.unacked = s.unacked ++ [(s.lastOut + 1, s.nextId)] ∧
    (step s (.send true up)).1.lastOut = s.lastOut + 1 ∧
    reportedIds (step s (.send true up)).2 = [] ∧
    Out.written up ∈ (step s (.send true up)).2 := by
  simp [step, sendStep, h, reportedIds_append]

/-- An `<a/>` arriving while stream management is off (e.g. after the session closed) is ignored. -/
theorem ack_ignored_when_disabled (s : St) (h : Nat) (re : List Nat) (up : Bool)
    (hd : s.enabled = false) : step s (.ack h re up) = (s, []) := by
  simp [step, hd]

/-- A stale `<a h/>` (h below every stored number) changes nothing and reports nothing. -/
theorem stale_ack_does_nothing (pre : List Op) (h : Nat) (re : List Nat) (up : Bool)
    (hs : ∀ e ∈ (run init pre).1.unacked, h < e.1) :
    step (run init pre).1 (.ack h re up) = ((run init pre).1, []) := by
  obtain ⟨a, _, hkf, _⟩ := (Inv.reachable pre).keys
  simp only [step]
  split
  · rw [hkf.keptPart_eq_filter, hkf.ackedPart_eq_filter, filter_gt_self hs, filter_le_nil hs]
    rfl
  · rfl

/-- An `<a h/>` with `h` at or beyond the last number used (there is no upper check) confirms
everything stored — but nothing a continuation sends meanwhile: that is newer than the `<a/>`. -/
theorem ack_beyond_confirms_everything (pre : List Op) (h : Nat) (up : Bool)
    (hen : (run init pre).1.enabled = true) (hb : (run init pre).1.lastOut ≤ h) :
    (step (run init pre).1 (.ack h [] up)).1.unacked = [] ∧
    reportedIds (step (run init pre).1 (.ack h [] up)).2 = ids (run init pre).1.unacked := by
  obtain ⟨a, _, hkf, _⟩ := (Inv.reachable pre).keys
  have hall := (unacked_keys_invariant pre).2.2.2
  have hle : ∀ e ∈ (run init pre).1.unacked, e.1 ≤ h := by
    intro e he
    have := hall e.1 (by simp only [keys, List.mem_map]; exact ⟨e, he, rfl⟩)
    omega
  simp only [step, hen, if_true, fire_nil]
  rw [hkf.keptPart_eq_filter, hkf.ackedPart_eq_filter]
  constructor
  · apply List.filter_eq_nil_iff.mpr
    intro e he; have := hle e he; simp; omega
  · have e : (List.filter (fun e => decide (e.1 ≤ h)) (run init pre).1.unacked) = (run init pre).1.unacked := by
      apply List.filter_eq_self.mpr
      intro e he; simpa using hle e he
    rw [e]
    exact reportedIds_ackReports _

/-- `<failed h/>` only records the count; `<failed/>` without one changes nothing. -/
theorem resumeFailed_stores_h (s : St) (h : Nat) :
    step s (.resumeFailed (some h)) = ({ s with handled := some h }, []) ∧
    step s (.resumeFailed none) = (s, []) := ⟨rfl, rfl⟩

/-! ## Non-vacuity: the hypotheses above are met by concrete, non-trivial histories -/

-- acknowledged only if covered / confirmed when acked: two stored stanzas, `<a h=1/>` confirms the first only
example : (run init [.enabledNew [] true, .send true true, .send true true, .ack 1 [] true]).2 =
    [.wire (.pkt 0), .wire .r, .written true, .wire (.pkt 1), .wire .r, .written true, .report 0 .acked] := by decide
example : (run init [.enabledNew [] true, .send true true, .send true true, .ack 1 [] true]).1.unacked = [(2, 1)] := by decide
example : (run init [.enabledNew [] true, .send true true, .send true true]).1.enabled = true ∧
    (1, 0) ∈ (run init [.enabledNew [] true, .send true true, .send true true]).1.unacked := by decide
-- resumption resends exactly the uncovered ones, in order, then <r/>
example : wireOf (step (run init [.enabledNew [] true, .send true true, .send true false, .send true true,
    .sessionClosed]).1 (.resumed 1 [] true)).2 = [.pkt 1, .pkt 2, .r] := by decide
-- … and with a sending continuation: resent first, the new stanza (id 2) after, numbered 3 and stored
example : (step (run init [.enabledNew [] true, .send true true, .send true true, .sessionClosed]).1
    (.resumed 1 [0] true)) =
    ({ enabled := true, unacked := [(2, 1), (3, 2)], lastOut := 3, lastIn := 0, nextId := 3 },
     [.wire (.pkt 1), .wire .r, .report 0 .acked, .wire (.pkt 2), .wire .r, .written true]) := by decide
-- a new session resends all of them renumbered from 1
example : (step (run init [.enabledNew [] true, .send true true, .send true true, .send true true, .ack 1 [] true,
    .sessionClosed]).1 (.enabledNew [] true)) =
    ({ enabled := true, unacked := [(1, 1), (2, 2)], lastOut := 2, lastIn := 0, nextId := 3 },
     [.wire (.pkt 1), .wire (.pkt 2), .wire .r]) := by decide
-- <failed h=2/> then <enabled/>: the two covered stanzas are confirmed after the resend, not written again;
-- the continuation of packet 0 sends a stanza that is numbered 2 on the new session
example : (run (run init [.enabledNew [] true, .send true true, .send true true, .send true true, .sessionClosed]).1
    [.resumeFailed (some 2), .enabledNew [0] true]) =
    ({ enabled := true, unacked := [(1, 2), (2, 3)], lastOut := 2, lastIn := 0, nextId := 4 },
     [.wire (.pkt 2), .wire .r, .report 0 .acked, .wire (.pkt 3), .wire .r, .written true, .report 1 .acked]) := by decide
-- failed_h_covered_never_resent / _are_acknowledged: hypotheses met
example : (2, 1) ∈ (run init [.enabledNew [] true, .send true true, .send true true, .send true true,
    .sessionClosed]).1.unacked ∧
    (run init [.enabledNew [] true, .send true true, .send true true, .send true true, .sessionClosed,
      .resumeFailed (some 2)]).1.handled = some 2 := by decide
-- re-entrant continuations at the `<a/>` site: the new stanzas are numbered 3 and 4 behind everything, also when h is beyond
example : (step (run init [.enabledNew [] true, .send true true, .send true true]).1 (.ack 3 [0, 1] true)) =
    ({ enabled := true, unacked := [(3, 2), (4, 3)], lastOut := 4, lastIn := 0, nextId := 4 },
     [.report 0 .acked, .wire (.pkt 2), .wire .r, .written true,
      .report 1 .acked, .wire (.pkt 3), .wire .r, .written true]) := by decide
-- resetCache with sending continuations while stream management is on: the new stanzas are reported too
example : (step (run init [.enabledNew [] true, .send true true]).1 (.resetCache [0] true)) =
    ({ enabled := true, unacked := [], lastOut := 2, lastIn := 0, nextId := 2 },
     [.report 0 .disconnected, .wire (.pkt 1), .wire .r, .written true, .report 1 .disconnected]) := by decide
-- h: two stanzas and a nonza received, <r/> is answered with h=2
example : (step (run init [.enabledNew [] true, .recv .message, .recv .nonza, .recv .iq]).1 (.ackReq true)).2 =
    [.wire (.a 2)] := by decide
example : Out.wire (.resume 1) ∈ (step (run init [.enabledNew [] true, .recv .presence, .recv .nonza,
    .sessionClosed]).1 (.resumeReq true)).2 := by decide
-- the former defect witness (commit 6d4ec74): the stanza received while stream management is off is not counted
example : (step (run init [.enabledNew [] true, .sessionClosed, .recv .message]).1 (.resumeReq true)).2 =
    [.wire (.resume 0)] := by decide
example : stanzasOnSession [.enabledNew [] true, .recv .message, .sessionClosed, .recv .presence,
    .resumed 0 [] true, .recv .iq] = 2 := by decide
-- covered_never_resent: hypothesis met (packet 0 acknowledged), packet 1 still resent later
example : 0 ∈ reportedIds (run init [.enabledNew [] true, .send true true, .send true true, .ack 1 [] true]).2 := by decide
example : pktsOf (run (run init [.enabledNew [] true, .send true true, .send true true, .ack 1 [] true]).1
    [.sessionClosed, .resumed 1 [] true]).2 = [1] := by decide
-- stale ack / ack beyond: hypotheses met
example : ∀ e ∈ (run init [.enabledNew [] true, .send true true, .send true true, .ack 1 [] true]).1.unacked, 1 < e.1 := by decide
example : (run init [.enabledNew [] true, .send true true, .send true true]).1.enabled = true ∧
    (run init [.enabledNew [] true, .send true true, .send true true]).1.lastOut ≤ 7 := by decide
-- sending without stream management / a nonza with it
example : (run init [.send true true, .send true false, .enabledNew [] true, .send false true]).2 =
    [.wire (.pkt 0), .report 0 .sent, .written true, .report 1 .writeError, .written false,
     .wire (.pkt 2), .report 2 .sent, .written true] := by decide

end Qx.C09
