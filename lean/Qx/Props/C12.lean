import Qx.Proofs.C12
/-!
# C12 — the roster view is the last full roster plus authorised pushes, nothing else

Property theorems only (model and the history-level specification: `Qx/Model/C12Roster.lean`,
helper lemmas: `Qx/Proofs/C12.lean`).  `own` is the configured bare JID, `run own init ops` the manager
after the history `ops`; every statement holds for every `own`, every history of any length, every
item list.

Two readings of "session" appear:

* `trace`  — events with the boundaries the CODE uses (a view ends at a connect that is not a resumption
  and at the `disconnected` signal that ends an established session while `streamManagementState()` is
  `NoStreamManagement`; a `disconnected` outside a session — a reconnect attempt that died — ends nothing);
* `traceS` — events with the boundaries the PROPERTY uses (a view ends only where a session that is not
  a resumption begins).

The code-level statements hold for all histories.  The session-level statement (`session_view_exact`) holds
at every moment a session is established, for every history satisfying the one environment assumption
`resumesContinueSmSession` (a resumption continues the latest session, and that session had stream
management); `session_view_needs_assumption` shows the assumption cannot be dropped.  Before repo commit
fd7e86c the statement was false even under the assumption (a reconnect attempt that died after the stream
restart made `_q_disconnected` wipe the cache although the session was resumed afterwards; the witness
history is kept as `resumeWitness` and in the harness corpus).
-/
namespace Qx.C12

/-- **The contact list is the last full roster with the later authorised pushes applied in order.**
For every history, the cached entries equal `specView` of the history's events: within the current
(code-level) session, the most recent full roster received, then every later push from the server or the
user's own account, applied item by item (add / update / remove). -/
theorem roster_refines_spec (own : String) (ops : List Op) :
    (run own init ops).1.entries = specView (trace own init ops) := by
  rw [run_entries, specView_eq_fold]
  rfl

/-- …and the same from any intermediate state whose view already matches a history prefix. -/
theorem roster_refines_spec_from (own : String) (s : St) (pre : List Ev) (ops : List Op)
    (h : s.entries = specView pre) :
    (run own s ops).1.entries = specView (pre ++ trace own s ops) := by
  rw [run_entries, specView_append, h]

/-- **`isRosterReceived()` is true exactly when a full roster was received in the current session.** -/
theorem received_exact (own : String) (ops : List Op) :
    (run own init ops).1.received = specReceived (trace own init ops) := by
  have h := specReceived_append [] (trace own init ops)
  rw [run_received]
  rw [List.nil_append] at h
  rw [h]
  rfl

/-- **The presence table is exact.**  For every history, contact `b` and resource `r`: the table holds an
entry for `b/r` iff the latest available/unavailable presence of `b/r` in the current (code-level) session
was *available*, and the stored presence is that latest one (`specPres`). -/
theorem presence_table_exact (own : String) (ops : List Op) (b r : String) :
    lookupKey r (resTable (run own init ops).1.presences b) = specPres (trace own init ops) b r := by
  rw [run_pres, specPres_eq_fold]
  rfl

/-- …hence `getResources(b)` lists `r` iff that latest presence was available. -/
theorem presence_resources_exact (own : String) (ops : List Op) (b r : String) :
    r ∈ resources (run own init ops).1 b ↔ (specPres (trace own init ops) b r).isSome = true := by
  unfold resources
  rw [mem_keys_iff_lookup, presence_table_exact]

/-- **No duplicate keys, ever**: the contact list has one entry per JID and every contact's resource list
has one entry per resource (so "the list equals the map" above loses nothing). -/
theorem keys_nodup (own : String) (ops : List Op) :
    (keys (run own init ops).1.entries).Nodup
    ∧ (keys (run own init ops).1.presences).Nodup
    ∧ ∀ b, (resources (run own init ops).1 b).Nodup := by
  have hi := Inv.init.run own ops
  exact ⟨hi.entries, hi.pres, fun b => nodup_resTable hi.inner b⟩

/-- **A roster IQ from any other entity changes nothing and is not acknowledged.**  If the sender is
neither absent nor of the user's own account (`bare sender ≠ own`), the step leaves the whole state
untouched, emits no signal and sends no result; the only thing written is the stream's generic
`feature-not-implemented` error for a request (`get`/`set`) nobody handled. -/
theorem foreign_push_noop_noack (own : String) (s : St) (type : IqType) (sender id : String)
    (items : List Item) (h1 : sender ≠ "") (h2 : bare sender ≠ own) :
    step own s (.rosterIq type sender id items)
      = (s, if type = .get ∨ type = .set then [.sentError id] else []) := by
  have ha : authorised own sender = false := by simp [authorised, h1, h2]
  simp [step, ha]

/-- …in particular no result IQ at all leaves the client for it. -/
theorem foreign_push_no_result (own : String) (s : St) (type : IqType) (sender id : String)
    (items : List Item) (h1 : sender ≠ "") (h2 : bare sender ≠ own) :
    (step own s (.rosterIq type sender id items)).2.filter Out.isSentResult = [] := by
  rw [foreign_push_noop_noack own s type sender id items h1 h2]
  split <;> simp [Out.isSentResult]

/-- **History form:** deleting every foreign roster IQ from a history does not change the state reached
(contact list, received flag, presence table, outstanding requests). -/
theorem foreign_pushes_change_nothing (own : String) (s : St) (ops : List Op) :
    (run own s ops).1 = (run own s (ops.filter (fun o => !o.isForeign own))).1 := by
  induction ops generalizing s with
  | nil => rfl
  | cons op rest ih =>
    by_cases hf : op.isForeign own = true
    · have hs : (step own s op).1 = s := by
        cases op with
        | rosterIq type sender id items =>
          have ha : authorised own sender = false := by simpa [Op.isForeign] using hf
          simp [step, ha]
        | connected sm auth => simp [Op.isForeign] at hf
        | disconnected en cr => simp [Op.isForeign] at hf
        | response k sender ok items => simp [Op.isForeign] at hf
        | presence sender type status => simp [Op.isForeign] at hf
      simp only [List.filter_cons, hf, Bool.not_true, Bool.false_eq_true, if_false, run_cons, hs]
      exact ih s
    · have hf' : op.isForeign own = false := by simpa using hf
      simp only [List.filter_cons, hf', Bool.not_false, if_true, run_cons]
      exact ih _

/-- **An authorised push is applied and acknowledged exactly once**, with the id of the push and addressed to
its sender: sender absent,
or any JID of the user's own account (bare or full — the code compares `jidToBareJid(from)`). -/
theorem authorised_push_applied_and_acked (own : String) (s : St) (sender id : String) (items : List Item)
    (h : sender = "" ∨ bare sender = own) :
    (step own s (.rosterIq .set sender id items)).1 = { s with entries := items.foldl applyItem s.entries }
    ∧ (step own s (.rosterIq .set sender id items)).2.filter Out.isSentResult = [.sentResult id sender] := by
  have ha : authorised own sender = true := by
    rcases h with h | h <;> simp [authorised, h]
  constructor
  · simp [step, ha, applyItems_fst]
  · simp [step, ha, List.filter_cons, Out.isSentResult, applyItems_no_result]

/-- **Nothing of an earlier session survives a connect that is not a resumption** (direct form): the
contact list, the presence table and the received flag are empty, and no roster request of the earlier
session is outstanding any more (so no late answer to one can be taken for this session's roster) — the
only outstanding request is the one just sent. -/
theorem no_survival_across_new_session (own : String) (s : St) (sm : Sm) (auth : Bool) (h : sm ≠ .resumed) :
    let s' := (step own s (.connected sm auth)).1
    s'.entries = [] ∧ s'.presences = [] ∧ s'.received = false
    ∧ s'.pending = (if auth then [s.nextReq] else []) := by
  cases auth <;> simp [step, h, St.cleared]

/-- **…(history form): after such a connect, everything observable is a function of the later history
only.**  Two runs that differ arbitrarily in what happened before (any two states, agreeing only on the
request counter that names future requests) are indistinguishable afterwards: same states, same outputs. -/
theorem no_survival_noninterference (own : String) (s s' : St) (sm : Sm) (auth : Bool) (ops : List Op)
    (h : sm ≠ .resumed) (hn : s.nextReq = s'.nextReq) :
    run own s (.connected sm auth :: ops) = run own s' (.connected sm auth :: ops) := by
  have hstep : step own s (.connected sm auth) = step own s' (.connected sm auth) := by
    cases auth <;> simp [step, h, St.cleared, hn]
  simp only [run, hstep]

/-- **The view is kept across a resumption.**  Any number of `disconnected` signals seen with stream
management enabled and of resumed connects leave contact list, presence table and received flag
exactly as they were. -/
theorem kept_across_resumption (own : String) (s : St) (ops : List Op)
    (h : ∀ op ∈ ops, (∃ c, op = .disconnected true c) ∨ (∃ a, op = .connected .resumed a)) :
    (run own s ops).1.entries = s.entries ∧ (run own s ops).1.presences = s.presences
    ∧ (run own s ops).1.received = s.received := by
  induction ops generalizing s with
  | nil => exact ⟨rfl, rfl, rfl⟩
  | cons op rest ih =>
    have hrest := ih (step own s op).1 (fun o ho => h o (by simp [ho]))
    rw [run_cons]
    have hop : (step own s op).1.entries = s.entries ∧ (step own s op).1.presences = s.presences
        ∧ (step own s op).1.received = s.received := by
      rcases h op (by simp) with ⟨c, hc⟩ | ⟨a, ha⟩
      · subst hc; cases hin : s.inSession <;> cases c <;> simp [step, hin]
      · subst ha
        simp only [step, if_true]
        split <;> exact ⟨rfl, rfl, rfl⟩
    exact ⟨hrest.1.trans hop.1, hrest.2.1.trans hop.2.1, hrest.2.2.trans hop.2.2⟩

/-- **A `disconnected` that does not end an established session changes nothing** (whatever the SM flags
say at that moment): a reconnect attempt that dies after the stream restart leaves contact list, presence
table and received flag alone, so the session can still be resumed with its view intact. -/
theorem disconnected_outside_session_keeps_view (own : String) (s : St) (en cr : Bool)
    (h : s.inSession = false) :
    (step own s (.disconnected en cr)).1.entries = s.entries
    ∧ (step own s (.disconnected en cr)).1.presences = s.presences
    ∧ (step own s (.disconnected en cr)).1.received = s.received
    ∧ (step own s (.disconnected en cr)).1.inSession = false := by
  cases cr <;> simp [step, h]

/-! ### the session-level reading -/

/-- the environment assumption spelled out: `resumesContinueSmSession ops` says exactly that before every
resumed connect of the history, no established session has ended with stream management off since the latest
connect that was not a resumption -/
theorem resumesContinueSmSession_iff (ops : List Op) :
    resumesContinueSmSession ops = true ↔
      ∀ pre a post, ops = pre ++ Op.connected .resumed a :: post → (chainOf pre).smChain = true :=
  resumesOkFrom_iff {} ops

/-- **Session-level exactness.**  With the property's own session boundaries (`traceS`: a view ends only
where a connect that is not a resumption begins a new session; `disconnected` signals end nothing), at every
moment a session is established the contact list is the most recent full roster received on the session
with every later authorised push applied in order, and the presence table lists for every contact exactly
the resources whose latest available/unavailable presence on the session was available (with that
presence's status).  Environment assumption (needed, see `session_view_needs_assumption`):
`resumesContinueSmSession` — a resumption continues the latest session and that session had stream
management. -/
theorem session_view_exact (own : String) (ops : List Op)
    (henv : resumesContinueSmSession ops = true) (hc : connectedNow ops = true) :
    (run own init ops).1.entries = specView (traceS own init ops)
    ∧ ∀ b r, lookupKey r (resTable (run own init ops).1.presences b) = specPres (traceS own init ops) b r := by
  have h := SessInv.init.run own ops henv
  simpa using h.view (h.live hc)

/-- the history that defeated the code before commit fd7e86c: session with SM, roster `alice`, her phone
comes online, the socket is lost (resumable), one reconnect attempt dies after the stream restart (flags
reset ⇒ `disconnected` with SM reported off, still resumable), the next attempt resumes the stream -/
def resumeWitness : List Op :=
  [ .connected .new true,
    .response 1 "" true [{ jid := "alice@example.org", name := "Alice", sub := .both, groups := ["friends"] }],
    .presence "alice@example.org/phone" .available "hi",
    .disconnected true true,
    .disconnected false true,
    .connected .resumed true ]

/-- a resumed connect after a session WITHOUT stream management has ended (no server does that) -/
def impossibleResume : List Op :=
  [ .connected .none_ true,
    .response 1 "" true [{ jid := "alice@example.org", name := "Alice", sub := .both, groups := [] }],
    .disconnected false false,
    .connected .resumed true ]

/-- **The assumption is needed**: without it the conclusion of `session_view_exact` fails (the non-SM session's
end rightly cleared the cache; a "resumption" of it would find it empty). -/
theorem session_view_needs_assumption :
    ¬ (∀ (own : String) (ops : List Op), connectedNow ops = true →
        (run own init ops).1.entries = specView (traceS own init ops)) := by
  intro h
  have h1 := h "me@example.org" impossibleResume (by decide)
  revert h1
  decide

/-! ### Non-vacuity: the hypotheses above are met by concrete, non-trivial cases. -/

-- senders the check rejects (stranger, look-alikes of the own JID) and accepts (server, own bare, own full)
example : ("mallory@evil.example/x" ≠ "" ∧ bare "mallory@evil.example/x" ≠ "me@example.org") := by decide
example : bare "me@example.org.evil.example" ≠ "me@example.org" := by decide
example : bare "Me@example.org/home" ≠ "me@example.org" := by decide
example : bare "/me@example.org" ≠ "me@example.org" := by decide
example : bare "me@example.org/other" = "me@example.org" := by decide
example : authorised "me@example.org" "" = true ∧ authorised "me@example.org" "me@example.org" = true
    ∧ authorised "me@example.org" "me@example.org/home" = true
    ∧ authorised "me@example.org" "example.org" = false := by decide

-- a foreign push really is a no-op on a non-empty state, an authorised one is applied and acknowledged
example :
    let s := (run "me@example.org" init [.connected .none_ true,
      .response 1 "" true [{ jid := "a@x", name := "A", sub := .both, groups := [] }]]).1
    step "me@example.org" s (.rosterIq .set "mallory@evil.example/x" "p1" [{ jid := "a@x", name := "", sub := .remove, groups := [] }])
      = (s, [.sentError "p1"])
    ∧ (step "me@example.org" s (.rosterIq .set "me@example.org/other" "p2" [{ jid := "a@x", name := "", sub := .remove, groups := [] }]))
      = ({ s with entries := [] }, [.sentResult "p2" "me@example.org/other", .itemRemoved "a@x"]) := by decide

-- last full roster + later pushes in order; an answer of the previous session is not taken
example : (run "me@example.org" init
    [.connected .new true, .disconnected true true, .connected .new true,
     .response 1 "" true [{ jid := "old@x", name := "", sub := .both, groups := [] }],
     .response 2 "" true [{ jid := "a@x", name := "A", sub := .both, groups := [] }, { jid := "b@x", name := "B", sub := .to_, groups := [] }],
     .rosterIq .set "" "p1" [{ jid := "a@x", name := "A2", sub := .from_, groups := [] }],
     .rosterIq .set "me@example.org" "p2" [{ jid := "b@x", name := "", sub := .remove, groups := [] }]]).1.entries
    = [("a@x", { jid := "a@x", name := "A2", sub := .from_, groups := [] })] := by decide

-- the hypothesis of `kept_across_resumption` on a non-trivial history
example : ∀ op ∈ [Op.disconnected true true, Op.connected .resumed true, Op.disconnected true false],
    (∃ c, op = .disconnected true c) ∨ (∃ a, op = .connected .resumed a) := by
  intro op h
  simp only [List.mem_cons, List.not_mem_nil, or_false] at h
  rcases h with h | h | h <;> subst h <;> simp

-- the old witness history meets both hypotheses of `session_view_exact`, and the view survives the failed
-- reconnect attempt: alice and her phone are still there after the resumption
example : resumesContinueSmSession resumeWitness = true ∧ connectedNow resumeWitness = true := by decide
example : keys (run "me@example.org" init resumeWitness).1.entries = ["alice@example.org"]
    ∧ resources (run "me@example.org" init resumeWitness).1 "alice@example.org" = ["phone"]
    ∧ (run "me@example.org" init resumeWitness).1.received = true := by decide
example : specView (traceS "me@example.org" init resumeWitness) ≠ [] := by decide
-- the excluded history violates the assumption (and only the assumption)
example : resumesContinueSmSession impossibleResume = false ∧ connectedNow impossibleResume = true := by decide
-- hypothesis of `disconnected_outside_session_keeps_view` on a reachable non-trivial state
example : (run "me@example.org" init (resumeWitness.take 4)).1.inSession = false
    ∧ (run "me@example.org" init (resumeWitness.take 4)).1.entries ≠ [] := by decide

end Qx.C12
