import Qx.Proofs.C12
/-!
# C12 — the roster view is the last full roster plus authorised pushes, nothing else

Property theorems only (model and the history-level specification: `Qx/Model/C12Roster.lean`,
helper lemmas: `Qx/Proofs/C12.lean`).  `own` is the configured bare JID at the start (it can change, op
`setJid`), `run own init ops` the manager after the history `ops`; every statement holds for every `own`,
every history of any length, every item list.

**What is an accepted sender.**  Nothing is hidden behind a name in the top theorem: the events of a history
are determined by `wireEvent` from what crosses the stream only (`Wire`: the roster requests seen leaving the
client and still unanswered, and whether a session is established), and `wire_push_iff`, `wire_full_iff`,
`wire_clear_iff` state its rules literally:

* push      ⇔ roster IQ of type `set` with `sender = "" ∨ bare sender = own`
              (no `from`, or the text before the first `/` equals the configured bare JID — so a full JID of
              the own account passes although RFC 6121 §2.1.6 only allows the bare JID; another case, another
              domain, the server's domain, prefix/suffix look-alikes do not);
* full roster ⇔ IQ result whose id is that of a roster `get` the client sent, still unanswered and not
              cancelled, with `sender = "" ∨ sender = the bare JID configured when that request was sent`;
* clear     ⇔ a connect that is not a resumption, or the `disconnected` ending an established session while
              `streamManagementState()` is `NoStreamManagement`.

Everything else — roster IQs of type get/result/error from anyone, results from third parties, with ids never
used, used for something else, or already answered, answers to the mutators' requests, the mutator calls
themselves, presences, JID changes — is no event for the contact list (`roster_is_fold_of_honest_traffic`
filters them out; `forged_result_noop`, `result_replay_noop`, `result_unused_id_noop`,
`unsolicited_roster_result_noop`, `foreign_push_noop_noack`, `api_changes_nothing` state it step by step).

Two readings of "session" appear: `trace`/`wireTrace` draw the boundaries as the CODE does (above); `traceS`
as the PROPERTY does (a view ends only where a session that is not a resumption begins).  The session-level
statement (`session_view_exact`) holds at every moment a session is established, for every history satisfying
the one environment assumption `resumesContinueSmSession`; `session_view_needs_assumption` shows it cannot be
dropped.  Before repo commit fd7e86c the statement was false even under the assumption (witness history kept
as `resumeWitness` and in the harness corpus).

Not modelled because the code has none of it: roster versioning (`ver` is neither sent nor stored; an empty
result is an empty roster), any limit on the number of items in a push (all are applied in order).
-/
namespace Qx.C12

/-- **Push rule, literally.** -/
theorem wire_push_iff (own : String) (w : Wire) (op : Op) (items : List Item) :
    wireEvent own w op = .push items ↔
      ∃ sender id, op = .rosterIq .set sender id items ∧ (sender = "" ∨ bare sender = own) := by
  cases op with
  | rosterIq type sender id its =>
    by_cases hs : sender = "" ∨ bare sender = own
    · have hb : (decide (sender = "") || decide (bare sender = own)) = true := by simpa using hs
      cases type with
      | set =>
        simp only [wireEvent, hb, decide_true, Bool.and_self, if_true, Ev.push.injEq]
        constructor
        · intro h; subst h; exact ⟨sender, id, rfl, hs⟩
        · rintro ⟨s', i', heq, _⟩
          simp only [Op.rosterIq.injEq] at heq
          exact heq.2.2.2
      | get => simp [wireEvent]
      | result => simp [wireEvent]
      | error => simp [wireEvent]
    · have hb : (decide (sender = "") || decide (bare sender = own)) = false := by
        rw [Bool.eq_false_iff]; intro hb; exact hs (by simpa using hb)
      simp only [wireEvent, hb, Bool.false_and, Bool.false_eq_true, if_false]
      constructor
      · intro h; cases h
      · rintro ⟨s', i', heq, hs'⟩
        simp only [Op.rosterIq.injEq] at heq
        rw [← heq.2.1] at hs'
        exact absurd hs' hs
  | connected sm auth => by_cases h : sm = .resumed <;> simp [wireEvent, h]
  | disconnected en cr => cases hb : (w.inSession && !en) <;> simp [wireEvent, hb]
  | response k sender ok its => cases hb : (answers w.asked k sender && ok) <;> simp [wireEvent, hb]
  | presence sender type status =>
    by_cases hb : bare sender = ""
    · simp [wireEvent, hb]
    · cases type <;> simp [wireEvent, hb]
  | api call tracked => simp [wireEvent]
  | setJid j => simp [wireEvent]

/-- **Full-roster rule, literally**: an IQ result, with the id of a roster request the client was seen sending
that is still unanswered, from nobody or from exactly the bare JID that request was addressed to. -/
theorem wire_full_iff (own : String) (w : Wire) (op : Op) (items : List Item) :
    wireEvent own w op = .full items ↔
      ∃ k sender, op = .response k sender true items
        ∧ ∃ to, (k, to) ∈ w.asked ∧ (sender = "" ∨ sender = to) := by
  cases op with
  | response k sender ok its =>
    cases ok
    · simp [wireEvent]
    · cases ha : answers w.asked k sender
      · have hn := ha
        rw [Bool.eq_false_iff, Ne, answers_iff] at hn
        simp only [wireEvent, ha, Bool.false_and, Bool.false_eq_true, if_false]
        constructor
        · intro h; cases h
        · rintro ⟨k', sender', heq, hto⟩
          simp only [Op.response.injEq] at heq
          obtain ⟨hk, hs, _, _⟩ := heq
          subst hk; subst hs
          exact (hn hto).elim
      · have hy := (answers_iff _ _ _).mp ha
        simp only [wireEvent, ha, Bool.and_self, if_true, Ev.full.injEq]
        constructor
        · intro h; subst h; exact ⟨k, sender, rfl, hy⟩
        · rintro ⟨k', sender', heq, _⟩
          simp only [Op.response.injEq] at heq
          exact heq.2.2.2
  | rosterIq type sender id its =>
    cases hb : ((sender = "" || bare sender = own) && type = .set) <;> simp [wireEvent, hb]
  | connected sm auth => by_cases h : sm = .resumed <;> simp [wireEvent, h]
  | disconnected en cr => cases hb : (w.inSession && !en) <;> simp [wireEvent, hb]
  | presence sender type status =>
    by_cases hb : bare sender = ""
    · simp [wireEvent, hb]
    · cases type <;> simp [wireEvent, hb]
  | api call tracked => simp [wireEvent]
  | setJid j => simp [wireEvent]

/-- **Boundary rule, literally.** -/
theorem wire_clear_iff (own : String) (w : Wire) (op : Op) :
    wireEvent own w op = .clear ↔
      (∃ sm auth, op = .connected sm auth ∧ sm ≠ .resumed)
      ∨ (∃ c, op = .disconnected false c ∧ w.inSession = true) := by
  cases op with
  | connected sm auth => by_cases h : sm = .resumed <;> simp [wireEvent, h]
  | disconnected en cr => cases en <;> cases hi : w.inSession <;> simp [wireEvent, hi]
  | response k sender ok its => cases hb : (answers w.asked k sender && ok) <;> simp [wireEvent, hb]
  | rosterIq type sender id its =>
    cases hb : ((sender = "" || bare sender = own) && type = .set) <;> simp [wireEvent, hb]
  | presence sender type status =>
    by_cases hb : bare sender = ""
    · simp [wireEvent, hb]
    · cases type <;> simp [wireEvent, hb]
  | api call tracked => simp [wireEvent]
  | setJid j => simp [wireEvent]

/-- **TOP THEOREM.  The contact list is the fold of what the own account / the server said, regardless of
all other traffic.**  For every history: take the events an observer of the stream determines with the three
rules above (`wireTrace`; no model state is consulted, the observer only remembers which roster requests it
saw the client send), throw away every event that is not a session boundary, an accepted full roster or an
accepted push, and the cached contact list is exactly `specView` of what remains — within the current
session, the most recent accepted full roster, then the items of every later accepted push applied in order
(add / update / remove; a push may carry any number of items, each is applied). -/
theorem roster_is_fold_of_honest_traffic (own : String) (ops : List Op) :
    (run own init ops).1.entries = specView ((wireTrace own init {} ops).filter Ev.isRosterEv) := by
  rw [specView_filter, wireTrace_eq_trace own init {} ops rfl rfl, run_entries, specView_eq_fold]
  rfl

/-- the same with the events labelled by the model's own bookkeeping (`trace`); both labellings coincide -/
theorem wireTrace_is_trace (own : String) (ops : List Op) :
    wireTrace own init {} ops = trace own init ops :=
  wireTrace_eq_trace own init {} ops rfl rfl

/-- **The contact list is the last full roster with the later authorised pushes applied in order.**
For every history, the cached entries equal `specView` of the history's events: within the current
(code-level) session, the most recent full roster received, then every later push from the server or the
user's own account, applied item by item (add / update / remove). -/
theorem roster_refines_spec (own : String) (ops : List Op) :
    (run own init ops).1.entries = specView (trace own init ops) := by
  rw [run_entries, specView_eq_fold]
  rfl

/-- …and the same from any intermediate state whose view already matches a history prefix. -/
theorem roster_refines_spec_from (own : String) (s : St) (pre : List Ev) (ops : List Op)
    (h : s.entries = specView pre) :
    (run own s ops).1.entries = specView (pre ++ trace own s ops) := by
  rw [run_entries, specView_append, h]

/-- **`isRosterReceived()` is true exactly when a full roster was received in the current session.** -/
theorem received_exact (own : String) (ops : List Op) :
    (run own init ops).1.received = specReceived (trace own init ops) := by
  have h := specReceived_append [] (trace own init ops)
  rw [run_received]
  rw [List.nil_append] at h
  rw [h]
  rfl

/-- **The presence table is exact.**  For every history, contact `b` and resource `r`: the table holds an
entry for `b/r` iff the latest available/unavailable presence of `b/r` in the current (code-level) session
was *available*, and the stored presence is that latest one (`specPres`). -/
theorem presence_table_exact (own : String) (ops : List Op) (b r : String) :
    lookupKey r (resTable (run own init ops).1.presences b) = specPres (trace own init ops) b r := by
  rw [run_pres, specPres_eq_fold]
  rfl

/-- …hence `getResources(b)` lists `r` iff that latest presence was available. -/
theorem presence_resources_exact (own : String) (ops : List Op) (b r : String) :
    r ∈ resources (run own init ops).1 b ↔ (specPres (trace own init ops) b r).isSome = true := by
  unfold resources
  rw [mem_keys_iff_lookup, presence_table_exact]

/-- **No duplicate keys, ever**: the contact list has one entry per JID and every contact's resource list
has one entry per resource (so "the list equals the map" above loses nothing). -/
theorem keys_nodup (own : String) (ops : List Op) :
    (keys (run own init ops).1.entries).Nodup
    ∧ (keys (run own init ops).1.presences).Nodup
    ∧ ∀ b, (resources (run own init ops).1 b).Nodup := by
  have hi := Inv.init.run own ops
  exact ⟨hi.entries, hi.pres, fun b => nodup_resTable hi.inner b⟩

/-- **A roster IQ from any other entity changes nothing and is not acknowledged.**  If the sender is
neither absent nor of the user's own account (`bare sender ≠ own`), the step leaves the whole state
untouched, emits no signal and sends no result; the only thing written is the stream's generic
`feature-not-implemented` error for a request (`get`/`set`) nobody handled. -/
theorem foreign_push_noop_noack (own : String) (s : St) (type : IqType) (sender id : String)
    (items : List Item) (h1 : sender ≠ "") (h2 : bare sender ≠ own) :
    step own s (.rosterIq type sender id items)
      = (s, if type = .get ∨ type = .set then [.sentError id] else []) := by
  have ha : authorised own sender = false := by simp [authorised, h1, h2]
  simp [step, ha]

/-- …in particular no result IQ at all leaves the client for it. -/
theorem foreign_push_no_result (own : String) (s : St) (type : IqType) (sender id : String)
    (items : List Item) (h1 : sender ≠ "") (h2 : bare sender ≠ own) :
    (step own s (.rosterIq type sender id items)).2.filter Out.isSentResult = [] := by
  rw [foreign_push_noop_noack own s type sender id items h1 h2]
  split <;> simp [Out.isSentResult]

/-- **History form:** deleting every foreign roster IQ from a history does not change the state reached
(contact list, received flag, presence table, outstanding requests). -/
theorem foreign_pushes_change_nothing (own : String) (s : St) (ops : List Op) :
    (run own s ops).1 = (run own s (dropForeign own ops)).1 := by
  induction ops generalizing s own with
  | nil => rfl
  | cons op rest ih =>
    by_cases hf : op.isForeign own = true
    · have hs : (step own s op).1 = s ∧ nextOwn own op = own := by
        cases op with
        | rosterIq type sender id items =>
          have ha : authorised own sender = false := by simpa [Op.isForeign] using hf
          exact ⟨by simp [step, ha], rfl⟩
        | connected sm auth => simp [Op.isForeign] at hf
        | disconnected en cr => simp [Op.isForeign] at hf
        | response k sender ok items => simp [Op.isForeign] at hf
        | presence sender type status => simp [Op.isForeign] at hf
        | api call tracked => simp [Op.isForeign] at hf
        | setJid j => simp [Op.isForeign] at hf
      simp only [dropForeign, hf, if_true, run_cons, hs.1, hs.2]
      exact ih own s
    · simp only [dropForeign, hf, if_false, Bool.false_eq_true, run_cons]
      exact ih _ _

/-! ### forged, stray and repeated roster RESULTS -/

/-- **A roster result that does not answer an outstanding roster request from the right sender changes
nothing.**  Spelled out: unless some outstanding request has this id *and* the result carries no sender or
exactly the bare JID that request was addressed to, the step leaves the whole state untouched and emits
nothing.  This covers a third party answering with the right id, an id the client never used, the id of a
mutator's `set`, an id already answered or cancelled. -/
theorem forged_result_noop (own : String) (s : St) (k : Nat) (sender : String) (ok : Bool) (items : List Item)
    (h : ¬ ∃ to, (k, to) ∈ s.pending ∧ (sender = "" ∨ sender = to)) :
    step own s (.response k sender ok items) = (s, []) := by
  have hd : delivered s k sender = false := by
    rw [Bool.eq_false_iff]
    intro hd
    exact h ((answers_iff _ _ _).mp hd)
  simp [step, hd]

/-- …in particular a result from a third party (any non-empty sender none of the outstanding requests was
addressed to), whatever its id. -/
theorem third_party_result_noop (own : String) (s : St) (k : Nat) (sender : String) (ok : Bool)
    (items : List Item) (h1 : sender ≠ "") (h2 : ∀ p ∈ s.pending, p.2 ≠ sender) :
    step own s (.response k sender ok items) = (s, []) := by
  apply forged_result_noop
  rintro ⟨to, hm, hs⟩
  rcases hs with hs | hs
  · exact h1 hs
  · exact h2 (k, to) hm hs.symm

/-- …and a result with a request number the client has not used (yet), in every reachable state. -/
theorem result_unused_id_noop (own : String) (ops : List Op) (k : Nat) (sender : String) (ok : Bool)
    (items : List Item) (h : (run own init ops).1.nextReq ≤ k) (own' : String) :
    step own' (run own init ops).1 (.response k sender ok items) = ((run own init ops).1, []) := by
  apply forged_result_noop
  rintro ⟨to, hm, _⟩
  have := PendInv.init.run own ops (k, to) hm
  exact Nat.lt_irrefl _ (Nat.lt_of_lt_of_le this h)

/-- **A result arriving twice counts once**: after an accepted answer to request `k`, any further answer
carrying the same id — from anyone, with any payload — changes nothing. -/
theorem result_replay_noop (own : String) (s : St) (k : Nat) (sender sender' : String) (ok ok' : Bool)
    (items items' : List Item) (h : delivered s k sender = true) :
    let s' := (step own s (.response k sender ok items)).1
    step own s' (.response k sender' ok' items') = (s', []) := by
  intro s'
  have hp : s'.pending = dropReq s.pending k := by
    cases ok <;> simp [s', step, h]
  have hd : delivered s' k sender' = false := by
    simp only [delivered, hp, answers_dropReq]
  simp [step, hd]

/-- **An unsolicited roster IQ of type result or error is ignored whoever sends it** (server, own account or
stranger; `handleStanza` only acts on `set`). -/
theorem unsolicited_roster_result_noop (own : String) (s : St) (type : IqType) (sender id : String)
    (items : List Item) (h : type = .result ∨ type = .error) :
    step own s (.rosterIq type sender id items) = (s, []) := by
  rcases h with h | h <;> subst h <;> cases ha : authorised own sender <;> simp [step, ha]

/-! ### the mutator API and JID changes -/

/-- **Calling a mutator changes nothing locally** (`addItem`, `removeItem`, `renameItem`, `subscribe`, … and
their task-returning variants only send; the cache moves when the server's push arrives): contact list,
presence table, received flag, outstanding roster requests and session flag are untouched, and whatever
answers the `set` they sent is covered by `forged_result_noop` (its id is not that of a roster `get`). -/
theorem api_changes_nothing (own : String) (s : St) (call : Api) (tracked : Bool) :
    let s' := (step own s (.api call tracked)).1
    s'.entries = s.entries ∧ s'.presences = s.presences ∧ s'.received = s.received
    ∧ s'.pending = s.pending ∧ s'.inSession = s.inSession := by
  cases call <;> simp only [step] <;> (try split) <;> simp

/-- **Reconfiguring the JID re-targets the sender rule and nothing else**: the step itself changes no state;
from the next operation on `bare sender` is compared with the new bare JID (`run` passes `nextOwn`), while
answers to roster requests already sent are still expected from the old one (`pending` keeps it). -/
theorem setJid_changes_no_state (own : String) (s : St) (j : String) :
    step own s (.setJid j) = (s, []) ∧ nextOwn own (.setJid j) = j := ⟨rfl, rfl⟩

/-- **`subscription='remove'` for a JID that is not in the roster is silent**: no entry appears or disappears
(every lookup is unchanged) and no signal is emitted; the push is still acknowledged
(`authorised_push_applied_and_acked`). -/
theorem remove_unknown_is_silent (e : Entries) (it : Item) (hr : it.sub = .remove) (hk : hasKey it.jid e = false) :
    (∀ j, lookupKey j (applyItem e it) = lookupKey j e) ∧ itemSignal e it = [] := by
  constructor
  · intro j
    simp only [applyItem, hr, if_true, lookupKey_eraseKey]
    by_cases hj : j = it.jid
    · subst hj
      simp only [if_true]
      cases hl : lookupKey it.jid e
      · rfl
      · simp [hasKey, hl] at hk
    · simp [hj]
  · simp [itemSignal, hr, hk]

/-- **An authorised push is applied and acknowledged exactly once**, with the id of the push and addressed to
its sender: sender absent,
or any JID of the user's own account (bare or full — the code compares `jidToBareJid(from)`). -/
theorem authorised_push_applied_and_acked (own : String) (s : St) (sender id : String) (items : List Item)
    (h : sender = "" ∨ bare sender = own) :
    (step own s (.rosterIq .set sender id items)).1 = { s with entries := items.foldl applyItem s.entries }
    ∧ (step own s (.rosterIq .set sender id items)).2.filter Out.isSentResult = [.sentResult id sender] := by
  have ha : authorised own sender = true := by
    rcases h with h | h <;> simp [authorised, h]
  constructor
  · simp [step, ha, applyItems_fst]
  · simp [step, ha, List.filter_cons, Out.isSentResult, applyItems_no_result]

/-- **Nothing of an earlier session survives a connect that is not a resumption** (direct form): the
contact list, the presence table and the received flag are empty, and no roster request of the earlier
session is outstanding any more (so no late answer to one can be taken for this session's roster) — the
only outstanding request is the one just sent. -/
theorem no_survival_across_new_session (own : String) (s : St) (sm : Sm) (auth : Bool) (h : sm ≠ .resumed) :
    let s' := (step own s (.connected sm auth)).1
    s'.entries = [] ∧ s'.presences = [] ∧ s'.received = false
    ∧ s'.pending = (if auth then [(s.nextReq, own)] else []) := by
  cases auth <;> simp [step, h, St.cleared]

/-- **…(history form): after such a connect, everything observable is a function of the later history
only.**  Two runs that differ arbitrarily in what happened before (any two states, agreeing only on the
request counter that names future requests) are indistinguishable afterwards: same states, same outputs. -/
theorem no_survival_noninterference (own : String) (s s' : St) (sm : Sm) (auth : Bool) (ops : List Op)
    (h : sm ≠ .resumed) (hn : s.nextReq = s'.nextReq) :
    run own s (.connected sm auth :: ops) = run own s' (.connected sm auth :: ops) := by
  have hstep : step own s (.connected sm auth) = step own s' (.connected sm auth) := by
    cases auth <;> simp [step, h, St.cleared, hn]
  simp only [run, hstep]

/-- **The view is kept across a resumption.**  Any number of `disconnected` signals seen with stream
management enabled and of resumed connects leave contact list, presence table and received flag
exactly as they were. -/
theorem kept_across_resumption (own : String) (s : St) (ops : List Op)
    (h : ∀ op ∈ ops, (∃ c, op = .disconnected true c) ∨ (∃ a, op = .connected .resumed a)) :
    (run own s ops).1.entries = s.entries ∧ (run own s ops).1.presences = s.presences
    ∧ (run own s ops).1.received = s.received := by
  induction ops generalizing s own with
  | nil => exact ⟨rfl, rfl, rfl⟩
  | cons op rest ih =>
    have hrest := ih (nextOwn own op) (step own s op).1 (fun o ho => h o (by simp [ho]))
    rw [run_cons]
    have hop : (step own s op).1.entries = s.entries ∧ (step own s op).1.presences = s.presences
        ∧ (step own s op).1.received = s.received := by
      rcases h op (by simp) with ⟨c, hc⟩ | ⟨a, ha⟩
      · subst hc; cases hin : s.inSession <;> cases c <;> simp [step, hin]
      · subst ha
        simp only [step, if_true]
        split <;> exact ⟨rfl, rfl, rfl⟩
    exact ⟨hrest.1.trans hop.1, hrest.2.1.trans hop.2.1, hrest.2.2.trans hop.2.2⟩

/-- **A `disconnected` that does not end an established session changes nothing** (whatever the SM flags
say at that moment): a reconnect attempt that dies after the stream restart leaves contact list, presence
table and received flag alone, so the session can still be resumed with its view intact. -/
theorem disconnected_outside_session_keeps_view (own : String) (s : St) (en cr : Bool)
    (h : s.inSession = false) :
    (step own s (.disconnected en cr)).1.entries = s.entries
    ∧ (step own s (.disconnected en cr)).1.presences = s.presences
    ∧ (step own s (.disconnected en cr)).1.received = s.received
    ∧ (step own s (.disconnected en cr)).1.inSession = false := by
  cases cr <;> simp [step, h]

/-! ### the session-level reading -/

/-- the environment assumption spelled out: `resumesContinueSmSession ops` says exactly that before every
resumed connect of the history, no established session has ended with stream management off since the latest
connect that was not a resumption -/
theorem resumesContinueSmSession_iff (ops : List Op) :
    resumesContinueSmSession ops = true ↔
      ∀ pre a post, ops = pre ++ Op.connected .resumed a :: post → (chainOf pre).smChain = true :=
  resumesOkFrom_iff {} ops

/-- **Session-level exactness.**  With the property's own session boundaries (`traceS`: a view ends only
where a connect that is not a resumption begins a new session; `disconnected` signals end nothing), at every
moment a session is established the contact list is the most recent full roster received on the session
with every later authorised push applied in order, and the presence table lists for every contact exactly
the resources whose latest available/unavailable presence on the session was available (with that
presence's status).  Environment assumption (needed, see `session_view_needs_assumption`):
`resumesContinueSmSession` — a resumption continues the latest session and that session had stream
management. -/
theorem session_view_exact (own : String) (ops : List Op)
    (henv : resumesContinueSmSession ops = true) (hc : connectedNow ops = true) :
    (run own init ops).1.entries = specView (traceS own init ops)
    ∧ ∀ b r, lookupKey r (resTable (run own init ops).1.presences b) = specPres (traceS own init ops) b r := by
  have h := SessInv.init.run own ops henv
  simpa using h.view (h.live hc)

/-- the history that defeated the code before commit fd7e86c: session with SM, roster `alice`, her phone
comes online, the socket is lost (resumable), one reconnect attempt dies after the stream restart (flags
reset ⇒ `disconnected` with SM reported off, still resumable), the next attempt resumes the stream -/
def resumeWitness : List Op :=
  [ .connected .new true,
    .response 1 "" true [{ jid := "alice@example.org", name := "Alice", sub := .both, groups := ["friends"] }],
    .presence "alice@example.org/phone" .available "hi",
    .disconnected true true,
    .disconnected false true,
    .connected .resumed true ]

/-- a resumed connect after a session WITHOUT stream management has ended (no server does that) -/
def impossibleResume : List Op :=
  [ .connected .none_ true,
    .response 1 "" true [{ jid := "alice@example.org", name := "Alice", sub := .both, groups := [] }],
    .disconnected false false,
    .connected .resumed true ]

/-- **The assumption is needed**: without it the conclusion of `session_view_exact` fails (the non-SM session's
end rightly cleared the cache; a "resumption" of it would find it empty). -/
theorem session_view_needs_assumption :
    ¬ (∀ (own : String) (ops : List Op), connectedNow ops = true →
        (run own init ops).1.entries = specView (traceS own init ops)) := by
  intro h
  have h1 := h "me@example.org" impossibleResume (by decide)
  revert h1
  decide

/-! ### Non-vacuity: the hypotheses above are met by concrete, non-trivial cases. -/

-- senders the check rejects (stranger, look-alikes of the own JID) and accepts (server, own bare, own full)
example : ("mallory@evil.example/x" ≠ "" ∧ bare "mallory@evil.example/x" ≠ "me@example.org") := by decide
example : bare "me@example.org.evil.example" ≠ "me@example.org" := by decide
example : bare "Me@example.org/home" ≠ "me@example.org" := by decide
example : bare "/me@example.org" ≠ "me@example.org" := by decide
example : bare "me@example.org/other" = "me@example.org" := by decide
example : authorised "me@example.org" "" = true ∧ authorised "me@example.org" "me@example.org" = true
    ∧ authorised "me@example.org" "me@example.org/home" = true
    ∧ authorised "me@example.org" "example.org" = false := by decide

-- a foreign push really is a no-op on a non-empty state, an authorised one is applied and acknowledged
example :
    let s := (run "me@example.org" init [.connected .none_ true,
      .response 1 "" true [{ jid := "a@x", name := "A", sub := .both, groups := [] }]]).1
    step "me@example.org" s (.rosterIq .set "mallory@evil.example/x" "p1" [{ jid := "a@x", name := "", sub := .remove, groups := [] }])
      = (s, [.sentError "p1"])
    ∧ (step "me@example.org" s (.rosterIq .set "me@example.org/other" "p2" [{ jid := "a@x", name := "", sub := .remove, groups := [] }]))
      = ({ s with entries := [] }, [.sentResult "p2" "me@example.org/other", .itemRemoved "a@x"]) := by decide

-- last full roster + later pushes in order; an answer of the previous session is not taken
example : (run "me@example.org" init
    [.connected .new true, .disconnected true true, .connected .new true,
     .response 1 "" true [{ jid := "old@x", name := "", sub := .both, groups := [] }],
     .response 2 "" true [{ jid := "a@x", name := "A", sub := .both, groups := [] }, { jid := "b@x", name := "B", sub := .to_, groups := [] }],
     .rosterIq .set "" "p1" [{ jid := "a@x", name := "A2", sub := .from_, groups := [] }],
     .rosterIq .set "me@example.org" "p2" [{ jid := "b@x", name := "", sub := .remove, groups := [] }]]).1.entries
    = [("a@x", { jid := "a@x", name := "A2", sub := .from_, groups := [] })] := by decide

-- the hypothesis of `kept_across_resumption` on a non-trivial history
example : ∀ op ∈ [Op.disconnected true true, Op.connected .resumed true, Op.disconnected true false],
    (∃ c, op = .disconnected true c) ∨ (∃ a, op = .connected .resumed a) := by
  intro op h
  simp only [List.mem_cons, List.not_mem_nil, or_false] at h
  rcases h with h | h | h <;> subst h <;> simp

-- the old witness history meets both hypotheses of `session_view_exact`, and the view survives the failed
-- reconnect attempt: alice and her phone are still there after the resumption
example : resumesContinueSmSession resumeWitness = true ∧ connectedNow resumeWitness = true := by decide
example : keys (run "me@example.org" init resumeWitness).1.entries = ["alice@example.org"]
    ∧ resources (run "me@example.org" init resumeWitness).1 "alice@example.org" = ["phone"]
    ∧ (run "me@example.org" init resumeWitness).1.received = true := by decide
example : specView (traceS "me@example.org" init resumeWitness) ≠ [] := by decide
-- the excluded history violates the assumption (and only the assumption)
example : resumesContinueSmSession impossibleResume = false ∧ connectedNow impossibleResume = true := by decide
-- hypothesis of `disconnected_outside_session_keeps_view` on a reachable non-trivial state
example : (run "me@example.org" init (resumeWitness.take 4)).1.inSession = false
    ∧ (run "me@example.org" init (resumeWitness.take 4)).1.entries ≠ [] := by decide

-- forged / stray / repeated results on a reachable state with request 1 outstanding: a third party using the
-- right id, the own FULL jid (the IQ layer wants the bare one), an id never used — nothing; the genuine answer —
-- taken; the same answer again, or a forged one with that id afterwards — nothing
example :
    let a : Item := { jid := "a@x", name := "A", sub := .both, groups := [] }
    let e : Item := { jid := "evil@x", name := "E", sub := .both, groups := [] }
    let s := (run "me@example.org" init [.connected .none_ true]).1
    s.pending = [(1, "me@example.org")]
    ∧ step "me@example.org" s (.response 1 "mallory@evil.example/x" true [e]) = (s, [])
    ∧ step "me@example.org" s (.response 1 "me@example.org/home" true [e]) = (s, [])
    ∧ step "me@example.org" s (.response 7 "" true [e]) = (s, [])
    ∧ (step "me@example.org" s (.response 1 "me@example.org" true [a])).1.entries = [("a@x", a)]
    ∧ (run "me@example.org" s [.response 1 "" true [a], .response 1 "" true [e],
          .response 1 "mallory@evil.example/x" true [e], .rosterIq .result "" "x" [e]]).1.entries = [("a@x", a)] := by
  decide

-- a push with several items applies each in order; a push before the initial roster is applied and then
-- replaced by the roster; `remove` of an unknown JID is silent but acknowledged
example :
    let a : Item := { jid := "a@x", name := "A", sub := .both, groups := [] }
    let b : Item := { jid := "b@x", name := "B", sub := .to_, groups := [] }
    let rb : Item := { jid := "b@x", name := "", sub := .remove, groups := [] }
    let rc : Item := { jid := "c@x", name := "", sub := .remove, groups := [] }
    (run "me@example.org" init [.connected .none_ true, .rosterIq .set "" "p1" [a, b, rb]]).1.entries = [("a@x", a)]
    ∧ (run "me@example.org" init [.connected .none_ true, .rosterIq .set "" "p1" [a]]).1.received = false
    ∧ (run "me@example.org" init [.connected .none_ true, .rosterIq .set "" "p1" [a], .response 1 "" true [b]]).1.entries
        = [("b@x", b)]
    ∧ (step "me@example.org" (run "me@example.org" init [.connected .none_ true, .response 1 "" true [a]]).1
        (.rosterIq .set "" "p2" [rc])).2 = [.sentResult "p2" ""]
    ∧ hasKey rc.jid [("a@x", a)] = false := by
  decide

-- the mutators only send: `renameItem` sends the stored item under the new name (nothing for an unknown JID),
-- the roster does not move until the server pushes; a result for the mutator's request id, even with a roster
-- payload, is not a roster answer
example :
    let a : Item := { jid := "a@x", name := "A", sub := .both, groups := ["g"] }
    let s := (run "me@example.org" init [.connected .none_ true, .response 1 "" true [a]]).1
    step "me@example.org" s (.api (.renameItem "a@x" "A2") false)
      = ({ s with nextReq := 3 }, [.sentSet 2 { a with name := "A2" }])
    ∧ step "me@example.org" s (.api (.renameItem "zz@x" "Z") true) = (s, [])
    ∧ (run "me@example.org" s [.api (.removeItem "a@x") true, .response 2 "" true []]).1.entries = [("a@x", a)]
    ∧ (step "me@example.org" s (.api (.subscribe "b@x/r") false)).2 = [.sentPresence "subscribe" "b@x"] := by
  decide

-- reconfiguring the JID: pushes are then judged against the new bare JID, the answer to a request sent
-- before is still expected from the old one
example :
    let a : Item := { jid := "a@x", name := "A", sub := .both, groups := [] }
    let b : Item := { jid := "b@x", name := "B", sub := .both, groups := [] }
    (run "me@example.org" init [.connected .none_ true, .setJid "me2@example.org",
        .rosterIq .set "me@example.org" "p1" [a], .rosterIq .set "me2@example.org/x" "p2" [b]]).1.entries = [("b@x", b)]
    ∧ (run "me@example.org" init [.connected .none_ true, .setJid "me2@example.org",
        .response 1 "me2@example.org" true [a]]).1.entries = []
    ∧ (run "me@example.org" init [.connected .none_ true, .setJid "me2@example.org",
        .response 1 "me@example.org" true [a]]).1.entries = [("a@x", a)] := by
  decide

end Qx.C12
