import Qx.Proofs.C08
import Qx.Generated.IqHandlers
/-!
# C08 — every incoming IQ request is answered exactly once; responses are never answered

Property theorems only (model: `Qx/Model/C08Dispatch.lean`, helpers: `Qx/Proofs/C08.lean`, generated
source facts: `Qx/Generated/IqHandlers.lean`).

A `Stanza` is an incoming `<iq/>`: type class × sender class × id class × entry (stream / decrypted) × the
list of its children (unbounded), each child reduced to (tag, namespace, flag).  `dispatch exts s` is what the
client does with it when the extensions `exts` are installed in that order; `.sent` are the IQ
result/error stanzas it sends.  `answeredRight s sent` is the property text for one stanza:
get/set ⇒ `sent` is exactly one reply with the same id that reaches the sender; result/error ⇒ `sent = []`.

History: before repo commits 28afc7a, 318b7cf, 1833c1a, 29beb7d, 88fc5c1, daa6e10, 7916dee, e597fe7, af7bef7 nine
managers swallowed requests or answered responses; the model then proved `¬ FullC08` at 37 witness cells, which are
kept as the first sequence of the harness corpus (harness/cxx/iqreply.cpp) with their oracle keys.
-/
namespace Qx.C08

/-! ## 1. The lifting lemma: per-row goodness lifts to every extension list -/

/-- **Requests.** For EVERY list of extensions (any handler functions at all, in any order, any length):
if each installed handler is good at the stanza — a request is either answered by it with exactly one
proper reply or passed on silently — then a get/set gets exactly one reply, it carries the request's id
and it is addressed so that it reaches the sender. -/
theorem request_answered_once (exts : List Row) (s : Stanza)
    (hgood : ∀ r ∈ exts, r.good s = true) (hreq : s.type = .get ∨ s.type = .set) :
    replies (dispatch exts s) = 1 ∧
    ∃ r, (dispatch exts s).sent = [r] ∧ r.idSame = true ∧ r.to.okFor s.frm = true := by
  have h := dispatch_good exts s hgood
  have hq : isReq s.type = true := by rcases hreq with h | h <;> simp [h, isReq]
  simp only [answeredRight, answeredTF, hq, if_true] at h
  generalize (dispatch exts s) = o at h ⊢
  rcases o with ⟨b, sent, d⟩
  match sent, h with
  | [r], h =>
    simp only [okOne, Bool.and_eq_true] at h
    exact ⟨rfl, r, rfl, h.1, h.2⟩

/-- **Responses.** Under the same hypothesis nothing at all is sent for a result/error, whatever its
payload, sender and id — so two endpoints cannot bounce errors. -/
theorem response_never_answered (exts : List Row) (s : Stanza)
    (hgood : ∀ r ∈ exts, r.good s = true) (hresp : s.type = .result ∨ s.type = .error) :
    replies (dispatch exts s) = 0 ∧ (dispatch exts s).sent = [] := by
  have h := dispatch_good exts s hgood
  have hp : isResp s.type = true := by rcases hresp with h | h <;> simp [h, isResp]
  have hq : isReq s.type = false := isResp_not_isReq hp
  simp only [answeredRight, answeredTF, hq, hp, if_true, Bool.false_eq_true, if_false,
    List.isEmpty_iff] at h
  simp [replies, h]

/-! ## 2. The bundled managers: every row is good, hence C08 holds for every installation -/

/-- Every bundled manager's handler (31 classes; blocking with and without a blocklist, MUC with and without a
matching room) is good at EVERY stanza, any number of children: a get/set is either answered by it with
exactly one proper reply or passed on without sending anything; nothing is sent for a result/error. -/
theorem every_row_good (m : Mgr) (s : Stanza) : (rowOf m).good s = true := row_good m s

/-- **C08.** For every set of bundled managers, in every registration order and multiplicity, and every
incoming IQ (any payload, sender, id; from the stream or decrypted): a get/set gets exactly one reply,
carrying the request's id and addressed so that it reaches the sender (feature-not-implemented from the
fallback when no extension claims it); a result/error gets no reply at all. -/
theorem C08_holds (ms : List Mgr) (s : Stanza) :
    answeredRight s (dispatch (ms.map rowOf) s).sent = true := by
  apply dispatch_good
  intro r hr
  rcases List.mem_map.mp hr with ⟨m, _, rfl⟩
  exact every_row_good m s

/-- C08 for requests, spelled out -/
theorem C08_requests (ms : List Mgr) (s : Stanza) (hreq : s.type = .get ∨ s.type = .set) :
    replies (dispatch (ms.map rowOf) s) = 1 ∧
    ∃ r, (dispatch (ms.map rowOf) s).sent = [r] ∧ r.idSame = true ∧ r.to.okFor s.frm = true := by
  apply request_answered_once _ _ _ hreq
  intro r hr
  rcases List.mem_map.mp hr with ⟨m, _, rfl⟩
  exact every_row_good m s

/-- C08 for responses, spelled out: no reply, so two endpoints can never bounce errors -/
theorem C08_responses (ms : List Mgr) (s : Stanza) (hresp : s.type = .result ∨ s.type = .error) :
    replies (dispatch (ms.map rowOf) s) = 0 ∧ (dispatch (ms.map rowOf) s).sent = [] := by
  apply response_never_answered _ _ _ hresp
  intro r hr
  rcases List.mem_map.mp hr with ⟨m, _, rfl⟩
  exact every_row_good m s

/-- the only reply the fallback ever adds is an error addressed to the sender with the request's id, and it
is added exactly when no extension claimed a get/set -/
theorem fallback_reply_shape (exts : List Row) (s : Stanza) (h : (dispatch exts s).by_ = .fallback)
    (hreq : isReq s.type = true) (hch : (chain exts s).sent = []) :
    (dispatch exts s).sent = [⟨.error, .sender, true⟩] := by
  have hnresp := isReq_not_isResp hreq
  have ht : tableConsumes s = false := by simp [tableConsumes, hnresp]
  simp only [dispatch, ht, Bool.and_false, Bool.false_eq_true, if_false] at h ⊢
  cases hb : (chain exts s).handledBy with
  | some m => simp [hb] at h
  | none => simp [hreq, hch, fallbackReply]

/-! ## 4. The model's tables are the source's (regenerated by translators/iq_handlers.py on every run) -/

/-- every class in src/client that overrides `handleStanza` has a model row, with the same handler style
(new style = also called for decrypted IQs) -/
theorem every_handler_site_has_a_row :
    ∀ p ∈ Generated.handlerSites, ∃ m, p.2.1 = some m ∧ m ∈ allMgrs ∧ (rowOf m).newStyle = p.2.2 := by
  decide

/-- the claim predicates called in each `handleStanza` body of the source are exactly the ones the model
rows transcribe (a handler that starts looking at a new kind of payload breaks this) -/
theorem handler_predicates_are_the_modelled_ones :
    Generated.handlerPredicates = modelledPredicates := by decide

/-- the model's default set is the `BasicExtensions` block of the QXmppClient constructor, in order -/
theorem default_set_is_the_sources :
    defaultSet.map (fun r => some r.mgr) = Generated.defaultExtensions := by decide

/-- every constructor of `Mgr` is in `allMgrs` and `rowOf` labels the row with its own manager
(the deciding manager reported by `dispatch` is the installed one) -/
theorem rowOf_mgr (m : Mgr) : (rowOf m).mgr = m ∧ m ∈ allMgrs := by cases m <;> decide

/-! ## 5. Non-vacuity: the hypotheses above are met by concrete, non-trivial configurations -/

-- the default set at a version request from a stranger: every row good, one result reply
example : (∀ r ∈ defaultSet, r.good ⟨.get, .other, .fresh, [⟨.query, .version, false⟩], false⟩ = true)
    ∧ dispatch defaultSet ⟨.get, .other, .fresh, [⟨.query, .version, false⟩], false⟩
      = ⟨.ext .version, [⟨.result, .sender, true⟩], false⟩ := by decide
-- nobody claims it: the fallback answers feature-not-implemented
example : dispatch defaultSet ⟨.set, .ownOther, .absent, [⟨.other, .other, false⟩], false⟩
      = ⟨.fallback, [⟨.error, .sender, true⟩], false⟩ := by decide
-- a response with an unknown id: reported upwards, nothing sent
example : dispatch defaultSet ⟨.error, .other, .fresh, [⟨.query, .discoInfo, false⟩], false⟩
      = ⟨.ext .discovery, [], false⟩ := by decide
-- a response to an outstanding request is consumed by the table before any extension
example : dispatch defaultSet ⟨.result, .other, .table, [⟨.vCard, .vcard, false⟩], false⟩ = ⟨.table, [], false⟩ := by
  decide
-- garbage type, nobody claims it: stream error, no reply
example : dispatch defaultSet ⟨.garbage, .other, .fresh, [], false⟩ = ⟨.rejected, [], true⟩ := by decide
-- the first claiming extension decides: vCard manager before / after the archive manager
example : (dispatch [rowOf .vcard, rowOf .archive] ⟨.result, .other, .fresh, [⟨.vCard, .vcard, false⟩, ⟨.chat, .archive, true⟩], false⟩).by_
      = .ext .vcard ∧
    (dispatch [rowOf .archive, rowOf .vcard] ⟨.result, .other, .fresh, [⟨.vCard, .vcard, false⟩, ⟨.chat, .archive, true⟩], false⟩).by_
      = .ext .archive := by decide
-- former defect cells now answered: vCard get from a stranger (fallback error), roster push from another own
-- resource (result addressed to it), IBB data echoed in an error (no reply), RPC call with a malformed name (error)
example : dispatch defaultSet ⟨.get, .other, .fresh, [⟨.vCard, .vcard, false⟩], false⟩
      = ⟨.fallback, [⟨.error, .sender, true⟩], false⟩ := by decide
example : dispatch defaultSet ⟨.set, .ownOther, .fresh, [⟨.query, .roster, false⟩], false⟩
      = ⟨.ext .roster, [⟨.result, .sender, true⟩], false⟩ := by decide
example : dispatch [rowOf .transfer] ⟨.error, .other, .fresh, [⟨.data, .ibb, false⟩, ⟨.error, .other, false⟩], false⟩
      = ⟨.fallback, [], false⟩ := by decide
example : dispatch [rowOf .rpc] ⟨.set, .other, .fresh, [⟨.query, .rpc, false⟩], false⟩
      = ⟨.ext .rpc, [⟨.error, .sender, true⟩], false⟩ := by decide
-- hypothesis of fallback_reply_shape
example : (dispatch defaultSet ⟨.get, .none, .fresh, [⟨.other, .other, false⟩], false⟩).by_ = .fallback
    ∧ (chain defaultSet ⟨.get, .none, .fresh, [⟨.other, .other, false⟩], false⟩).sent = [] := by decide

end Qx.C08
