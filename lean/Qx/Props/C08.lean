import Qx.Proofs.C08
import Qx.Generated.IqHandlers
/-!
# C08 — every incoming IQ request is answered exactly once; responses are never answered

Property theorems only (model: `Qx/Model/C08Dispatch.lean`, helpers: `Qx/Proofs/C08.lean`, generated
source facts: `Qx/Generated/IqHandlers.lean`).

A `Stanza` is an incoming `<iq/>`: type class × sender class × id class × entry (stream / decrypted) × the
list of its children (unbounded), each child reduced to (tag, namespace, flag).  `dispatch exts s` is what the
client does with it when the extensions `exts` are installed in that order; `.sent` are the IQ
result/error stanzas it sends.  `answeredRight s sent` is the property text for one stanza:
get/set ⇒ `sent` is exactly one reply with the same id that reaches the sender; result/error ⇒ `sent = []`.
-/
namespace Qx.C08

/-! ## 1. The lifting lemma: per-row goodness lifts to every extension list -/

/-- **Requests.** For EVERY list of extensions (any handler functions at all, in any order, any length):
if each installed handler is good at the stanza — a request is either answered by it with exactly one
proper reply or passed on silently — then a get/set gets exactly one reply, it carries the request's id
and it is addressed so that it reaches the sender. -/
theorem request_answered_once (exts : List Row) (s : Stanza)
    (hgood : ∀ r ∈ exts, r.good s = true) (hreq : s.type = .get ∨ s.type = .set) :
    replies (dispatch exts s) = 1 ∧
    ∃ r, (dispatch exts s).sent = [r] ∧ r.idSame = true ∧ r.to.okFor s.frm = true := by
  have h := dispatch_good exts s hgood
  have hq : isReq s.type = true := by rcases hreq with h | h <;> simp [h, isReq]
  simp only [answeredRight, answeredTF, hq, if_true] at h
  generalize (dispatch exts s) = o at h ⊢
  rcases o with ⟨b, sent, d⟩
  match sent, h with
  | [r], h =>
    simp only [okOne, Bool.and_eq_true] at h
    exact ⟨rfl, r, rfl, h.1, h.2⟩

/-- **Responses.** Under the same hypothesis nothing at all is sent for a result/error, whatever its
payload, sender and id — so two endpoints cannot bounce errors. -/
theorem response_never_answered (exts : List Row) (s : Stanza)
    (hgood : ∀ r ∈ exts, r.good s = true) (hresp : s.type = .result ∨ s.type = .error) :
    replies (dispatch exts s) = 0 ∧ (dispatch exts s).sent = [] := by
  have h := dispatch_good exts s hgood
  have hp : isResp s.type = true := by rcases hresp with h | h <;> simp [h, isResp]
  have hq : isReq s.type = false := isResp_not_isReq hp
  simp only [answeredRight, answeredTF, hq, hp, if_true, Bool.false_eq_true, if_false,
    List.isEmpty_iff] at h
  simp [replies, h]

/-! ## 2. The rows: which bundled managers are good, and exactly where the others are not -/

/- `defectiveMgrs` (model file) = [vcard, roster, archive, bookmark, mam, registration, rpc, transfer, uploadRequest]:
   the managers whose `handleStanza` today has at least one cell where it is not good. -/

/-- **Exact row table.** For every bundled manager and EVERY stanza (any number of children): the
manager's handler is good at the stanza if and only if the stanza is not one of the manager's listed
defect cells (`defectCell`, spelled out in the model file). -/
theorem row_good_iff_not_defect (m : Mgr) (s : Stanza) :
    (rowOf m).good s = true ↔ (rowOf m).defect s = false := by
  rw [good_iff_not_defect]; cases (rowOf m).defect s <;> simp

/-- The managers outside `defectiveMgrs` — discovery, version, entity time, blocking (subscribed or not),
MUC (with or without rooms), carbons, pubsub and every extension without a `handleStanza` override —
have no defect cell: they are good at every stanza. -/
theorem sound_managers_are_good (m : Mgr) (hm : m ∉ defectiveMgrs) (s : Stanza) :
    (rowOf m).good s = true := by
  rw [row_good_iff_not_defect]
  cases m <;> first
    | (exfalso; exact hm (by decide))
    | (simp only [Row.defect, rowOf, defectCell]; cases s.enc <;> rfl)

/-- **C08 at full strength for every set of sound managers**: whichever of them are installed, in
whatever order and multiplicity, every get/set is answered exactly once, to the sender, with its id. -/
theorem C08_requests_sound_managers (ms : List Mgr) (hms : ∀ m ∈ ms, m ∉ defectiveMgrs) (s : Stanza)
    (hreq : s.type = .get ∨ s.type = .set) :
    replies (dispatch (ms.map rowOf) s) = 1 ∧
    ∃ r, (dispatch (ms.map rowOf) s).sent = [r] ∧ r.idSame = true ∧ r.to.okFor s.frm = true := by
  apply request_answered_once _ _ _ hreq
  intro r hr
  rcases List.mem_map.mp hr with ⟨m, hm, rfl⟩
  exact sound_managers_are_good m (hms m hm) s

/-- … and no result/error is ever answered. -/
theorem C08_responses_sound_managers (ms : List Mgr) (hms : ∀ m ∈ ms, m ∉ defectiveMgrs) (s : Stanza)
    (hresp : s.type = .result ∨ s.type = .error) :
    replies (dispatch (ms.map rowOf) s) = 0 ∧ (dispatch (ms.map rowOf) s).sent = [] := by
  apply response_never_answered _ _ _ hresp
  intro r hr
  rcases List.mem_map.mp hr with ⟨m, hm, rfl⟩
  exact sound_managers_are_good m (hms m hm) s

/-- **C08 for every set of bundled managers, outside the listed defect cells** (`…_partial`: the full
statement quantifies over all stanzas; what is missing are exactly the stanzas that are a defect cell of an
installed manager — see section 3, where the full statement is refuted at those cells). -/
theorem C08_all_managers_partial (ms : List Mgr) (s : Stanza)
    (hcell : ∀ m ∈ ms, (rowOf m).defect s = false) :
    answeredRight s (dispatch (ms.map rowOf) s).sent = true := by
  apply dispatch_good
  intro r hr
  rcases List.mem_map.mp hr with ⟨m, hm, rfl⟩
  exact (row_good_iff_not_defect m s).mpr (hcell m hm)

/-! ## 3. Today's code violates the property: the defect cells are real -/

/- `FullC08` (model file) is the property text for all bundled managers and all stanzas:
   `∀ ms s, answeredRight s (dispatch (ms.map rowOf) s).sent = true`.
   `refute ms s h` (Proofs) turns one configuration + stanza that is not answered right into `¬ FullC08`. -/

/-- **Every defect cell is a violation**: with only that manager installed (and the stanza not consumed
by the request table first) the pipeline does NOT answer right — for every stanza in the cell. -/
theorem C08_fails_at_every_defect_cell (m : Mgr) (s : Stanza) (hd : (rowOf m).defect s = true)
    (ht : s.enc = true ∨ tableConsumes s = false) :
    answeredRight s (dispatch [rowOf m] s).sent = false := by
  have hg : (rowOf m).good s = false := by rw [good_iff_not_defect, hd]; rfl
  have hT : (!s.enc && tableConsumes s) = false := by rcases ht with h | h <;> simp [h]
  simp only [Row.good, Beh.goodFor, goodTF] at hg
  simp only [dispatch, hT, chain, answeredRight, answeredTF, Bool.false_eq_true, if_false]
  generalize (rowOf m).run s = b at hg ⊢
  rcases b with ⟨handled, sent⟩
  cases handled <;> cases hq : isReq s.type <;> cases hp : isResp s.type <;>
    simp_all
  all_goals
    (rcases sent with _ | ⟨x, _ | ⟨y, l⟩⟩ <;> simp_all [okOne])

/-- default set `[roster, vCard, version, time, discovery]`:
`<iq type='get' from='juliet@example.net/balcony' id='…'><vCard xmlns='vcard-temp'/></iq>` gets no reply. -/
theorem C08_defect_vcard_get : ¬ FullC08 :=
  refute [.roster, .vcard, .version, .entityTime, .discovery]
    ⟨.get, .other, .fresh, [⟨.vCard, .vcard, false⟩], false⟩ (by decide)
/-- same with `type='set'` (a stranger "setting" our vCard is silently dropped instead of refused). -/
theorem C08_defect_vcard_set : ¬ FullC08 :=
  refute [.roster, .vcard, .version, .entityTime, .discovery]
    ⟨.set, .other, .fresh, [⟨.vCard, .vcard, false⟩], false⟩ (by decide)
/-- default set: `<iq type='get' id='…'><query xmlns='jabber:iq:roster'/></iq>` without `from` (server): no reply. -/
theorem C08_defect_roster_get_none : ¬ FullC08 :=
  refute [.roster, .vcard, .version, .entityTime, .discovery]
    ⟨.get, .none, .fresh, [⟨.query, .roster, false⟩], false⟩ (by decide)
/-- … from the own bare JID -/
theorem C08_defect_roster_get_ownBare : ¬ FullC08 :=
  refute [.roster] ⟨.get, .ownBare, .fresh, [⟨.query, .roster, false⟩], false⟩ (by decide)
/-- … from the own full JID -/
theorem C08_defect_roster_get_ownFull : ¬ FullC08 :=
  refute [.roster] ⟨.get, .ownFull, .fresh, [⟨.query, .roster, false⟩], false⟩ (by decide)
/-- … from another resource of the own account -/
theorem C08_defect_roster_get_ownOther : ¬ FullC08 :=
  refute [.roster] ⟨.get, .ownOther, .fresh, [⟨.query, .roster, false⟩], false⟩ (by decide)
/-- roster `set` from the own full JID is answered with an IQ that has no `to`: it goes to the server,
not to the resource that asked -/
theorem C08_defect_roster_set_ownFull : ¬ FullC08 :=
  refute [.roster] ⟨.set, .ownFull, .fresh, [⟨.query, .roster, false⟩], false⟩ (by decide)
/-- … same for another resource of the own account -/
theorem C08_defect_roster_set_ownOther : ¬ FullC08 :=
  refute [.roster] ⟨.set, .ownOther, .fresh, [⟨.query, .roster, false⟩], false⟩ (by decide)
/-- archive manager: `<chat xmlns='urn:xmpp:archive' with='x'/>` of type get, any sender: no reply -/
theorem C08_defect_archive_get_chat : ¬ FullC08 :=
  refute [.archive] ⟨.get, .other, .fresh, [⟨.chat, .archive, true⟩], false⟩ (by decide)
theorem C08_defect_archive_set_chat : ¬ FullC08 :=
  refute [.archive] ⟨.set, .other, .fresh, [⟨.chat, .archive, true⟩], false⟩ (by decide)
/-- archive manager: `<list xmlns='urn:xmpp:archive'/>` get/set: no reply -/
theorem C08_defect_archive_get_list : ¬ FullC08 :=
  refute [.archive] ⟨.get, .other, .fresh, [⟨.list, .archive, false⟩], false⟩ (by decide)
theorem C08_defect_archive_set_list : ¬ FullC08 :=
  refute [.archive] ⟨.set, .other, .fresh, [⟨.list, .archive, false⟩], false⟩ (by decide)
/-- archive manager: `<pref xmlns='urn:xmpp:archive'/>` get/set: no reply -/
theorem C08_defect_archive_get_pref : ¬ FullC08 :=
  refute [.archive] ⟨.get, .other, .fresh, [⟨.pref, .archive, false⟩], false⟩ (by decide)
theorem C08_defect_archive_set_pref : ¬ FullC08 :=
  refute [.archive] ⟨.set, .other, .fresh, [⟨.pref, .archive, false⟩], false⟩ (by decide)
/-- bookmark manager: `<query xmlns='jabber:iq:private'><storage xmlns='storage:bookmarks'/></query>` get/set: no reply -/
theorem C08_defect_bookmark_get : ¬ FullC08 :=
  refute [.bookmark] ⟨.get, .other, .fresh, [⟨.query, .priv, true⟩], false⟩ (by decide)
theorem C08_defect_bookmark_set : ¬ FullC08 :=
  refute [.bookmark] ⟨.set, .other, .fresh, [⟨.query, .priv, true⟩], false⟩ (by decide)
/-- bookmark manager: any get/set whose id equals the id of the outstanding `setBookmarks` request is swallowed -/
theorem C08_defect_bookmark_get_pending_id : ¬ FullC08 :=
  refute [.bookmark] ⟨.get, .other, .bm, [⟨.other, .other, false⟩], false⟩ (by decide)
theorem C08_defect_bookmark_set_pending_id : ¬ FullC08 :=
  refute [.bookmark] ⟨.set, .other, .bm, [⟨.other, .other, false⟩], false⟩ (by decide)
/-- MAM manager: `<fin xmlns='urn:xmpp:mam:2'/>` of type get/set: no reply -/
theorem C08_defect_mam_get_fin : ¬ FullC08 :=
  refute [.mam] ⟨.get, .other, .fresh, [⟨.fin, .mam, false⟩], false⟩ (by decide)
theorem C08_defect_mam_set_fin : ¬ FullC08 :=
  refute [.mam] ⟨.set, .other, .fresh, [⟨.fin, .mam, false⟩], false⟩ (by decide)
/-- registration manager: `<query xmlns='jabber:iq:register'/>` get/set from anyone: no reply -/
theorem C08_defect_registration_get_register : ¬ FullC08 :=
  refute [.registration] ⟨.get, .other, .fresh, [⟨.query, .register, false⟩], false⟩ (by decide)
theorem C08_defect_registration_set_register : ¬ FullC08 :=
  refute [.registration] ⟨.set, .other, .fresh, [⟨.query, .register, false⟩], false⟩ (by decide)
/-- registration manager: any get/set whose id equals the id of an outstanding registration /
change-password / delete-account request is swallowed (and clears that request) -/
theorem C08_defect_registration_get_pending_id : ¬ FullC08 :=
  refute [.registration] ⟨.get, .other, .reg, [⟨.other, .other, false⟩], false⟩ (by decide)
theorem C08_defect_registration_set_pending_id : ¬ FullC08 :=
  refute [.registration] ⟨.set, .other, .reg, [⟨.other, .other, false⟩], false⟩ (by decide)
/-- RPC manager: `set` with `<query xmlns='jabber:iq:rpc'/>` whose method name is not `Interface.method`: no reply -/
theorem C08_defect_rpc_set_bad_method : ¬ FullC08 :=
  refute [.rpc] ⟨.set, .other, .fresh, [⟨.query, .rpc, false⟩], false⟩ (by decide)
/-- transfer manager: an IQ of type result/error carrying `<open|data|close xmlns='…/ibb'/>` is ANSWERED
(item-not-found): a reply to a response -/
theorem C08_defect_transfer_result_ibb_open : ¬ FullC08 :=
  refute [.transfer] ⟨.result, .other, .fresh, [⟨.openT, .ibb, false⟩], false⟩ (by decide)
theorem C08_defect_transfer_error_ibb_open : ¬ FullC08 :=
  refute [.transfer] ⟨.error, .other, .fresh, [⟨.openT, .ibb, false⟩], false⟩ (by decide)
theorem C08_defect_transfer_result_ibb_data : ¬ FullC08 :=
  refute [.transfer] ⟨.result, .other, .fresh, [⟨.data, .ibb, false⟩], false⟩ (by decide)
theorem C08_defect_transfer_error_ibb_data : ¬ FullC08 :=
  refute [.transfer] ⟨.error, .other, .fresh, [⟨.data, .ibb, false⟩], false⟩ (by decide)
theorem C08_defect_transfer_result_ibb_close : ¬ FullC08 :=
  refute [.transfer] ⟨.result, .other, .fresh, [⟨.close, .ibb, false⟩], false⟩ (by decide)
theorem C08_defect_transfer_error_ibb_close : ¬ FullC08 :=
  refute [.transfer] ⟨.error, .other, .fresh, [⟨.close, .ibb, false⟩], false⟩ (by decide)
/-- transfer manager: `get` with `<query xmlns='…/bytestreams'/>`: no reply -/
theorem C08_defect_transfer_get_bytestreams : ¬ FullC08 :=
  refute [.transfer] ⟨.get, .other, .fresh, [⟨.query, .bytestreams, false⟩], false⟩ (by decide)
/-- transfer manager: `get` with `<si xmlns='…/si'/>`: no reply -/
theorem C08_defect_transfer_get_si : ¬ FullC08 :=
  refute [.transfer] ⟨.get, .other, .fresh, [⟨.si, .si, false⟩], false⟩ (by decide)
/-- upload request manager: `<request|slot xmlns='urn:xmpp:http:upload:0'/>` get/set: no reply -/
theorem C08_defect_uploadRequest_get_request : ¬ FullC08 :=
  refute [.uploadRequest] ⟨.get, .other, .fresh, [⟨.request, .upload, false⟩], false⟩ (by decide)
theorem C08_defect_uploadRequest_set_request : ¬ FullC08 :=
  refute [.uploadRequest] ⟨.set, .other, .fresh, [⟨.request, .upload, false⟩], false⟩ (by decide)
theorem C08_defect_uploadRequest_get_slot : ¬ FullC08 :=
  refute [.uploadRequest] ⟨.get, .other, .fresh, [⟨.slot, .upload, false⟩], false⟩ (by decide)
theorem C08_defect_uploadRequest_set_slot : ¬ FullC08 :=
  refute [.uploadRequest] ⟨.set, .other, .fresh, [⟨.slot, .upload, false⟩], false⟩ (by decide)

/-! ## 3b. How the statement changes once /verif/fixes/C08-*.diff are applied -/

/-- With the four fix diffs applied (`rowOfFixed`: the nine defective handlers guarded as in the diffs, the
others unchanged; the driver argument `fixed` ties this model to a patched library the same way), the
FULL statement holds: every set of bundled managers, every order, every stanza. -/
theorem C08_holds_after_fixes (ms : List Mgr) (s : Stanza) :
    answeredRight s (dispatch (ms.map rowOfFixed) s).sent = true := by
  apply dispatch_good
  intro r hr
  rcases List.mem_map.mp hr with ⟨m, _, rfl⟩
  exact fixed_good m s

/-! ## 4. The model's tables are the source's (regenerated by translators/iq_handlers.py on every run) -/

/-- every class in src/client that overrides `handleStanza` has a model row, with the same handler style
(new style = also called for decrypted IQs) -/
theorem every_handler_site_has_a_row :
    ∀ p ∈ Generated.handlerSites, ∃ m, p.2.1 = some m ∧ m ∈ allMgrs ∧ (rowOf m).newStyle = p.2.2 := by
  decide

/-- the claim predicates called in each `handleStanza` body of the source are exactly the ones the model
rows transcribe (a handler that starts looking at a new kind of payload breaks this) -/
theorem handler_predicates_are_the_modelled_ones :
    Generated.handlerPredicates = modelledPredicates := by decide

/-- the model's default set is the `BasicExtensions` block of the QXmppClient constructor, in order -/
theorem default_set_is_the_sources :
    defaultSet.map (fun r => some r.mgr) = Generated.defaultExtensions := by decide

/-- every constructor of `Mgr` is in `allMgrs` and `rowOf` labels the row with its own manager
(the deciding manager reported by `dispatch` is the installed one) -/
theorem rowOf_mgr (m : Mgr) : (rowOf m).mgr = m ∧ m ∈ allMgrs := by cases m <;> decide

/-! ## 5. Non-vacuity: the hypotheses above are met by concrete, non-trivial configurations -/

-- the default set at a version request from a stranger: every row good, one result reply
example : (∀ r ∈ defaultSet, r.good ⟨.get, .other, .fresh, [⟨.query, .version, false⟩], false⟩ = true)
    ∧ dispatch defaultSet ⟨.get, .other, .fresh, [⟨.query, .version, false⟩], false⟩
      = ⟨.ext .version, [⟨.result, .sender, true⟩], false⟩ := by decide
-- nobody claims it: the fallback answers feature-not-implemented
example : dispatch defaultSet ⟨.set, .ownOther, .absent, [⟨.other, .other, false⟩], false⟩
      = ⟨.fallback, [⟨.error, .sender, true⟩], false⟩ := by decide
-- a response with an unknown id: reported upwards, nothing sent
example : dispatch defaultSet ⟨.error, .other, .fresh, [⟨.query, .discoInfo, false⟩], false⟩
      = ⟨.ext .discovery, [], false⟩ := by decide
-- a response to an outstanding request is consumed by the table before any extension
example : dispatch defaultSet ⟨.result, .other, .table, [⟨.vCard, .vcard, false⟩], false⟩ = ⟨.table, [], false⟩ := by
  decide
-- garbage type, nobody claims it: stream error, no reply
example : dispatch defaultSet ⟨.garbage, .other, .fresh, [], false⟩ = ⟨.rejected, [], true⟩ := by decide
-- the first claiming extension decides: vCard manager before / after the archive manager
example : (dispatch [rowOf .vcard, rowOf .archive] ⟨.get, .other, .fresh, [⟨.vCard, .vcard, false⟩, ⟨.chat, .archive, true⟩], false⟩).by_
      = .ext .vcard ∧
    (dispatch [rowOf .archive, rowOf .vcard] ⟨.get, .other, .fresh, [⟨.vCard, .vcard, false⟩, ⟨.chat, .archive, true⟩], false⟩).by_
      = .ext .archive := by decide
-- sound managers exist in quantity (hypothesis of C08_*_sound_managers)
example : ∀ m ∈ [Mgr.discovery, .version, .entityTime, .blocking, .blockingSub, .muc, .mucRoom, .carbon,
    .carbonV2, .pubsub, .mix, .httpUpload], m ∉ defectiveMgrs := by decide
-- a defect cell and a non-defect cell of the same manager (hypothesis of C08_all_managers_partial /
-- C08_fails_at_every_defect_cell)
example : (rowOf .roster).defect ⟨.get, .none, .fresh, [⟨.query, .roster, false⟩], false⟩ = true
    ∧ (rowOf .roster).defect ⟨.set, .none, .fresh, [⟨.query, .roster, false⟩], false⟩ = false
    ∧ (rowOf .roster).defect ⟨.get, .other, .fresh, [⟨.query, .roster, false⟩], false⟩ = false := by decide

end Qx.C08
