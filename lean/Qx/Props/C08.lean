import Qx.Proofs.C08
import Qx.Generated.IqHandlers
/-!
# C08 — every incoming IQ request is answered exactly once; responses are never answered

Property theorems only (model: `Qx/Model/C08Dispatch.lean`, helpers: `Qx/Proofs/C08.lean`, generated
source facts: `Qx/Generated/IqHandlers.lean`).

A `Stanza` is an incoming `<iq/>`: type class × sender class × id class × entry (stream / injectIq / stream +
e2ee extension) × stream phase (session established / still negotiating) × the list of its children (unbounded),
each child reduced to (tag, namespace, two flags).  `dispatch exts s` is what the
client does with it when the extensions `exts` are installed in that order; `.sent` are the IQ
result/error stanzas it sends.  `answeredRight s sent` is the property text for one stanza:
get/set ⇒ `sent` is exactly one reply with the same id that reaches the sender; result/error ⇒ `sent = []`.
The property is about a CONNECTED client: the main theorems assume `s.phase = .session` (or the direct injectIq
entry); what happens before the session is established is `no_reply_before_session`.

History: before repo commits 28afc7a, 318b7cf, 1833c1a, 29beb7d, 88fc5c1, daa6e10, 7916dee, e597fe7, af7bef7 nine
managers swallowed requests or answered responses; the model then proved `¬ FullC08` at 37 witness cells, which are
kept as the first sequence of the harness corpus (harness/cxx/iqreply.cpp) with their oracle keys.
-/
namespace Qx.C08

/-! ## 1. The lifting lemma: per-row goodness lifts to every extension list -/

/-- **Requests.** For EVERY list of extensions (any handler functions at all, in any order, any length):
if each installed handler is good at the stanza — a request is either answered by it with exactly one
proper reply or passed on silently — then a get/set gets exactly one reply, it carries the request's id
and it is addressed so that it reaches the sender. -/
theorem request_answered_once (exts : List Row) (s : Stanza)
    (hgood : ∀ r ∈ exts, r.good s = true) (hsess : s.phase = .session ∨ s.entry = .inject)
    (hreq : s.type = .get ∨ s.type = .set) :
    replies (dispatch exts s) = 1 ∧
    ∃ r, (dispatch exts s).sent = [r] ∧ r.idSame = true ∧ r.to.okFor s.frm = true := by
  have h := dispatch_good exts s hgood hsess
  have hq : isReq s.type = true := by rcases hreq with h | h <;> simp [h, isReq]
  simp only [answeredRight, answeredTF, hq, if_true] at h
  generalize (dispatch exts s) = o at h ⊢
  rcases o with ⟨b, sent, d⟩
  match sent, h with
  | [r], h =>
    simp only [okOne, Bool.and_eq_true] at h
    exact ⟨rfl, r, rfl, h.1, h.2⟩

/-- **Responses.** Under the same hypothesis nothing at all is sent for a result/error — whether or not anybody
waits for it, whatever its payload, sender and id — so two endpoints cannot bounce errors. -/
theorem response_never_answered (exts : List Row) (s : Stanza)
    (hgood : ∀ r ∈ exts, r.good s = true) (hsess : s.phase = .session ∨ s.entry = .inject)
    (hresp : s.type = .result ∨ s.type = .error) :
    replies (dispatch exts s) = 0 ∧ (dispatch exts s).sent = [] := by
  have h := dispatch_good exts s hgood hsess
  have hp : isResp s.type = true := by rcases hresp with h | h <;> simp [h, isResp]
  have hq : isReq s.type = false := isResp_not_isReq hp
  simp only [answeredRight, answeredTF, hq, hp, if_true, Bool.false_eq_true, if_false,
    List.isEmpty_iff] at h
  simp [replies, h]

/-! ## 2. The bundled managers: every row is good, hence C08 holds for every installation -/

/-- Every bundled manager's handler, in every modelled state (31 classes, plus the two application-style extensions of the
harness that answer through the public helper `handleIqRequests<>()`; blocking with and without a blocklist;
MUC with and without a room waiting for the stanza; transfer manager with nobody / an accepting / a declining
`fileReceived` listener and with no / an accepted / an opened incoming in-band job), is good at EVERY stanza,
any number of children: a get/set is either answered by it with exactly one proper reply or passed on without
sending anything; nothing is sent for a result/error. -/
theorem every_row_good (m : Mgr) (s : Stanza) : (rowOf m).good s = true := row_good m s

/-- **C08.** Session established (or direct injectIq). For every set of bundled managers, in every registration
order, multiplicity and modelled state, and every incoming IQ (any payload, sender, id; plain, decrypted, or
encrypted and decrypted by the e2ee extension): a get/set gets exactly one reply, carrying the request's id and
addressed so that it reaches the sender; a result/error gets no reply at all. -/
theorem C08_holds (ms : List Mgr) (s : Stanza) (hsess : s.phase = .session ∨ s.entry = .inject) :
    answeredRight s (dispatch (ms.map rowOf) s).sent = true := by
  apply dispatch_good _ _ _ hsess
  intro r hr
  rcases List.mem_map.mp hr with ⟨m, _, rfl⟩
  exact every_row_good m s

/-- C08 for requests, spelled out -/
theorem C08_requests (ms : List Mgr) (s : Stanza) (hsess : s.phase = .session ∨ s.entry = .inject)
    (hreq : s.type = .get ∨ s.type = .set) :
    replies (dispatch (ms.map rowOf) s) = 1 ∧
    ∃ r, (dispatch (ms.map rowOf) s).sent = [r] ∧ r.idSame = true ∧ r.to.okFor s.frm = true := by
  apply request_answered_once _ _ _ hsess hreq
  intro r hr
  rcases List.mem_map.mp hr with ⟨m, _, rfl⟩
  exact every_row_good m s

/-- C08 for responses, spelled out: a result/error — expected by somebody or not — is never answered, so two
endpoints can never bounce errors -/
theorem C08_responses (ms : List Mgr) (s : Stanza) (hsess : s.phase = .session ∨ s.entry = .inject)
    (hresp : s.type = .result ∨ s.type = .error) :
    replies (dispatch (ms.map rowOf) s) = 0 ∧ (dispatch (ms.map rowOf) s).sent = [] := by
  apply response_never_answered _ _ _ hsess hresp
  intro r hr
  rcases List.mem_map.mp hr with ⟨m, _, rfl⟩
  exact every_row_good m s

/-- **The public helper `QXmpp::handleIqRequests<>()` (QXmppIqHandling.h/.cpp).** Whatever object an extension's
handler hands back — a fresh IQ (type get), the received IQ itself (type get or set), an IQ typed result or error, a
`QXmppStanza::Error`; directly, in a `std::variant`, or as the value of a `QXmppTask` — the stanza that goes out is of type
result or error, never a new get/set. -/
theorem helper_reply_is_always_result_or_error (ret : Returned) :
    wireType ret = .result ∨ wireType ret = .error := by cases ret <;> simp [wireType]

/-- … and it is exactly one stanza: claimed, addressed to the requester, with the request's id, sent with the e2ee
metadata the helper was given, and no other traffic. -/
theorem helper_sends_exactly_one_reply (ret : Returned) (e2ee : Bool) :
    (helperSend ret e2ee).handled = true ∧ (helperSend ret e2ee).other = 0 ∧
    ∃ r, (helperSend ret e2ee).sent = [r] ∧ r.to = .sender ∧ r.idSame = true ∧ r.e2ee = e2ee := by
  cases ret <;> simp [helperSend, wireType]

/-- **Which error when nobody claims a request.** If no installed extension claims a get/set (and none sent
anything), the single reply is `<error type='cancel'><feature-not-implemented/></error>`, addressed to the
sender, with the request's id; it is sent encrypted exactly when the request arrived decrypted (injectIq). -/
theorem unclaimed_request_gets_feature_not_implemented (exts : List Row) (s : Stanza)
    (hsess : s.phase = .session ∨ s.entry = .inject) (hreq : isReq s.type = true)
    (hnone : (chain exts s).handledBy = none) (hch : (chain exts s).sent = []) :
    dispatch exts s =
      { by_ := .fallback, sent := [⟨.error .cancel .featureNotImplemented, .sender, true, s.entry != .stream⟩],
        other := (chain exts s).other } := by
  have hnresp := isReq_not_isResp hreq
  have ht : tableConsumes s = false := by simp [tableConsumes, hnresp]
  have hneg : (s.entry != .inject && decide (s.phase = .negotiating)) = false := by
    rcases hsess with h1 | h1 <;> simp [h1]
  simp [dispatch, hneg, ht, hnone, hreq, hch, fallbackReply]

/-- with only bundled managers installed nothing is ever sent by a manager that does not claim the stanza, so
"no extension claims it" alone gives the feature-not-implemented reply -/
theorem unclaimed_request_bundled (ms : List Mgr) (s : Stanza)
    (hsess : s.phase = .session ∨ s.entry = .inject) (hreq : isReq s.type = true)
    (hnone : (chain (ms.map rowOf) s).handledBy = none) :
    (dispatch (ms.map rowOf) s).sent
      = [⟨.error .cancel .featureNotImplemented, .sender, true, s.entry != .stream⟩] := by
  have hgood : ∀ r ∈ ms.map rowOf, r.good s = true := by
    intro r hr; rcases List.mem_map.mp hr with ⟨m, _, rfl⟩; exact every_row_good m s
  have hch := (chain_req _ s hreq hgood).2 hnone
  rw [unclaimed_request_gets_feature_not_implemented _ s hsess hreq hnone hch]

/-- **Before the session is established** (a negotiation manager is the stream's listener, or TLS is required and
not active) an `<iq/>` arriving on the stream — plain or encrypted, any type — is never answered: the stream is
closed with "Unexpected element received". -/
theorem no_reply_before_session (exts : List Row) (s : Stanza) (hp : s.phase = .negotiating)
    (he : s.entry ≠ .inject) : (dispatch exts s).sent = [] ∧ (dispatch exts s).disconnect = true := by
  rw [dispatch_negotiating exts s hp he]; exact ⟨rfl, rfl⟩

/-! ## 4. The model's tables are the source's (regenerated by translators/iq_handlers.py on every run) -/

/-- every class in src/client that overrides `handleStanza` has a model row, with the same handler style
(new style = also called for decrypted IQs) -/
theorem every_handler_site_has_a_row :
    ∀ p ∈ Generated.handlerSites, ∃ m, p.2.1 = some m ∧ m ∈ allMgrs ∧ (rowOf m).newStyle = p.2.2 := by
  decide

/-- the claim predicates called in each `handleStanza` body of the source are exactly the ones the model
rows transcribe (a handler that starts looking at a new kind of payload breaks this) -/
theorem handler_predicates_are_the_modelled_ones :
    Generated.handlerPredicates = modelledPredicates := by decide

/-- the model's default set is the `BasicExtensions` block of the QXmppClient constructor, in order -/
theorem default_set_is_the_sources :
    defaultSet.map (fun r => some r.mgr) = Generated.defaultExtensions := by decide

/-- every constructor of `Mgr` is in `allMgrs` and `rowOf` labels the row with its own manager
(the deciding manager reported by `dispatch` is the installed one) -/
theorem rowOf_mgr (m : Mgr) : (rowOf m).mgr = m ∧ m ∈ allMgrs := by cases m <;> decide

/-! ## 5. Non-vacuity: the hypotheses above are met by concrete, non-trivial configurations -/

private abbrev fni (e2ee : Bool) : Rep := ⟨.error .cancel .featureNotImplemented, .sender, true, e2ee⟩

-- the default set at a version request from a stranger: every row good, one result reply
example : (∀ r ∈ defaultSet, r.good { type := .get, frm := .stranger, id := .fresh, kids := [⟨.query, .version, false, false⟩] } = true)
    ∧ dispatch defaultSet { type := .get, frm := .stranger, id := .fresh, kids := [⟨.query, .version, false, false⟩] }
      = ⟨.ext .version, [⟨.result, .sender, true, false⟩], false, 0⟩ := by decide
-- nobody claims it: the fallback answers feature-not-implemented (hypotheses of unclaimed_request_*)
example : dispatch defaultSet { type := .set, frm := .ownOther, id := .absent, kids := [⟨.other, .other, false, false⟩] }
      = ⟨.fallback, [fni false], false, 0⟩
    ∧ (chain defaultSet { type := .set, frm := .ownOther, id := .absent, kids := [⟨.other, .other, false, false⟩] })
      = ⟨none, [], 0⟩ := by decide
-- a response nobody waits for: reported upwards, nothing sent
example : dispatch defaultSet { type := .error, frm := .other, id := .fresh, kids := [⟨.query, .discoInfo, false, false⟩] }
      = ⟨.ext .discovery, [], false, 0⟩
    ∧ dispatch defaultSet { type := .result, frm := .stranger, id := .fresh, kids := [] } = ⟨.fallback, [], false, 0⟩ := by decide
-- a response to an outstanding request is consumed by the table before any extension
example : dispatch defaultSet { type := .result, frm := .other, id := .table, kids := [⟨.vCard, .vcard, false, false⟩] }
      = ⟨.table, [], false, 0⟩ := by decide
-- garbage type, nobody claims it: stream error, no reply
example : dispatch defaultSet { type := .garbage, frm := .other, id := .fresh, kids := [] } = ⟨.rejected, [], true, 0⟩ := by decide
-- the first claiming extension decides: vCard manager before / after the archive manager
example : (dispatch [rowOf .vcard, rowOf .archive]
      { type := .result, frm := .other, id := .fresh, kids := [⟨.vCard, .vcard, false, false⟩, ⟨.chat, .archive, true, false⟩] }).by_
      = .ext .vcard ∧
    (dispatch [rowOf .archive, rowOf .vcard]
      { type := .result, frm := .other, id := .fresh, kids := [⟨.vCard, .vcard, false, false⟩, ⟨.chat, .archive, true, false⟩] }).by_
      = .ext .archive := by decide
-- former defect cells: vCard get from a stranger (fallback error), roster push from another own resource (result
-- addressed to it), IBB data echoed in an error (no reply), RPC call with a malformed name (bad-request)
example : dispatch defaultSet { type := .get, frm := .stranger, id := .fresh, kids := [⟨.vCard, .vcard, false, false⟩] }
      = ⟨.fallback, [fni false], false, 0⟩ := by decide
example : dispatch defaultSet { type := .set, frm := .ownOther, id := .fresh, kids := [⟨.query, .roster, false, false⟩] }
      = ⟨.ext .roster, [⟨.result, .sender, true, false⟩], false, 0⟩ := by decide
example : dispatch [rowOf .transfer]
      { type := .error, frm := .other, id := .fresh, kids := [⟨.data, .ibb, false, false⟩, ⟨.error, .other, false, false⟩] }
      = ⟨.fallback, [], false, 0⟩ := by decide
example : dispatch [rowOf .rpc] { type := .set, frm := .other, id := .fresh, kids := [⟨.query, .rpc, false, false⟩] }
      = ⟨.ext .rpc, [⟨.error .modify .badRequest, .sender, true, false⟩], false, 0⟩ := by decide
-- stateful rows: an opened in-band job accepts its next data block and refuses a stranger's; a joined room
-- consumes the permission list it asked for
example : dispatch [rowOf .transferJobOpen]
      { type := .set, frm := .other, id := .fresh, kids := [⟨.data, .ibb, true, true⟩] }
      = ⟨.ext .transferJobOpen, [⟨.result, .sender, true, false⟩], false, 0⟩
    ∧ dispatch [rowOf .transferJobOpen]
      { type := .set, frm := .stranger, id := .fresh, kids := [⟨.data, .ibb, true, true⟩] }
      = ⟨.ext .transferJobOpen, [⟨.error .cancel .itemNotFound, .sender, true, false⟩], false, 0⟩
    ∧ dispatch [rowOf .mucRoom] { type := .result, frm := .other, id := .muc, kids := [⟨.query, .mucAdmin, false, false⟩] }
      = ⟨.ext .mucRoom, [], false, 0⟩ := by decide
-- the e2ee path: an encrypted unknown request is answered encrypted; an encrypted response is not answered;
-- the blocking manager (new-style handler) answers a decrypted request in the clear
example : dispatch defaultSet { type := .get, frm := .other, id := .fresh, kids := [⟨.query, .version, false, false⟩], entry := .e2ee }
      = ⟨.fallback, [fni true], false, 0⟩
    ∧ dispatch defaultSet { type := .error, frm := .other, id := .fresh, kids := [], entry := .e2ee } = ⟨.fallback, [], false, 0⟩
    ∧ dispatch [rowOf .blockingSub] { type := .set, frm := .none, id := .fresh, kids := [⟨.block, .blocking, false, false⟩], entry := .e2ee }
      = ⟨.ext .blockingSub, [⟨.result, .sender, true, false⟩], false, 0⟩ := by decide
-- an application extension hands the received `set` request back to the public helper: answered with a result, encrypted
-- when the request was (new-style extension), in the clear and only on the plain stream for an old-style one
example : dispatch [rowOf .app] { type := .set, frm := .stranger, id := .fresh, kids := [⟨.appEcho, .app, false, false⟩] }
      = ⟨.ext .app, [⟨.result, .sender, true, false⟩], false, 0⟩
    ∧ dispatch [rowOf .app] { type := .set, frm := .stranger, id := .fresh, kids := [⟨.appEcho, .app, false, false⟩], entry := .e2ee }
      = ⟨.ext .app, [⟨.result, .sender, true, true⟩], false, 0⟩
    ∧ dispatch [rowOf .appOld] { type := .get, frm := .other, id := .absent, kids := [⟨.appError, .app, false, false⟩] }
      = ⟨.ext .appOld, [⟨.error .modify .badRequest, .sender, true, false⟩], false, 0⟩
    ∧ dispatch [rowOf .appOld] { type := .get, frm := .other, id := .absent, kids := [⟨.appError, .app, false, false⟩], entry := .inject }
      = ⟨.fallback, [fni true], false, 0⟩ := by decide
-- before the session: nothing is sent, the stream is closed (hypotheses of no_reply_before_session)
example : dispatch defaultSet { type := .get, frm := .none, id := .fresh, kids := [⟨.query, .version, false, false⟩], phase := .negotiating }
      = ⟨.negotiation, [], true, 0⟩ := by decide

end Qx.C08
