import Qx.Proofs.C05
/-!
# C05 — SASL negotiation picks the strongest permitted mechanism, never a disabled one

Property theorems only (model: `Qx/Model/C05Sasl.lean`, helpers: `Qx/Proofs/C05.lean`, data regenerated from
the C++ on every run: `Qx/Generated/SaslOrder.lean`).

All statements are for arbitrary offer lists (any length, any strings, any order, duplicates), arbitrary
disabled lists, arbitrary preferred string and arbitrary credentials.  `weaker m m'` is the C++ `m < m'` on
`SaslMechanism`, computed from the *generated* declaration orders; `permitted cfg off` is the vector
`chooseMechanism` builds (offered ∧ not disabled ∧ parses ∧ usable with the credentials).

What the code's order is, exactly (theorems `rank_matches_spec`, `x_mechanisms_below_anonymous`):
X-OAUTH2 < X-MESSENGER-OAUTH2 < X-FACEBOOK-PLATFORM < ANONYMOUS < PLAIN < DIGEST-MD5 <
SCRAM-SHA-1 < SCRAM-SHA-256 < SCRAM-SHA-512 < SCRAM-SHA3-512 < every HT-* mechanism.
-/
namespace Qx.C05
open Qx.SaslOrder

/-! ## obligations on the generated data -/

/-- The generated tables are the ones the model understands: every identifier the model uses occurs in the
declaration-order lists, every generated alternative / enumerator is one the model knows, the lists have no
duplicates, the enum `IanaHashAlgorithm` and its string table have the same length, and for every mechanism
value `toString` followed by `fromString` gives the value back (so all `toName` lookups succeed and names are
pairwise different). Fails after regeneration if the C++ gains, loses or renames a mechanism. -/
theorem generated_wellformed :
    (∀ f ∈ Simple.all, f.cxx ∈ variantOrder) ∧ scramCxx ∈ variantOrder ∧ htCxx ∈ variantOrder ∧
    (∀ s ∈ variantOrder, s = scramCxx ∨ s = htCxx ∨ (simpleOfCxx s).isSome = true) ∧
    variantOrder.Nodup ∧
    (∀ a ∈ ScramAlg.all, a.cxx ∈ scramAlgOrder) ∧ (∀ s ∈ scramAlgOrder, (scramOfCxx s).isSome = true) ∧
    scramAlgOrder.Nodup ∧
    (∀ c ∈ Cb.all, c.cxx ∈ channelBindingOrder) ∧ (∀ s ∈ channelBindingOrder, (cbOfCxx s).isSome = true) ∧
    channelBindingOrder.Nodup ∧
    ianaHashOrder.length = ianaHashNames.length ∧ ianaHashNames.Nodup ∧
    defaultedOrdering = variantOrder ∧
    (∀ m ∈ allMechs, fromName (toName m) = some m) := by
  decide

/-- **The property's stated chain holds of the order the C++ declares** (checked on the generated order, so
swapping two alternatives of the `std::variant` or two enumerators of `SaslScramMechanism::Algorithm` in the
header makes this obligation fail after regeneration):
token (every HT mechanism) > SCRAM-SHA3-512 > SCRAM-SHA-512 > SCRAM-SHA-256 > SCRAM-SHA-1 > DIGEST-MD5 > PLAIN > ANONYMOUS. -/
theorem rank_matches_spec :
    (∀ h cb, weaker (.scram .sha3_512) (.ht h cb) = true) ∧
    weaker (.scram .sha512) (.scram .sha3_512) = true ∧
    weaker (.scram .sha256) (.scram .sha512) = true ∧
    weaker (.scram .sha1) (.scram .sha256) = true ∧
    weaker (.simple .digestMd5) (.scram .sha1) = true ∧
    weaker (.simple .plain) (.simple .digestMd5) = true ∧
    weaker (.simple .anonymous) (.simple .plain) = true := by
  refine ⟨?_, by decide, by decide, by decide, by decide, by decide, by decide⟩
  intro h cb
  have hfam : variantOrder.idxOf scramCxx < variantOrder.idxOf htCxx := by decide
  unfold weaker
  rw [rlt_iff]
  left
  rw [rank_ht_fst]
  exact hfam

/-- `weaker` is a strict order, so the chain above orders every pair of the listed mechanisms
(e.g. PLAIN is weaker than every SCRAM and every HT mechanism). -/
theorem weaker_strict_order :
    (∀ a, weaker a a = false) ∧
    (∀ a b c, weaker a b = true → weaker b c = true → weaker a c = true) ∧
    (∀ a b, weaker a b = false → weaker b a = false → a = b) :=
  ⟨weaker_irrefl, fun _ _ _ => weaker_trans, fun a b h1 h2 => rank_injective a b (rlt_connected h1 h2)⟩

/-- Where the mechanisms the property text does not mention sit in the code's order: below ANONYMOUS
(X-OAUTH2 < X-MESSENGER-OAUTH2 < X-FACEBOOK-PLATFORM < ANONYMOUS). -/
theorem x_mechanisms_below_anonymous :
    weaker (.simple .google) (.simple .windowsLive) = true ∧
    weaker (.simple .windowsLive) (.simple .facebook) = true ∧
    weaker (.simple .facebook) (.simple .anonymous) = true := by
  decide

/-- The names of the chain are the ones the property text uses. -/
theorem names_of_chain :
    toName (.simple .anonymous) = "ANONYMOUS" ∧ toName (.simple .plain) = "PLAIN" ∧
    toName (.simple .digestMd5) = "DIGEST-MD5" ∧ toName (.scram .sha1) = "SCRAM-SHA-1" ∧
    toName (.scram .sha256) = "SCRAM-SHA-256" ∧ toName (.scram .sha512) = "SCRAM-SHA-512" ∧
    toName (.scram .sha3_512) = "SCRAM-SHA3-512" ∧ toName (.ht 0 .nob) = "HT-SHA-256-NONE" ∧
    toName (.simple .google) = "X-OAUTH2" ∧ toName (.simple .windowsLive) = "X-MESSENGER-OAUTH2" ∧
    toName (.simple .facebook) = "X-FACEBOOK-PLATFORM" := by
  decide

/-! ## the choice -/

/-- `permitted` is exactly: offered, not in the disabled list, parses to a supported mechanism, usable with the
stored credentials. -/
theorem permitted_iff (cfg : Cfg) (off : List String) (m : Mech) :
    m ∈ permitted cfg off ↔
      ∃ n, n ∈ off ∧ n ∉ cfg.disabled ∧ fromName n = some m ∧ available cfg.creds m = true :=
  mem_permitted_iff cfg off m

/-- **The chosen mechanism is a permitted one.** -/
theorem choose_mem_permitted (cfg : Cfg) (off : List String) (m : Mech) (h : choose cfg off = some m) :
    m ∈ permitted cfg off :=
  chooseFrom_mem h

/-- **Never disabled, never unoffered, never an unknown name**: the chosen mechanism is the parse of a name that
was offered and is not in the disabled list, and the credentials for it are present. -/
theorem choose_never_disabled_unoffered_unknown (cfg : Cfg) (off : List String) (m : Mech)
    (h : choose cfg off = some m) :
    ∃ n, n ∈ off ∧ n ∉ cfg.disabled ∧ fromName n = some m ∧ available cfg.creds m = true :=
  (permitted_iff cfg off m).mp (choose_mem_permitted cfg off m h)

/-- The chosen mechanism is a well-formed value (its `toName` is a real name: `generated_wellformed`). -/
theorem choose_wellformed (cfg : Cfg) (off : List String) (m : Mech) (h : choose cfg off = some m) :
    m ∈ allMechs := by
  obtain ⟨n, _, _, hf, _⟩ := choose_never_disabled_unoffered_unknown cfg off m h
  exact mem_allMechs_of_fromName hf

/-- **Strongest**: when the configured mechanism is not among the permitted ones (or none is configured), no
permitted mechanism is stronger than the chosen one. -/
theorem choose_some_is_max (cfg : Cfg) (off : List String) (m : Mech) (h : choose cfg off = some m)
    (hpref : ∀ p, prefMech cfg = some p → p ∉ permitted cfg off) :
    ∀ m' ∈ permitted cfg off, weaker m m' = false :=
  chooseFrom_max h hpref

example : choose { creds := { password := .nonEmpty } } ["PLAIN", "SCRAM-SHA-256", "DIGEST-MD5", "SCRAM-SHA-1", "X-OAUTH2", "EXTERNAL"]
    = some (.scram .sha256) := by decide
example : ∀ p, prefMech { creds := { password := .nonEmpty } } = some p →
    p ∉ permitted { creds := { password := .nonEmpty } } ["PLAIN", "SCRAM-SHA-256", "DIGEST-MD5", "SCRAM-SHA-1", "X-OAUTH2", "EXTERNAL"] := by
  decide
example : permitted { creds := { password := .nonEmpty } } ["PLAIN", "SCRAM-SHA-256", "DIGEST-MD5", "SCRAM-SHA-1", "X-OAUTH2", "EXTERNAL"]
    = [.scram .sha256, .simple .digestMd5, .scram .sha1] := by decide

/-- **Preferred**: a configured mechanism that is permitted is the one chosen (even if a stronger one is permitted). -/
theorem choose_prefers (cfg : Cfg) (off : List String) (p : Mech) (hp : prefMech cfg = some p)
    (hmem : p ∈ permitted cfg off) : choose cfg off = some p := by
  unfold choose; rw [hp]; exact chooseFrom_pref hmem

example : prefMech { preferred := "DIGEST-MD5", creds := { password := .nonEmpty } } = some (.simple .digestMd5) ∧
    Mech.simple .digestMd5 ∈ permitted { preferred := "DIGEST-MD5", creds := { password := .nonEmpty } } ["SCRAM-SHA-512", "DIGEST-MD5"] ∧
    choose { preferred := "DIGEST-MD5", creds := { password := .nonEmpty } } ["SCRAM-SHA-512", "DIGEST-MD5"] = some (.simple .digestMd5) := by
  decide

/-- …and a configured mechanism that is disabled (or not offered, or unusable) is *not* used: the choice is then
the same as with no preference at all. -/
theorem choose_ignores_unpermitted_preference (cfg : Cfg) (off : List String)
    (hpref : ∀ p, prefMech cfg = some p → p ∉ permitted cfg off) :
    choose cfg off = maxMech (permitted cfg off) := by
  unfold choose chooseFrom
  cases hl : permitted cfg off with
  | nil => rfl
  | cons a t =>
    cases hp : prefMech cfg with
    | none => rfl
    | some p =>
      have hnm : p ∉ a :: t := by rw [← hl]; exact hpref p hp
      have hc : (a :: t).contains p = false := by
        cases hb : (a :: t).contains p with
        | false => rfl
        | true => exact absurd (by simpa using hb) hnm
      simp only [List.isEmpty_cons, Bool.false_eq_true, if_false, hc]

example : choose { disabled := ["PLAIN"], preferred := "PLAIN", creds := { password := .nonEmpty } } ["PLAIN", "SCRAM-SHA-1", "ANONYMOUS"]
    = some (.scram .sha1) := by decide

/-- **Mismatch iff nothing qualifies.** -/
theorem choose_none_iff (cfg : Cfg) (off : List String) : choose cfg off = none ↔ permitted cfg off = [] :=
  chooseFrom_none_iff _ _

example : choose {} ["PLAIN", "SCRAM-SHA-1", "GSSAPI"] = none := by decide
example : choose { creds := { password := .nonEmpty } } ["PLAIN", "GSSAPI", "SCRAM-SHA-1-PLUS"] = none := by decide

/-- **Order and duplicates of the offer are irrelevant**: two offers containing the same names give the same choice. -/
theorem choose_set_invariant (cfg : Cfg) (off off' : List String) (h : ∀ n, n ∈ off ↔ n ∈ off') :
    choose cfg off = choose cfg off' := by
  unfold choose
  apply chooseFrom_congr
  intro m
  rw [mem_permitted_iff, mem_permitted_iff]
  constructor
  · rintro ⟨n, hn, r⟩; exact ⟨n, (h n).mp hn, r⟩
  · rintro ⟨n, hn, r⟩; exact ⟨n, (h n).mpr hn, r⟩

/-- …in particular for permutations of the offer. -/
theorem choose_perm_invariant (cfg : Cfg) (off off' : List String) (h : off.Perm off') :
    choose cfg off = choose cfg off' :=
  choose_set_invariant cfg off off' (fun _ => h.mem_iff)

/-- The disabled list is also used as a set. -/
theorem choose_disabled_set_invariant (cfg cfg' : Cfg) (off : List String)
    (hd : ∀ n, n ∈ cfg.disabled ↔ n ∈ cfg'.disabled) (hp : cfg.preferred = cfg'.preferred) (hc : cfg.creds = cfg'.creds) :
    choose cfg off = choose cfg' off := by
  have hpm : prefMech cfg = prefMech cfg' := by unfold prefMech; rw [hp]
  unfold choose
  rw [hpm]
  apply chooseFrom_congr
  intro m
  rw [mem_permitted_iff, mem_permitted_iff, hc]
  constructor
  · rintro ⟨n, hn, hdn, r⟩; exact ⟨n, hn, fun x => hdn ((hd n).mpr x), r⟩
  · rintro ⟨n, hn, hdn, r⟩; exact ⟨n, hn, fun x => hdn ((hd n).mp x), r⟩

/-! ## usable with the stored credentials -/

theorem present_iff (s : Secret) : s.present = true ↔ s = .nonEmpty := by
  cases s <;> simp [Secret.present]

/-- **Password mechanisms need a non-empty password**: a SCRAM mechanism, DIGEST-MD5 or PLAIN is chosen only when
the stored password is non-empty — a never-set (null) and an empty-but-set (`QString("")`) password are both no password. -/
theorem choose_password_mechanism_needs_nonempty_password (cfg : Cfg) (off : List String) (m : Mech)
    (h : choose cfg off = some m)
    (hm : (∃ a, m = .scram a) ∨ m = .simple .digestMd5 ∨ m = .simple .plain) :
    cfg.creds.password = .nonEmpty := by
  obtain ⟨_, _, _, _, ha⟩ := choose_never_disabled_unoffered_unknown cfg off m h
  rw [← present_iff]
  rcases hm with ⟨a, rfl⟩ | rfl | rfl <;> simpa [available] using ha

/-- **Token mechanisms need their non-empty tokens**: X-OAUTH2 needs a non-empty Google token, X-MESSENGER-OAUTH2 a
non-empty Windows Live token, X-FACEBOOK-PLATFORM a non-empty access token *and* a non-empty app id. -/
theorem choose_x_mechanisms_need_nonempty_tokens (cfg : Cfg) (off : List String) :
    (choose cfg off = some (.simple .google) → cfg.creds.google = .nonEmpty) ∧
    (choose cfg off = some (.simple .windowsLive) → cfg.creds.windowsLive = .nonEmpty) ∧
    (choose cfg off = some (.simple .facebook) → cfg.creds.fbToken = .nonEmpty ∧ cfg.creds.fbAppId = .nonEmpty) := by
  refine ⟨?_, ?_, ?_⟩ <;> intro h <;>
    obtain ⟨_, _, _, _, ha⟩ := choose_never_disabled_unoffered_unknown cfg off _ h
  · rw [← present_iff]; simpa [available] using ha
  · rw [← present_iff]; simpa [available] using ha
  · rw [← present_iff, ← present_iff]; simpa [available] using ha

/-- **An HT mechanism is chosen only with a stored token for exactly that mechanism, and only without channel binding.** -/
theorem choose_ht_needs_matching_token (cfg : Cfg) (off : List String) (h' : Nat) (cb : Cb)
    (h : choose cfg off = some (.ht h' cb)) : cfg.creds.htToken = some (h', cb) ∧ cb = .nob := by
  obtain ⟨_, _, _, _, ha⟩ := choose_never_disabled_unoffered_unknown cfg off _ h
  simpa [available] using ha

/-- With an empty (set but `""`) password the client falls back to what is usable, or reports a mismatch. -/
example : choose { creds := { password := .empty, google := .nonEmpty } } ["SCRAM-SHA-512", "DIGEST-MD5", "ANONYMOUS", "X-OAUTH2"]
      = some (.simple .anonymous) ∧
    choose { creds := { password := .empty, google := .nonEmpty } } ["SCRAM-SHA-512", "SCRAM-SHA-1", "DIGEST-MD5"] = none ∧
    choose { creds := { password := .nonEmpty, fbToken := .nonEmpty, fbAppId := .empty } } ["X-FACEBOOK-PLATFORM"] = none := by
  decide

/-! ## name level: is the *name that goes on the wire* offered and enabled? -/

/-- **Names are canonical**: a name parses to a mechanism only if it is exactly that mechanism's `toString`
(for HT names this uses that the hash loop of `SaslHtMechanism::fromString` stops at the first match —
`htHashLoopBreaks`, read from the source by the translator; before commit 0f385bc it did not, and
`HT-SHA-256SHA-512-NONE` parsed as HT-SHA-512-NONE). -/
theorem fromName_canonical (n : String) (m : Mech) (h : fromName n = some m) : toName m = n := by
  cases m with
  | simple f => exact fromName_simple_canonical h
  | scram a => exact fromName_scram_canonical h
  | ht h' cb => exact fromName_ht_canonical htHashLoopBreaks_true h

/-- **Name on the wire**: for every mechanism (HT included) the emitted mechanism name was offered by the server and
is not in the disabled list. -/
theorem choose_name_offered_enabled (cfg : Cfg) (off : List String) (m : Mech) (h : choose cfg off = some m) :
    toName m ∈ off ∧ toName m ∉ cfg.disabled := by
  obtain ⟨n, hn, hd, hf, _⟩ := choose_never_disabled_unoffered_unknown cfg off m h
  rw [fromName_canonical n m hf]
  exact ⟨hn, hd⟩

example : choose { creds := { password := .nonEmpty, htToken := some (0, .nob) } }
      ["HT-SHA-256-NONE", "HT-SHA3-512-NONE", "SCRAM-SHA-1", "PLAIN", "EXTERNAL", "HT-SHA-256-ENDP", "SCRAM-SHA-1-PLUS"]
      = some (.ht 0 .nob) := by decide

/-- The former witnesses of the (fixed) defect: the doubly-matching name no longer parses, so the token mechanism is
not used unless its own name is offered and enabled. -/
theorem ht_alias_names_rejected :
    fromName "HT-SHA-256SHA-512-NONE" = none ∧
    authenticate { disabled := ["PLAIN", "HT-SHA-512-NONE"], creds := { password := .nonEmpty, htToken := some (2, .nob) } }
      ["HT-SHA-256SHA-512-NONE", "SCRAM-SHA-1"] = .sent "SCRAM-SHA-1" false ∧
    authenticate { disabled := [], creds := { htToken := some (2, .nob) } } ["HT-SHA-256SHA-512-NONE"] = .mismatch [] := by
  decide

/-- **A disabled mechanism is never used**, also when it is the configured one, whatever is offered or stored. -/
theorem disabled_name_never_chosen (cfg : Cfg) (off : List String) (m : Mech) (hdis : toName m ∈ cfg.disabled) :
    choose cfg off ≠ some m := by
  intro h
  exact (choose_name_offered_enabled cfg off m h).2 hdis

/-- **PLAIN is never used under the default configuration** (`defaultDisabled` is read from QXmppConfiguration.cpp). -/
theorem default_never_plain (cfg : Cfg) (off : List String) (hd : cfg.disabled = defaultDisabled) :
    choose cfg off ≠ some (.simple .plain) := by
  apply disabled_name_never_chosen
  rw [hd]
  decide

/-- Every emitted name is one the server offered: on the managers. -/
theorem authenticate_sends_offered_enabled (cfg : Cfg) (off : List String) (nm : String) (f : Bool)
    (h : authenticate cfg off = .sent nm f) : nm ∈ off ∧ nm ∉ cfg.disabled := by
  unfold authenticate at h
  cases hc : choose cfg off with
  | none => rw [hc] at h; cases h
  | some m =>
    rw [hc] at h
    injection h with h1 _
    rw [← h1]
    exact choose_name_offered_enabled cfg off m hc

/-! ## what the managers send -/

/-- `SaslManager::authenticate` sends exactly the name of the chosen mechanism … -/
theorem authenticate_sent_iff (cfg : Cfg) (off : List String) (nm : String) (f : Bool) :
    authenticate cfg off = .sent nm f ↔ ∃ m, choose cfg off = some m ∧ nm = toName m ∧ f = false := by
  unfold authenticate
  cases h : choose cfg off with
  | none => simp
  | some m =>
    simp only [Outcome.sent.injEq, Option.some.injEq, exists_eq_left']
    constructor
    · rintro ⟨a, b⟩; exact ⟨a.symm, b.symm⟩
    · rintro ⟨a, b⟩; exact ⟨a.symm, b.symm⟩

/-- … and reports a mechanism mismatch, sending nothing, exactly when nothing is permitted. -/
theorem authenticate_mismatch_iff (cfg : Cfg) (off : List String) :
    (∃ d, authenticate cfg off = .mismatch d) ↔ permitted cfg off = [] := by
  rw [← choose_none_iff]
  unfold authenticate
  cases h : choose cfg off with
  | none => simp
  | some m => simp

/-- SASL 2: the choice is `choose` over the server's mechanisms, extended by the `<fast/>` mechanisms iff FAST is
enabled in the configuration and the feature is present; the `<fast/>` request is attached iff the emitted name is
one of the `<fast/>` mechanisms. -/
theorem sasl2_sent_iff (cfg : Cfg) (on : Bool) (mechs : List String) (fast : Option (List String)) (nm : String) (f : Bool) :
    sasl2Authenticate cfg on mechs fast = .sent nm f ↔
      ∃ m, choose cfg (sasl2Offer on mechs fast) = some m ∧ nm = toName m ∧
        f = (match fast, on with
             | some fm, true => fm.contains (toName m)
             | _, _ => false) := by
  unfold sasl2Authenticate
  simp only
  cases h : choose cfg (sasl2Offer on mechs fast) with
  | none => simp
  | some m =>
    simp only [Outcome.sent.injEq, Option.some.injEq, exists_eq_left']
    constructor
    · rintro ⟨a, b⟩; exact ⟨a.symm, b.symm⟩
    · rintro ⟨a, b⟩; exact ⟨a.symm, b.symm⟩

theorem sasl2_mismatch_iff (cfg : Cfg) (on : Bool) (mechs : List String) (fast : Option (List String)) :
    (∃ d, sasl2Authenticate cfg on mechs fast = .mismatch d) ↔ permitted cfg (sasl2Offer on mechs fast) = [] := by
  rw [← choose_none_iff]
  unfold sasl2Authenticate
  simp only
  cases h : choose cfg (sasl2Offer on mechs fast) with
  | none => simp
  | some m => simp

/-- With FAST disabled in the configuration (no user agent or `useFastTokenAuthentication` off) the server's
`<fast/>` mechanisms play no role: SASL 2 behaves like SASL on the plain mechanism list and never attaches `<fast/>`. -/
theorem sasl2_fast_disabled (cfg : Cfg) (mechs : List String) (fast : Option (List String)) :
    sasl2Authenticate cfg false mechs fast = authenticate cfg mechs := by
  unfold sasl2Authenticate authenticate sasl2Offer
  cases fast <;> simp only <;> cases choose cfg mechs <;> rfl

/-- A `<fast/>` request is attached only if FAST is enabled, the feature was offered, and the emitted name is in it. -/
theorem sasl2_fast_flag (cfg : Cfg) (on : Bool) (mechs : List String) (fast : Option (List String)) (nm : String)
    (h : sasl2Authenticate cfg on mechs fast = .sent nm true) : on = true ∧ ∃ fm, fast = some fm ∧ nm ∈ fm := by
  obtain ⟨m, _, hnm, hf⟩ := (sasl2_sent_iff cfg on mechs fast nm true).mp h
  cases fast with
  | none => simp at hf
  | some fm =>
    cases on with
    | false => simp at hf
    | true =>
      simp only at hf
      refine ⟨rfl, fm, rfl, ?_⟩
      rw [hnm]; simpa using hf.symm

example : sasl2Authenticate { creds := { password := .nonEmpty, htToken := some (0, .nob) } } true ["SCRAM-SHA-256", "PLAIN"]
    (some ["HT-SHA-256-NONE", "HT-SHA3-512-NONE"]) = .sent "HT-SHA-256-NONE" true := by decide
example : sasl2Authenticate { creds := { password := .nonEmpty, htToken := some (0, .nob) } } false ["SCRAM-SHA-256", "PLAIN"]
    (some ["HT-SHA-256-NONE", "HT-SHA3-512-NONE"]) = .sent "SCRAM-SHA-256" false := by decide

/-! ## client level: `handleStreamFeatures` never falls back when SASL negotiation finds nothing -/

/-- **Mismatch instead of anything else (SASL).** SASL enabled by the user, the server offers a non-empty `<mechanisms/>` and
SASL 2 is not negotiated: if nothing is permitted the client's step is exactly the mismatch report (and it disconnects) —
never XEP-0078 authentication, a bind request or a session, whatever else the features advertise. -/
theorem client_mismatch_when_nothing_permitted (c : ClientCfg) (f : Features)
    (hs : c.useSasl = true) (hoff : f.mechanisms ≠ []) (hno2 : f.sasl2 = none ∨ c.useSasl2 = false)
    (hnone : permitted c.cfg f.mechanisms = []) :
    clientChoice c f = .sasl (.mismatch (disabledOffered c.cfg f.mechanisms)) ∧ (clientChoice c f).disconnects = true := by
  have hch : choose c.cfg f.mechanisms = none := (choose_none_iff _ _).mpr hnone
  have hne : f.mechanisms.isEmpty = false := by
    cases hm : f.mechanisms with
    | nil => exact absurd hm hoff
    | cons _ _ => rfl
  have key : clientChoice c f = .sasl (.mismatch (disabledOffered c.cfg f.mechanisms)) := by
    unfold clientChoice
    rcases hno2 with h2 | h2
    · rw [h2]; simp [hne, hs, authenticate, hch]
    · rw [h2]; cases f.sasl2 <;> simp [hne, hs, authenticate, hch]
  exact ⟨key, by rw [key]; rfl⟩

example : clientChoice {} { mechanisms := ["GSSAPI", "EXTERNAL", "SCRAM-SHA-1-PLUS"], legacyAuth := true, bind := true }
    = .sasl (.mismatch []) := by decide
example : clientChoice {} { mechanisms := ["PLAIN"], legacyAuth := true } = .sasl (.mismatch ["PLAIN"]) := by decide

/-- **Mismatch instead of anything else (SASL 2).** SASL 2 offered and enabled: if nothing is permitted among its mechanisms
(plus the `<fast/>` ones when FAST is on) the step is the mismatch report — there is no fall-back to SASL, XEP-0078 or bind. -/
theorem client_sasl2_mismatch_when_nothing_permitted (c : ClientCfg) (f : Features) (m2 : List String)
    (h2 : f.sasl2 = some m2) (hu : c.useSasl2 = true)
    (hnone : permitted c.cfg (sasl2Offer c.fastOn m2 f.fast) = []) :
    clientChoice c f = .sasl2 (.mismatch (disabledOffered c.cfg (sasl2Offer c.fastOn m2 f.fast))) ∧
      (clientChoice c f).disconnects = true := by
  have hch : choose c.cfg (sasl2Offer c.fastOn m2 f.fast) = none := (choose_none_iff _ _).mpr hnone
  have key : clientChoice c f = .sasl2 (.mismatch (disabledOffered c.cfg (sasl2Offer c.fastOn m2 f.fast))) := by
    unfold clientChoice
    rw [h2, hu]
    simp [sasl2Authenticate, hch]
  exact ⟨key, by rw [key]; rfl⟩

/-- **SASL is negotiated whenever it is offered and enabled** — the outcome is then the manager's (a SASL element with the chosen
mechanism, or the mismatch), never legacy authentication, bind or a session. -/
theorem client_negotiates_sasl_when_offered (c : ClientCfg) (f : Features)
    (hs : c.useSasl = true) (hoff : f.mechanisms ≠ []) :
    (∃ o, clientChoice c f = .sasl o) ∨ (∃ o, clientChoice c f = .sasl2 o) := by
  have hne : f.mechanisms.isEmpty = false := by
    cases hm : f.mechanisms with
    | nil => exact absurd hm hoff
    | cons _ _ => rfl
  unfold clientChoice
  cases h2 : f.sasl2 with
  | none => left; simp [hne, hs]
  | some m2 =>
    cases hu : c.useSasl2 with
    | true => right; exact ⟨_, rfl⟩
    | false => left; simp [hne, hs]

/-- The client disconnects in this step exactly when a negotiation ended in a mismatch. -/
theorem client_disconnects_iff_mismatch (c : ClientCfg) (f : Features) :
    (clientChoice c f).disconnects = true ↔
      (∃ d, clientChoice c f = .sasl (.mismatch d)) ∨ (∃ d, clientChoice c f = .sasl2 (.mismatch d)) := by
  cases h : clientChoice c f with
  | sasl o => cases o <;> simp [ClientOutcome.disconnects]
  | sasl2 o => cases o <;> simp [ClientOutcome.disconnects]
  | legacyAuth => simp [ClientOutcome.disconnects]
  | bind => simp [ClientOutcome.disconnects]
  | session => simp [ClientOutcome.disconnects]

/-- **What the real client does with `useSASLAuthentication = false`** (and SASL 2 not negotiated): the offered SASL mechanisms are
ignored altogether — XEP-0078 authentication if the server advertises it and `useNonSASLAuthentication` is on, else a bind request
if bind is advertised, else the session is opened. No mismatch is reported: the user switched SASL off. -/
theorem client_sasl_disabled (c : ClientCfg) (f : Features) (hs : c.useSasl = false)
    (hno2 : f.sasl2 = none ∨ c.useSasl2 = false) :
    clientChoice c f =
      if f.legacyAuth && c.useNonSasl then .legacyAuth else if f.bind then .bind else .session := by
  unfold clientChoice
  rcases hno2 with h2 | h2
  · rw [h2]; simp [hs]
  · rw [h2]; cases f.sasl2 <;> simp [hs]

/-- The same happens when the server offers no SASL mechanism at all (no or empty `<mechanisms/>`): outside the property
(nothing was offered to choose from), stated for precision. -/
theorem client_no_sasl_offered (c : ClientCfg) (f : Features) (hoff : f.mechanisms = [])
    (hno2 : f.sasl2 = none ∨ c.useSasl2 = false) :
    clientChoice c f =
      if f.legacyAuth && c.useNonSasl then .legacyAuth else if f.bind then .bind else .session := by
  unfold clientChoice
  rcases hno2 with h2 | h2
  · rw [h2]; simp [hoff]
  · rw [h2]; cases f.sasl2 <;> simp [hoff]

/-- SASL 2 is governed by `useSasl2Authentication` alone: it is negotiated when offered and enabled even if
`useSASLAuthentication` is off, and it takes precedence over SASL (no fall-back to the SASL list after a SASL 2 mismatch). -/
theorem client_sasl2_precedence (c : ClientCfg) (f : Features) (m2 : List String)
    (h2 : f.sasl2 = some m2) (hu : c.useSasl2 = true) :
    clientChoice c f = .sasl2 (sasl2Authenticate c.cfg c.fastOn m2 f.fast) := by
  unfold clientChoice; rw [h2, hu]

example : clientChoice { useSasl := false } { mechanisms := ["SCRAM-SHA-1"], legacyAuth := true, bind := true } = .legacyAuth ∧
    clientChoice { useSasl := false, useNonSasl := false } { mechanisms := ["SCRAM-SHA-1"], legacyAuth := true, bind := true } = .bind ∧
    clientChoice { cfg := { creds := { password := .nonEmpty } } } { mechanisms := ["SCRAM-SHA-1"], sasl2 := some ["GSSAPI"] }
      = .sasl2 (.mismatch []) := by decide

end Qx.C05
