import Qx.Proofs.C15
/-!
# C15 — ICE reacts only to checks authenticated with the session password; peers connect

Property theorems only (model: `Qx/Model/C15Ice.lean`, helpers: `Qx/Proofs/C15.lean`, priority constants regenerated from
the C++ by `translators/ice_prio.py` into `Qx/Generated/IcePrio.lean`).

Reading guide.  `d.unauthenticated` = STUN datagram whose MESSAGE-INTEGRITY status is not "valid under the key for its
class" (absent, wrong key, the other password, truncated).  `d.forged` = unauthenticated AND some MESSAGE-INTEGRITY
attribute is present.  `NoEffect s d` = the connectivity view (pair states, nominated flags, remote candidates, selected
pair, connected) is unchanged and neither a Binding response nor a connectivity check is emitted.

The full safety statement `∀ s d, d.unauthenticated → NoEffect s d` is FALSE for today's code (`C15_defect_*`): a message
without any MESSAGE-INTEGRITY passes `QXmppStunMessage::decode`.  It is proved (a) for every datagram that carries an
integrity attribute, for every state and every history (`…_partial`, `forged_…`), and (b) in full for the model variant
`requireMi = true`, which is the behaviour with /verif/fixes/C15-require-mi.diff applied (`…_fixed`).
-/
namespace Qx.C15

/-- what "has no effect" means for one received datagram -/
def NoEffect (s : St) (d : Datagram) : Prop :=
  connView (react s d).1 = connView s ∧
  ∀ o ∈ (react s d).2, isBindingResponse o = false ∧ isCheckSent o = false ∧ o ≠ Out.connectedSig

/-- `forged` is exactly "unauthenticated, but with some MESSAGE-INTEGRITY attribute" -/
theorem forged_iff (d : Datagram) :
    d.forged = true ↔ d.unauthenticated = true ∧ ∃ m, d.kind = .stun m ∧ m.mi ≠ .absent := by
  obtain ⟨src, kind⟩ := d
  cases kind with
  | nonStun p => simp [Datagram.forged, Datagram.unauthenticated]
  | stun m => simp [Datagram.forged, Datagram.unauthenticated]

/-! ## Safety -/

/-- **Today's code violates the full statement.**  Witness: a controlled component that knows its peer's credentials but
has not started, and a Binding request WITHOUT MESSAGE-INTEGRITY from an address (8) nobody told it about.
Full statement negated: `∀ s d, s.requireMi = false → d.unauthenticated → NoEffect s d`. -/
theorem C15_defect_no_mi_accepted :
    ¬ (∀ (s : St) (d : Datagram), s.requireMi = false → d.unauthenticated = true → NoEffect s d) := by
  intro h
  have h1 := h (step (init false) .setRemoteCreds).1
    { src := 8, kind := .stun { cls := .request, txid := 1000, mi := .absent, priority := 12345 } } (by decide) (by decide)
  exact absurd h1.1 (by decide)

/-- … and this is what the component does with that request: it answers with a Binding success response, learns the
sender as a peer-reflexive remote candidate with the priority the sender chose, creates a pair for it and immediately
sends it a triggered connectivity check (which discloses a transaction id and the user names). -/
theorem C15_defect_no_mi_accepted_witness :
    let s := (step (init false) .setRemoteCreds).1
    let r := react s { src := 8, kind := .stun { cls := .request, txid := 1000, mi := .absent, priority := 12345 } }
    r.2 = [.accepted, .bindingResponse 8 1000, .pairState 8 .inProgress, .checkSent 8 0 false] ∧
    r.1.remoteCands = [{ addr := 8, prio := 12345, prflx := true }] ∧
    r.1.pairs = [{ remote := 8, rprio := 12345, state := .inProgress, tx := some 0 }] := by
  decide

/-- **Two datagrams without any credentials take over the component.**  The stranger adds USE-CANDIDATE to the request and
answers the triggered check (whose transaction id it has just been sent) with a Binding success response that again
carries no MESSAGE-INTEGRITY: the component reports `connected` and routes application data to the stranger. -/
theorem C15_defect_unauthenticated_peer_connects :
    let ops : List Op :=
      [.setRemoteCreds,
       .dgram { src := 8, kind := .stun { cls := .request, txid := 1000, mi := .absent, useCandidate := true, priority := 12345 } },
       .dgram { src := 8, kind := .stun { cls := .response, txid := 0, mi := .absent } },
       .sendApp [1, 2, 3]]
    (ops.all fun op => match op with | .dgram d => d.unauthenticated | _ => true) = true ∧
    (run (init false) ops).1.connected = true ∧ (run (init false) ops).1.active = some 8 ∧
    Out.connectedSig ∈ (run (init false) ops).2 ∧ Out.appSent 8 [1, 2, 3] ∈ (run (init false) ops).2 := by
  decide

/-- **Partial (what holds today, for EVERY state):** a STUN datagram that carries a MESSAGE-INTEGRITY attribute which is
not valid under the key for its class — computed with a wrong key, with the session's other password, or truncated —
leaves the whole component state (hence the connectivity view) unchanged and is not answered.
Missing relative to the full statement: the case "no MESSAGE-INTEGRITY attribute at all" (see the defect theorems). -/
theorem unauthenticated_traffic_no_effect_partial (s : St) (d : Datagram)
    (hun : d.unauthenticated = true) (hmi : ∀ m, d.kind = .stun m → m.mi ≠ .absent) : NoEffect s d := by
  have hf : d.forged = true := by
    rw [forged_iff]
    refine ⟨hun, ?_⟩
    obtain ⟨src, kind⟩ := d
    cases kind with
    | nonStun p => simp [Datagram.unauthenticated] at hun
    | stun m => exact ⟨m, rfl, hmi m rfl⟩
  have h := react_forged s d hf
  refine ⟨by rw [h.1], ?_⟩
  intro o ho
  rw [h.2 o ho]
  decide

/-- the same with the stronger conclusion actually proved: the state is returned literally unchanged and the only thing the
component may do is log "Bad message integrity" -/
theorem forged_datagram_dropped (s : St) (d : Datagram) (h : d.forged = true) :
    (react s d).1 = s ∧ ∀ o ∈ (react s d).2, o = Out.warnBadMi :=
  react_forged s d h

/-- **Whole histories.**  A history that consists only of forged datagrams (any number, any mix of classes, keys, user names,
role attributes, USE-CANDIDATE, sources) leaves every reachable-or-not state `s` — in particular its connectivity view —
exactly as it was. -/
theorem forged_history_no_effect (s : St) (ops : List Op) (h : ∀ op ∈ ops, op.forged = true) :
    connView (run s ops).1 = connView s ∧ (run s ops).1 = s ∧ ∀ o ∈ (run s ops).2, o = Out.warnBadMi := by
  have h1 := run_all_forged ops s h
  exact ⟨by rw [h1.1], h1.1, h1.2⟩

/-- **Interleaved at any point of any negotiation.**  Take any history at all (credentials, candidates, timer ticks,
time-outs, honest and dishonest datagrams in any order) and erase the forged datagrams from it: the final state is the
same and so is everything the component emitted, except for the bad-integrity warnings. -/
theorem forged_traffic_erasable (s : St) (ops : List Op) :
    (run s ops).1 = (run s (ops.filter fun o => !o.forged)).1 ∧
    (run s ops).2.filter (fun o => o != Out.warnBadMi)
      = (run s (ops.filter fun o => !o.forged)).2.filter (fun o => o != Out.warnBadMi) :=
  run_erase_forged ops s

/-- **Only authenticated (or, today, integrity-less) messages can matter:** if a STUN datagram changes the state or makes the
component emit anything but the bad-integrity warning, then its MESSAGE-INTEGRITY is the valid one for its class or absent. -/
theorem reaction_only_to_valid_or_absent_mi (s : St) (src : Nat) (m : Stun)
    (h : (react s { src := src, kind := .stun m }).1 ≠ s ∨ ∃ o ∈ (react s { src := src, kind := .stun m }).2, o ≠ Out.warnBadMi) :
    m.mi = validFor m.cls ∨ m.mi = .absent := by
  by_cases h1 : m.mi = validFor m.cls
  · exact Or.inl h1
  by_cases h2 : m.mi = .absent
  · exact Or.inr h2
  exfalso
  have hf : ({ src := src, kind := .stun m } : Datagram).forged = true := by simp [Datagram.forged, h1, h2]
  have h3 := react_forged s _ hf
  rcases h with h | ⟨o, ho, hne⟩
  · exact h h3.1
  · exact hne (h3.2 o ho)

/-- **Full statement, for the repaired behaviour** (`requireMi = true`, i.e. with fixes/C15-require-mi.diff applied: peer
messages without MESSAGE-INTEGRITY are dropped before decoding): EVERY unauthenticated datagram, absent integrity included,
leaves the state unchanged and is not answered. -/
theorem unauthenticated_traffic_no_effect_fixed (s : St) (hfix : s.requireMi = true) (d : Datagram)
    (hun : d.unauthenticated = true) : NoEffect s d ∧ (react s d).1 = s := by
  have h := react_unauthenticated_fixed s hfix d hun
  refine ⟨⟨by rw [h.1], ?_⟩, h.1⟩
  intro o ho
  rcases h.2 o ho with h1 | h1 <;> rw [h1] <;> decide

/-- Application (non-STUN) datagrams never touch the connectivity view and are handed up byte for byte. -/
theorem non_stun_no_effect (s : St) (src : Nat) (p : List UInt8) :
    connView (react s { src := src, kind := .nonStun p }).1 = connView s ∧
    (react s { src := src, kind := .nonStun p }).2 = [.appData p] := by
  simp only [react]
  split <;> simp [connView, St.connected]

/-- Documented behaviour, stated so it cannot drift silently: an (even authenticated) Binding request that claims the role
the component has itself is dropped without any answer — no 487 error, no tie-breaker comparison, no role switch
(RFC 5245 7.2.1.1 is not implemented), so two agents configured with the same role never connect. -/
theorem role_conflict_request_dropped (s : St) (src : Nat) (m : Stun)
    (h : (s.controlling = true ∧ (m.roleAttr = .controlling ∨ m.useCandidate = true)) ∨
         (s.controlling = false ∧ m.roleAttr = .controlled)) :
    handleRequest s src m = (s, [.roleConflict]) := by
  rcases h with ⟨h1, h2 | h2⟩ | ⟨h1, h2⟩ <;> simp [handleRequest, h1, h2]

/-! ## Priorities -/

/-- **Candidate priority = RFC 5245 4.1.2.1** with the type preferences read from the source (126 host, 110 peer-reflexive,
100 server-reflexive, 0 relayed), for every local preference and every component id in the RFC range (≤ 256; the C++
computes `256 - component` in `int`, the model in `Nat`, they agree exactly on that range). -/
theorem candidate_priority_rfc (t : CandType) (localPref component : Nat) (hc : component ≤ 256) :
    candidatePriority t localPref component + component
      = 2 ^ 24 * (match t with | .host => 126 | .peerReflexive => 110 | .serverReflexive => 100 | .relayed => 0)
        + 2 ^ 8 * localPref + 256 := by
  cases t <;>
    simp only [candidatePriority, typePref, Qx.IcePrio.typePrefHost, Qx.IcePrio.typePrefPeerReflexive,
      Qx.IcePrio.typePrefServerReflexive, Qx.IcePrio.typePrefRelayed, Qx.IcePrio.typeShift, Qx.IcePrio.localShift,
      Qx.IcePrio.componentBase] <;> omega

/-- what is advertised for the local host candidate and put into the PRIORITY attribute of checks (local preference 65535) -/
theorem advertised_priorities_rfc (component : Nat) (hc : component ≤ 256) :
    localPriority component + component = 2 ^ 24 * 126 + 2 ^ 8 * 65535 + 256 ∧
    prflxPriority component + component = 2 ^ 24 * 110 + 2 ^ 8 * 65535 + 256 := by
  have h1 := candidate_priority_rfc .host Qx.IcePrio.defaultLocalPref component hc
  have h2 := candidate_priority_rfc .peerReflexive Qx.IcePrio.defaultLocalPref component hc
  simp only [Qx.IcePrio.defaultLocalPref] at h1 h2
  exact ⟨h1, h2⟩

/-- **Pair priority = RFC 5245 5.7.2** `2^32·min(G,D) + 2·max(G,D) + (G>D ? 1 : 0)` for all candidate priorities in the RFC
range (< 2^31; see `pair_priority_wraps_beyond_rfc_range` for what the 32-bit product does beyond it), where `G` is the
controlling agent's candidate. -/
theorem pair_priority_rfc (controlling : Bool) (l r : Nat) (hl : l < 2 ^ 31) (hr : r < 2 ^ 31) :
    pairPriority controlling l r =
      (let g := if controlling then l else r
       let d := if controlling then r else l
       2 ^ 32 * min g d + 2 * max g d + (if g > d then 1 else 0)) := by
  cases controlling <;>
    simp only [pairPriority, pairPriorityGD, Qx.IcePrio.pairShift, Qx.IcePrio.pairMaxFactor, Qx.IcePrio.pairTieGt,
      Qx.IcePrio.pairTieLe, Bool.false_eq_true, if_false, if_true] <;>
    (have h : (2 * max r l) % 2 ^ 32 = 2 * max r l := Nat.mod_eq_of_lt (by omega)
     have h' : (2 * max l r) % 2 ^ 32 = 2 * max l r := Nat.mod_eq_of_lt (by omega)
     simp only [h, h'])

/-- Documented: a remote priority of 2^31 or more (outside the RFC range, but any 32-bit value can arrive in a PRIORITY
attribute) makes `2 * qMax(G, D)` wrap in 32 bits, so the pair priority is NOT the RFC value there. -/
theorem pair_priority_wraps_beyond_rfc_range :
    pairPriorityGD (2 ^ 31) 1 ≠ 2 ^ 32 * min (2 ^ 31) 1 + 2 * max (2 ^ 31) 1 + 1 := by
  decide

/-! ## Liveness (partial) -/

set_option linter.unusedSimpArgs false in
/-- **Partial: two honest agents connect under the lossless in-order schedule.**  Two model agents, either role assignment
(`aControlling` and its negation), any component id, one host candidate each (any two different addresses), credentials and
candidates exchanged, both call `connectToHost`; the network then delivers every datagram once, in order. After two delivery
rounds both report `connected`, each has selected the pair towards the other, both signalled `connected` exactly once and
nothing is left in flight.
Missing relative to the property: other schedules, several candidates per agent, and loss of first transmissions depend on the
retransmission/check timers, which are run-time behaviour — explored on the real objects by the harness (proxy socket dropping
every subset of the four first transmissions), not proved. -/
theorem honest_pair_connects_partial (aControlling : Bool) (component addrA addrB : Nat) (hne : addrA ≠ addrB) :
    let n := Net.deliver 2 (honestNet aControlling component addrA addrB)
    n.a.connected = true ∧ n.b.connected = true ∧ n.a.active = some addrB ∧ n.b.active = some addrA ∧
    (n.evA.filter (· == .connectedSig)).length = 1 ∧ (n.evB.filter (· == .connectedSig)).length = 1 ∧
    n.toA = [] ∧ n.toB = [] := by
  have h1 : (addrA == addrB) = false := by simp [hne]
  have h2 : (addrB == addrA) = false := by simp [Ne.symm hne]
  cases aControlling <;>
    simp [honestNet, Net.deliver, Net.deliverRound, Net.opA, Net.opB, Net.emitA, Net.emitB, route, wire, run, step, init, addRemote,
      St.addPair, sortDesc, insertDesc, connect, checkCandidates, performCheck, updatePair, react, decodeMi, handleRequest,
      handleResponse, completion, findPair, St.connected, h1, h2]

set_option linter.unusedSimpArgs false in
/-- … and then application datagrams travel unchanged in both directions (in the model the payload is opaque; byte-for-byte
transport on real sockets is the harness's echo test). -/
theorem honest_pair_carries_datagrams (aControlling : Bool) (component addrA addrB : Nat) (hne : addrA ≠ addrB)
    (p q : List UInt8) :
    let n := Net.deliver 2 (honestNet aControlling component addrA addrB)
    let n1 := ((n.opA (.sendApp p)).opB (.sendApp q)).deliverRound
    n1.evB.getLast? = some (.appData p) ∧ n1.evA.getLast? = some (.appData q) := by
  have h1 : (addrA == addrB) = false := by simp [hne]
  have h2 : (addrB == addrA) = false := by simp [Ne.symm hne]
  cases aControlling <;>
    simp [honestNet, Net.deliver, Net.deliverRound, Net.opA, Net.opB, Net.emitA, Net.emitB, route, wire, run, step, init, addRemote,
      St.addPair, sortDesc, insertDesc, connect, checkCandidates, performCheck, updatePair, react, decodeMi, handleRequest,
      handleResponse, completion, findPair, St.connected, sendApp, h1, h2]

/-! ## Non-vacuity: concrete, non-trivial instances of the hypotheses -/

/-- a component in the middle of a negotiation (own check 0 in flight to peer 1, peer's request already answered) -/
def midNegotiation : St :=
  (run (init false) [.setRemoteCreds, .addRemote 1 (localPriority 1), .connect,
    .dgram { src := 1, kind := .stun { cls := .request, txid := 5000, mi := .validLocal, useCandidate := true, roleAttr := .controlling } }]).1

-- the state is non-trivial, and forged datagrams exist for every kind of forgery
example : (connView midNegotiation).1 = [(1, .inProgress, false)] := by decide
example : ({ src := 8, kind := .stun { cls := .request, txid := 7, mi := .wrongKey, useCandidate := true } } : Datagram).forged = true := by decide
example : ({ src := 1, kind := .stun { cls := .response, txid := 0, mi := .truncated } } : Datagram).forged = true := by decide
example : ({ src := 1, kind := .stun { cls := .response, txid := 0, mi := .validLocal } } : Datagram).forged = true := by decide
-- the very same response with the right key completes the negotiation, so "no effect" is not for lack of opportunity
example : (react midNegotiation { src := 1, kind := .stun { cls := .response, txid := 0, mi := .validRemote } }).1.connected = true := by decide
example : (react midNegotiation { src := 1, kind := .stun { cls := .response, txid := 0, mi := .validLocal } }).1 = midNegotiation := by decide
-- the fixed variant still lets the honest negotiation through and refuses the integrity-less request
example : (run (init false 1 true) [.setRemoteCreds, .addRemote 1 (localPriority 1), .connect,
    .dgram { src := 1, kind := .stun { cls := .request, txid := 5000, mi := .validLocal, useCandidate := true, roleAttr := .controlling } },
    .dgram { src := 1, kind := .stun { cls := .response, txid := 0, mi := .validRemote } }]).1.connected = true := by decide
example : (react (init false 1 true) { src := 8, kind := .stun { cls := .request, txid := 1, mi := .absent } }).2 = [.warnNoMi] := by decide
-- role conflict hypothesis is met by the honest request of a same-role agent
example : handleRequest (init true) 1 { cls := .request, txid := 1, mi := .validLocal, useCandidate := true, roleAttr := .controlling }
    = (init true, [.roleConflict]) := by decide
-- the honest network really exchanges four datagrams
example : ((honestNet true 1 1 2).toA.length, (honestNet true 1 1 2).toB.length) = (1, 1) := by decide
example : (Net.deliver 2 (honestNet true 1 1 2)).a.pairs.map (·.state) = [.succeeded] := by decide

end Qx.C15
