import Qx.Proofs.C15
/-!
# C15 — ICE reacts only to checks authenticated with the session password; peers connect

Property theorems only (model: `Qx/Model/C15Ice.lean`, helpers: `Qx/Proofs/C15.lean`, priority constants regenerated from
the C++ by `translators/ice_prio.py` into `Qx/Generated/IcePrio.lean`).

Reading guide.  A STUN datagram is described by the integrity-relevant LAYOUT of its attribute list (`attrs`, wire order).
`protectingMi attrs` is the specification's notion of the integrity attribute of the message (first MESSAGE-INTEGRITY, and only
if no FINGERPRINT precedes it).  `d.unauthenticated` = that attribute is missing (none at all, or only behind a FINGERPRINT),
computed with a wrong key, valid only under the session's other password, or truncated.  The model accepts a message through
TWO walks transcribed as coded (`prescan` in handleDatagram, `decodeWalk` in QXmppStunMessage::decode); the safety theorems are
about their conjunction.
`NoEffect s d` = the connectivity view (pair states, nominated flags, remote candidates, selected pair, connected) is
unchanged and neither a Binding response, nor a connectivity check, nor `connected()` is emitted.

History: before repo commit f41aa68 the full safety statement was false — a message without any MESSAGE-INTEGRITY passed
`QXmppStunMessage::decode` and was processed as authenticated (two such datagrams made the component report `connected` to a
stranger).  The old witness is kept as `former_takeover_witness_is_inert` (and first in the harness corpus).

Scope.  Modelled and covered by the statements below: one component with one local host transport; peer checks; STUN-server discovery
(acceptance rule only: a message carrying the id of an outstanding discovery transaction is processed unauthenticated, from any
source, and can only add a LOCAL server-reflexive candidate); `close()`; remote credentials set separately and replaced; the
fallback pair used by `sendDatagram` before a pair is selected; retransmission and time-out of checks.  NOT modelled: the TURN
allocation (datagrams relayed by it enter the same `handleDatagram`; the harness injects forged ones on that path, oracle only),
several local transports, role-conflict resolution (not implemented by the code, see `role_conflict_request_dropped`), what `close()`
does to transactions in flight and any operation other than receiving/sending after `close()`.
-/
namespace Qx.C15

/-- what "has no effect" means for one received datagram: the connectivity view (pair states, nominated flags, remote candidates,
selected pair, connected) AND the fallback pair used for sending before a pair is selected are unchanged, and nothing is
answered, no check is sent, `connected()` is not signalled -/
def NoEffect (s : St) (d : Datagram) : Prop :=
  connView (react s d).1 = connView s ∧ (react s d).1.fallback = s.fallback ∧
  ∀ o ∈ (react s d).2, isBindingResponse o = false ∧ isCheckSent o = false ∧ o ≠ Out.connectedSig

/-- the datagram does not carry the transaction id of an outstanding STUN-server discovery request (always true when no STUN
server is configured or discovery has finished: `stunTx = []`) -/
def St.notServerTx (s : St) (d : Datagram) : Prop := ∀ m, d.kind = .stun m → s.stunTx.contains m.txid = false

/-! ## Safety -/

/-- **Unauthenticated traffic has no effect — for EVERY state and EVERY unauthenticated datagram** (no integrity attribute, one
that sits behind a FINGERPRINT, wrong key, the session's other or a superseded password, truncated attribute; any layout, class,
method, source, user name, role attribute, USE-CANDIDATE, transaction id — guessed right or not; STUN servers configured or not;
component closed or not): connectivity view and fallback pair unchanged, nothing answered.  Unless the datagram carries the id of
an outstanding STUN-server transaction (see `stun_server_path_…` below for that case) the whole state is literally unchanged. -/
theorem unauthenticated_traffic_no_effect (s : St) (d : Datagram) (hun : d.unauthenticated = true) :
    NoEffect s d ∧ (s.notServerTx d → (react s d).1 = s) := by
  have h := react_unauthenticated_view s d hun
  refine ⟨⟨h.1, h.2.1, ?_⟩, fun hs => (react_unauthenticated s d hun hs).1⟩
  intro o ho
  have h1 := h.2.2 o ho
  cases o <;> simp_all [isHarmlessOut, isBindingResponse, isCheckSent]

/-- the only thing the component may do with such a datagram is log a warning -/
theorem unauthenticated_datagram_dropped (s : St) (d : Datagram) (h : d.unauthenticated = true) (hs : s.notServerTx d) :
    (react s d).1 = s ∧ ∀ o ∈ (react s d).2, o = Out.warnBadMi ∨ o = Out.warnNoMi ∨ o = Out.warnBadFp ∨ o = Out.warnTruncAttr ∨ o = Out.warnMissingMi := by
  have h1 := react_unauthenticated s d h hs
  refine ⟨h1.1, ?_⟩
  intro o ho
  have h2 := h1.2 o ho
  cases o <;> simp_all [isIntegrityWarning]

/-- **A MESSAGE-INTEGRITY behind a FINGERPRINT counts as absent** — whatever its status (garbage, wrong key, even a correct HMAC)
and whatever follows: the pre-scan stops at the FINGERPRINT, the message is dropped with the "missing MESSAGE-INTEGRITY"
warning and the state is unchanged.  (`decode` alone would stop successfully at that FINGERPRINT, see
`decode_alone_never_looks_behind_fingerprint`.) -/
theorem mi_after_fingerprint_counts_as_absent (s : St) (src : Nat) (m : Stun) (pre rest : List Attr) (good : Bool)
    (hpre : ∀ a ∈ pre, a = Attr.other) (hm : m.attrs = pre ++ Attr.fingerprint good :: rest)
    (hs : s.stunTx.contains m.txid = false) :
    protectingMi m.attrs = none ∧ prescan m.attrs = false ∧
    ({ src := src, kind := .stun m } : Datagram).unauthenticated = true ∧
    (react s { src := src, kind := .stun m }).1 = s := by
  have h1 : protectingMi m.attrs = none := by
    rw [hm]
    clear hm
    induction pre with
    | nil => rfl
    | cons a p ih =>
      have ha := hpre a (by simp)
      subst ha
      simpa [protectingMi] using ih (fun b hb => hpre b (by simp [hb]))
  have h2 : prescan m.attrs = false := by
    cases hp : prescan m.attrs with
    | false => rfl
    | true => rw [prescan_iff_protected, h1] at hp; simp at hp
  have h3 : ({ src := src, kind := .stun m } : Datagram).unauthenticated = true := by
    simp [Datagram.unauthenticated, h1]
  exact ⟨h1, h2, h3, (react_unauthenticated s _ h3 (fun m' hm' => by cases hm'; exact hs)).1⟩

/-- Why the pre-scan must stop at FINGERPRINT and must cover EVERY class (documented so the two walks cannot drift apart
silently): the attribute loop of `decode` stops successfully at a good FINGERPRINT without having verified anything and never looks
at what follows; since repo commit 80bab8b `decode` then rejects requests and success responses for lack of integrity, but
Error responses and indications still pass — for those the pre-scan in handleDatagram is the only guard. -/
theorem decode_alone_never_looks_behind_fingerprint (k : Bool) (pre rest : List Attr) (hpre : ∀ a ∈ pre, a = Attr.other) :
    decodeWalk k false (pre ++ Attr.fingerprint true :: rest) = .ok ∧
    decodeKeyed k false (pre ++ Attr.fingerprint true :: rest) = .ok ∧
    decodeKeyed k true (pre ++ Attr.fingerprint true :: rest) = .missingMi := by
  have hs : decodeSawMi (pre ++ Attr.fingerprint true :: rest) = false := by
    induction pre with
    | nil => rfl
    | cons a p ih =>
      have ha := hpre a (by simp)
      subst ha
      simpa [decodeSawMi] using ih (fun b hb => hpre b (by simp [hb]))
  have hw : decodeWalk k false (pre ++ Attr.fingerprint true :: rest) = .ok := by
    clear hs
    induction pre with
    | nil => simp [decodeWalk]
    | cons a p ih =>
      have ha := hpre a (by simp)
      subst ha
      simpa [decodeWalk] using ih (fun b hb => hpre b (by simp [hb]))
  simp [decodeKeyed, hw, hs]

/-- behind the pre-scan `decode`'s new "Missing MESSAGE-INTEGRITY" rejection can never fire: when the pre-scan has found a
MESSAGE-INTEGRITY the attribute loop meets the same one -/
theorem decode_never_misses_mi_behind_prescan (k n : Bool) (attrs : List Attr) (h : prescan attrs = true) :
    decodeKeyed k n attrs ≠ .missingMi := by
  unfold decodeKeyed
  cases hd : decodeWalk k false attrs <;> simp [decodeSawMi_eq_prescan, h]
  exact decodeWalk_ne_missingMi k attrs false hd

/-- **The conjunction of the two walks is sound:** whenever the pre-scan says "has MESSAGE-INTEGRITY" and `decode` succeeds,
the message's protecting MESSAGE-INTEGRITY exists and was verified under the key for the message class. -/
theorem accepted_means_verified (cls : Cls) (attrs : List Attr)
    (h1 : prescan attrs = true) (h2 : decodeKeyed (cls == .response || cls == .error) (cls == .request || cls == .response) attrs = .ok) :
    protectingMi attrs = some (validFor cls) := by
  obtain ⟨st, hp, hc⟩ := accept_implies_protected _ attrs h1 (decodeKeyed_ok _ _ _ h2)
  rw [miCheck_ok, key_for_class] at hc
  rw [hp, hc]

/-- **What sits behind a MESSAGE-INTEGRITY is ignored.**  Bytes behind the (first) MESSAGE-INTEGRITY are not covered by its HMAC;
anybody can append attributes there.  Whatever is appended — USE-CANDIDATE, PRIORITY, further MESSAGE-INTEGRITY attributes, unknown
attributes, a good FINGERPRINT — the component reacts exactly as to the message that ends with the MESSAGE-INTEGRITY. -/
theorem attributes_after_mi_ignored (s : St) (src : Nat) (m : Stun) (pre post : List Attr) (st : MiSt)
    (h : ∀ a ∈ post, a.harmless = true) (hs : s.stunTx.contains m.txid = false) :
    react s { src := src, kind := .stun { m with attrs := pre ++ .mi st :: post } }
      = react s { src := src, kind := .stun { m with attrs := pre ++ [.mi st] } } := by
  have e1 : handleRequest s src ({ m with attrs := pre ++ .mi st :: post } : Stun).decoded
          = handleRequest s src ({ m with attrs := pre ++ [.mi st] } : Stun).decoded :=
    handleRequest_congr s src _ _ rfl (by simp [Stun.decoded, parsedUc_trailer pre post st]) rfl
      (by simp [Stun.decoded, parsedPrio_trailer pre post st])
  have e2 : handleResponse s src ({ m with attrs := pre ++ .mi st :: post } : Stun)
          = handleResponse s src ({ m with attrs := pre ++ [.mi st] } : Stun) := rfl
  rw [react_stun_peer s src ({ m with attrs := pre ++ .mi st :: post } : Stun) hs,
    react_stun_peer s src ({ m with attrs := pre ++ [.mi st] } : Stun) hs]
  simp only [reactPeer, prescan_trailer pre post st, decodeKeyed_trailer _ _ pre post st h, e1, e2]

/-- … in particular the tampering that makes a controlled agent nominate: USE-CANDIDATE (or a PRIORITY) appended behind the valid
MESSAGE-INTEGRITY of a genuine request changes nothing. -/
theorem appended_use_candidate_ignored (s : St) (src : Nat) (m : Stun) (n : Nat) (hs : s.stunTx.contains m.txid = false) :
    react s { src := src, kind := .stun { m with attrs := [.mi .validLocal, .useCandidate, .priority n, .fingerprint true] } }
      = react s { src := src, kind := .stun { m with attrs := [.mi .validLocal] } } :=
  attributes_after_mi_ignored s src m [] [.useCandidate, .priority n, .fingerprint true] .validLocal
    (by intro a ha; simp at ha; rcases ha with rfl | rfl | rfl <;> rfl) hs

/-- A response is never accepted while the remote password is unknown — whatever integrity attribute it carries (the component
could not verify it): remote user set or not, checks running or not. -/
theorem response_before_remote_password_dropped (s : St) (src : Nat) (m : Stun)
    (hpw : s.remotePwSet = false) (hc : m.cls = .response ∨ m.cls = .error) (hs : s.stunTx.contains m.txid = false) :
    react s { src := src, kind := .stun m } = (s, []) := by
  rw [react_stun_peer s src m hs]
  rcases hc with hc | hc <;> simp [reactPeer, hc, hpw]

/-- **Whole histories.**  A history that consists only of unauthenticated datagrams (any number, any mix) leaves every state
`s` without outstanding STUN-server transactions (none configured, or discovery finished) — in particular its connectivity view — exactly as it was. (Name kept from the time when this held only for datagrams that
carried some integrity attribute; it now covers absent MESSAGE-INTEGRITY too.) -/
theorem forged_history_no_effect (s : St) (hs : s.stunTx = []) (ops : List Op) (h : ∀ op ∈ ops, op.unauthenticated = true) :
    connView (run s ops).1 = connView s ∧ (run s ops).1 = s ∧ ∀ o ∈ (run s ops).2, isIntegrityWarning o = true := by
  have h1 := run_all_unauthenticated ops s hs h
  exact ⟨by rw [h1.1], h1.1, h1.2⟩

/-- **Interleaved at any point of any negotiation.**  Take any history at all (credentials, candidates, timer ticks,
time-outs, honest and dishonest datagrams in any order) and erase ALL unauthenticated datagrams from it (no STUN-server transaction outstanding at the start): the final state is the
same and so is everything the component emitted, except for the integrity warnings. -/
theorem forged_traffic_erasable (s : St) (hs : s.stunTx = []) (ops : List Op) :
    (run s ops).1 = (run s (ops.filter fun o => !o.unauthenticated)).1 ∧
    (run s ops).2.filter (fun o => !isIntegrityWarning o)
      = (run s (ops.filter fun o => !o.unauthenticated)).2.filter (fun o => !isIntegrityWarning o) :=
  run_erase_unauthenticated ops s hs

/-- **Only authenticated messages can matter:** if a STUN datagram changes the state or makes the component emit anything but
an integrity warning, then its protecting MESSAGE-INTEGRITY exists and is the valid one for its class. -/
theorem reaction_only_to_valid_mi (s : St) (src : Nat) (m : Stun) (hs : s.stunTx.contains m.txid = false)
    (h : (react s { src := src, kind := .stun m }).1 ≠ s ∨
         ∃ o ∈ (react s { src := src, kind := .stun m }).2, isIntegrityWarning o = false) :
    protectingMi m.attrs = some (validFor m.cls) := by
  by_cases h1 : protectingMi m.attrs = some (validFor m.cls)
  · exact h1
  exfalso
  have hf : ({ src := src, kind := .stun m } : Datagram).unauthenticated = true := by simp [Datagram.unauthenticated, h1]
  have h3 := react_unauthenticated s _ hf (fun m' hm' => by cases hm'; exact hs)
  rcases h with h | ⟨o, ho, hne⟩
  · exact h h3.1
  · rw [h3.2 o ho] at hne; exact absurd hne (by decide)

/-- The witness that used to take the component over (request without MESSAGE-INTEGRITY + USE-CANDIDATE from an unknown
address, then an integrity-less success response to the triggered check) now does nothing: not connected, no pair, no
candidate, application data has nowhere to go. -/
theorem former_takeover_witness_is_inert :
    let ops : List Op :=
      [.setRemoteCreds,
       .dgram { src := 8, kind := .stun { cls := .request, txid := 1000, attrs := [], useCandidate := true, priority := 12345 } },
       .dgram { src := 8, kind := .stun { cls := .response, txid := 0, attrs := [] } },
       .sendApp [1, 2, 3]]
    (run (init false) ops).1.connected = false ∧ (run (init false) ops).1.pairs = [] ∧
    (run (init false) ops).1.remoteCands = [] ∧ (run (init false) ops).2 = [.warnNoMi, .warnNoMi, .appNoRoute] := by
  decide

/-- Application (non-STUN) datagrams never touch the connectivity view and are handed up byte for byte — FROM ANY SOURCE ADDRESS,
before and after a pair is selected: `handleDatagram` does not compare the sender of application data with the selected pair or
with any candidate (RFC 5245 does not ask for it; data authentication is left to the layer above, e.g. SRTP).  The only state
they can change is the fallback pair, see the next theorem. -/
theorem non_stun_no_effect (s : St) (src : Nat) (p : List UInt8) :
    connView (react s { src := src, kind := .nonStun p }).1 = connView s ∧
    (s.closed = false → (react s { src := src, kind := .nonStun p }).2 = [.appData p]) := by
  simp only [react]
  split
  · rename_i hc; simp [hc]
  · split <;> simp [connView, St.connected]

/-- **Where application data goes before a pair is selected.**  `sendDatagram` writes to the selected pair, else to the fallback
pair, else fails.  The fallback pair changes in exactly two ways: `addRemoteCandidate` (signalling) makes the first candidate the
fallback, and a non-STUN datagram makes its sender the fallback PROVIDED a pair for that address already exists — so a party
without credentials can at most (by spoofing the address of a candidate) switch the fallback among existing pairs; it cannot
make the component send to a new address (pairs only arise from signalling or authenticated requests, which is the main
theorem).  Every other operation, in particular every STUN datagram, leaves the fallback alone. -/
theorem fallback_changes_only_by_signalling_or_known_sender (s : St) (op : Op) :
    (step s op).1.fallback = s.fallback ∨
    (∃ a pr, op = .addRemote a pr ∧ (step s op).1.fallback = some a) ∨
    (∃ a p, op = .dgram { src := a, kind := .nonStun p } ∧ (findPair s.pairs a).isSome = true ∧ (step s op).1.fallback = some a) :=
  step_fallback s op

theorem send_goes_to_selected_else_fallback (s : St) (p : List UInt8) :
    (sendApp s p).2 = [match s.active, s.fallback with
      | some a, _ => .appSent a p
      | none, some f => .appSent f p
      | none, none => .appNoRoute] := by
  simp only [sendApp]
  cases s.active <;> cases s.fallback <;> simp

/-! ## STUN-server discovery, close(), changed credentials -/

/-- **STUN-server path never touches connectivity.**  A STUN message carrying the id of an outstanding discovery transaction is
processed without any authentication (that is how classic STUN works) — but all it can change is the discovery bookkeeping and the
list of LOCAL server-reflexive candidates: connectivity view, selected pair and fallback pair are unchanged, nothing is sent. -/
theorem stun_server_path_never_touches_connectivity (s : St) (src : Nat) (m : Stun) (h : s.stunTx.contains m.txid = true) :
    connView (react s { src := src, kind := .stun m }).1 = connView s ∧
    (react s { src := src, kind := .stun m }).1.fallback = s.fallback ∧
    ∀ o ∈ (react s { src := src, kind := .stun m }).2, isHarmlessOut o = true := by
  simp only [react, h, if_true]
  split
  · simp
  · have h1 := reactServer_view s m
    exact ⟨h1.1, h1.2.1, h1.2.2.2⟩

/-- **Acceptance rule for server answers:** a local server-reflexive candidate is added only by a Binding success response that
carries the id of an outstanding discovery transaction, and that transaction is used up by it. -/
theorem server_reflexive_only_for_outstanding_transaction (s : St) (d : Datagram)
    (h : (react s d).1.localSrflx ≠ s.localSrflx) :
    ∃ m, d.kind = .stun m ∧ s.stunTx.contains m.txid = true ∧ m.cls = .response ∧ m.method = .binding ∧
      (react s d).1.stunTx.contains m.txid = false :=
  react_localSrflx s d h

/-- Documented (not a violation of C15, whose attacker cannot see transaction ids): the SOURCE ADDRESS of a server answer is not
compared with the server's address — the 96-bit transaction id is the only protection of the discovery exchange. -/
theorem server_answer_source_not_checked (s : St) (a b : Nat) (m : Stun) (h : s.stunTx.contains m.txid = true) :
    react s { src := a, kind := .stun m } = react s { src := b, kind := .stun m } := by
  simp only [react, h, if_true]

/-- **close():** afterwards nothing that arrives has any effect and the component is no longer connected.  (Documented: `sendDatagram`
after `close()` still writes — to the fallback pair, because `activePair` was reset, and from a fresh port, because Qt re-opens a
closed QUdpSocket on write.) -/
theorem closed_component_is_inert (s : St) (d : Datagram) :
    (step s .close).1.connected = false ∧ react (step s .close).1 d = ((step s .close).1, []) := by
  simp [step, close, St.connected, react]

/-- **Changed remote credentials:** once `setRemotePassword` has replaced the remote password, a response protected with the
superseded one (e.g. the answer to a check sent before the change) is unauthenticated for every class, hence has no effect. -/
theorem superseded_password_no_effect (s : St) (src : Nat) (m : Stun) (pre post : List Attr)
    (hpre : ∀ a ∈ pre, protectingMi [a] = none ∧ a ≠ .fingerprint true ∧ a ≠ .fingerprint false ∧ a ≠ .overrun)
    (hm : m.attrs = pre ++ .mi .validOldRemote :: post) :
    NoEffect s { src := src, kind := .stun m } := by
  have hp : protectingMi m.attrs = some .validOldRemote := by
    rw [hm]; clear hm
    induction pre with
    | nil => rfl
    | cons a r ih =>
      have ha := hpre a (by simp)
      have hr := ih (fun b hb => hpre b (by simp [hb]))
      cases a <;> simp_all [protectingMi]
  have hun : ({ src := src, kind := .stun m } : Datagram).unauthenticated = true := by
    simp only [Datagram.unauthenticated, hp]
    cases m.cls <;> decide
  exact (unauthenticated_traffic_no_effect s _ hun).1

/-- **Peer-reflexive learning.**  A Binding request that passed authentication, comes from an address the component has no
candidate for, and does not conflict with its role, makes the component learn exactly one new remote candidate: that address,
marked peer-reflexive, with the priority taken from the request's PRIORITY attribute. -/
theorem peer_reflexive_learned_with_request_priority (s : St) (src : Nat) (m : Stun)
    (hnew : s.remoteCands.find? (fun c => c.addr == src) = none)
    (h1 : ¬ (s.controlling = true ∧ (m.roleAttr = .controlling ∨ m.useCandidate = true)))
    (h2 : ¬ (s.controlling = false ∧ m.roleAttr = .controlled)) :
    (handleRequest s src m).1.remoteCands = s.remoteCands ++ [{ addr := src, prio := m.priority, prflx := true }] := by
  unfold handleRequest
  split
  · rename_i h; simp at h; exact absurd h (by simpa using h1)
  split
  · rename_i h; simp at h; exact absurd h (by simpa using h2)
  simp only [hnew]
  rw [completion_remoteCands]
  repeat' split
  all_goals simp_all [performCheck, St.addPair]

/-- Retransmissions stop: the seventh firing of the retransmission timer after 7 transmissions fails the pair instead of sending
again, and a failed pair is not picked up by the check timer (only `waiting` pairs are). -/
theorem retransmission_gives_up (s : St) (t : Nat) (p : Pair) (hp : s.pairs.find? (fun q => q.tx == some t) = some p)
    (h7 : p.tries ≥ 7) : (retransmit s t).2 = [.pairState p.remote .failed] := by
  simp [retransmit, txFinished, hp, h7]

/-- Documented behaviour, stated so it cannot drift silently: an (even authenticated) Binding request that claims the role
the component has itself is dropped without any answer — no 487 error, no tie-breaker comparison, no role switch
(RFC 5245 7.2.1.1 is not implemented), so two agents configured with the same role never connect. -/
theorem role_conflict_request_dropped (s : St) (src : Nat) (m : Stun)
    (h : (s.controlling = true ∧ (m.roleAttr = .controlling ∨ m.useCandidate = true)) ∨
         (s.controlling = false ∧ m.roleAttr = .controlled)) :
    handleRequest s src m = (s, [.roleConflict]) := by
  rcases h with ⟨h1, h2 | h2⟩ | ⟨h1, h2⟩ <;> simp [handleRequest, h1, h2]

/-- USE-CANDIDATE (or ICE-CONTROLLING) sent by the peer of a CONTROLLING component — i.e. by the controlled side — is a role
conflict: dropped, nothing nominated. -/
theorem use_candidate_from_controlled_side_rejected (s : St) (src : Nat) (m : Stun)
    (hc : s.controlling = true) (hu : m.useCandidate = true) :
    handleRequest s src m = (s, [.roleConflict]) :=
  role_conflict_request_dropped s src m (Or.inl ⟨hc, Or.inr hu⟩)

/-! ## Priorities -/

/-- **Candidate priority = RFC 5245 4.1.2.1** with the type preferences read from the source (126 host, 110 peer-reflexive,
100 server-reflexive, 0 relayed), for every local preference and every component id in the RFC range (≤ 256; the C++
computes `256 - component` in `int`, the model in `Nat`, they agree exactly on that range). -/
theorem candidate_priority_rfc (t : CandType) (localPref component : Nat) (hc : component ≤ 256) :
    candidatePriority t localPref component + component
      = 2 ^ 24 * (match t with | .host => 126 | .peerReflexive => 110 | .serverReflexive => 100 | .relayed => 0)
        + 2 ^ 8 * localPref + 256 := by
  cases t <;>
    simp only [candidatePriority, typePref, Qx.IcePrio.typePrefHost, Qx.IcePrio.typePrefPeerReflexive,
      Qx.IcePrio.typePrefServerReflexive, Qx.IcePrio.typePrefRelayed, Qx.IcePrio.typeShift, Qx.IcePrio.localShift,
      Qx.IcePrio.componentBase] <;> omega

/-- what is advertised for the local host candidate and put into the PRIORITY attribute of checks (local preference 65535) -/
theorem advertised_priorities_rfc (component : Nat) (hc : component ≤ 256) :
    localPriority component + component = 2 ^ 24 * 126 + 2 ^ 8 * 65535 + 256 ∧
    prflxPriority component + component = 2 ^ 24 * 110 + 2 ^ 8 * 65535 + 256 := by
  have h1 := candidate_priority_rfc .host Qx.IcePrio.defaultLocalPref component hc
  have h2 := candidate_priority_rfc .peerReflexive Qx.IcePrio.defaultLocalPref component hc
  simp only [Qx.IcePrio.defaultLocalPref] at h1 h2
  exact ⟨h1, h2⟩

/-- **Pair priority = RFC 5245 5.7.2** `2^32·min(G,D) + 2·max(G,D) + (G>D ? 1 : 0)` for all candidate priorities in the RFC
range (< 2^31; see `pair_priority_wraps_beyond_rfc_range` for what the 32-bit product does beyond it), where `G` is the
controlling agent's candidate. -/
theorem pair_priority_rfc (controlling : Bool) (l r : Nat) (hl : l < 2 ^ 31) (hr : r < 2 ^ 31) :
    pairPriority controlling l r =
      (let g := if controlling then l else r
       let d := if controlling then r else l
       2 ^ 32 * min g d + 2 * max g d + (if g > d then 1 else 0)) := by
  cases controlling <;>
    simp only [pairPriority, pairPriorityGD, Qx.IcePrio.pairShift, Qx.IcePrio.pairMaxFactor, Qx.IcePrio.pairTieGt,
      Qx.IcePrio.pairTieLe, Bool.false_eq_true, if_false, if_true] <;>
    (have h : (2 * max r l) % 2 ^ 32 = 2 * max r l := Nat.mod_eq_of_lt (by omega)
     have h' : (2 * max l r) % 2 ^ 32 = 2 * max l r := Nat.mod_eq_of_lt (by omega)
     simp only [h, h'])

/-- Documented: a remote priority of 2^31 or more (outside the RFC range, but any 32-bit value can arrive in a PRIORITY
attribute) makes `2 * qMax(G, D)` wrap in 32 bits, so the pair priority is NOT the RFC value there. -/
theorem pair_priority_wraps_beyond_rfc_range :
    pairPriorityGD (2 ^ 31) 1 ≠ 2 ^ 32 * min (2 ^ 31) 1 + 2 * max (2 ^ 31) 1 + 1 := by
  decide

/-! ## Liveness (partial) -/

set_option linter.unusedSimpArgs false in
/-- **Partial: two honest agents connect under the lossless in-order schedule.**  Two model agents, either role assignment
(`aControlling` and its negation), any component id, one host candidate each (any two different addresses), credentials and
candidates exchanged, both call `connectToHost`; the network then delivers every datagram once, in order. After two delivery
rounds both report `connected`, each has selected the pair towards the other, both signalled `connected` exactly once and
nothing is left in flight.
Missing relative to the property: other schedules, several candidates per agent, and loss of first transmissions depend on the
retransmission/check timers, which are run-time behaviour — explored on the real objects by the harness (proxy socket dropping
every subset of the four first transmissions), not proved. -/
theorem honest_pair_connects_partial (aControlling : Bool) (component addrA addrB : Nat) (hne : addrA ≠ addrB) :
    let n := Net.deliver 2 (honestNet aControlling component addrA addrB)
    n.a.connected = true ∧ n.b.connected = true ∧ n.a.active = some addrB ∧ n.b.active = some addrA ∧
    (n.evA.filter (· == .connectedSig)).length = 1 ∧ (n.evB.filter (· == .connectedSig)).length = 1 ∧
    n.toA = [] ∧ n.toB = [] ∧ n.a.closed = false ∧ n.b.closed = false := by
  have h1 : (addrA == addrB) = false := by simp [hne]
  have h2 : (addrB == addrA) = false := by simp [Ne.symm hne]
  cases aControlling <;>
    simp [honestNet, Net.deliver, Net.deliverRound, Net.opA, Net.opB, Net.emitA, Net.emitB, route, wire, run, step, init, addRemote,
      St.addPair, sortDesc, insertDesc, connect, checkCandidates, performCheck, updatePair, react, reactPeer, prescan, decodeKeyed, decodeSawMi, decodeWalk, miCheck, Stun.decoded, parsedUc, parsedPrio, handleRequest,
      handleResponse, completion, findPair, St.connected, h1, h2]

set_option linter.unusedSimpArgs false in
/-- … and then application datagrams travel unchanged in both directions (in the model the payload is opaque; byte-for-byte
transport on real sockets is the harness's echo test). -/
theorem honest_pair_carries_datagrams (aControlling : Bool) (component addrA addrB : Nat) (hne : addrA ≠ addrB)
    (p q : List UInt8) :
    let n := Net.deliver 2 (honestNet aControlling component addrA addrB)
    let n1 := ((n.opA (.sendApp p)).opB (.sendApp q)).deliverRound
    n1.evB.getLast? = some (.appData p) ∧ n1.evA.getLast? = some (.appData q) := by
  have h1 : (addrA == addrB) = false := by simp [hne]
  have h2 : (addrB == addrA) = false := by simp [Ne.symm hne]
  cases aControlling <;>
    simp [honestNet, Net.deliver, Net.deliverRound, Net.opA, Net.opB, Net.emitA, Net.emitB, route, wire, run, step, init, addRemote,
      St.addPair, sortDesc, insertDesc, connect, checkCandidates, performCheck, updatePair, react, reactPeer, prescan, decodeKeyed, decodeSawMi, decodeWalk, miCheck, Stun.decoded, parsedUc, parsedPrio, handleRequest,
      handleResponse, completion, findPair, St.connected, sendApp, h1, h2]

/-- **Connected is stable:** no operation and no datagram whatsoever (authenticated or not) other than the application's own
`close()` makes a connected component unconnected again. -/
theorem connected_is_stable (s : St) (ops : List Op) (hops : ∀ op ∈ ops, op ≠ .close) (h : s.connected = true) :
    (run s ops).1.connected = true :=
  run_active ops s hops h

/-- **Partial: honest agents connect although first transmissions are lost.**  Two model agents (component 1, addresses 1 and 2)
with exchanged credentials, for EVERY combination of
* role assignment (`aControlling`) and who calls `connectToHost` first (`bFirst`),
* whether the first agent's check already arrives before the other one starts (`gap`: the triggered-check path),
* an additional, unreachable candidate told to A and/or to B (`deadA`, `deadB`), listed before or after the real one (`deadFirst`),
* loss of the FIRST transmission of A's request, of B's request, of A's response, of B's response (any subset),
the following schedule ends with both agents connected to each other: three periods, each = {everything in flight is passed on,
both 500 ms check timers tick, the answers are passed on, all retransmission timers fire}; and whatever happens afterwards
(`opsA`, `opsB`: any operations except `close()`, any datagrams) both stay connected.
Fairness hypothesis, explicit: only first transmissions are lost, every retransmission and every later datagram is delivered, in
order per direction.  Missing relative to the property: arbitrary interleavings / reordering, repeated loss of the same message,
several REACHABLE candidates per agent (one local transport is modelled), other components than 1 for this statement (the
lossless statement above holds for every component) — explored by the harness with real timers. -/
theorem honest_pair_connects_despite_loss_partial
    (aControlling bFirst gap deadA deadB deadFirst lossReqA lossReqB lossRspA lossRspB : Bool) (opsA opsB : List Op)
    (hA : ∀ op ∈ opsA, op ≠ .close) (hB : ∀ op ∈ opsB, op ≠ .close) :
    let n := (Net.periods 3 (lossyStart aControlling bFirst gap deadA deadB deadFirst 1, ⟨lossReqA, lossReqB, lossRspA, lossRspB⟩)).1
    n.a.active = some 2 ∧ n.b.active = some 1 ∧
    (run n.a opsA).1.connected = true ∧ (run n.b opsB).1.connected = true := by
  have h : bothConnected (Net.periods 3 (lossyStart aControlling bFirst gap deadA deadB deadFirst 1,
      ⟨lossReqA, lossReqB, lossRspA, lossRspB⟩)).1 = true := by
    cases aControlling <;> cases bFirst
    · exact lossy_ff _ _ _ _ _ _ _ _
    · exact lossy_ft _ _ _ _ _ _ _ _
    · exact lossy_tf _ _ _ _ _ _ _ _
    · exact lossy_tt _ _ _ _ _ _ _ _
  simp only [bothConnected, Bool.and_eq_true, beq_iff_eq] at h
  refine ⟨h.1, h.2, ?_, ?_⟩
  · exact connected_is_stable _ opsA hA (by simp [St.connected, h.1])
  · exact connected_is_stable _ opsB hB (by simp [St.connected, h.2])

/-- **Application datagrams are carried unchanged, any number of them, in order** from a component whose selected pair points at
`addrB` to the component living there: what B's application receives is exactly the list of payloads A's application sent,
A's state and B's connectivity view are untouched. -/
theorem application_datagrams_carried (a b : St) (addrA addrB : Nat) (h : a.active = some addrB)
    (hcb : b.closed = false) (ps : List (List UInt8)) :
    let sent := run a (ps.map .sendApp)
    let arriving := route sent.1 addrA addrB sent.2
    let recv := run b (arriving.map .dgram)
    recv.2 = ps.map Out.appData ∧ sent.1 = a ∧ connView recv.1 = connView b := by
  simp only [run_sendApp a addrB h ps, route_appSent a addrA addrB ps, List.map_map]
  have h2 := run_nonStun b hcb addrA ps
  exact ⟨h2.1, trivial, h2.2⟩

/-- … applied to the two honest agents after their negotiation, in both directions at once: any list `ps` sent by A arrives at B
as `ps`, any list `qs` sent by B arrives at A as `qs`. -/
theorem honest_pair_carries_datagram_lists (aControlling : Bool) (component addrA addrB : Nat) (hne : addrA ≠ addrB)
    (ps qs : List (List UInt8)) :
    let n := Net.deliver 2 (honestNet aControlling component addrA addrB)
    let sa := run n.a (ps.map .sendApp)
    let sb := run n.b (qs.map .sendApp)
    (run n.b ((route sa.1 addrA addrB sa.2).map .dgram)).2 = ps.map Out.appData ∧
    (run n.a ((route sb.1 addrB addrA sb.2).map .dgram)).2 = qs.map Out.appData := by
  have hc := honest_pair_connects_partial aControlling component addrA addrB hne
  simp only at hc
  obtain ⟨_, _, hA, hB, _, _, _, _, hcA, hcB⟩ := hc
  exact ⟨(application_datagrams_carried _ _ addrA addrB hA hcB ps).1,
         (application_datagrams_carried _ _ addrB addrA hB hcA qs).1⟩

/-- **Today's code violates the liveness half for role conflicts (glare).**  Full statement negated: "for EVERY role assignment of two
honest agents with exchanged credentials and candidates, the lossless schedule ends with both connected".  Witness: both agents
controlling (and likewise both controlled).  Every check is dropped by the receiver as a role conflict (`role_conflict_request_dropped`:
no 487 answer, no tie-breaker comparison, no role switch — RFC 5245 7.1.2.2 / 7.2.1.1 are not implemented), nobody ever answers, and
after the seven transmissions of each check both pairs are `failed` and nothing is in flight: no later event can connect them.
The liveness theorems above therefore carry the hypothesis "the roles differ" (`honestNet` / `lossyStart` give B the negation of A's
role). -/
theorem C15_defect_role_conflict_never_connects :
    ¬ (∀ aControlling bControlling : Bool,
        bothConnected (Net.periods 3 (rolesNet aControlling bControlling 1, ⟨false, false, false, false⟩)).1 = true) ∧
    (∀ sameRole : Bool,
      let n := (Net.periods 9 (rolesNet sameRole sameRole 1, ⟨false, false, false, false⟩)).1
      n.a.connected = false ∧ n.b.connected = false ∧
      n.a.pairs.map (·.state) = [.failed] ∧ n.b.pairs.map (·.state) = [.failed] ∧ n.toA = [] ∧ n.toB = [] ∧
      Out.roleConflict ∈ n.evA ∧ Out.roleConflict ∈ n.evB ∧
      n.evA.all (fun o => !isBindingResponse o) = true ∧ n.evB.all (fun o => !isBindingResponse o) = true) := by
  refine ⟨fun h => absurd (h true true) (by decide +kernel), ?_⟩
  decide +kernel

/-- the same schedule does connect the agents whenever the roles differ (so the witness above is about the roles, not the schedule) -/
theorem differing_roles_connect (aControlling : Bool) :
    bothConnected (Net.periods 3 (rolesNet aControlling (!aControlling) 1, ⟨false, false, false, false⟩)).1 = true := by
  cases aControlling <;> decide +kernel

/-! ## STUN / application demultiplexing -/

/-- **Demultiplexing rule, spelled out:** a datagram is handed to STUN processing only if it has ≥ 20 bytes, carries the magic
cookie 0x2112A442 at offset 4, its length field equals size − 20 and its type is not 0. -/
theorem isStun_iff (b : List UInt8) :
    isStun b = true ↔
      b.length ≥ 20 ∧ (b.drop 4).take 4 = [0x21, 0x12, 0xA4, 0x42] ∧
      (∃ t0 t1 l0 l1 rest, b = t0 :: t1 :: l0 :: l1 :: rest ∧ l0.toNat * 256 + l1.toNat = b.length - 20 ∧ t0.toNat * 256 + t1.toNat ≠ 0) := by
  constructor
  · intro h
    match b, h with
    | t0 :: t1 :: l0 :: l1 :: c0 :: c1 :: c2 :: c3 :: rest, h =>
      simp only [isStun, Bool.and_eq_true, decide_eq_true_eq, beq_iff_eq, bne_iff_ne, ne_eq] at h
      obtain ⟨⟨⟨h1, h2⟩, h3⟩, ⟨⟨⟨h4, h5⟩, h6⟩, h7⟩⟩ := h
      exact ⟨h1, by simp [h4, h5, h6, h7], t0, t1, l0, l1, _, rfl, h2, h3⟩
  · rintro ⟨h1, h2, t0, t1, l0, l1, rest, rfl, h3, h4⟩
    match rest, h1, h2, h3 with
    | c0 :: c1 :: c2 :: c3 :: r, h1, h2, h3 =>
      simp only [List.drop_succ_cons, List.drop_zero, List.take_succ_cons, List.take_zero, List.cons.injEq, and_true] at h2
      obtain ⟨h5, h6, h7, h8⟩ := h2
      simp only [isStun, Bool.and_eq_true, decide_eq_true_eq, beq_iff_eq, bne_iff_ne, ne_eq]
      exact ⟨⟨⟨h1, h3⟩, h4⟩, ⟨⟨⟨h5, h6⟩, h7⟩, h8⟩⟩
    | [], h1, _, _ => simp at h1
    | [_], h1, _, _ => simp at h1
    | [_, _], h1, _, _ => simp at h1
    | [_, _, _], h1, _, _ => simp at h1

/-- every payload WITHOUT the magic cookie at offset 4 is application data -/
theorem payload_without_cookie_is_not_stun (b : List UInt8) (h : (b.drop 4).take 4 ≠ [0x21, 0x12, 0xA4, 0x42]) :
    isStun b = false := by
  cases hs : isStun b with
  | false => rfl
  | true => exact absurd ((isStun_iff b).mp hs).2.1 h

/-- **Every datagram that is not a STUN message by the demultiplexing rule is delivered to the application unchanged**, from a
component that is not closed, whatever its state; the connectivity view does not change. -/
theorem non_stun_payload_delivered (parse : List UInt8 → Stun) (s : St) (src : Nat) (b : List UInt8)
    (hc : s.closed = false) (h : isStun b = false) :
    (receive parse s src b).2 = [.appData b] ∧ connView (receive parse s src b).1 = connView s := by
  simp only [receive, Datagram.ofBytes, h, Bool.false_eq_true, if_false, react, hc]
  split <;> simp [connView, St.connected]

/-- Which payloads are NOT carried as application data: exactly those that ARE STUN messages by the rule (cookie at offset 4, length
field = size − 20, non-zero type) — they are handed to STUN processing instead.  This is inherent to demultiplexing STUN and data on
one socket (RFC 5389 section 8 / RFC 7983); an RTP or DTLS packet cannot collide by accident because of the 32-bit cookie. -/
theorem stun_shaped_payload_is_processed_as_stun (parse : List UInt8 → Stun) (s : St) (src : Nat) (b : List UInt8)
    (h : isStun b = true) : receive parse s src b = react s { src := src, kind := .stun (parse b) } := by
  simp [receive, Datagram.ofBytes, h]

/-- **Connected agents carry every non-STUN payload list unchanged, on the raw bytes:** whatever the sender's application writes —
provided no payload is itself a STUN message by the demultiplexing rule, in particular any list of payloads without the magic
cookie — arrives at the receiver's application byte for byte and in order. -/
theorem application_payloads_carried (parse : List UInt8 → Stun) (a b : St) (addrA addrB : Nat) (h : a.active = some addrB)
    (hcb : b.closed = false) (ps : List (List UInt8)) (hns : ∀ p ∈ ps, isStun p = false) :
    (run a (ps.map .sendApp)).2 = ps.map (Out.appSent addrB) ∧
    (run b (ps.map fun p => .dgram (Datagram.ofBytes parse addrA p))).2 = ps.map Out.appData := by
  refine ⟨by rw [run_sendApp a addrB h ps], ?_⟩
  have e : (ps.map fun p => Op.dgram (Datagram.ofBytes parse addrA p))
         = ps.map fun p => Op.dgram { src := addrA, kind := .nonStun p } := by
    apply List.map_congr_left
    intro p hp
    simp [Datagram.ofBytes, hns p hp]
  rw [e]
  exact (run_nonStun b hcb addrA ps).1

/-! ## Non-vacuity: concrete, non-trivial instances of the hypotheses -/

/-- a component in the middle of a negotiation (own check 0 in flight to peer 1, peer's request already answered) -/
def midNegotiation : St :=
  (run (init false) [.setRemoteCreds, .addRemote 1 (localPriority 1), .connect,
    .dgram { src := 1, kind := .stun { cls := .request, txid := 5000, attrs := [.mi .validLocal], useCandidate := true, roleAttr := .controlling } }]).1

-- the state is non-trivial, and unauthenticated datagrams exist for every kind of forgery
example : (connView midNegotiation).1 = [(1, .inProgress, false)] := by decide
example : ({ src := 8, kind := .stun { cls := .request, txid := 7, attrs := [.mi .wrongKey], useCandidate := true } } : Datagram).unauthenticated = true := by decide
example : ({ src := 1, kind := .stun { cls := .response, txid := 0, attrs := [.mi .truncated] } } : Datagram).unauthenticated = true := by decide
example : ({ src := 1, kind := .stun { cls := .response, txid := 0, attrs := [.mi .validLocal] } } : Datagram).unauthenticated = true := by decide
-- the very same response with the right key completes the negotiation, so "no effect" is not for lack of opportunity
example : (react midNegotiation { src := 1, kind := .stun { cls := .response, txid := 0, attrs := [.mi .validRemote] } }).1.connected = true := by decide
example : (react midNegotiation { src := 1, kind := .stun { cls := .response, txid := 0, attrs := [.mi .validLocal] } }).1 = midNegotiation := by decide
example : ({ src := 8, kind := .stun { cls := .request, txid := 7, attrs := [], useCandidate := true } } : Datagram).unauthenticated = true := by decide
-- layouts with the integrity attribute behind a FINGERPRINT (even with a correct HMAC), swallowed, or doubled
example : ({ src := 8, kind := .stun { cls := .request, txid := 7, attrs := [.other, .fingerprint true, .mi .validLocal] } } : Datagram).unauthenticated = true := by decide
example : (react midNegotiation { src := 1, kind := .stun { cls := .response, txid := 0, attrs := [.fingerprint true, .mi .validRemote] } }).2 = [.warnNoMi] := by decide
example : (react midNegotiation { src := 1, kind := .stun { cls := .response, txid := 0, attrs := [.mi .wrongKey, .mi .validRemote] } }).2 = [.warnBadMi] := by decide
example : (react midNegotiation { src := 1, kind := .stun { cls := .response, txid := 0, attrs := [.other, .mi .validRemote, .mi .wrongKey, .other, .fingerprint true] } }).1.connected = true := by decide
example : (react midNegotiation { src := 1, kind := .stun { cls := .response, txid := 0, attrs := [.overrun, .mi .validRemote] } }).2 = [.warnNoMi] := by decide
example : decodeWalk false false [.fingerprint true, .mi .wrongKey] = .ok ∧ prescan [.fingerprint true, .mi .wrongKey] = false := by decide
-- the honest negotiation goes through, the integrity-less request is refused with the dedicated warning
example : (run (init false) [.setRemoteCreds, .addRemote 1 (localPriority 1), .connect,
    .dgram { src := 1, kind := .stun { cls := .request, txid := 5000, attrs := [.mi .validLocal], useCandidate := true, roleAttr := .controlling } },
    .dgram { src := 1, kind := .stun { cls := .response, txid := 0, attrs := [.mi .validRemote] } }]).1.connected = true := by decide
example : (react (init false) { src := 8, kind := .stun { cls := .request, txid := 1, attrs := [] } }).2 = [.warnNoMi] := by decide
-- a history mixing honest and unauthenticated operations, for `forged_traffic_erasable`
example : ([Op.setRemoteCreds, .dgram { src := 8, kind := .stun { cls := .request, txid := 1, attrs := [] } }, .connect].filter
    fun o => !o.unauthenticated) = [.setRemoteCreds, .connect] := by decide
-- a lossy run really loses and retransmits: with all four first transmissions lost nobody is connected after one period
example : bothConnected (Net.periods 1 (lossyStart true false false false false false 1, ⟨true, true, true, true⟩)).1 = false := by decide
example : ((lossyStart true false false true true true 1).a.pairs.map (·.remote), (lossyStart true false false true true true 1).b.pairs.map (·.remote)) = ([7, 2], [9, 1]) := by decide
-- a genuine request WITHOUT USE-CANDIDATE to a controlled agent whose own check is in flight: USE-CANDIDATE appended behind the
-- MESSAGE-INTEGRITY leaves `nominating` false, the same attribute in front of it (covered by the HMAC) sets it
example : (react (run (init false) [.setRemoteCreds, .addRemote 1 (localPriority 1), .connect]).1
    { src := 1, kind := .stun { cls := .request, txid := 9, attrs := [.mi .validLocal, .useCandidate], roleAttr := .controlling } }).1.pairs.map (·.nominating) = [false] := by decide
example : (react (run (init false) [.setRemoteCreds, .addRemote 1 (localPriority 1), .connect]).1
    { src := 1, kind := .stun { cls := .request, txid := 9, attrs := [.useCandidate, .mi .validLocal], roleAttr := .controlling } }).1.pairs.map (·.nominating) = [true] := by decide
-- a response arriving while only the remote user is known (check 0 in flight): dropped, also with a "right" integrity code
example : (react (run (init false) [.setRemoteUser, .addRemote 1 (localPriority 1), .connect]).1
    { src := 1, kind := .stun { cls := .response, txid := 0, attrs := [.mi .validRemote] } }) =
    ((run (init false) [.setRemoteUser, .addRemote 1 (localPriority 1), .connect]).1, []) := by decide
-- STUN-server discovery: an answer from ANY address is taken for the server's when it carries the outstanding id; a second use of
-- the id is no longer a server answer (peer path: dropped, no remote password)
example : (run (init false 1 2) [.dgram { src := 8, kind := .stun { cls := .response, txid := 500, attrs := [], mapped := some 60 } },
    .dgram { src := 8, kind := .stun { cls := .response, txid := 500, attrs := [], mapped := some 61 } }]).2
    = [.accepted, .localCandidate 60] := by decide
example : (init false 1 2).stunTx = [500, 501] ∧ (init false).stunTx = [] := by decide
-- replaced remote password: the answer protected with the old one is refused, the one with the new password connects
example : (run (init false) [.setRemoteCreds, .addRemote 1 (localPriority 1), .connect, .setRemotePassword,
    .dgram { src := 1, kind := .stun { cls := .response, txid := 0, attrs := [.mi .validOldRemote] } }]).2.getLast? = some .warnBadMi := by decide
-- close() while a check is in flight, and on a connected component
example : ((run midNegotiation [.close, .dgram { src := 1, kind := .stun { cls := .response, txid := 0, attrs := [.mi .validRemote] } }]).1.connected,
    (run midNegotiation [.dgram { src := 1, kind := .stun { cls := .response, txid := 0, attrs := [.mi .validRemote] } }, .close]).1.connected) = (false, false) := by decide
-- the fallback pair: first signalled candidate, moved by application data from another known candidate, not by a stranger
example : ((run (init false) [.addRemote 1 5, .addRemote 2 4]).1.fallback,
    (run (init false) [.addRemote 1 5, .addRemote 2 4, .dgram { src := 2, kind := .nonStun [0x80] }]).1.fallback,
    (run (init false) [.addRemote 1 5, .addRemote 2 4, .dgram { src := 8, kind := .nonStun [0x80] }]).1.fallback) = (some 1, some 2, some 1) := by decide
-- peer-reflexive learning: hypotheses met by an authenticated request from an unknown address; the PRIORITY attribute is taken over
example : (react (step (init false) .setRemoteCreds).1 { src := 7, kind := .stun { cls := .request, txid := 9, attrs := [.mi .validLocal], priority := 4242 } }).1.remoteCands
    = [{ addr := 7, prio := 4242, prflx := true }] := by decide
-- demultiplexing: an RTP-like 24-byte packet with sequence number 4 (bytes 2..3 = size − 20, like seq 152 in a 172-byte stream) has no cookie: data;
-- a minimal real STUN header is STUN; the same header with a wrong length field or type 0 is data
example : isStun ([0x80, 0x00, 0x00, 0x04] ++ List.replicate 20 0x55) = false := by decide
example : isStun ([0x00, 0x01, 0x00, 0x00, 0x21, 0x12, 0xA4, 0x42] ++ List.replicate 12 0) = true := by decide
example : isStun ([0x00, 0x01, 0x00, 0x04, 0x21, 0x12, 0xA4, 0x42] ++ List.replicate 12 0) = false := by decide
example : isStun ([0x00, 0x00, 0x00, 0x00, 0x21, 0x12, 0xA4, 0x42] ++ List.replicate 12 0) = false := by decide
-- role conflict hypothesis is met by the honest request of a same-role agent
example : handleRequest (init true) 1 { cls := .request, txid := 1, attrs := [.mi .validLocal], useCandidate := true, roleAttr := .controlling }
    = (init true, [.roleConflict]) := by decide
-- the honest network really exchanges four datagrams
example : ((honestNet true 1 1 2).toA.length, (honestNet true 1 1 2).toB.length) = (1, 1) := by decide
example : (Net.deliver 2 (honestNet true 1 1 2)).a.pairs.map (·.state) = [.succeeded] := by decide

end Qx.C15
