import Qx.Proofs.C19
/-!
# C19 — a file transfer reported successful delivered exactly the bytes that were sent

Property theorems only (model: `Qx/Model/C19Ibb.lean`, helpers: `Qx/Proofs/C19.lean`).

Reading of the model: `run H (init bsS bsR size hash data) ops` is an XEP-0047 transfer of the file `data` by a
sending job with block size `bsS` towards a receiving job that was offered `size` (0 = not announced) and `hash`
(`none` = not announced) and accepts blocks up to `bsR`, over a channel that performs `ops`.  `honest n` is `n`
faithful deliveries.  `H` is the file hash (MD5 in the code); it is a parameter, and "MD5 does not collide on the two
contents compared" is a hypothesis wherever it is needed, never an axiom.  `r.success` / `s.success` = the job is
in `FinishedState` with `NoError`; `r.acc` = what the receiver's output device actually HOLDS (not the job's byte
counter), `r.fed` = the bytes the running MD5 was fed.  `initDev dev …` starts a transfer into a device that may take
fewer bytes per `write()` than offered, run full, or fail (`Dev`); `init … = initDev .unlimited …` (QBuffer, healthy
file).  The code calls `write()` once per block, counts what the device reports, hashes the whole block and never
retries, so `acc`, `fed` and the counter may differ — the theorems below are about `acc`.

Counters: both jobs keep `quint16 ibbSequence` (since repo commit 49cbe2e; it was `int` before, which made every
transfer of more than 65536 blocks fail — the former `C19_defect_seq_wrap`).  The model uses `UInt16` for both
counters and the wire field: all wrap from 65535 to 0 as XEP-0047 prescribes.
-/
namespace Qx.C19

/-! ## Success means identical bytes -/

/-- **Success ⇒ the device holds identical bytes, whatever the channel and the device do** (offer carried the MD5 and
the true size).  For every file, block sizes, EVERY channel history — including altered blocks and requests forged in
the sender's name — and every receiving device (`dev`: takes everything, at most k bytes per write, runs full, fails):
if the receiving job reports success, its output device holds exactly the sender's bytes, provided MD5 does not
collide between what the hash was fed and the file (`hcoll`).  The true size must have been announced unless the device
takes everything (`hsz`): the hash covers the bytes OFFERED to the device, only the size check (`done`, the sum of what
`write()` reported) notices a short write — a peer that omits the size attribute (XEP-0096 requires it; qxmpp always
sends it for a non-empty file) leaves short writes undetected. -/
theorem success_implies_identical_bytes (H : List UInt8 → List UInt8) (dev : Dev) (bsS bsR size : Nat) (data : List UInt8)
    (ops : List Op) (hsz : size = data.length ∨ dev = .unlimited)
    (hcoll : H (run H (initDev dev bsS bsR size (some (H data)) data) ops).1.r.fed = H data →
             (run H (initDev dev bsS bsR size (some (H data)) data) ops).1.r.fed = data) :
    (run H (initDev dev bsS bsR size (some (H data)) data) ops).1.r.success →
    (run H (initDev dev bsS bsR size (some (H data)) data) ops).1.r.acc = data := by
  intro hs
  have hc := run_checked H ops _ (checked_init H dev bsS bsR size (some (H data)) data)
  have hck := (checkFails_false_iff H _).1 (hc hs.1 hs.2)
  have hh := run_r_inv H (fun r => r.hash = some (H data))
    (by intro r p h; unfold recv; repeat (first | exact h | split | simpa using h)) ops
    (initDev dev bsS bsR size (some (H data)) data) rfl
  have hfed := hcoll (hck.2 _ hh)
  rcases hsz with hsz | hu
  · have hsize := run_r_inv H (fun r => r.size = size)
      (by intro r p h; unfold recv; repeat (first | exact h | split | simpa using h)) ops
      (initDev dev bsS bsR size (some (H data)) data) rfl
    have haf := run_r_inv H AF (recv_AF H) ops (initDev dev bsS bsR size (some (H data)) data) (Or.inl rfl)
    rcases haf with haf | haf
    · rw [haf]; exact hfed
    · rw [hfed] at haf
      by_cases hz : size = 0
      · omega
      · have := hck.1 (by rw [hsize]; exact hz)
        rw [hsize] at this
        omega
  · have hafu := run_r_inv H AFU (recv_AFU H) ops (initDev dev bsS bsR size (some (H data)) data)
      ⟨hu, rfl⟩
    rw [hafu.2]; exact hfed

/-
Full statement (no bound on the number of blocks):

  ∀ H bsS bsR hash data ops, (∀ op ∈ ops, op.benign) →
    (run H (init bsS bsR data.length hash data) ops).1.r.success → (run H (init bsS bsR data.length hash data) ops).1.r.acc = data

Only the part for files of at most 65536 blocks is proved.  Without a hash, XEP-0047 itself cannot do better against a
channel that is able to hold back a copy of a block: the sequence number is 16 bits and wraps, so a block replayed
exactly 65536 blocks later carries the number the receiver expects and, having the same length, also passes the size
check.  The op alphabet of this model has no such long-delay replay (`dup` delivers both copies at once, `swap` only
exchanges neighbours), so for THIS alphabet the full statement is not refuted, merely unproved: the invariant used
("the receiver holds the first `expected` blocks") needs block indices below 65536 to read them off the wire number.
With a hash announced the unconditional theorem above applies.
-/

/-- **Success ⇒ the device holds identical bytes, by the sequence numbers and the size alone — partial: at most 65536
blocks** (`data.length ≤ 65536 * bsS`; missing part: longer files, see the comment above).  No hash needed, none
assumed.  For every such file, block sizes, announced hash (present, absent or wrong), every receiving device and every
history of a channel that loses, duplicates, reorders, mislabels, cuts short and lets third parties or other sessions
interfere — but does not alter payloads or forge requests in the sender's name (`Op.benign`) — with the true size
announced: if the receiving job reports success its device holds exactly the sender's bytes.  For a device that may
take less than offered the proof needs one block less (`hdev`: at most 65535 blocks unless the device takes
everything): with exactly 65536 blocks the wrapped counter would let a replayed block refill a device that is short.
Invariant: the device holds the first `expected` blocks, or strictly fewer bytes than those (after a short or failed
write), or — after a complete 65536-block file and a wrapped counter — more bytes than the file has. -/
theorem success_implies_identical_bytes_by_sequence_partial (H : List UInt8 → List UInt8) (dev : Dev) (bsS bsR : Nat)
    (hash : Option (List UInt8)) (data : List UInt8) (hlen : data.length ≤ 65536 * bsS)
    (hdev : dev = .unlimited ∨ data.length ≤ 65535 * bsS)
    (ops : List Op) (hb : ∀ op ∈ ops, op.benign) :
    (run H (initDev dev bsS bsR data.length hash data) ops).1.r.success →
    (run H (initDev dev bsS bsR data.length hash data) ops).1.r.acc = data := by
  intro hs
  have hc := run_checked H ops _ (checked_init H dev bsS bsR data.length hash data)
  have hsz : (run H (initDev dev bsS bsR data.length hash data) ops).1.r.size = data.length :=
    run_r_inv H (fun r => r.size = data.length)
      (by intro r p h; unfold recv; repeat (first | exact h | split | simpa using h)) ops _ rfl
  rcases hdev with hu | h65535
  · have hi := inv_run H data bsS 65536 (Nat.le_refl _) hlen ops _ hb
      (inv_init dev bsS bsR data.length 65536 hash data (fun _ => hu))
    exact rinv_success_identical H data bsS 65536 _ hsz hi.r hc hs
  · have hi := inv_run H data bsS 65535 (by omega) h65535 ops _ hb
      (inv_init dev bsS bsR data.length 65535 hash data (by omega))
    exact rinv_success_identical H data bsS 65535 _ hsz hi.r hc hs

/-! ## The fault-free run -/

/-- **The fault-free run succeeds — in full**, for every file content and size (no bound on the number of blocks: the
16-bit counters of both jobs wrap together) and every negotiated block size (`0 < bsS ≤ bsR`), with or without an
announced hash, into a receiving device that takes what it is given (`init`): after `data.length + 2` faithful deliveries (enough for `<open/>`, every block and `<close/>`) both
jobs report success, the receiver holds exactly the file and nothing is left in the channel.
(Before repo commit 49cbe2e this was false from 65537 blocks on; the witness — block size 1, 65537 bytes — is the
first entry of the harness corpus and must succeed on the real code.) -/
theorem honest_run_succeeds (H : List UInt8 → List UInt8) (bsS bsR : Nat) (data : List UInt8) (withHash : Bool)
    (hb : 0 < bsS) (hle : bsS ≤ bsR) :
    let st := (run H (init bsS bsR data.length (if withHash then some (H data) else none) data) (honest (data.length + 2))).1
    st.r.success ∧ st.s.success ∧ st.r.acc = data ∧ st.pending = none := by
  apply honest_run H bsS bsR data.length _ data hb hle
  refine ⟨fun _ => rfl, ?_⟩
  intro h hh
  cases withHash <;> simp at hh
  exact hh

/-! ## Faults -/

/-
Full statement: the theorem below without `hlen`.  Unproved beyond 65536 blocks: the proof shows that after the fault
no later block of the sender can carry the sequence number the receiver waits for, which reads block indices off
16-bit wire numbers and therefore needs indices below 65536 (a continuation that goes on losing 65535 further blocks
lets block `j + 65536` into slot `j`; the byte count is then short, so success still seems impossible, but that
counting argument is not formalised).
-/

/-- **A lost, reordered or mislabelled block, or a stream cut short, is never reported as success — partial: at most
65536 blocks** (missing part: longer files, see the comment above).
For every such file, every negotiated block size, every announced hash (or none), every data
block `j` (`j * bsS < data.length`): after `j + 1` faithful deliveries (the channel now holds block `j`) let ONE of
`drop` (block lost, sender told it arrived), `swap` (next request overtakes it), `earlyClose` (`<close/>` arrives
while data is outstanding), `wrongSid`, `wrongSender` happen, followed by ANY continuation of a channel that does not
alter or forge (in particular the honest one): the receiving job never reports success. -/
theorem fault_never_success_partial (H : List UInt8 → List UInt8) (bsS bsR : Nat) (hash : Option (List UInt8)) (data : List UInt8)
    (hb : 0 < bsS) (hle : bsS ≤ bsR) (hlen : data.length ≤ 65536 * bsS)
    (j : Nat) (hblk : j * bsS < data.length)
    (f : Op) (hf : f ∈ [Op.drop, .swap, .earlyClose, .wrongSid, .wrongSender]) (cont : List Op) (hc : ∀ op ∈ cont, op.benign) :
    ¬ (run H (init bsS bsR data.length hash data) (honest (j + 1) ++ f :: cont)).1.r.success := by
  rw [run_append, honest_prefix H bsS bsR data.length hash data hb hle j hblk]
  show ¬ (run H (step H (atBlock bsS bsR data.length hash data j) f).1 cont).1.r.success
  simp only [List.mem_cons, List.mem_nil_iff, or_false] at hf
  rcases hf with rfl | rfl | rfl | rfl | rfl
  · exact doomed_never_success H data bsS j hlen _ (drop_doomed H bsS bsR hash data j hlen hblk) cont hc
  · obtain ⟨e, he⟩ := swap_doomed H bsS bsR hash data j hb hlen hblk
    exact doomed_never_success H data bsS e hlen _ he cont hc
  · exact closed_never_success H _ (earlyClose_closed H bsS bsR hash data j hblk) cont hc
  · exact doomed_never_success H data bsS j hlen _ (wrongSid_doomed H bsS bsR hash data j hlen hblk) cont hc
  · exact doomed_never_success H data bsS j hlen _ (wrongSender_doomed H bsS bsR hash data j hlen hblk) cont hc

/-- **An altered block is never reported as success — when the offer carried the hash.**
For every file (any number of blocks), block sizes, data block `j`, bit position, and ANY continuation whatsoever
(even forging): if one bit of block `j` is flipped in transit, the receiving job does not report success, provided
MD5 does not collide between what the receiver's hash was fed (= what its device holds: the device of `init` takes
everything) and the file (`hcoll`). -/
theorem altered_block_never_success (H : List UInt8 → List UInt8) (bsS bsR size : Nat) (data : List UInt8)
    (hb : 0 < bsS) (hle : bsS ≤ bsR)
    (j : Nat) (hblk : j * bsS < data.length) (bit : Nat) (cont : List Op)
    (hcoll : H (run H (init bsS bsR size (some (H data)) data) (honest (j + 1) ++ .flip bit :: cont)).1.r.fed = H data →
             (run H (init bsS bsR size (some (H data)) data) (honest (j + 1) ++ .flip bit :: cont)).1.r.fed = data) :
    ¬ (run H (init bsS bsR size (some (H data)) data) (honest (j + 1) ++ .flip bit :: cont)).1.r.success := by
  intro hs
  have hid := success_implies_identical_bytes H .unlimited bsS bsR size data _ (Or.inr rfl) hcoll hs
  change (run H (init bsS bsR size (some (H data)) data) (honest (j + 1) ++ .flip bit :: cont)).1.r.acc = data at hid
  rw [run_append, honest_prefix H bsS bsR size (some (H data)) data hb hle j hblk] at hid
  have hpre : ∃ t, (run H (step H (atBlock bsS bsR size (some (H data)) data j) (.flip bit)).1 cont).1.r.acc =
      (data.take (j * bsS) ++ flipBit ((data.drop (j * bsS)).take bsS) bit) ++ t :=
    run_acc_prefix H _ cont _ ⟨[], by rw [flip_acc H bsS bsR size _ data j bit]; simp⟩
  obtain ⟨t, ht⟩ := hpre
  have hid' : (run H (step H (atBlock bsS bsR size (some (H data)) data j) (.flip bit)).1 cont).1.r.acc = data := hid
  rw [ht] at hid'
  exact altered_prefix_ne data (j * bsS) bsS _ t (by simp)
    (flipBit_ne _ bit (take_drop_ne_nil data (j * bsS) bsS hblk hb)) hid'

/-- **Defect / protocol limit (no hash announced; recorded finding `C19:nohash-altered-accepted`).** Without an announced hash the same statement is FALSE: a file
of one byte `00`, block size 1, bit 0 of the only block flipped — the receiver reports success holding `01`.
(`checkData` compares the hash only "if the offer carried one"; XEP-0096 makes it optional.) -/
theorem C19_defect_nohash_altered_accepted :
    ¬ ∀ (H : List UInt8 → List UInt8) (bsS bsR : Nat) (data : List UInt8) (j bit : Nat) (cont : List Op),
      0 < bsS → bsS ≤ bsR → j * bsS < data.length →
      ¬ (run H (init bsS bsR data.length none data) (honest (j + 1) ++ .flip bit :: cont)).1.r.success := by
  intro h
  exact h (fun _ => []) 1 1 [0] 0 0 [.deliver] (by decide) (by decide) (by decide) (by decide)

/-- **A duplicated block is refused and harmless.**  For every file, block sizes and data block `j`: delivering
block `j` twice leaves both jobs and the channel in exactly the state of delivering it once; the second copy is
answered with `<unexpected-request/>` and not written (the receiver holds blocks `0 … j`, once each).  Together with
`honest_run_succeeds` / `success_implies_identical_bytes_by_sequence_partial`: the transfer then completes with
identical bytes — the duplicate is reported as a protocol error to the peer, the job itself is not failed. -/
theorem duplicate_is_refused_and_harmless (H : List UInt8 → List UInt8) (bsS bsR size : Nat) (hash : Option (List UInt8))
    (data : List UInt8) (hb : 0 < bsS) (hle : bsS ≤ bsR) (j : Nat) (hblk : j * bsS < data.length) :
    let st := (run H (init bsS bsR size hash data) (honest (j + 1))).1
    (step H st .dup).1 = (step H st .deliver).1 ∧
    (step H st .dup).2.map (·.err) = [none, some .unexpectedRequest] ∧
    (step H st .dup).1.r.acc = data.take ((j + 1) * bsS) := by
  intro st
  have : st = atBlock bsS bsR size hash data j := honest_prefix H bsS bsR size hash data hb hle j hblk
  rw [this]
  obtain ⟨h1, h2, h3⟩ := dup_eq_deliver H bsS bsR size hash data j
  exact ⟨h1, by rw [h2]; rfl, h3⟩

/-! ## SOCKS5 byte stream (no sequence numbers; stream-host / proxy negotiation outside the model) -/

/-- **SOCKS5: success ⇒ the device holds identical bytes** for every sequence of socket events (chunks of any content,
disconnects) and every receiving device, when the offer carried the hash and the true size (or the device takes
everything) and MD5 does not collide on what the hash was fed and the file. -/
theorem socks_success_implies_identical_bytes (H : List UInt8 → List UInt8) (dev : Dev) (size : Nat) (data : List UInt8)
    (ops : List SOp) (hsz : size = data.length ∨ dev = .unlimited)
    (hcoll : H (srun H (sinitDev dev size (some (H data))) ops).fed = H data →
             (srun H (sinitDev dev size (some (H data))) ops).fed = data) :
    (srun H (sinitDev dev size (some (H data))) ops).success → (srun H (sinitDev dev size (some (H data))) ops).acc = data := by
  intro hs
  have hc := srun_checked H ops (sinitDev dev size (some (H data))) (by intro h; simp [sinitDev] at h)
  have hck := (checkFails_false_iff H _).1 (hc hs.1 hs.2)
  have hfed := hcoll (hck.2 _ (by simp [sinitDev]))
  rcases hsz with hsz | hu
  · have haf := srun_AF H ops (sinitDev dev size (some (H data))) (Or.inl rfl)
    rcases haf with haf | haf
    · rw [haf]; exact hfed
    · rw [hfed] at haf
      by_cases hz : size = 0
      · omega
      · have hsize : (srun H (sinitDev dev size (some (H data))) ops).size = size := by
          rw [srun_size]; rfl
        have := hck.1 (by rw [hsize]; exact hz)
        rw [hsize] at this
        omega
  · have hafu := srun_AFU H ops (sinitDev dev size (some (H data))) ⟨hu, rfl⟩
    rw [hafu.2]; exact hfed

/-- **SOCKS5: a stream cut short is never reported as success** — for every announced size, hash or none, and every
event sequence that carries fewer bytes than announced, and every receiving device. -/
theorem socks_short_stream_never_success (H : List UInt8 → List UInt8) (dev : Dev) (size : Nat) (hash : Option (List UInt8))
    (ops : List SOp) (hshort : sbytes ops < size) : ¬ (srun H (sinitDev dev size hash) ops).success :=
  srun_short H ops (sinitDev dev size hash) (by simp [sinitDev, Recv.success]) (by simpa [sinitDev, Recv.acc] using hshort)

/-- **SOCKS5: the faithful stream succeeds** however the bytes are split into reads, with or without a hash, into a device
that takes what it is given. -/
theorem socks_honest_run_succeeds (H : List UInt8 → List UInt8) (data : List UInt8) (withHash : Bool)
    (chunks : List (List UInt8)) (hsplit : chunks.flatten = data) :
    let r := srun H (sinit data.length (if withHash then some (H data) else none)) (chunks.map .chunk ++ [.disconnect])
    r.success ∧ r.acc = data := by
  apply srun_honest H data chunks _ rfl
  · intro h hh
    cases withHash <;> simp [sinit, sinitDev] at hh
    exact hh
  · exact ⟨rfl, rfl⟩
  · left; exact ⟨rfl, by simpa [sinit, sinitDev, Recv.acc] using hsplit⟩

/-! ## Non-vacuity: the hypotheses are met by concrete runs (hash = identity, so `hcoll` is trivially true) -/

-- honest run of 5 bytes in blocks of 2: success on both sides, identical bytes
example : (run id (init 2 4096 5 (some [1, 2, 3, 4, 5]) [1, 2, 3, 4, 5]) (honest 5)).1.r.success
    ∧ (run id (init 2 4096 5 (some [1, 2, 3, 4, 5]) [1, 2, 3, 4, 5]) (honest 5)).1.s.success
    ∧ (run id (init 2 4096 5 (some [1, 2, 3, 4, 5]) [1, 2, 3, 4, 5]) (honest 5)).1.r.acc = [1, 2, 3, 4, 5] := by decide
-- block 1 dropped, honest afterwards: sender ProtocolError, receiver FileCorruptError with the first block only
example : (run id (init 2 4096 5 none [1, 2, 3, 4, 5]) (honest 2 ++ .drop :: honest 3)).1.r.error = .corrupt
    ∧ (run id (init 2 4096 5 none [1, 2, 3, 4, 5]) (honest 2 ++ .drop :: honest 3)).1.s.error = .protocol
    ∧ (run id (init 2 4096 5 none [1, 2, 3, 4, 5]) (honest 2 ++ .drop :: honest 3)).1.r.acc = [1, 2] := by decide
-- block 1 altered with the hash announced: FileCorruptError
example : (run id (init 2 4096 5 (some [1, 2, 3, 4, 5]) [1, 2, 3, 4, 5]) (honest 2 ++ .flip 0 :: honest 3)).1.r.error = .corrupt
    ∧ (run id (init 2 4096 5 (some [1, 2, 3, 4, 5]) [1, 2, 3, 4, 5]) (honest 2 ++ .flip 0 :: honest 3)).1.r.acc = [1, 2, 2, 4, 5] := by decide
-- … and without the hash: success with different bytes (the defect above)
example : (run id (init 2 4096 5 none [1, 2, 3, 4, 5]) (honest 2 ++ .flip 0 :: honest 3)).1.r.success
    ∧ (run id (init 2 4096 5 none [1, 2, 3, 4, 5]) (honest 2 ++ .flip 0 :: honest 3)).1.r.acc = [1, 2, 2, 4, 5] := by decide
-- a benign but busy channel (duplicate, third-party injection with the right sequence number) still ends in success
example : (run id (init 2 4096 5 none [1, 2, 3, 4, 5])
      [.deliver, .dup, .inject 1 0 (.data 1 [9, 9]), .inject 0 1 .close, .deliver, .deliver, .deliver]).1.r.success := by decide
example : ∀ op ∈ [Op.deliver, .dup, .inject 1 0 (.data 1 [9, 9]), .inject 0 1 .close, .deliver], op.benign := by
  simp [Op.benign]
-- a device that takes one byte per write() / runs full / fails: the honest transfer ends in FileCorruptError, the device
-- holds less than the file, the job's hash input is the whole file
example : (run id (initDev (.perWrite 1) 2 4096 5 (some [1, 2, 3, 4, 5]) [1, 2, 3, 4, 5]) (honest 5)).1.r.error = .corrupt
    ∧ (run id (initDev (.perWrite 1) 2 4096 5 (some [1, 2, 3, 4, 5]) [1, 2, 3, 4, 5]) (honest 5)).1.r.acc = [1, 3, 5]
    ∧ (run id (initDev (.perWrite 1) 2 4096 5 (some [1, 2, 3, 4, 5]) [1, 2, 3, 4, 5]) (honest 5)).1.r.fed = [1, 2, 3, 4, 5] := by decide
example : (run id (initDev (.fullAfter 3) 2 4096 5 none [1, 2, 3, 4, 5]) (honest 5)).1.r.error = .corrupt
    ∧ (run id (initDev (.fullAfter 3) 2 4096 5 none [1, 2, 3, 4, 5]) (honest 5)).1.r.acc = [1, 2, 3] := by decide
example : (run id (initDev (.failAt 3) 2 4096 5 none [1, 2, 3, 4, 5]) (honest 5)).1.r.error = .corrupt
    ∧ (run id (initDev (.failAt 3) 2 4096 5 none [1, 2, 3, 4, 5]) (honest 5)).1.r.acc = [1, 2, 5] := by decide
-- SOCKS5: faithful stream in two reads succeeds, a truncated one is corrupt
example : (srun id (sinit 3 (some [7, 8, 9])) [.chunk [7], .chunk [8, 9], .disconnect]).success := by decide
example : (srun id (sinit 3 (some [7, 8, 9])) [.chunk [7, 8], .disconnect]).error = .corrupt := by decide

end Qx.C19
