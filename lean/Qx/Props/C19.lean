import Qx.Proofs.C19
/-!
# C19 — a file transfer reported successful delivered exactly the bytes that were sent

Property theorems only (model: `Qx/Model/C19Ibb.lean`, helpers: `Qx/Proofs/C19.lean`).

Reading of the model: `run H (init bsS bsR size hash data) ops` is an XEP-0047 transfer of the file `data` by a
sending job with block size `bsS` towards a receiving job that was offered `size` (0 = not announced) and `hash`
(`none` = not announced) and accepts blocks up to `bsR`, over a channel that performs `ops`.  `honest n` is `n`
faithful deliveries.  `H` is the file hash (MD5 in the code); it is a parameter, and "MD5 does not collide on the two
contents compared" is a hypothesis wherever it is needed, never an axiom.  `r.success` / `s.success` = the job is
in `FinishedState` with `NoError`; `r.acc` = what the receiver's output device actually HOLDS (not the job's byte
counter), `r.fed` = the bytes the running MD5 was fed.  `initDev dev …` starts a transfer into a device that may take
fewer bytes per `write()` than offered, run full, or fail (`Dev`); `init … = initDev .unlimited …` (QBuffer, healthy
file).  The code calls `write()` once per block and never retries; a failed or short write ends the job with
`FileAccessError` (repo commit 675e9c1), leaving in the device whatever it took; counter and hash only see complete
blocks (`done = |fed|`).  The theorems below are about `acc`.  `timeout` is the in-band inactivity timer (repo commit
72eab57) firing: every job in `TransferState` ends with `ProtocolError`.

Counters: both jobs keep `quint16 ibbSequence` (since repo commit 49cbe2e; it was `int` before, which made every
transfer of more than 65536 blocks fail — the former `C19_defect_seq_wrap`).  The model uses `UInt16` for both
counters and the wire field: all wrap from 65535 to 0 as XEP-0047 prescribes.
-/
namespace Qx.C19

/-! ## Success means identical bytes -/

/-- **Success ⇒ the device holds identical bytes, whatever the channel and the device do** (offer carried the MD5).  For
every file, block sizes, announced size — even a wrong or absent one —, EVERY receiving device (takes everything, at most
k bytes per write, runs full, fails) and EVERY channel history, including altered blocks, requests forged in the
sender's name, lost stanzas and timers firing: if the receiving job reports success, its output device holds exactly the
sender's bytes, provided MD5 does not collide between what the hash was fed and the file (`hcoll`).  (A device that
refuses data ends the job with `FileAccessError`, and since repo commit 31a1bb4 — `<open/>` only in `StartState` —
nothing can put a finished job back into `TransferState`.) -/
theorem success_implies_identical_bytes (H : List UInt8 → List UInt8) (dev : Dev) (bsS bsR size : Nat) (data : List UInt8)
    (ops : List Op)
    (hcoll : H (run H (initDev dev bsS bsR size (some (H data)) data) ops).1.r.fed = H data →
             (run H (initDev dev bsS bsR size (some (H data)) data) ops).1.r.fed = data) :
    (run H (initDev dev bsS bsR size (some (H data)) data) ops).1.r.success →
    (run H (initDev dev bsS bsR size (some (H data)) data) ops).1.r.acc = data := by
  intro hs
  have hc := run_checked H ops _ (checked_init H dev bsS bsR size (some (H data)) data)
  have hck := (checkFails_false_iff H _).1 (hc hs.1 hs.2)
  have hh := run_r_inv H (fun r => r.hash = some (H data))
    (by intro r p h; unfold recv; repeat (first | exact h | split | simpa using h)) (fun r h => by simpa using h) ops
    (initDev dev bsS bsR size (some (H data)) data) rfl
  have hfed := hcoll (hck.2 _ hh)
  rcases run_r_inv H AS (recv_AS H) (fun r h => terminate_AS r _ h) ops
    (initDev dev bsS bsR size (some (H data)) data) (Or.inl rfl) with h | ⟨_, he⟩
  · rw [h]; exact hfed
  · rw [hs.2] at he; cases he

/-- **accept(filePath): success ⇒ the FILE ON DISK is exactly the sent bytes, whatever the destination path held
before** (none, shorter, longer, same length).  `initPath acceptOpenMode previous …` receives into a healthy file that
already contains `previous`, opened the way the code opens it (`acceptOpenMode` = truncating `WriteOnly`, tied to the
code by the `pathrun` correspondence lines); `r.disk` = the bytes written followed by what is left of the old content
beyond them.  Any channel history, hash announced, collision hypothesis as above.  (With a non-truncating open the
statement is false — see the `OpenMode.keep` example at the end: the stale tail of a longer old file survives while size
and hash, computed over the received bytes only, pass.) -/
theorem accept_path_success_implies_file_is_sent_bytes (H : List UInt8 → List UInt8) (previous : List UInt8)
    (bsS bsR size : Nat) (data : List UInt8) (ops : List Op)
    (hcoll : H (run H (initPath acceptOpenMode previous bsS bsR size (some (H data)) data) ops).1.r.fed = H data →
             (run H (initPath acceptOpenMode previous bsS bsR size (some (H data)) data) ops).1.r.fed = data) :
    (run H (initPath acceptOpenMode previous bsS bsR size (some (H data)) data) ops).1.r.success →
    (run H (initPath acceptOpenMode previous bsS bsR size (some (H data)) data) ops).1.r.disk = data := by
  have e : initPath acceptOpenMode previous bsS bsR size (some (H data)) data = init bsS bsR size (some (H data)) data := rfl
  rw [e] at hcoll ⊢
  intro hs
  have hold := run_r_inv H (fun r => r.old = [])
    (by intro r p h; rw [recv_old]; exact h) (fun r h => by simpa using h) ops
    (init bsS bsR size (some (H data)) data) rfl
  unfold Recv.disk
  rw [hold, List.drop_nil, List.append_nil]
  exact success_implies_identical_bytes H .unlimited bsS bsR size data ops hcoll hs

/-- **A write the device does not take completely ends the receiving job with `FileAccessError` at once**: for every
job in `TransferState`, every device and block — either the device took the whole block (content, counter and hash
advance by it, nothing else changes) or the job is now finished with `FileAccessError`, counter and hash unmoved. -/
theorem short_write_ends_with_access_error (r : Recv) (pl : List UInt8) (ht : r.state = .transfer) :
    ((r.write pl).acc = r.acc ++ pl ∧ (r.write pl).fed = r.fed ++ pl ∧ (r.write pl).state = .transfer) ∨
    ((r.write pl).state = .finished ∧ (r.write pl).error = .access ∧ (r.write pl).fed = r.fed ∧
      ∃ w, (w < pl.length ∨ w = 0) ∧ (r.write pl).acc = r.acc ++ pl.take w) := by
  rcases Recv.write_cases r pl with ⟨h1, h2, h3, _⟩ | ⟨w, hw, h1, h2, r0, e1, _, e3⟩
  · exact Or.inl ⟨h1, h2, by rw [h3, ht]⟩
  · right
    have hst : (r.write pl).state = .finished ∧ (r.write pl).error = .access := by
      rw [e3]; unfold Recv.terminate; simp [e1, ht]
    exact ⟨hst.1, hst.2, h2, w, hw, h1⟩

/-
Full statement (no bound on the number of blocks):

  ∀ H bsS bsR hash data ops, (∀ op ∈ ops, op.benign) →
    (run H (init bsS bsR data.length hash data) ops).1.r.success → (run H (init bsS bsR data.length hash data) ops).1.r.acc = data

Only the part for files of at most 65536 blocks is proved.  Without a hash, XEP-0047 itself cannot do better against a
channel that is able to hold back a copy of a block: the sequence number is 16 bits and wraps, so a block replayed
exactly 65536 blocks later carries the number the receiver expects and, having the same length, also passes the size
check.  The op alphabet of this model has no such long-delay replay (`dup` delivers both copies at once, `swap` only
exchanges neighbours), so for THIS alphabet the full statement is not refuted, merely unproved: the invariant used
("the receiver holds the first `expected` blocks") needs block indices below 65536 to read them off the wire number.
With a hash announced the unconditional theorem above applies.
-/

/-- **Success ⇒ the device holds identical bytes, by the sequence numbers and the size alone — partial: at most 65536
blocks** (`data.length ≤ 65536 * bsS`; missing part: longer files, see the comment above).  No hash needed, none
assumed.  For every such file, block sizes, announced hash (present, absent or wrong), every receiving device and every
history of a channel that loses, duplicates, reorders, mislabels, cuts short and lets third parties or other sessions
interfere — but does not alter payloads or forge requests in the sender's name (`Op.benign`) — with the true size
announced: if the receiving job reports success its device holds exactly the sender's bytes.  For a device that may
take less than offered the proof needs one block less (`hdev`: at most 65535 blocks unless the device takes
everything): with exactly 65536 blocks the wrapped counter would let a replayed block refill a device that is short.
Invariant: the device holds the first `expected` blocks, or strictly fewer bytes than those (after a short or failed
write), or — after a complete 65536-block file and a wrapped counter — more bytes than the file has. -/
theorem success_implies_identical_bytes_by_sequence_partial (H : List UInt8 → List UInt8) (dev : Dev) (bsS bsR : Nat)
    (hash : Option (List UInt8)) (data : List UInt8) (hlen : data.length ≤ 65536 * bsS)
    (hdev : dev = .unlimited ∨ data.length ≤ 65535 * bsS)
    (ops : List Op) (hb : ∀ op ∈ ops, op.benign) :
    (run H (initDev dev bsS bsR data.length hash data) ops).1.r.success →
    (run H (initDev dev bsS bsR data.length hash data) ops).1.r.acc = data := by
  intro hs
  have hc := run_checked H ops _ (checked_init H dev bsS bsR data.length hash data)
  have hsz : (run H (initDev dev bsS bsR data.length hash data) ops).1.r.size = data.length :=
    run_r_inv H (fun r => r.size = data.length)
      (by intro r p h; unfold recv; repeat (first | exact h | split | simpa using h)) (fun r h => by simpa using h) ops _ rfl
  have haf := run_r_inv H AF (recv_AF H) (fun r h => terminate_AF r _ h) ops
    (initDev dev bsS bsR data.length hash data) (Or.inl rfl)
  have hdv : (run H (initDev dev bsS bsR data.length hash data) ops).1.r.dev = dev :=
    run_r_inv H (fun r => r.dev = dev)
      (by intro r p h; unfold recv; repeat (first | exact h | split | simpa using h)) (fun r h => by simpa using h) ops _ rfl
  have hu' : (run H (initDev dev bsS bsR data.length hash data) ops).1.r.dev = .unlimited →
      (run H (initDev dev bsS bsR data.length hash data) ops).1.r.acc = (run H (initDev dev bsS bsR data.length hash data) ops).1.r.fed := by
    intro hun
    rw [hdv] at hun
    exact (run_r_inv H AFU (recv_AFU H) (fun r h => by simpa [AFU] using h) ops
      (initDev dev bsS bsR data.length hash data) ⟨hun, rfl⟩).2
  rcases hdev with hu | h65535
  · have hi := inv_run H data bsS 65536 (Nat.le_refl _) hlen ops _ hb
      (inv_init dev bsS bsR data.length 65536 hash data (fun _ => hu))
    exact rinv_success_identical H data bsS 65536 _ hsz hi.r haf hu' hc hs
  · have hi := inv_run H data bsS 65535 (by omega) h65535 ops _ hb
      (inv_init dev bsS bsR data.length 65535 hash data (by omega))
    exact rinv_success_identical H data bsS 65535 _ hsz hi.r haf hu' hc hs

/-! ## The fault-free run -/

/-- **The fault-free run succeeds — in full**, for every file content and size (no bound on the number of blocks: the
16-bit counters of both jobs wrap together) and every NEGOTIATED block size (hypothesis `0 < bsS ≤ bsR`: the receiver
accepts the sender's block size; otherwise see `refused_block_size_fails_on_both_sides`), with or without an
announced hash, into a receiving device that takes what it is given (`init`): after `data.length + 2` faithful deliveries (enough for `<open/>`, every block and `<close/>`) both
jobs report success, the receiver holds exactly the file and nothing is left in the channel.
(Before repo commit 49cbe2e this was false from 65537 blocks on; the witness — block size 1, 65537 bytes — is the
first entry of the harness corpus and must succeed on the real code.) -/
theorem honest_run_succeeds (H : List UInt8 → List UInt8) (bsS bsR : Nat) (data : List UInt8) (withHash : Bool)
    (hb : 0 < bsS) (hle : bsS ≤ bsR) :
    let st := (run H (init bsS bsR data.length (if withHash then some (H data) else none) data) (honest (data.length + 2))).1
    st.r.success ∧ st.s.success ∧ st.r.acc = data ∧ st.pending = none := by
  apply honest_run H bsS bsR data.length _ data hb hle
  refine ⟨fun _ => rfl, ?_⟩
  intro h hh
  cases withHash <;> simp at hh
  exact hh

/-- **A block size the receiver does not accept is not negotiated: the transfer fails on both sides.**  The hypothesis
`bsS ≤ bsR` of `honest_run_succeeds` is exactly "the block size was negotiated": when the sender's block size exceeds
the receiving manager's, `<open/>` is answered with `<resource-constraint/>`; the sending job does not retry with a
smaller size but sends `<close/>` and ends with `ProtocolError`, and the receiving job (still in `StartState`) ends
with `FileCorruptError` at that `<close/>` — for every non-empty file with its size announced. -/
theorem refused_block_size_fails_on_both_sides (H : List UInt8 → List UInt8) (bsS bsR : Nat) (hash : Option (List UInt8))
    (data : List UInt8) (hgt : bsR < bsS) (hd : data ≠ []) :
    let st := (run H (init bsS bsR data.length hash data) (honest 2)).1
    st.s.state = .finished ∧ st.s.error = .protocol ∧ st.r.state = .finished ∧ st.r.error = .corrupt ∧ st.pending = none := by
  have hcf : ∀ r : Recv, r.size = data.length → r.fedRev = [] → r.checkFails H = true := by
    intro r e1 e3
    simp [Recv.checkFails, Recv.fed, e1, e3, hd]
    left
    intro h0
    exact hd (List.eq_nil_of_length_eq_zero h0.symm)
  simp [honest, run, step, deliverStanza, init, initDev, toR, feed, recv, sender, hgt, Send.terminate, Recv.checkData, hcf,
    Recv.terminate]

/-! ## Faults -/

/-
Full statement: the theorem below without `hlen`.  Unproved beyond 65536 blocks: the proof shows that after the fault
no later block of the sender can carry the sequence number the receiver waits for, which reads block indices off
16-bit wire numbers and therefore needs indices below 65536 (a continuation that goes on losing 65535 further blocks
lets block `j + 65536` into slot `j`; the byte count is then short, so success still seems impossible, but that
counting argument is not formalised).
-/

/-- **A lost, reordered or mislabelled block, or a stream cut short, is never reported as success — partial: at most
65536 blocks** (missing part: longer files, see the comment above).
For every such file, every negotiated block size, every announced hash (or none), every data
block `j` (`j * bsS < data.length`): after `j + 1` faithful deliveries (the channel now holds block `j`) let ONE of
`drop` (block lost, sender told it arrived), `swap` (next request overtakes it), `earlyClose` (`<close/>` arrives
while data is outstanding), `wrongSid`, `wrongSender` happen, followed by ANY continuation of a channel that does not
alter or forge (in particular the honest one): the receiving job never reports success. -/
theorem fault_never_success_partial (H : List UInt8 → List UInt8) (bsS bsR : Nat) (hash : Option (List UInt8)) (data : List UInt8)
    (hb : 0 < bsS) (hle : bsS ≤ bsR) (hlen : data.length ≤ 65536 * bsS)
    (j : Nat) (hblk : j * bsS < data.length)
    (f : Op) (hf : f ∈ [Op.drop, .swap, .earlyClose, .wrongSid, .wrongSender]) (cont : List Op) (hc : ∀ op ∈ cont, op.benign) :
    ¬ (run H (init bsS bsR data.length hash data) (honest (j + 1) ++ f :: cont)).1.r.success := by
  rw [run_append, honest_prefix H bsS bsR data.length hash data hb hle j hblk]
  show ¬ (run H (step H (atBlock bsS bsR data.length hash data j) f).1 cont).1.r.success
  simp only [List.mem_cons, List.mem_nil_iff, or_false] at hf
  rcases hf with rfl | rfl | rfl | rfl | rfl
  · exact doomed_never_success H data bsS j hlen _ (drop_doomed H bsS bsR hash data j hlen hblk) cont hc
  · obtain ⟨e, he⟩ := swap_doomed H bsS bsR hash data j hb hlen hblk
    exact doomed_never_success H data bsS e hlen _ he cont hc
  · exact closed_never_success H _ (earlyClose_closed H bsS bsR hash data j hblk) cont hc
  · exact doomed_never_success H data bsS j hlen _ (wrongSid_doomed H bsS bsR hash data j hlen hblk) cont hc
  · exact doomed_never_success H data bsS j hlen _ (wrongSender_doomed H bsS bsR hash data j hlen hblk) cont hc

/-- **… but a corruption error, even before any timer: after a lost, reordered or mislabelled block, or a stream cut
short, the receiving job FINISHES with `FileCorruptError`** once the honest remainder of the exchange has been delivered (two more deliveries
are enough: the refused next request, then the sender's `<close/>`).  For every file (ANY number of blocks), negotiated
block size, announced hash or none, true size announced, every data block `j`, and every `n ≥ 2`.
Which error where: the RECEIVING job always ends with `FileCorruptError` (the byte count is short when `<close/>`
arrives) — it never uses `ProtocolError` on the in-band path; the SENDING job ends with `ProtocolError` when it got an
error response (`drop` / `swap` with a following block, `wrongSid`, `earlyClose`) and with `NoError` when the lost
block was the last one and it had already been told it arrived. -/
theorem fault_then_honest_reports_corruption (H : List UInt8 → List UInt8) (bsS bsR : Nat) (hash : Option (List UInt8))
    (data : List UInt8) (hb : 0 < bsS) (hle : bsS ≤ bsR) (j : Nat) (hblk : j * bsS < data.length)
    (f : Op) (hf : f ∈ [Op.drop, .swap, .earlyClose, .wrongSid]) (n : Nat) (hn : 2 ≤ n) :
    let st := (run H (init bsS bsR data.length hash data) (honest (j + 1) ++ f :: honest n)).1
    st.r.state = .finished ∧ st.r.error = .corrupt ∧ st.pending = none ∧ st.s.state = .finished := by
  intro st
  have e : st = (run H (step H (atBlock bsS bsR data.length hash data j) f).1 (honest n)).1 := by
    show (run H _ (honest (j + 1) ++ f :: honest n)).1 = _
    rw [run_append, honest_prefix H bsS bsR data.length hash data hb hle j hblk]
    rfl
  simp only [List.mem_cons, List.mem_nil_iff, or_false] at hf
  have key : Reported (run H (step H (atBlock bsS bsR data.length hash data j) f).1 (honest 2)).1 := by
    rcases hf with rfl | rfl | rfl | rfl
    · exact drop_reports H bsS bsR hash data j hb hblk
    · exact swap_reports H bsS bsR hash data j hb hblk
    · exact earlyClose_reports H bsS bsR hash data j hblk
    · exact wrongSid_reports H bsS bsR hash data j hblk
  rw [e, run_honest_settled H _ 2 key.2.2.1 n hn]
  exact key

/-- **Every single fault on a data block, the honest remainder and enough time end in an error — never success,
never pending** (FULL: every file of any size, every negotiated block size, announced hash or none, true size
announced, every data block `j`).  Let ONE of `drop`, `swap`, `earlyClose`, `wrongSid`, `wrongSender`, `lose` hit
block `j`, deliver what the honest exchange still produces (`n ≥ 2` deliveries) and let the inactivity interval elapse
(`timeout`): both jobs are finished, nothing is left in the channel, and the receiving job's error is
`FileCorruptError` (drop, swap, earlyClose, wrongSid: the byte count is short when the sender's `<close/>` arrives) or
`ProtocolError` (wrongSender, lose: nobody ever answers, the timer of repo commit 72eab57 ends both jobs). -/
theorem single_fault_ends_in_error (H : List UInt8 → List UInt8) (bsS bsR : Nat) (hash : Option (List UInt8))
    (data : List UInt8) (hb : 0 < bsS) (hle : bsS ≤ bsR) (j : Nat) (hblk : j * bsS < data.length)
    (f : Op) (hf : f ∈ [Op.drop, .swap, .earlyClose, .wrongSid, .wrongSender, .lose]) (n : Nat) (hn : 2 ≤ n) :
    let st := (run H (init bsS bsR data.length hash data) (honest (j + 1) ++ f :: (honest n ++ [.timeout]))).1
    st.r.state = .finished ∧ (st.r.error = .corrupt ∨ st.r.error = .protocol) ∧ st.s.state = .finished ∧
      st.pending = none := by
  intro st
  have e : st = (step H (run H (step H (atBlock bsS bsR data.length hash data j) f).1 (honest n)).1 .timeout).1 := by
    show (run H _ (honest (j + 1) ++ f :: (honest n ++ [.timeout]))).1 = _
    rw [run_append, honest_prefix H bsS bsR data.length hash data hb hle j hblk]
    show (run H (step H _ f).1 (honest n ++ [.timeout])).1 = _
    rw [run_append]
    rfl
  rw [e]
  simp only [List.mem_cons, List.mem_nil_iff, or_false] at hf
  have fin : ∀ f', Reported (run H (step H (atBlock bsS bsR data.length hash data j) f').1 (honest 2)).1 →
      let st' := (step H (run H (step H (atBlock bsS bsR data.length hash data j) f').1 (honest n)).1 .timeout).1
      st'.r.state = .finished ∧ (st'.r.error = .corrupt ∨ st'.r.error = .protocol) ∧ st'.s.state = .finished ∧
        st'.pending = none := by
    intro f' key
    rw [run_honest_settled H _ 2 key.2.2.1 n hn]
    have := timeout_of_reported H _ key
    exact ⟨this.1, Or.inl this.2.1, this.2.2.2, this.2.2.1⟩
  have idle : ∀ f', ((step H (atBlock bsS bsR data.length hash data j) f').1.pending = none ∧
      (step H (atBlock bsS bsR data.length hash data j) f').1.r.state = .transfer ∧
      (step H (atBlock bsS bsR data.length hash data j) f').1.s.state = .transfer) →
      let st' := (step H (run H (step H (atBlock bsS bsR data.length hash data j) f').1 (honest n)).1 .timeout).1
      st'.r.state = .finished ∧ (st'.r.error = .corrupt ∨ st'.r.error = .protocol) ∧ st'.s.state = .finished ∧
        st'.pending = none := by
    intro f' hi
    rw [run_honest_idle H _ hi.1 n]
    have := timeout_of_waiting H _ hi.2.1 hi.2.2 hi.1
    exact ⟨this.1, Or.inr this.2.1, this.2.2.1, this.2.2.2.2⟩
  rcases hf with rfl | rfl | rfl | rfl | rfl | rfl
  · exact fin _ (drop_reports H bsS bsR hash data j hb hblk)
  · exact fin _ (swap_reports H bsS bsR hash data j hb hblk)
  · exact fin _ (earlyClose_reports H bsS bsR hash data j hblk)
  · exact fin _ (wrongSid_reports H bsS bsR hash data j hblk)
  · exact idle _ (wrongSender_idle H bsS bsR hash data j)
  · exact idle _ (lose_idle H bsS bsR hash data j)

/-- **Until the interval elapses, a silently lost block leaves both jobs waiting; a `<close/>` ends the wait earlier.**
For every file, block size and data block `j`: if block `j` is lost without any answer (`lose`), or delivered under
another sender JID so that the answer goes elsewhere (`wrongSender`), then after ANY number of further honest
deliveries (no `timeout`) both jobs are still in `TransferState` with nothing in the channel; and as soon as the stream
is closed (`<close/>` arrives) the receiving job finishes with `FileCorruptError`.  (Before repo commit 72eab57 the wait
never ended: former finding `C19:lost-stanza-hangs-forever`.) -/
theorem lost_block_waits_for_close_or_timeout (H : List UInt8 → List UInt8) (bsS bsR : Nat) (hash : Option (List UInt8))
    (data : List UInt8) (hb : 0 < bsS) (hle : bsS ≤ bsR) (j : Nat) (hblk : j * bsS < data.length) :
    (∀ f ∈ [Op.lose, .wrongSender], ∀ n,
      let st := (run H (init bsS bsR data.length hash data) (honest (j + 1) ++ f :: honest n)).1
      st.r.state = .transfer ∧ st.s.state = .transfer ∧ st.pending = none) ∧
    (let st := (run H (init bsS bsR data.length hash data) (honest (j + 1) ++ [.lose, .earlyClose])).1
     st.r.state = .finished ∧ st.r.error = .corrupt ∧ st.pending = none) := by
  constructor
  · intro f hf n st
    have e : st = (run H (step H (atBlock bsS bsR data.length hash data j) f).1 (honest n)).1 := by
      show (run H _ (honest (j + 1) ++ f :: honest n)).1 = _
      rw [run_append, honest_prefix H bsS bsR data.length hash data hb hle j hblk]
      rfl
    simp only [List.mem_cons, List.mem_nil_iff, or_false] at hf
    rcases hf with rfl | rfl
    · have hi := lose_idle H bsS bsR hash data j
      rw [e, run_honest_idle H _ hi.1 n]; exact ⟨hi.2.1, hi.2.2, hi.1⟩
    · have hi := wrongSender_idle H bsS bsR hash data j
      rw [e, run_honest_idle H _ hi.1 n]; exact ⟨hi.2.1, hi.2.2, hi.1⟩
  · intro st
    have e : st = (step H (step H (atBlock bsS bsR data.length hash data j) .lose).1 .earlyClose).1 := by
      show (run H _ (honest (j + 1) ++ [.lose, .earlyClose])).1 = _
      rw [run_append, honest_prefix H bsS bsR data.length hash data hb hle j hblk]
      rfl
    rw [e]
    exact lose_close_reports H bsS bsR hash data j hblk

/-- **An altered block is never reported as success — when the offer carried the hash.**
For every file (any number of blocks), block sizes, data block `j`, bit position, and ANY continuation whatsoever
(even forging): if one bit of block `j` is flipped in transit, the receiving job does not report success, provided
MD5 does not collide between what the receiver's hash was fed (= what its device holds: the device of `init` takes
everything) and the file (`hcoll`). -/
theorem altered_block_never_success (H : List UInt8 → List UInt8) (bsS bsR size : Nat) (data : List UInt8)
    (hb : 0 < bsS) (hle : bsS ≤ bsR)
    (j : Nat) (hblk : j * bsS < data.length) (bit : Nat) (cont : List Op)
    (hcoll : H (run H (init bsS bsR size (some (H data)) data) (honest (j + 1) ++ .flip bit :: cont)).1.r.fed = H data →
             (run H (init bsS bsR size (some (H data)) data) (honest (j + 1) ++ .flip bit :: cont)).1.r.fed = data) :
    ¬ (run H (init bsS bsR size (some (H data)) data) (honest (j + 1) ++ .flip bit :: cont)).1.r.success := by
  intro hs
  have hid := success_implies_identical_bytes H .unlimited bsS bsR size data _ hcoll hs
  change (run H (init bsS bsR size (some (H data)) data) (honest (j + 1) ++ .flip bit :: cont)).1.r.acc = data at hid
  rw [run_append, honest_prefix H bsS bsR size (some (H data)) data hb hle j hblk] at hid
  have hpre : ∃ t, (run H (step H (atBlock bsS bsR size (some (H data)) data j) (.flip bit)).1 cont).1.r.acc =
      (data.take (j * bsS) ++ flipBit ((data.drop (j * bsS)).take bsS) bit) ++ t :=
    run_acc_prefix H _ cont _ ⟨[], by rw [flip_acc H bsS bsR size _ data j bit]; simp⟩
  obtain ⟨t, ht⟩ := hpre
  have hid' : (run H (step H (atBlock bsS bsR size (some (H data)) data j) (.flip bit)).1 cont).1.r.acc = data := hid
  rw [ht] at hid'
  exact altered_prefix_ne data (j * bsS) bsS _ t (by simp)
    (flipBit_ne _ bit (take_drop_ne_nil data (j * bsS) bsS hblk hb)) hid'

/-- **… but a corruption error (altered block, hash announced).**  After the altered block the exchange runs to its end
(`data.length + 2` further deliveries are always enough) and the receiving job FINISHES with `FileCorruptError`; for
every file of any length, block sizes, block `j`, bit, under the same collision hypothesis. -/
theorem altered_block_reports_corruption (H : List UInt8 → List UInt8) (bsS bsR size : Nat) (data : List UInt8)
    (hb : 0 < bsS) (hle : bsS ≤ bsR)
    (j : Nat) (hblk : j * bsS < data.length) (bit : Nat) (n : Nat) (hn : data.length + 2 ≤ n)
    (hcoll : H (run H (init bsS bsR size (some (H data)) data) (honest (j + 1) ++ .flip bit :: honest n)).1.r.fed = H data →
             (run H (init bsS bsR size (some (H data)) data) (honest (j + 1) ++ .flip bit :: honest n)).1.r.fed = data) :
    let st := (run H (init bsS bsR size (some (H data)) data) (honest (j + 1) ++ .flip bit :: honest n)).1
    st.r.state = .finished ∧ st.r.error = .corrupt := by
  intro st
  have hns := altered_block_never_success H bsS bsR size data hb hle j hblk bit (honest n) hcoll
  have hok : REok st.r := run_r_inv_nt H REok (recv_REok H) _
    (by
      intro op hop
      simp only [honest, List.mem_append, List.mem_cons, List.mem_replicate] at hop
      rcases hop with ⟨_, rfl⟩ | rfl | ⟨_, rfl⟩ <;> simp)
    _ ⟨rfl, Or.inl rfl⟩
  have e : st = (run H (step H (atBlock bsS bsR size (some (H data)) data j) (.flip bit)).1 (honest n)).1 := by
    show (run H _ (honest (j + 1) ++ .flip bit :: honest n)).1 = _
    rw [run_append, honest_prefix H bsS bsR size (some (H data)) data hb hle j hblk]
    rfl
  have hfs := flip_sync H bsS bsR (some (H data)) data j size hb bit
  have hfin : st.r.state = .finished := by
    rw [e]
    rcases hfs.1 with hs | hc
    · exact (sync_finishes H data.length _ (by rw [hfs.2.1]; exact hb) hs hfs.2.2 n hn).1
    · exact (closing_finishes H _ hc n (by omega)).1
  refine ⟨hfin, ?_⟩
  rcases hok.2 with hnone | hc
  · exact absurd ⟨hfin, hnone⟩ hns
  · exact hc

/-- **Defect / protocol limit (no hash announced; recorded finding `C19:nohash-altered-accepted`).** Without an announced hash the same statement is FALSE: a file
of one byte `00`, block size 1, bit 0 of the only block flipped — the receiver reports success holding `01`.
(`checkData` compares the hash only "if the offer carried one"; XEP-0096 makes it optional.) -/
theorem C19_defect_nohash_altered_accepted :
    ¬ ∀ (H : List UInt8 → List UInt8) (bsS bsR : Nat) (data : List UInt8) (j bit : Nat) (cont : List Op),
      0 < bsS → bsS ≤ bsR → j * bsS < data.length →
      ¬ (run H (init bsS bsR data.length none data) (honest (j + 1) ++ .flip bit :: cont)).1.r.success := by
  intro h
  exact h (fun _ => []) 1 1 [0] 0 0 [.deliver] (by decide) (by decide) (by decide) (by decide)

/-- **Defect / protocol limit (neither size nor hash announced; recorded finding
`C19:nosize-nohash-truncated-accepted`).**  `fault_then_honest_reports_corruption` needs the size in the offer: when the
offer carries neither size nor hash (a source of unknown length — the sending side omits `size` when it is 0 and has no
hash for sequential devices), a stream cut short is reported as SUCCESS with a truncated file.  Witness: two bytes,
block size 1, `<close/>` arriving after the first block. -/
theorem C19_defect_nosize_nohash_truncated_accepted :
    ¬ ∀ (H : List UInt8 → List UInt8) (bsS bsR : Nat) (data : List UInt8) (j : Nat),
      0 < bsS → bsS ≤ bsR → j * bsS < data.length →
      ¬ (run H (init bsS bsR 0 none data) (honest (j + 1) ++ [.earlyClose])).1.r.success := by
  intro h
  exact h (fun _ => []) 1 1 [0, 1] 1 (by decide) (by decide) (by decide) (by decide)

/-- **A duplicated block is refused and harmless.**  For every file, block sizes and data block `j`: delivering
block `j` twice leaves both jobs and the channel in exactly the state of delivering it once; the second copy is
answered with `<unexpected-request/>` and not written (the receiver holds blocks `0 … j`, once each).  Together with
`honest_run_succeeds` / `success_implies_identical_bytes_by_sequence_partial`: the transfer then completes with
identical bytes — the duplicate is reported as a protocol error to the peer, the job itself is not failed. -/
theorem duplicate_is_refused_and_harmless (H : List UInt8 → List UInt8) (bsS bsR size : Nat) (hash : Option (List UInt8))
    (data : List UInt8) (hb : 0 < bsS) (hle : bsS ≤ bsR) (j : Nat) (hblk : j * bsS < data.length) :
    let st := (run H (init bsS bsR size hash data) (honest (j + 1))).1
    (step H st .dup).1 = (step H st .deliver).1 ∧
    (step H st .dup).2.map (·.err) = [none, some .unexpectedRequest] ∧
    (step H st .dup).1.r.acc = data.take ((j + 1) * bsS) := by
  intro st
  have : st = atBlock bsS bsR size hash data j := honest_prefix H bsS bsR size hash data hb hle j hblk
  rw [this]
  obtain ⟨h1, h2, h3⟩ := dup_eq_deliver H bsS bsR size hash data j
  exact ⟨h1, by rw [h2]; rfl, h3⟩

/-! ## The sending job -/

/-- **The sending job reports success only after it has read its device to the end**, whatever the channel, the peer and
third parties do (every op list, including forged, stale, duplicated and foreign responses and a `<close/>` from the
peer). -/
theorem sender_success_implies_all_read (H : List UInt8 → List UInt8) (dev : Dev) (bsS bsR size : Nat)
    (hash : Option (List UInt8)) (data : List UInt8) (hb : 0 < bsS) (ops : List Op) :
    (run H (initDev dev bsS bsR size hash data) ops).1.s.success →
    (run H (initDev dev bsS bsR size hash data) ops).1.s.rest = [] := by
  intro hs
  have hd := run_s_inv H (SDone bsS) (sender_SDone bsS) (terminate_SDone bsS) ops (initDev dev bsS bsR size hash data)
    ⟨rfl, by intro hf; simp [initDev] at hf⟩
  have := hd.2 hs.1 hs.2
  rcases List.take_eq_nil_iff.mp this with h0 | h0
  · omega
  · exact h0

/-- **An error response of the peer to the request in flight ends the sending job with `ProtocolError`** (and a
`<close/>` goes out); **responses from somebody else, or to an older request, are ignored.** -/
theorem sender_reacts_to_peer_only (s : Send) (hs : s.state ≠ .finished) (c : Cond) (rep : Reply) :
    ((sender s { id := s.requestId, to := 0, err := some c }).1.state = .finished ∧
     (sender s { id := s.requestId, to := 0, err := some c }).1.error = .protocol ∧
     ((sender s { id := s.requestId, to := 0, err := some c }).2.map (·.kind)) = some .close) ∧
    ((rep.origin ≠ 0 ∨ rep.id ≠ s.requestId) → sender s rep = (s, none)) := by
  constructor
  · simp [sender, hs, Send.terminate]
  · intro h
    unfold sender
    rcases h with h | h
    · simp [h]
    · by_cases h0 : rep.to ≠ 0 ∨ rep.origin ≠ 0
      · simp [h0]
      · simp [h0, h]

/-- **SOCKS5 sending job: success ⇒ the peer was really connected (directly or through the activated proxy) and every
byte of the file was handed to the socket.** -/
theorem socks_sender_success_implies_all_written (h : SHost) (size written : Nat) :
    ssendOutcome h size written = .none → written = size ∧ (h = .ownConnected ∨ h = .proxyActivated) := by
  cases h <;> simp [ssendOutcome]

/-! ## SOCKS5 byte stream (no sequence numbers; stream-host / proxy negotiation outside the model) -/

/-- **SOCKS5: success ⇒ the device holds identical bytes** for every sequence of socket events (chunks of any content,
disconnects), EVERY receiving device (takes everything, short writes, runs full, fails) and every announced size, when
the offer carried the hash and MD5 does not collide on what the hash was fed and the file.  (A device that refuses
data ends the job with `FileAccessError`, and on the byte-stream path nothing can revive a finished job.) -/
theorem socks_success_implies_identical_bytes (H : List UInt8 → List UInt8) (dev : Dev) (size : Nat) (data : List UInt8)
    (ops : List SOp)
    (hcoll : H (srun H (sinitDev dev size (some (H data))) ops).fed = H data →
             (srun H (sinitDev dev size (some (H data))) ops).fed = data) :
    (srun H (sinitDev dev size (some (H data))) ops).success → (srun H (sinitDev dev size (some (H data))) ops).acc = data := by
  intro hs
  have hc := srun_checked H ops (sinitDev dev size (some (H data))) (by intro h; simp [sinitDev] at h)
  have hck := (checkFails_false_iff H _).1 (hc hs.1 hs.2)
  have hfed := hcoll (hck.2 _ (by simp [sinitDev]))
  rcases srun_AS H ops (sinitDev dev size (some (H data))) (Or.inl rfl) with h | ⟨_, he⟩
  · rw [h]; exact hfed
  · rw [hs.2] at he; cases he

/-- **SOCKS5: a stream cut short is never reported as success** — for every announced size, hash or none, and every
event sequence that carries fewer bytes than announced, and every receiving device. -/
theorem socks_short_stream_never_success (H : List UInt8 → List UInt8) (dev : Dev) (size : Nat) (hash : Option (List UInt8))
    (ops : List SOp) (hshort : sbytes ops < size) : ¬ (srun H (sinitDev dev size hash) ops).success :=
  srun_short H ops (sinitDev dev size hash) (by simp [sinitDev, Recv.success]) (by simpa [sinitDev, Recv.fed] using hshort)

/-- **SOCKS5: the faithful stream succeeds** however the bytes are split into reads, with or without a hash, into a device
that takes what it is given. -/
theorem socks_honest_run_succeeds (H : List UInt8 → List UInt8) (data : List UInt8) (withHash : Bool)
    (chunks : List (List UInt8)) (hsplit : chunks.flatten = data) :
    let r := srun H (sinit data.length (if withHash then some (H data) else none)) (chunks.map .chunk ++ [.disconnect])
    r.success ∧ r.acc = data := by
  apply srun_honest H data chunks _ rfl
  · intro h hh
    cases withHash <;> simp [sinit, sinitDev] at hh
    exact hh
  · exact ⟨rfl, rfl⟩
  · left; exact ⟨rfl, by simpa [sinit, sinitDev, Recv.acc] using hsplit⟩

/-! ## Non-vacuity: the hypotheses are met by concrete runs (hash = identity, so `hcoll` is trivially true) -/

-- honest run of 5 bytes in blocks of 2: success on both sides, identical bytes
example : (run id (init 2 4096 5 (some [1, 2, 3, 4, 5]) [1, 2, 3, 4, 5]) (honest 5)).1.r.success
    ∧ (run id (init 2 4096 5 (some [1, 2, 3, 4, 5]) [1, 2, 3, 4, 5]) (honest 5)).1.s.success
    ∧ (run id (init 2 4096 5 (some [1, 2, 3, 4, 5]) [1, 2, 3, 4, 5]) (honest 5)).1.r.acc = [1, 2, 3, 4, 5] := by decide
-- block 1 dropped, honest afterwards: sender ProtocolError, receiver FileCorruptError with the first block only
example : (run id (init 2 4096 5 none [1, 2, 3, 4, 5]) (honest 2 ++ .drop :: honest 3)).1.r.error = .corrupt
    ∧ (run id (init 2 4096 5 none [1, 2, 3, 4, 5]) (honest 2 ++ .drop :: honest 3)).1.s.error = .protocol
    ∧ (run id (init 2 4096 5 none [1, 2, 3, 4, 5]) (honest 2 ++ .drop :: honest 3)).1.r.acc = [1, 2] := by decide
-- block 1 lost and nobody answers: both jobs are still waiting after any number of further deliveries …
example : (run id (init 2 4096 5 none [1, 2, 3, 4, 5]) (honest 2 ++ .lose :: honest 7)).1.r.state = .transfer
    ∧ (run id (init 2 4096 5 none [1, 2, 3, 4, 5]) (honest 2 ++ .lose :: honest 7)).1.s.state = .transfer := by decide
-- … until the inactivity interval elapses: both end with ProtocolError
example : (run id (init 2 4096 5 none [1, 2, 3, 4, 5]) (honest 2 ++ .lose :: (honest 7 ++ [.timeout]))).1.r.error = .protocol
    ∧ (run id (init 2 4096 5 none [1, 2, 3, 4, 5]) (honest 2 ++ .lose :: (honest 7 ++ [.timeout]))).1.s.error = .protocol := by decide
-- … the peer's error response ends the sending job with ProtocolError, a stale or foreign response does nothing
example : (run id (init 2 4096 5 none [1, 2, 3, 4, 5]) [.deliver, .injectReply 0 0 (some .itemNotFound)]).1.s.error = .protocol := by decide
example : (run id (init 2 4096 5 none [1, 2, 3, 4, 5]) [.deliver, .injectReply 2 0 none, .injectReply 0 1 none]).1
    = (run id (init 2 4096 5 none [1, 2, 3, 4, 5]) [.deliver]).1 := by decide
-- block 1 altered with the hash announced: FileCorruptError
example : (run id (init 2 4096 5 (some [1, 2, 3, 4, 5]) [1, 2, 3, 4, 5]) (honest 2 ++ .flip 0 :: honest 3)).1.r.error = .corrupt
    ∧ (run id (init 2 4096 5 (some [1, 2, 3, 4, 5]) [1, 2, 3, 4, 5]) (honest 2 ++ .flip 0 :: honest 3)).1.r.acc = [1, 2, 2, 4, 5] := by decide
-- … and without the hash: success with different bytes (the defect above)
example : (run id (init 2 4096 5 none [1, 2, 3, 4, 5]) (honest 2 ++ .flip 0 :: honest 3)).1.r.success
    ∧ (run id (init 2 4096 5 none [1, 2, 3, 4, 5]) (honest 2 ++ .flip 0 :: honest 3)).1.r.acc = [1, 2, 2, 4, 5] := by decide
-- a benign but busy channel (duplicate, third-party injection with the right sequence number) still ends in success
example : (run id (init 2 4096 5 none [1, 2, 3, 4, 5])
      [.deliver, .dup, .inject 1 0 (.data 1 [9, 9]), .inject 0 1 .close, .deliver, .deliver, .deliver]).1.r.success := by decide
example : ∀ op ∈ [Op.deliver, .dup, .inject 1 0 (.data 1 [9, 9]), .inject 0 1 .close, .deliver], op.benign := by
  simp [Op.benign]
-- a device that takes one byte per write() / runs full / fails: the job ends with FileAccessError at the first block the
-- device does not take completely; what the device did take stays in it, counter and hash do not move
example : (run id (initDev (.perWrite 1) 2 4096 5 (some [1, 2, 3, 4, 5]) [1, 2, 3, 4, 5]) (honest 5)).1.r.error = .access
    ∧ (run id (initDev (.perWrite 1) 2 4096 5 (some [1, 2, 3, 4, 5]) [1, 2, 3, 4, 5]) (honest 5)).1.r.acc = [1]
    ∧ (run id (initDev (.perWrite 1) 2 4096 5 (some [1, 2, 3, 4, 5]) [1, 2, 3, 4, 5]) (honest 5)).1.r.fed = [] := by decide
example : (run id (initDev (.fullAfter 3) 2 4096 5 none [1, 2, 3, 4, 5]) (honest 5)).1.r.error = .access
    ∧ (run id (initDev (.fullAfter 3) 2 4096 5 none [1, 2, 3, 4, 5]) (honest 5)).1.r.acc = [1, 2, 3] := by decide
example : (run id (initDev (.failAt 3) 2 4096 5 none [1, 2, 3, 4, 5]) (honest 5)).1.r.error = .access
    ∧ (run id (initDev (.failAt 3) 2 4096 5 none [1, 2, 3, 4, 5]) (honest 5)).1.r.acc = [1, 2] := by decide
-- accept(filePath) over a longer old file: with the code's truncating open the file is the sent bytes; a non-truncating open
-- (OpenMode.keep) would report success with the stale tail still on disk
example : (run id (initPath acceptOpenMode [9, 9, 9, 9] 2 4096 2 (some [1, 2]) [1, 2]) (honest 3)).1.r.success
    ∧ (run id (initPath acceptOpenMode [9, 9, 9, 9] 2 4096 2 (some [1, 2]) [1, 2]) (honest 3)).1.r.disk = [1, 2] := by decide
example : (run id (initPath .keep [9, 9, 9, 9] 2 4096 2 (some [1, 2]) [1, 2]) (honest 3)).1.r.success
    ∧ (run id (initPath .keep [9, 9, 9, 9] 2 4096 2 (some [1, 2]) [1, 2]) (honest 3)).1.r.disk = [1, 2, 9, 9] := by decide
-- SOCKS5: faithful stream in two reads succeeds, a truncated one is corrupt
example : (srun id (sinit 3 (some [7, 8, 9])) [.chunk [7], .chunk [8, 9], .disconnect]).success := by decide
example : (srun id (sinit 3 (some [7, 8, 9])) [.chunk [7, 8], .disconnect]).error = .corrupt := by decide

end Qx.C19
