import Qx.Proofs.C03
import Qx.Proofs.C03Regex
import Qx.Proofs.C03Parser
/-!
# C03 — stream framing is independent of how the byte stream is split into reads

Property theorems only.  Model: `Qx/Model/C03Framing.lean` (`feedText` = `XmppSocket::processData`,
`feedBytesCode` = the `readyRead` lambda in front of it; the DOM parser is a parameter `P`).
Helpers: `Qx/Proofs/C03.lean`.  UTF-8 functions: `Qx/Base/Utf8.lean`.

A stream is a list of `Item`s (header, stanzas, single whitespace characters, closing tag); `textOf items` is its
text, `evsOf items` the stream-open / stanza / stream-close events it stands for.  `PrefixOracle P items`
(defined at the end of the model file) is the one hypothesis about the parser: a buffer that ends on an item
boundary parses to exactly the items it contains, a buffer that ends inside an item is rejected.  It is a
hypothesis, not an axiom; the harness measures it on the real `QDomDocument` at every cut of every corpus
stream, and the driver checks it for the Lean parser with `checkOracle` (proved sound below).

## What is a theorem here and what is not

* THE THEOREM is ARRIVAL INDEPENDENCE: how the text / the bytes are cut into reads does not change the events.
* WHAT IS RECOGNISED in a buffer is not specified independently: it is DEFINED by the model of the code, `feedText` =
  two regular expressions (`matchOpen`, `endsWithClose`) + ONE whole-document DOM parse of the wrapped buffer
  (`attempt`).  This is not an incremental tokenizer: a buffer either yields the nodes of the whole wrapped document
  or nothing and stays buffered.  `feedText` is tied to `XmppSocket::processData` by the correspondence run only.
* Every framing theorem is proved under the side condition `PrefixOracle P items`, which the CODE DOES NOT ENFORCE:
  it is a property of the stream text and of the parser.  They are therefore named `…_partial`:
  `framing_split_independent_partial`, `framing_delivers_exactly_partial`,
  `framing_bytes_split_independent_stateful_partial`, `framing_bytes_split_independent_partial`
  `reconnect_framing_split_independent_partial`, `framing_restart_split_independent_partial`
  (also partial for other reasons: `utf8_perchunk_eq_iff_boundaries_partial`, `leanParser_complete_at_boundary_partial`).
  Missing: valid streams that do NOT satisfy `PrefixOracle` — white space in front of the header (white space after
  the closing tag IS covered since repo commit 109544b, see `afterCloseText` below; before, the property was false
  there: finding `C03:bytes-after-stream-close`); and `PrefixOracle` for `QDomDocument` is measured on the corpus, not
  proved.  Unconditional: `utf8_stateful_chunk_indep`, the `matchOpen…` theorems,
  `connection_events_depend_only_on_own_bytes`.

Keep-alive notifications (`stanzaReceived` with a null element, emitted when the buffer holds only white
space) legitimately depend on the split — "  " in one read is one notification, in two reads two — and are not
stream-open / stanza / stream-close events: `events` removes them on both sides of every equation.

All theorems quantify over every parser, every stream and every chunk list of any length.

## History

Until repo commit 49994ec every read was decoded on its own (`feedBytesPerChunk`); this file then proved the
negation of the byte-level property (`C03_defect_split_in_multibyte`: `<m>ñ</m>` cut between C3 and B1 arrived as
two U+FFFD; `C03_defect_zwnbsp_at_read_start`: a read starting with U+FEFF lost it).  The code now keeps a decoder
for the lifetime of the stream (`feedBytesCode = feedBytesStateful`), the old witnesses are kept below as
examples of the CORRECT behaviour (and first in the harness corpus), and the full property is
`framing_bytes_split_independent_partial`.
-/
namespace Qx.C03
open Qx.Utf8

variable {E : Type}

/-- **Text level: split independence.**  For every stream that satisfies the parser hypothesis and EVERY way to
cut its text into reads (any number of reads, cuts anywhere: inside a tag, an attribute value, an entity, the
header; empty reads allowed), the sequence of stream-open, stanza and stream-close events, with their contents,
is the same as when the whole text arrives in one read. -/
theorem framing_split_independent_partial (P : Parser E) (items : List (Item E)) (hP : PrefixOracle P items)
    (chunks : List (List Char)) (h : chunks.flatten = textOf items) :
    events (run P init chunks).2 = events (run P init [textOf items]).2 := by
  rw [run_good hP chunks init _ (by rw [h]; exact good_init items),
      run_good hP [textOf items] init _ (by simpa using good_init items)]

/-- **Nothing lost, duplicated, reordered or altered.**  Under the same hypotheses the delivered events are
exactly the events of the stream's items, in order, once each. -/
theorem framing_delivers_exactly_partial (P : Parser E) (items : List (Item E)) (hP : PrefixOracle P items)
    (chunks : List (List Char)) (h : chunks.flatten = textOf items) :
    events (run P init chunks).2 = events (evsOf items) :=
  run_good hP chunks init _ (by rw [h]; exact good_init items)

/-- **A decoder that carries its state across reads is chunk independent** — for ALL byte lists, well-formed or
not: feeding the chunks one by one and flushing gives exactly the one-shot lossy decoding of the concatenation. -/
theorem utf8_stateful_chunk_indep (chunks : List Bytes) :
    Dec.decodeChunks chunks = decodeLossy chunks.flatten :=
  U8.stateful_chunk_indep chunks

/-- **Per-read decoding (the code before 49994ec) agrees with one-shot decoding when every chunk boundary is a character
boundary**: if every chunk is well-formed UTF-8 on its own (= holds whole characters only), contains no NUL
byte and does not start with a BOM (`U8.Clean`; the last two are quirks of `QString::fromUtf8(QByteArray)`
which cuts at NUL and drops a BOM at offset 0 of every call), then decoding chunk by chunk equals decoding the
concatenation.

Partial: this is the `←` direction of the full statement
`decodePerChunk chunks = qtFromUtf8 chunks.flatten ↔ every chunk boundary is a character boundary` (for
well-formed, NUL- and BOM-free input).  The `→` direction is not proved in general; what is proved is that it
cannot be dropped: `utf8_perchunk_ne_when_cut_inside_char` below. -/
theorem utf8_perchunk_eq_iff_boundaries_partial (chunks : List Bytes) (h : ∀ c ∈ chunks, U8.Clean c) :
    decodePerChunk chunks = qtFromUtf8 chunks.flatten :=
  U8.perchunk_eq_of_clean chunks h

/-- the boundary hypothesis is necessary: `ñ` = C3 B1 cut between its two bytes decodes to two U+FFFD -/
theorem utf8_perchunk_ne_when_cut_inside_char :
    isValid ([[0xC3], [0xB1]] : List Bytes).flatten = true ∧
    decodePerChunk [[0xC3], [0xB1]] = [0xFFFD, 0xFFFD] ∧
    qtFromUtf8 ([[0xC3], [0xB1]] : List Bytes).flatten = [0xF1] := by
  decide

/-- **Byte level, decoder state kept across reads (`feedBytesStateful`).**  For every stream whose bytes are
well-formed UTF-8 for `textOf items` (optionally preceded by a byte order mark, which is not content) and EVERY
split of the bytes into reads — including inside a multi-byte character, inside the BOM, empty reads — the events
equal those of the one-read run and are exactly the stream's events. -/
theorem framing_bytes_split_independent_stateful_partial (P : Parser E) (items : List (Item E))
    (hP : PrefixOracle P items) (chunks : List Bytes) (cps : List Nat)
    (hvalid : decode? chunks.flatten = some cps) (htext : toChars (dropBom1 cps) = textOf items) :
    events (runBytes (feedBytesStateful P) chunks) = events (runBytes (feedBytesStateful P) [chunks.flatten])
    ∧ events (runBytes (feedBytesStateful P) chunks) = events (evsOf items) := by
  unfold runBytes
  rw [runWith_stateful P chunks binit, runWith_stateful P [chunks.flatten] binit]
  show events (run P init (decTexts false {} chunks)).2 = events (run P init (decTexts false {} [chunks.flatten])).2
    ∧ events (run P init (decTexts false {} chunks)).2 = events (evsOf items)
  have h1 := run_good hP (decTexts false {} chunks) init _ (by
    have := decTexts_flatten_valid chunks cps hvalid
    simp only [Dec.init] at this
    rw [this, htext]; exact good_init items)
  have h2 := run_good hP (decTexts false {} [chunks.flatten]) init _ (by
    have := decTexts_flatten_valid [chunks.flatten] cps (by simpa using hvalid)
    simp only [Dec.init] at this
    rw [this, htext]; exact good_init items)
  exact ⟨by rw [h1]; exact h2.symm, h1⟩

/-- **The property, byte level, about the code as it is (`feedBytesCode`).**  For any valid stream — bytes that are
well-formed UTF-8 for the text of items satisfying the parser hypothesis — and ANY way the transport splits the
bytes into reads (inside a tag, an attribute value, an entity, a multi-byte character), the receiver delivers
exactly the same stream-open, stanza and stream-close events, with identical content, as when everything arrives
in one read; and these are exactly the events of the stream: nothing lost, duplicated, reordered or altered.

Caveat (stated, not hidden): the decoder is modelled by the ideal incremental decoder `Utf8.Dec`.  Qt 5's
`QTextDecoder` coincides with it on well-formed UTF-8 (measured on every read of every split in the correspondence
run) but is itself not chunk independent on MALFORMED input; malformed UTF-8 is not a valid XMPP stream and is
outside this theorem (`hvalid`). -/
theorem framing_bytes_split_independent_partial (P : Parser E) (items : List (Item E))
    (hP : PrefixOracle P items) (chunks : List Bytes) (cps : List Nat)
    (hvalid : decode? chunks.flatten = some cps) (htext : toChars (dropBom1 cps) = textOf items) :
    events (runBytes (feedBytesCode P) chunks) = events (runBytes (feedBytesCode P) [chunks.flatten])
    ∧ events (runBytes (feedBytesCode P) chunks) = events (evsOf items) :=
  framing_bytes_split_independent_stateful_partial P items hP chunks cps hvalid htext

/-! ### Several connections on one socket object -/

/-- **The events of a connection depend only on the bytes of that connection.**  Whatever happened to the socket
object before — any number of earlier connections, each cut at ANY point (inside a tag, an entity, the header, a
multi-byte character: `pre` is an arbitrary history of reads), ended by the peer, by the network or locally — once
the socket is connected again, feeding `chunks` yields exactly the events of feeding `chunks` to a fresh object.
(True because `connect` resets the receive buffer, the cached header and the decoder; the harness compares every
`connect` line and every following read with the real `XmppSocket` reconnected over loopback.) -/
theorem connection_events_depend_only_on_own_bytes (P : Parser E) (pre : List Op) (chunks : List Bytes) :
    (runOps P (runOps P binit pre).1 (Op.connect :: chunks.map Op.feed)).2 = runBytes (feedBytesCode P) chunks := by
  simp only [runOps, runWith, stepOp, List.nil_append, runWith_map_feed, runBytes]

/-- … hence split independence of connection n holds for every history of connections 1 … n-1 (partial: under
`PrefixOracle`, like `framing_bytes_split_independent_partial`). -/
theorem reconnect_framing_split_independent_partial (P : Parser E) (items : List (Item E))
    (hP : PrefixOracle P items) (pre : List Op) (chunks : List Bytes) (cps : List Nat)
    (hvalid : decode? chunks.flatten = some cps) (htext : toChars (dropBom1 cps) = textOf items) :
    events (runOps P (runOps P binit pre).1 (Op.connect :: chunks.map Op.feed)).2 = events (evsOf items) := by
  rw [connection_events_depend_only_on_own_bytes]
  exact (framing_bytes_split_independent_partial P items hP chunks cps hvalid htext).2

/-! ### Several streams on one connection (stream restart, e.g. after SASL) -/

/-- **Split independence with stream restarts.**  A connection may carry several streams one after the other: a new
`<stream:stream …>` header (other attributes, other namespace declarations) without a closing tag before it.  Every
matched header REPLACES the cached open tag (`tagFrom`), so what follows header n is wrapped in header n only.
For every list of sessions (header + items each), each received in its own reads cut ANYWHERE (`sc.2` = the reads of
session `sc.1`), the events are exactly the events of all the items in order — the same as when every session arrives
in one read.  Hypothesis: `SessionsOracle` = `PrefixOracleFrom` per session with the tag cached at its start (partial
for the same reason as the other framing theorems).  A restart header always starts a read of its own (it answers a
round trip: the peer sends it only after our own new header); a header in the MIDDLE of a read is not recognised by
the code (the expression is anchored) — that case is exercised by correspondence only. -/
theorem framing_restart_split_independent_partial (P : Parser E)
    (sessions : List (List (Item E) × List (List Char)))
    (hc : ∀ sc ∈ sessions, sc.2.flatten = textOf sc.1)
    (ho : SessionsOracle P [] (sessions.map (·.1))) :
    events (run P init (sessions.map (·.2)).flatten).2 = events (evsOf (sessions.map (·.1)).flatten)
    ∧ events (run P init (sessions.map (·.2)).flatten).2
      = events (run P init ((sessions.map fun sc => [textOf sc.1]).flatten)).2 := by
  have h1 := run_sessions P sessions [] hc ho
  have h2 := run_sessions P (sessions.map fun sc => (sc.1, [textOf sc.1])) []
    (by intro sc hsc; simp only [List.mem_map] at hsc; obtain ⟨x, _, rfl⟩ := hsc; simp)
    (by simpa [List.map_map, Function.comp_def] using ho)
  simp only [List.map_map, Function.comp_def] at h2
  have h1' : events (run P init (sessions.map (·.2)).flatten).2 = events (evsOf (sessions.map (·.1)).flatten) := h1
  have h2' : events (run P init ((sessions.map fun sc => [textOf sc.1]).flatten)).2
      = events (evsOf (sessions.map (·.1)).flatten) := h2
  exact ⟨h1', h1'.trans h2'.symm⟩

/-- non-vacuity: two sessions on the toy parser, the second one cut inside its header and inside its stanza -/
example : SessionsOracle toyP [] [[toyHdr, toyStanza "<a/>" "a"], [toyHdr, toyStanza "<b>x</b>" "b:x", toyClose]] :=
  ⟨checkOracleFrom_sound _ _ _ (by decide +kernel), checkOracleFrom_sound _ _ _ (by decide +kernel), trivial⟩

example : events (run toyP init ["<stream:stream><a/>".toList, "<stream:str".toList, "eam><b>".toList,
      "x</b></stream:stream>".toList]).2
    = [.streamOpen "stream".toList, .stanza "a".toList, .streamOpen "stream".toList, .stanza "b:x".toList, .streamClose] := by
  decide +kernel

/-! ### Bytes after the closing tag (defect until repo commit 109544b, now part of the covered language) -/

/-- header, one stanza, closing tag, ONE BLANK (legal XML: white space may follow the root element) -/
def afterCloseText : List Char := "<stream:stream><a/></stream:stream> ".toList

/-- Before 109544b the `$`-anchored close expression did not match this text in one read, a second closing tag was
appended, the parse failed and NOTHING was delivered, while a read boundary before the blank delivered everything
(`C03_defect_bytes_after_close`, finding `C03:bytes-after-stream-close`).  Now both deliver everything, and the stream
satisfies `PrefixOracle` (next example), so it is covered by the `…_partial` theorems. -/
example : events (run toyP init [afterCloseText]).2
      = [.streamOpen "stream".toList, .stanza "a".toList, .streamClose]
    ∧ events (run toyP init ["<stream:stream><a/></stream:stream>".toList, " ".toList]).2
      = [.streamOpen "stream".toList, .stanza "a".toList, .streamClose]
    ∧ events (run toyP init ["<stream:stream><a/></stream:str".toList, "eam> ".toList]).2
      = [.streamOpen "stream".toList, .stanza "a".toList, .streamClose] := by
  decide +kernel

/-- **The hypothesis is now weaker in effect:** streams with white-space items AFTER the closing tag satisfy
`PrefixOracle` (they could not before 109544b: the segment `</stream:stream>` + blank did not parse). -/
example : PrefixOracle toyP [toyHdr, toyStanza "<a/>" "a", toyClose, toyWs, toyWs] :=
  checkOracle_sound _ _ (by decide +kernel)

/-- the close detection accepts any trailing white space and nothing else (the old one only one LF) -/
example : endsWithCloseTolerant "<a/></stream:stream> \r\n\t".toList = true
    ∧ endsWithCloseTolerant "<a/></stream:stream>".toList = true
    ∧ endsWithCloseTolerant "<a/></stream:stream>x".toList = false
    ∧ endsWithCloseStrict "<a/></stream:stream>\n".toList = true
    ∧ endsWithCloseStrict "<a/></stream:stream>\r\n".toList = false := by
  decide +kernel

/-! ### The header matcher (`matchOpen` = transcription of `streamStartRegex`) -/

/-- **Stable under more data.**  Once the stream-open expression has matched the buffer, appending any further text
leaves the match and the captured open tag unchanged — so whether the header is recognised, and what is cached,
does not depend on how much of what follows arrives in the same read. -/
theorem matchOpen_stable_under_append (buf more t : List Char) (h : matchOpen buf = some t) :
    matchOpen (buf ++ more) = some t :=
  matchOpen_append_stable buf more t h

/-- the captured text is a prefix of the buffer (the expression is anchored at the start) -/
theorem matchOpen_is_prefix (buf t : List Char) (h : matchOpen buf = some t) : t <+: buf :=
  matchOpen_prefix buf t h

/-- **Exactly one open tag, quote-aware.**  What `\\s*<stream:stream(?:…)*>` matches at the start of `l` is: white
space, the literal `<stream:stream`, a body `a` and `>`, where that `>` is the FIRST `>` outside quotes: the
quote-aware scan of `a ++ ">"` ends exactly at its last character — not at a `>` inside a quoted attribute value,
and not beyond the tag. -/
theorem matchOpenTag_exactly_one_tag (l : List Char) (k : Nat) (h : matchOpenTag l = some k) :
    ∃ ws a, l.take k = ws ++ openLit ++ a ++ ['>'] ∧ ws.all reSpace = true ∧
      scanOpenRest none (a ++ ['>']) 0 = some (a.length + 1) :=
  matchOpenTag_shape l k h

example : matchOpen "<stream:stream id='a>b' from=\"o'brien\">".toList = some "<stream:stream id='a>b' from=\"o'brien\">".toList
    ∧ matchOpen "<stream:stream id='a>b' from=\"o'brien\"><presence/>".toList
        = some "<stream:stream id='a>b' from=\"o'brien\">".toList
    ∧ matchOpen "<stream:stream id='a>b' from=\"o'bri".toList = none := by
  decide +kernel

/-! ### The parser hypothesis, for the Lean parser

`PrefixOracle` has two halves.  For the concrete parser `Xml.parse` (the instance the driver uses) the first half —
a buffer that ends on an item boundary parses to exactly the items it holds — is PROVED below for the sub-language
of `Qx/Model/C03Wf.lean` (`Xml.parse_streamText`, from the completeness lemmas `Xml.elem_ok` / `Xml.kids_ok` that hold
with an arbitrary continuation).

NOT yet proved (so `prefixOracle_of_wellformed : WellFormedStream items → PrefixOracle Xml.parse items` is not stated):
* the second half, rejection: for a non-empty proper prefix `p` of an item, `Xml.parse (… ++ p ++ "</stream:stream>") = none`
  (planned: a lemma "parseAttrs fails on any `>`-free text followed by `<` or end of input" for cuts inside a tag,
  end-tag-name mismatch for cuts inside content, by induction on the tree);
* the assembly over all splits `items = A ++ B ++ C` (pull the split back through the item list, `matchOpen` /
  `endsWithClose` of the segment);
* outside the sub-language: entity and character references, double-quoted attributes, `>` inside attribute values,
  white space inside tags, the XML declaration.
Until then `PrefixOracle Xml.parse items` is established per corpus stream by `checkOracle` (sound:
`checkOracle_sound`) in every run — 43 streams, all ok — next to the measurement on the real QDomDocument. -/

/-- **Lean parser, first half of `PrefixOracle` (item boundary ⇒ parses to exactly the items so far), partial:
sub-language of C03Wf.**  For every header with well-formed attributes and every list of well-formed top-level nodes
(stanzas and white-space runs), the wrapped buffer header ++ nodes ++ `</stream:stream>` is accepted and yields
exactly the canonical root and the canonical forms of the top-level elements, in order. -/
theorem leanParser_complete_at_boundary_partial (hattrs : List (Xml.Str × Xml.Str)) (body : List Xml.X)
    (hh : Xml.okAttrs hattrs = true) (hb : Xml.wfList body = true) :
    Xml.parse (Xml.streamText hattrs body) =
      some { root := String.ofList (Xml.canon false (Xml.toNode [] (.elem Xml.streamName hattrs body false))),
             children := ((Xml.kidNodes (Xml.pushDecls [] hattrs) body [] []).filter Xml.isElem).map
               fun k => String.ofList (Xml.canon true k) } :=
  Xml.parse_streamText hattrs body hh hb

/-- non-vacuity / sanity: a concrete stream text of the sub-language and what the parser returns for it -/
example : Xml.streamText [("xmlns".toList, "jabber:client".toList)]
      [.elem "message".toList [("to".toList, "a@b".toList)] [.elem "body".toList [] [.text "hi".toList] false] false,
       .text " ".toList, .elem "presence".toList [] [] true]
    = "<stream:stream xmlns='jabber:client'><message to='a@b'><body>hi</body></message> <presence/></stream:stream>".toList
    ∧ Xml.okAttrs [("xmlns".toList, "jabber:client".toList)] = true
    ∧ Xml.wfList [.elem "message".toList [("to".toList, "a@b".toList)] [.elem "body".toList [] [.text "hi".toList] false] false,
       .text " ".toList, .elem "presence".toList [] [] true] = true := by
  decide +kernel

/-! ### The former defect witnesses, now delivered correctly -/

/-- the toy stream `<stream:stream><m>ñ</m>` … -/
def defectItems : List (Item (List Char)) := [toyHdr, toyStanza "<m>ñ</m>" "m:ñ"]
/-- … and its bytes, cut between the two bytes C3 | B1 of `ñ` -/
def defectChunks : List Bytes :=
  [ [0x3c,0x73,0x74,0x72,0x65,0x61,0x6d,0x3a,0x73,0x74,0x72,0x65,0x61,0x6d,0x3e, 0x3c,0x6d,0x3e, 0xc3],
    [0xb1, 0x3c,0x2f,0x6d,0x3e] ]

/-- the toy stream `<stream:stream><m>` U+FEFF `x</m>` and its bytes cut right before EF BB BF -/
def zwnbspItems : List (Item (List Char)) := [toyHdr, toyStanza "<m>\uFEFFx</m>" "m:\uFEFFx"]
def zwnbspChunks : List Bytes :=
  [ [0x3c,0x73,0x74,0x72,0x65,0x61,0x6d,0x3a,0x73,0x74,0x72,0x65,0x61,0x6d,0x3e, 0x3c,0x6d,0x3e],
    [0xef,0xbb,0xbf, 0x78, 0x3c,0x2f,0x6d,0x3e] ]

/-- a byte order mark in front of the stream, the first read ending inside it -/
def bomChunks : List Bytes :=
  [ [0xef, 0xbb], 0xbf :: defectChunks.flatten ]

example : events (runBytes (feedBytesCode toyP) defectChunks)
      = [.streamOpen "stream".toList, .stanza "m:ñ".toList]
    ∧ events (runBytes (feedBytesCode toyP) zwnbspChunks)
      = [.streamOpen "stream".toList, .stanza "m:\uFEFFx".toList]
    ∧ events (runBytes (feedBytesCode toyP) bomChunks)
      = [.streamOpen "stream".toList, .stanza "m:ñ".toList] := by
  decide +kernel

/-- what the code did before 49994ec on the same inputs (per-read decoding): text altered / character lost -/
example : events (runBytes (feedBytesPerChunk toyP) defectChunks)
      = [.streamOpen "stream".toList, .stanza "m:\uFFFD\uFFFD".toList]
    ∧ events (runBytes (feedBytesPerChunk toyP) zwnbspChunks)
      = [.streamOpen "stream".toList, .stanza "m:x".toList] := by
  decide +kernel

/-- non-vacuity: connection 1 is lost inside `<m>` C3 (tag open, half a character pending); connection 2 still
delivers its stream.  Without the reset at `connect` the left-over would be prepended (second line: nothing delivered). -/
example : events (runOps toyP binit
      ([Op.connect, Op.feed (defectChunks.headD []), Op.peerLost, Op.connect] ++ defectChunks.map Op.feed)).2
      = [.streamOpen "stream".toList, .stanza "m:ñ".toList]
    ∧ events (runOps toyP binit
      ([Op.connect, Op.feed (defectChunks.headD []), Op.peerLost] ++ defectChunks.map Op.feed)).2 = [] := by
  decide +kernel

/-! ### Non-vacuity: `PrefixOracle` is satisfiable, and the hypotheses of the byte-level theorem are met -/

/-- header, two stanzas with a keep-alive blank between them, closing tag -/
def exItems : List (Item (List Char)) :=
  [toyHdr, toyStanza "<a/>" "a", toyWs, toyStanza "<b>x</b>" "b:x", toyClose]

example : PrefixOracle toyP exItems := checkOracle_sound _ _ (by decide +kernel)

/-- a split inside the second stanza and inside the closing tag; the events are those of the items -/
example : events (run toyP init ["<stream:stream><a/> <b".toList, ">x</b></stream:str".toList, "eam>".toList]).2
    = [.streamOpen "stream".toList, .stanza "a".toList, .stanza "b:x".toList, .streamClose] := by
  decide +kernel

/-- keep-alive notifications do depend on the split (which is why `events` filters them):
" " after a parsed stanza is a notification of its own, " " in the same read as the stanza is not -/
example : (run toyP init ["<stream:stream><a/>".toList, " ".toList]).2.length = 3
    ∧ (run toyP init ["<stream:stream><a/> ".toList]).2.length = 2 := by
  decide +kernel

example : PrefixOracle toyP defectItems := checkOracle_sound _ _ (by decide +kernel)
example : PrefixOracle toyP zwnbspItems := checkOracle_sound _ _ (by decide +kernel)

/-- hypotheses of `framing_bytes_split_independent_partial` on the three byte-level examples (cut inside a character,
U+FEFF as content, BOM in front of the stream) -/
example : decode? defectChunks.flatten = some (decodeLossy defectChunks.flatten)
    ∧ toChars (dropBom1 (decodeLossy defectChunks.flatten)) = textOf defectItems
    ∧ decode? zwnbspChunks.flatten = some (decodeLossy zwnbspChunks.flatten)
    ∧ toChars (dropBom1 (decodeLossy zwnbspChunks.flatten)) = textOf zwnbspItems
    ∧ decode? bomChunks.flatten = some (decodeLossy bomChunks.flatten)
    ∧ toChars (dropBom1 (decodeLossy bomChunks.flatten)) = textOf defectItems := by
  decide +kernel

/-- hypothesis of `utf8_perchunk_eq_iff_boundaries_partial`: chunks of whole characters -/
example : (∀ c ∈ ([[0x3c,0x6d,0x3e,0xc3,0xb1], [0x3c,0x2f,0x6d,0x3e]] : List Bytes), U8.Clean c) := by
  intro c hc
  simp only [List.mem_cons, List.not_mem_nil, or_false] at hc
  rcases hc with rfl | rfl <;> exact ⟨by decide, by decide, by decide⟩

end Qx.C03
