import Qx.Proofs.C14
/-!
# C14 — STUN messages round-trip; integrity and fingerprint accept only untampered data

Property theorems only (model: `Qx/Model/C14Stun.lean`, helpers: `Qx/Proofs/C14.lean`, data extracted from the source:
`Qx/Generated/CrcTable.lean`, `Qx/Generated/StunConsts.lean`).

Conventions.  `H : Bytes → Bytes` is the hash function, a *parameter* of every statement (the driver and the
real code use SHA-1, `sha1_gives_20_bytes` shows SHA-1 meets the only hypothesis ever made about `H`: 20-byte
digests).  `hmacCode H 64` is the HMAC *as QXmppUtils.cpp computes it* (since /repo commit a1928fd: keys longer than a
block are hashed first), `hmacRfc H 64` is RFC 2104; `hmac_code_eq_rfc` shows they are the same function.  `decodeX` is
the header check and attribute loop of `decode` together with what the decoder verified on the way (`decode` = `decodeX` plus
the final gate of /repo commit 80bab8b: under a key, a Request/Response packet without MESSAGE-INTEGRITY is rejected): `miAt = some off` iff it met a MESSAGE-INTEGRITY
attribute at body offset `off` (the C++ flag `after_integrity`), `fpAt = some off` iff it returned at a FINGERPRINT
attribute at body offset `off`.  All statements hold for every message / packet / key of any length.

The half "decoding arbitrary bytes never crashes or reads out of bounds" is a runtime matter: `decode` is a
total function here; the C++ is exercised on random, structured and mutated packets with the library built under
ASan/UBSan (see props/C14.py).  What *can* be said statically is said by `decode_accepted_fits`: since /repo commit
df53ac0 no accepted packet has an attribute value reaching beyond the packet.
-/
namespace Qx.C14
open Qx Qx.Bytes Qx.Crypto Qx.Generated

/-! ## Round trip -/

/-- **decode ∘ encode.**  For every well-formed message `m` (`WFMsg`: fields in the range of their C++ types and the
setters' preconditions, see the model), every key of any length (empty = no MESSAGE-INTEGRITY) and fingerprint on or
off, decoding the encoded packet under the same key succeeds and yields `view m`: every attribute value of `m`
— all 7 address attributes IPv4/IPv6 plain and XOR-ed, strings and byte strings of every length (hence every padding),
all numeric attributes, ICE role attributes, error code and phrase — with the string attributes passed through
`QString::fromUtf8(const QByteArray &)` (see `stun_decode_encode_same` for when that is the identity). -/
theorem stun_decode_encode (H : Bytes → Bytes) (hH : ∀ x, (H x).length = 20) (m : Msg) (h : WFMsg m)
    (k : Bytes) (fp : Bool) : decode H (encode H m k fp) k = some (view m) := by
  rw [encode_eq_raw_wf H hH m h k fp]
  exact decodeStrict_encode H hH m h k fp

/-- **decode ∘ encode = identity** when moreover every string of `m` is well-formed UTF-8 without a leading BOM (`StrsOK`;
an embedded U+0000 is fine since /repo commit bdc4d1e, see the `example` below). -/
theorem stun_decode_encode_same (H : Bytes → Bytes) (hH : ∀ x, (H x).length = 20) (m : Msg) (h : WFMsg m)
    (hs : StrsOK m) (k : Bytes) (fp : Bool) : decode H (encode H m k fp) k = some m := by
  rw [stun_decode_encode H hH m h k fp, view_eq_self m hs]

/-- The same with the verification trace: the decoder meets MESSAGE-INTEGRITY (right behind the attributes) exactly when
a key was used, and returns at FINGERPRINT (behind that) exactly when one was asked for. -/
theorem stun_decode_encode_trace (H : Bytes → Bytes) (hH : ∀ x, (H x).length = 20) (m : Msg) (h : WFMsg m)
    (k : Bytes) (fp : Bool) :
    decodeX H (encode H m k fp) k =
      some ⟨view m, if k = [] then none else some (body m).length,
        if fp then some ((body m).length + (if k = [] then 0 else 24)) else none⟩ := by
  rw [encode_eq_raw_wf H hH m h k fp]
  exact decodeX_encode H hH m h k fp

/-- Decoding without a key skips the HMAC comparison and gives the same message. -/
theorem stun_decode_encode_nokey (H : Bytes → Bytes) (hH : ∀ x, (H x).length = 20) (m : Msg) (h : WFMsg m)
    (fp : Bool) : decode H (encode H m [] fp) [] = some (view m) :=
  stun_decode_encode H hH m h [] fp

/-- SHA-1 (the instance used by the code and by the driver) produces 20 bytes, whatever the input. -/
theorem sha1_gives_20_bytes (x : Bytes) : (sha1 x).length = 20 := sha1_length x

/-- the round trip for the real hash function -/
theorem stun_decode_encode_sha1 (m : Msg) (h : WFMsg m) (k : Bytes) (fp : Bool) :
    decode sha1 (encode sha1 m k fp) k = some (view m) :=
  stun_decode_encode sha1 sha1_length m h k fp

/-- non-vacuity: a message with IPv4 and IPv6 XOR-ed addresses, error code, priority, USE-CANDIDATE, lifetime, DATA of
3 bytes, NONCE of 5 bytes, REALM of 11 bytes, USERNAME with a 2-byte character, ICE-CONTROLLING meets `WFMsg` and `StrsOK` -/
example : WFMsg exampleMsg ∧ StrsOK exampleMsg := ⟨wf_example, strs_example⟩
example : decode sha1 (encode sha1 exampleMsg [1, 2, 3] true) [1, 2, 3] = some exampleMsg :=
  stun_decode_encode_same sha1 sha1_length exampleMsg wf_example strs_example _ _

/-- the old witness of `C14:roundtrip-string-nul` (USERNAME "a\0b") round-trips now, for every hash, key and fingerprint -/
example (H : Bytes → Bytes) (hH : ∀ x, (H x).length = 20) (k : Bytes) (fp : Bool) :
    decode H (encode H { username := some [0x61, 0x00, 0x62] } k fp) k = some { username := some [0x61, 0x00, 0x62] } :=
  stun_decode_encode_same H hH _ ⟨by constructor <;> decide +kernel, by decide +kernel⟩ (by decide) k fp

/-- **Every message `encode` accepts decodes back.**  Same as `stun_decode_encode` without the size bound of `WFMsg`:
whenever `encode` does not refuse the message (it refuses exactly those whose attributes, MESSAGE-INTEGRITY and
FINGERPRINT included, exceed the 16-bit length field — `encode_refuses_exactly_oversized`), the result decodes to
`view m`.  Before /repo commit 910f587 such messages were emitted with wrapped length fields and did not decode
(`setData` with 70000 bytes, replayed by the harness under `C14:oversized-not-decodable`). -/
theorem stun_decode_encode_accepted (H : Bytes → Bytes) (hH : ∀ x, (H x).length = 20) (m : Msg) (h : WFFields m)
    (k : Bytes) (fp : Bool) (hacc : encode H m k fp ≠ []) : decode H (encode H m k fp) k = some (view m) := by
  have hfit := fits_of_encode_ne_nil H hH m h.id k fp hacc
  rw [encode_eq_raw H hH m h.id k fp hfit]
  unfold decode
  rw [decodeX_encode_fields H hH m h k fp hfit]
  by_cases hk : k = [] <;> simp [hk]

/-- **`encode` refuses (empty result) exactly the messages that do not fit the 16-bit length field, trailer included**: the
bound applies to the attributes of `m` PLUS the 24 bytes of MESSAGE-INTEGRITY (when a key is given) PLUS the 8 bytes of
FINGERPRINT (when asked for) — the size check of /repo commit 910f587 sits behind both appends. -/
theorem encode_refuses_exactly_oversized (H : Bytes → Bytes) (hH : ∀ x, (H x).length = 20) (m : Msg)
    (hid : m.id.length = 12) (k : Bytes) (fp : Bool) :
    encode H m k fp = [] ↔ 65536 ≤ (body m).length + (if k = [] then 0 else 24) + (if fp then 8 else 0) := by
  constructor
  · intro he
    apply Classical.byContradiction
    intro hn
    have hfit : (body m).length + (if k = [] then 0 else 24) + (if fp then 8 else 0) < 65536 := by omega
    rw [encode_eq_raw H hH m hid k fp hfit] at he
    have := encode_length H hH m hid k fp
    rw [he] at this
    simp only [List.length_nil, Stun.headerSize] at this
    split at this <;> split at this <;> omega
  · exact encode_eq_nil H hH m hid k fp

/-- in the window where only the trailer pushes the message over the limit it is refused too: attributes of 65504..65535
bytes with key and fingerprint (65512.. with a key only, 65528.. with fingerprint only); the harness sweeps every size
65480..65560 x key x fingerprint against the real `encode` (seeded change C14_d1 moved the check in front of the trailer) -/
theorem encode_bound_includes_trailer (H : Bytes → Bytes) (hH : ∀ x, (H x).length = 20) (m : Msg) (hid : m.id.length = 12)
    (k : Bytes) (hk : k ≠ []) :
    (65504 ≤ (body m).length → encode H m k true = []) ∧ (65512 ≤ (body m).length → encode H m k false = []) ∧
    (65528 ≤ (body m).length → encode H m [] true = []) ∧
    ((body m).length < 65504 → encode H m k true ≠ []) := by
  refine ⟨fun h => ?_, fun h => ?_, fun h => ?_, fun h he => ?_⟩
  · exact (encode_refuses_exactly_oversized H hH m hid k true).mpr (by simp [hk]; omega)
  · exact (encode_refuses_exactly_oversized H hH m hid k false).mpr (by simp [hk]; omega)
  · exact (encode_refuses_exactly_oversized H hH m hid [] true).mpr (by simp; omega)
  · have := (encode_refuses_exactly_oversized H hH m hid k true).mp he
    simp [hk] at this; omega

/-- the old witness: `setData` with 65532 bytes or more is refused -/
example (H : Bytes → Bytes) (hH : ∀ x, (H x).length = 20) (d : Bytes) (hd : 65532 ≤ d.length) :
    encode H (dataOnlyMsg d) [] false = [] :=
  (encode_refuses_exactly_oversized H hH (dataOnlyMsg d) rfl [] false).mpr (by rw [dataOnly_body_len]; simp; omega)

/-- `setReservationToken` always yields the 8 bytes `WFFields` asks for (zero padded, /repo commit e93be92) -/
theorem reservation_token_is_8_bytes (tok : Bytes) : (setReservationToken tok).length = 8 :=
  setReservationToken_len tok

/-- **Defect (round trip of strings, BOM half).**  A USERNAME starting with U+FEFF (bytes EF BB BF) is well-formed but
comes back without it: every `QString::fromUtf8` overload of Qt 5 drops a leading byte order mark.  Replayed on the
implementation as `C14:roundtrip-string-bom`; recorded, not repaired (no fix short of special-casing the three bytes;
SASLprep maps U+FEFF to nothing anyway). -/
theorem C14_defect_string_bom_not_round_tripped :
    ¬ (∀ (H : Bytes → Bytes), (∀ x, (H x).length = 20) → ∀ (m : Msg), WFMsg m → ∀ (k : Bytes) (fp : Bool),
        decode H (encode H m k fp) k = some m) := by
  intro hall
  have hm : WFMsg { username := some [0xEF, 0xBB, 0xBF, 0x61] } := ⟨by constructor <;> decide +kernel, by decide +kernel⟩
  have h1 := hall sha1 sha1_length _ hm [] false
  rw [stun_decode_encode sha1 sha1_length _ hm [] false] at h1
  revert h1
  decide

/-! ## MESSAGE-INTEGRITY and FINGERPRINT of an encoded message -/

/-- **MESSAGE-INTEGRITY is the code's HMAC of the protected bytes.**  With a non-empty key the attribute
`00 08 00 14` sits right behind the attributes of `m`, and its 20 value bytes are `hmacCode H 64 k` of everything
before it with the header's length field counting exactly that attribute (RFC 5389 §15.4). -/
theorem encode_mi_is_hmac (H : Bytes → Bytes) (hH : ∀ x, (H x).length = 20) (m : Msg) (h : WFMsg m)
    (k : Bytes) (hk : k ≠ []) (fp : Bool) :
    ((encode H m k fp).drop (Stun.headerSize + (body m).length)).take 4 = putU16 Stun.messageIntegrity ++ putU16 20 ∧
    miValueAt (encode H m k fp) (body m).length =
      hmacCode H 64 k (miInputAt (encode H m k fp) (body m).length) := by
  rw [encode_eq_raw_wf H hH m h k fp]
  refine ⟨encode_mi_header H hH m h.id k hk fp, ?_⟩
  have hd := decodeX_encode H hH m h k fp
  exact (decodeX_verified H _ k _ hd).1 _ (by simp [hk]) hk

/-- **…which is the RFC 2104 HMAC, for keys of every length** (RFC 5389 §15.4). -/
theorem encode_mi_is_rfc_hmac (H : Bytes → Bytes) (hH : ∀ x, (H x).length = 20) (m : Msg) (h : WFMsg m)
    (k : Bytes) (hk : k ≠ []) (fp : Bool) :
    miValueAt (encode H m k fp) (body m).length =
      hmacRfc H 64 k (miInputAt (encode H m k fp) (body m).length) := by
  rw [(encode_mi_is_hmac H hH m h k hk fp).2, hmacCode_eq_rfc_20 H hH]

/-- **FINGERPRINT is CRC-32 xor 0x5354554e.**  When asked for, the attribute `80 28 00 04` is the last 8 bytes of the
packet and its value is the bitwise-defined CRC-32 (reflected polynomial 0xEDB88320, initial value and final xor
0xFFFFFFFF) of everything before it, with the length field counting the attribute, xor `0x5354554e` (RFC 5389 §15.5). -/
theorem encode_fp_is_crc (H : Bytes → Bytes) (hH : ∀ x, (H x).length = 20) (m : Msg) (h : WFMsg m) (k : Bytes) :
    let off := (body m).length + (if k = [] then 0 else 24)
    (encode H m k true).length = Stun.headerSize + off + 8 ∧
    ((encode H m k true).drop (Stun.headerSize + off)).take 4 = putU16 Stun.fingerprint ++ putU16 4 ∧
    fpValueAt (encode H m k true) off =
      (crc32Bitwise (fpInputAt (encode H m k true) off)).toNat ^^^ 0x5354554e := by
  intro off
  rw [encode_eq_raw_wf H hH m h k true]
  refine ⟨?_, ?_, ?_⟩
  · rw [encode_length H hH m h.id k true]; simp only [off, if_true]; omega
  · simp only [off, ← Nat.add_assoc]; exact encode_fp_header H hH m h.id k
  · have hd := decodeX_encode H hH m h k true
    have := (decodeX_verified H _ k _ hd).2 off (by simp [off])
    rw [this, fingerprintOf_spec]

/-! ## What an accepting decode has verified -/

/-- **Accepted under a key ⇒ the HMAC verified.**  If `decode` accepts packet `b` under a non-empty key `k` and met
a MESSAGE-INTEGRITY attribute (at body offset `off`), then the 20 bytes of that attribute equal the code's HMAC under
`k` of the protected bytes: everything before the attribute, with the length field adjusted.  Hence a packet in which a
protected bit was flipped, or a different key, is accepted *with integrity verified* only if the packet carries a valid
MAC for the bytes the decoder authenticated (`tamper_verified_is_forgery`, `other_key_needs_collision`); the step from
there to "cannot happen" is the unforgeability of HMAC-SHA1, the named hypothesis `NotAForgery` of
`tamper_rejected_by_authenticated_decode`, not an axiom. -/
theorem decode_accepts_only_verified_mi (H : Bytes → Bytes) (b k : Bytes) (d : Decoded) (off : Nat)
    (hdec : decodeX H b k = some d) (hk : k ≠ []) (hmi : d.miAt = some off) :
    miValueAt b off = hmacCode H 64 k (miInputAt b off) :=
  (decodeX_verified H b k d hdec).1 off hmi hk

/-- …and in RFC 2104 terms, for keys of every length. -/
theorem decode_accepts_only_rfc_verified_mi (H : Bytes → Bytes) (hH : ∀ x, (H x).length = 20) (b k : Bytes)
    (d : Decoded) (off : Nat) (hdec : decodeX H b k = some d) (hk : k ≠ []) (hmi : d.miAt = some off) :
    miValueAt b off = hmacRfc H 64 k (miInputAt b off) := by
  rw [decode_accepts_only_verified_mi H b k d off hdec hk hmi, hmacCode_eq_rfc_20 H hH]

/-- **Accepted with FINGERPRINT ⇒ the CRC verified** (whatever the key): the 32 bits equal the bitwise CRC-32 of the
bytes before the attribute (length field adjusted) xor 0x5354554e. -/
theorem decode_checks_fp (H : Bytes → Bytes) (b k : Bytes) (d : Decoded) (off : Nat)
    (hdec : decodeX H b k = some d) (hfp : d.fpAt = some off) :
    fpValueAt b off = (crc32Bitwise (fpInputAt b off)).toNat ^^^ 0x5354554e := by
  rw [(decodeX_verified H b k d hdec).2 off hfp, fingerprintOf_spec]

/-- **Another key needs a collision.**  A packet accepted under two non-empty keys (MESSAGE-INTEGRITY met at the same
place) makes both keys produce the same MAC on the protected bytes. -/
theorem other_key_needs_collision (H : Bytes → Bytes) (b k k' : Bytes) (d d' : Decoded) (off : Nat)
    (hk : k ≠ []) (hk' : k' ≠ []) (hdec : decodeX H b k = some d) (hdec' : decodeX H b k' = some d')
    (hmi : d.miAt = some off) (hmi' : d'.miAt = some off) :
    hmacCode H 64 k (miInputAt b off) = hmacCode H 64 k' (miInputAt b off) := by
  rw [← decode_accepts_only_verified_mi H b k d off hdec hk hmi,
    ← decode_accepts_only_verified_mi H b k' d' off hdec' hk' hmi']

/-- non-vacuity of the hypotheses of the theorems above: the encoding of the sample message under key `[7]`
with fingerprint is accepted, MESSAGE-INTEGRITY is met at offset `|body|`, FINGERPRINT at `|body| + 24` -/
example (H : Bytes → Bytes) (hH : ∀ x, (H x).length = 20) :
    ∃ d, decodeX H (encode H exampleMsg [7] true) [7] = some d ∧ ([7] : Bytes) ≠ [] ∧
      d.miAt = some (body exampleMsg).length ∧ d.fpAt = some ((body exampleMsg).length + 24) :=
  ⟨_, by rw [encode_eq_raw_wf H hH exampleMsg wf_example]; exact decodeX_encode H hH exampleMsg wf_example [7] true,
    by decide, by simp, by simp⟩


/-! ## Single-bit corruption of an encoded message

`b = encode H m k fp` with a non-empty key; `n = |body m|` is where MESSAGE-INTEGRITY sits; bit `i` is bit `i % 8` of byte
`i / 8`.  The packet consists of: header (bytes 0..19), attributes (20..20+n-1), MESSAGE-INTEGRITY (20+n..20+n+23: type,
length, 20 bytes of MAC) and, if asked for, FINGERPRINT (the last 8 bytes).  Nothing is assumed about CRC-32 anywhere;
about the hash only what each statement says. -/

/-- **A flipped bit that is accepted with integrity verified is an HMAC forgery** — no hypothesis about the hash.
Flip any one bit of the header, of the attributes or of the MESSAGE-INTEGRITY attribute itself (type, length, MAC).  If
`decode` accepts the result under the same key and met — hence verified — a MESSAGE-INTEGRITY attribute at any offset
`off`, then (1) the bytes it authenticated there differ from the bytes `x0` the sender authenticated and (2) the packet
nevertheless contains their valid MAC under the key.  Proof by cases on where the bit lies: in the length field the header
check fails; elsewhere in the prefix the authenticated bytes would have to be `x0` with a byte changed; in the attribute's
type/length the decoder would not have verified there; in the MAC the MAC of `x0` would have to equal a changed value. -/
theorem tamper_verified_is_forgery (H : Bytes → Bytes) (hH : ∀ x, (H x).length = 20) (m : Msg) (h : WFMsg m)
    (k : Bytes) (hk : k ≠ []) (fp : Bool) (i : Nat)
    (hi : i / 8 < Stun.headerSize + (body m).length + 24) (d : Decoded) (off : Nat)
    (hdec : decodeX H (flipBit (encode H m k fp) i) k = some d) (hmi : d.miAt = some off) :
    miInputAt (flipBit (encode H m k fp) i) off ≠ miInputAt (encode H m k fp) (body m).length ∧
    hmacCode H 64 k (miInputAt (flipBit (encode H m k fp) i) off) = miValueAt (flipBit (encode H m k fp) i) off :=
  by rw [encode_eq_raw_wf H hH m h k fp] at hdec ⊢
     exact tamper_verified_is_forgery_aux H hH m h k hk fp i hi d off hdec hmi

/-- **Every single-bit flip of the protected bytes or of MESSAGE-INTEGRITY is rejected by the authenticated decode**
(`decodeAuth`: `decode` succeeded and MESSAGE-INTEGRITY was met — what ICE enforces since /repo commit f41aa68; for the
classes Request and Response `decode` itself enforces it since 80bab8b, see `tamper_rejected`), for every well-formed message of any class, non-empty key of any
length, fingerprint on or off and every bit position `i < 8·(20 + n + 24)`.  The only hypothesis is the cryptographic
one, by name: the flipped packet is `NotAForgery` (it contains no valid MAC under the key for bytes other than those the
sender authenticated). -/
theorem tamper_rejected_by_authenticated_decode (H : Bytes → Bytes) (hH : ∀ x, (H x).length = 20) (m : Msg)
    (h : WFMsg m) (k : Bytes) (hk : k ≠ []) (fp : Bool) (i : Nat)
    (hi : i / 8 < Stun.headerSize + (body m).length + 24)
    (hNF : NotAForgery H k (miInputAt (encode H m k fp) (body m).length) (flipBit (encode H m k fp) i)) :
    decodeAuth H (flipBit (encode H m k fp) i) k = none := by
  rw [encode_eq_raw_wf H hH m h k fp] at hNF ⊢
  exact tamper_rejected_aux H hH m h k hk fp i hi hNF

/-- **Flips behind MESSAGE-INTEGRITY cannot alter the authenticated message.**  The remaining positions (the 8 bytes of
FINGERPRINT, which MESSAGE-INTEGRITY does not cover) give a rejection or exactly the original message — without any
hypothesis about the hash or the CRC.  (Flipping a bit of FINGERPRINT's *type* turns it into an attribute that is
skipped behind MESSAGE-INTEGRITY: accepted, same message.)  Together with the previous theorem: for every bit of the
packet, the authenticated decode of the flipped packet is `none` or `some (view m)`. -/
theorem tamper_behind_mi_keeps_message (H : Bytes → Bytes) (hH : ∀ x, (H x).length = 20) (m : Msg) (h : WFMsg m)
    (k : Bytes) (hk : k ≠ []) (i : Nat) (hi : Stun.headerSize + (body m).length + 24 ≤ i / 8) :
    decodeAuth H (flipBit (encode H m k true) i) k = none ∨
    decodeAuth H (flipBit (encode H m k true) i) k = some (view m) := by
  rw [encode_eq_raw_wf H hH m h k true]
  exact tamper_after_mi_aux H hH m h k hk i hi

/-- the untampered packet passes the authenticated decode (so the two theorems above are not vacuous) -/
theorem authenticated_decode_encode (H : Bytes → Bytes) (hH : ∀ x, (H x).length = 20) (m : Msg) (h : WFMsg m)
    (k : Bytes) (hk : k ≠ []) (fp : Bool) : decodeAuth H (encode H m k fp) k = some (view m) := by
  rw [encode_eq_raw_wf H hH m h k fp]
  exact decodeAuth_encode H hH m h k hk fp

/-- **Another key is rejected by the authenticated decode** unless it validates some 20-byte window of the packet as MAC
of the corresponding prefix (for an encoded message and a sensible key the only candidate is the real attribute:
`HMAC_k'(x0) = HMAC_k(x0)`, see `other_key_needs_collision`). -/
theorem other_key_rejected_by_authenticated_decode (H : Bytes → Bytes) (b k' : Bytes) (hk' : k' ≠ [])
    (hNV : ∀ off, hmacCode H 64 k' (miInputAt b off) ≠ miValueAt b off) : decodeAuth H b k' = none := by
  unfold decodeAuth
  cases hd : decodeX H b k' with
  | none => rfl
  | some d =>
    cases hmi : d.miAt with
    | none => simp [hmi]
    | some off => exact absurd (decode_accepts_only_verified_mi H b k' d off hd hk' hmi).symm (hNV off)

/-! ### `decode` itself (since /repo commit 80bab8b it refuses a Request / Response packet without MESSAGE-INTEGRITY under a key) -/

/-- **The tamper sentence of the property, for requests and success responses**: for every well-formed message whose class
is Request or Response (`exemptClass m.type = false`), every non-empty key of any length, fingerprint on or off, and EVERY
bit position of the header, the attributes and the MESSAGE-INTEGRITY attribute (`i < 8·(20 + n + 24)`), `decode` of the
flipped packet under the same key fails.  Only hypothesis: the named cryptographic one, `NotAForgery`.  (Type bytes: the
walk is unchanged, MESSAGE-INTEGRITY is reached and does not verify; length field: header check; elsewhere: a verified
MESSAGE-INTEGRITY would be a forgery, and a packet without one is no longer accepted.) -/
theorem tamper_rejected (H : Bytes → Bytes) (hH : ∀ x, (H x).length = 20) (m : Msg) (h : WFMsg m)
    (k : Bytes) (hk : k ≠ []) (fp : Bool) (i : Nat)
    (hi : i / 8 < Stun.headerSize + (body m).length + 24) (hcls : exemptClass m.type = false)
    (hNF : NotAForgery H k (miInputAt (encode H m k fp) (body m).length) (flipBit (encode H m k fp) i)) :
    decode H (flipBit (encode H m k fp) i) k = none := by
  rw [encode_eq_raw_wf H hH m h k fp] at hNF ⊢
  exact tamper_rejected_strict_aux H hH m h k hk fp i hi hcls hNF

/-- flips behind MESSAGE-INTEGRITY (the FINGERPRINT bytes), any class: `decode` rejects or yields the same message; no hypothesis -/
theorem tamper_behind_mi_keeps_message_decode (H : Bytes → Bytes) (hH : ∀ x, (H x).length = 20) (m : Msg) (h : WFMsg m)
    (k : Bytes) (hk : k ≠ []) (i : Nat) (hi : Stun.headerSize + (body m).length + 24 ≤ i / 8) :
    decode H (flipBit (encode H m k true) i) k = none ∨
    decode H (flipBit (encode H m k true) i) k = some (view m) := by
  rw [encode_eq_raw_wf H hH m h k true]
  exact tamper_after_mi_strict_aux H hH m h k hk i hi

/-- non-vacuity: the sample message is a Binding request (class Request), so `exemptClass` is false for it -/
example : exemptClass exampleMsg.type = false := by decide

/-- the old witness of `C14:bitflip-accepted` (Binding request, empty USERNAME, key `[1]`, bit 5 of byte 23) is rejected now, for
every hash function under which the flipped packet is not a forgery -/
example (H : Bytes → Bytes) (hH : ∀ x, (H x).length = 20)
    (hNF : NotAForgery H [1] (miInputAt (encode H { type := 1, username := some [] } [1] true) 4)
      (flipBit (encode H { type := 1, username := some [] } [1] true) 189)) :
    decode H (flipBit (encode H { type := 1, username := some [] } [1] true) 189) [1] = none :=
  tamper_rejected H hH { type := 1, username := some [] } ⟨by constructor <;> decide +kernel, by decide +kernel⟩ [1]
    (by decide) true 189 (by decide) (by decide) hNF

/-- **Defect (bit flips, classes Error and Indication).**  Without the class restriction `tamper_rejected` is false: for a
Binding *indication* (empty USERNAME, key `[1]`, fingerprint) flipping bit 5 of byte 23 — the low byte of USERNAME's length
field, 0 → 32 — gives a packet that `decode` accepts under the same key, for every hash function: the enlarged attribute
swallows exactly MESSAGE-INTEGRITY and FINGERPRINT (its value still ends inside the body), and for the classes Error and
Indication `decode` must accept a packet without MESSAGE-INTEGRITY (RFC 5389 §10.1.2/§10.2.2, RFC 5766 Data indications).
The authenticated decode of the same packet rejects (`tamper_rejected_by_authenticated_decode`); ICE applies that gate.
Replayed on the implementation as `C14:bitflip-accepted:error-or-indication`. -/
theorem C14_defect_bitflip_accepted_error_or_indication :
    ¬ (∀ (H : Bytes → Bytes), (∀ x, (H x).length = 20) → ∀ (m : Msg), WFMsg m → StrsOK m → ∀ (k : Bytes), k ≠ [] →
        ∀ (fp : Bool) (i : Nat), i / 8 < Stun.headerSize + (body m).length →
          decode H (flipBit (encode H m k fp) i) k = none) := by
  intro hall
  have hwf : WFMsg bitflipMsg := ⟨by constructor <;> decide +kernel, by decide +kernel⟩
  have h1 := hall sha1 sha1_length bitflipMsg hwf (by decide) [1] (by decide) true 189 (by decide)
  rw [encode_eq_raw_wf sha1 sha1_length bitflipMsg hwf] at h1
  have h2 := bitflip_accepted sha1 sha1_length
  rw [h1] at h2
  exact absurd h2 (by decide)

/-- **Accepted ⇒ every attribute lies inside the packet.**  Whatever the bytes and the key: if `decode` accepts, the TLV
walk over the packet (up to the first FINGERPRINT, where the decoder returns) finds every attribute header and every
attribute value completely inside the packet — so no `readRawData` was short and no value holds bytes that did not
come from the packet (before /repo commit df53ac0, DATA announcing 1000 bytes with 4 present was accepted with 996
bytes of uninitialised memory; that packet is replayed first by the harness under `C14:attr-length-beyond-buffer`). -/
theorem decode_accepted_fits (H : Bytes → Bytes) (b k : Bytes) (d : Decoded) (hdec : decodeX H b k = some d) :
    tlvFits b = true :=
  decodeX_fits H b k d hdec

/-- the same for `decode` -/
theorem decode_some_fits (H : Bytes → Bytes) (b k : Bytes) (m : Msg) (hdec : decode H b k = some m) :
    tlvFits b = true := by
  unfold decode at hdec
  cases hd : decodeX H b k with
  | none => rw [hd] at hdec; simp at hdec
  | some d => exact decodeX_fits H b k d hd

/-- the old witness is rejected now: DATA announcing 1000 bytes with 4 present -/
example (H : Bytes → Bytes) :
    decode H [0x00, 0x01, 0x00, 0x08, 0x21, 0x12, 0xa4, 0x42, 0, 0, 0, 0, 0, 0, 0, 0, 0, 0, 0, 0,
      0x00, 0x13, 0x03, 0xe8, 0x41, 0x42, 0x43, 0x44] [] = none := by
  cases hd : decode H _ [] with
  | none => rfl
  | some m => exact absurd (decode_some_fits H _ [] m hd) (by decide)

/-! ## The hand-written HMAC against RFC 2104 -/

/-- **The code's HMAC is RFC 2104 HMAC for keys of every length**, for every hash function whose digest is not longer
than the block (the case for every hash HMAC is defined for). -/
theorem hmac_code_eq_rfc (H : Bytes → Bytes) (B : Nat) (k t : Bytes) (hH : ∀ x, (H x).length ≤ B) :
    hmacCode H B k t = hmacRfc H B k t :=
  hmacCode_eq_rfc H B k t hH

/-- the instance used for MESSAGE-INTEGRITY: 20-byte digests, 64-byte block -/
theorem hmac_code_eq_rfc_sha1 (k t : Bytes) : hmacCode sha1 64 k t = hmacRfc sha1 64 k t :=
  hmacCode_eq_rfc_20 sha1 sha1_length k t

/-! ## The CRC table extracted from the source -/

/-- **Every entry of `crctable` in QXmppUtils.cpp is the bitwise CRC of its index** (eight shifts of the reflected
register with polynomial 0xEDB88320).  Checked by the kernel on the table regenerated from the source on every run. -/
theorem crc_table_eq_bitwise : ∀ i, i < 256 → crcTable[i]? = some (crcTableEntry i) := by
  intro i hi
  rw [crcTable_eq_std]
  unfold stdTableList
  simp only [List.getElem?_map, List.getElem?_range hi, Option.map_some]

/-- the table has exactly 256 entries -/
theorem crc_table_length : crcTable.length = 256 := by decide +kernel

/-- **The table-driven loop of `generateCrc32` over that table computes the bitwise-defined CRC-32**, for every input
(induction on the input; per byte: `(c >> 8) ^ table[(c ^ b) & 0xff] = eight bitwise shifts of c ^ b`). -/
theorem crc_tabular_eq_spec (bs : Bytes) : crc32TableList crcTable bs = crc32Bitwise bs :=
  crcTable_spec bs

/-! ## Constants and order extracted from the source -/

/-- the model emits the attributes in the order in which `QXmppStunMessage::encode` does (order regenerated from the
source on every run) -/
theorem encode_order_matches_source : Stun.encodeOrder = modelOrder := by decide

/-- the extracted wire constants are the RFC 5389 ones -/
theorem stun_constants_are_rfc5389 :
    Stun.magicCookie = 0x2112A442 ∧ Stun.headerSize = 20 ∧ Stun.idSize = 12 ∧ Stun.fingerprintXor = 0x5354554e ∧
    Stun.familyIPv4 = 1 ∧ Stun.familyIPv6 = 2 ∧ Stun.messageIntegrity = 0x0008 ∧ Stun.fingerprint = 0x8028 ∧
    Stun.miAdjust = 24 ∧ Stun.fpAdjust = 8 := by decide

end Qx.C14
