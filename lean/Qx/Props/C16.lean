import Qx.Proofs.C16
/-!
# C16 — the server routes only for authenticated clients and stamps their true address

Property theorems only.  Model: `Qx/Model/C16Server.lean`; vocabulary (`Approved`, `JidOf`, `PreauthSafe`,
`ReplySafe`, `Along`, `NeedsAuth`) and helpers: `Qx/Proofs/C16.lean`.

All statements quantify over every password checker (`cfg.check`, `cfg.digestOf`), every domain, every
number of connections and every interleaved script of any length over the client alphabet
(`Ev`: stream open, `<auth/>`/`<authenticate/>` with any mechanism name and payload, `<response/>`, `<abort/>`,
bind, session, message/presence/iq with any from/to, stream close) plus `deliver i` = "the checker finishes
its i-th outstanding reply".

Today's code (`cfg.fixPreauth = false`, `cfg.fixReply = false`) violates three of the five claims; for each
there is a `C16_defect_*` theorem with a witness, a `*_partial` theorem naming the hypothesis under which it
holds today, and a `*_fixed` theorem showing that it holds for every script once the corresponding diff in
`/verif/fixes` is applied.  `Out.ub` marks the places where the C++ has undefined behaviour (null `saslServer`,
disengaged `sasl2AuthRequest`); the model closes the connection there, so nothing is claimed about what the
real process does after such a point.
-/
namespace Qx.C16

/-- both safety conditions, as one predicate on (state, operation) -/
abbrev Safe (cfg : Cfg) : Server → Nat × Ev → Prop := fun s op => PreauthSafe cfg s op ∧ ReplySafe cfg s op

/-! ## 1. who a connection is accepted as -/

/-- **auth_only_if_checker_approved (partial).**  FULL STATEMENT (false today, see the two defect theorems
below): for every checker, script and connection `c`, if the server-side jid of `c` is non-empty then it is
`u@domain` or `u@domain/resource` for a user `u` for which `c` itself has sent a credential that the checker
approves (`check u p = ok` for a PLAIN pair, resp. a DIGEST-MD5 response computed from exactly `digestOf u`).
PROVED HERE under the hypothesis `Along … Safe`: (a) no bind/session/stanza is sent on a connection whose jid
is still empty, and (b) no element is processed on a connection while a checker reply for it is outstanding.
ANONYMOUS never sets a jid (it is covered by the same statement: no credential, no jid). -/
theorem auth_only_if_checker_approved_partial (cfg : Cfg) (ops : List (Nat × Ev)) (c : Nat)
    (hsafe : Along cfg (Safe cfg) init ops) :
    ((run cfg init ops).1.conns c).jid ≠ [] →
      ∃ u, Approved cfg ops c u ∧ JidOf cfg u ((run cfg init ops).1.conns c).jid := by
  have h := servInv_run cfg ops [] init (servInv_init cfg) hsafe
  simp only [List.nil_append] at h
  exact (h c).jid_ok

/-- **auth_only_if_checker_approved, full strength, for the code with both fixes applied**: every script. -/
theorem auth_only_if_checker_approved_fixed (cfg : Cfg) (h1 : cfg.fixPreauth = true) (h2 : cfg.fixReply = true)
    (ops : List (Nat × Ev)) (c : Nat) :
    ((run cfg init ops).1.conns c).jid ≠ [] →
      ∃ u, Approved cfg ops c u ∧ JidOf cfg u ((run cfg init ops).1.conns c).jid :=
  auth_only_if_checker_approved_partial cfg ops c
    (along_of_fixed cfg _ (fun _ _ => ⟨Or.inl h1, Or.inl h2⟩) ops init)

/-- the resource part never eats into the user: when neither the approved user name nor the domain contains
'/', "u@domain cut at its first '/'" is just `u@domain` -/
theorem jidOf_plain (cfg : Cfg) (u j : List Char) (h : JidOf cfg u j) (hu : '/' ∉ mkBare u cfg.domain) :
    j = mkBare u cfg.domain ∨ ∃ r, j = mkBare u cfg.domain ++ '/' :: r := by
  rcases h with h | ⟨r, h⟩
  · exact Or.inl h
  · exact Or.inr ⟨r, by rw [h, withRes, bareOf_eq_self _ hu]⟩

/-! ## 2. nothing is bound, routed or answered before authentication -/

/-- **routes_only_authenticated / bind_only_authenticated / nothing answered (partial).**  FULL STATEMENT (false
today): in the log of every script, every output that presupposes an authenticated sender `c` — a stanza
handed to routing (`routed`), delivered (`deliver`) or answered by the server (`reply`), a bound resource
(`connected`), a bind or session result — is preceded by an authentication record `authed c _` of that same
connection.  PROVED HERE under `Along … PreauthSafe` (no bind/session/stanza while the jid is empty). -/
theorem needs_auth_only_authenticated_partial (cfg : Cfg) (ops : List (Nat × Ev))
    (hsafe : Along cfg (PreauthSafe cfg) init ops)
    (pre : List Out) (x : Out) (post : List Out) (c : Nat)
    (hlog : (run cfg init ops).2 = pre ++ x :: post) (hx : NeedsAuth c x) : ∃ j, Out.authed c j ∈ pre := by
  simpa using run_needsAuth cfg ops init [] authLog_init hsafe pre x post c hlog hx

/-- `routes_only_authenticated` (partial): the instance for stanzas handed to routing -/
theorem routes_only_authenticated_partial (cfg : Cfg) (ops : List (Nat × Ev))
    (hsafe : Along cfg (PreauthSafe cfg) init ops) (pre post : List Out) (c : Nat) (st : Stanza)
    (hlog : (run cfg init ops).2 = pre ++ .routed c st :: post) : ∃ j, Out.authed c j ∈ pre :=
  needs_auth_only_authenticated_partial cfg ops hsafe pre _ post c hlog rfl

/-- `bind_only_authenticated` (partial): the instance for bound resources (`clientConnected`) -/
theorem bind_only_authenticated_partial (cfg : Cfg) (ops : List (Nat × Ev))
    (hsafe : Along cfg (PreauthSafe cfg) init ops) (pre post : List Out) (c : Nat) (jid : List Char)
    (hlog : (run cfg init ops).2 = pre ++ .connected c jid :: post) : ∃ j, Out.authed c j ∈ pre :=
  needs_auth_only_authenticated_partial cfg ops hsafe pre _ post c hlog rfl

/-- the same three claims at **full strength for the code with fixes/C16-preauth.diff applied**: every script -/
theorem needs_auth_only_authenticated_fixed (cfg : Cfg) (h1 : cfg.fixPreauth = true) (ops : List (Nat × Ev))
    (pre : List Out) (x : Out) (post : List Out) (c : Nat)
    (hlog : (run cfg init ops).2 = pre ++ x :: post) (hx : NeedsAuth c x) : ∃ j, Out.authed c j ∈ pre :=
  needs_auth_only_authenticated_partial cfg ops (along_of_fixed cfg _ (fun _ _ => Or.inl h1) ops init) pre x post c hlog hx

/-! ## 3. the stamped address is the sender's own -/

/-- **from_is_authenticated_jid** (holds today, every state, every operation): a stanza that connection `c`
hands to routing carries as `from` the server-side jid of `c` or its bare form, and that step leaves the jid
unchanged. -/
theorem from_is_authenticated_jid (cfg : Cfg) (s : Server) (op : Nat × Ev) (c : Nat) (st : Stanza)
    (h : Out.routed c st ∈ (step cfg s op).2) :
    (st.sender = (s.conns c).jid ∨ st.sender = bareOf (s.conns c).jid) ∧
      ((step cfg s op).1.conns c).jid = (s.conns c).jid := by
  obtain ⟨_, st', hs, hj, hk⟩ := step_stanza_origin cfg s op _ h c st (Or.inl ⟨c, rfl, rfl⟩)
  rw [hs] at hj
  exact ⟨hj, hk⟩

/-- **cannot_spoof** (holds today, every state, every operation): whatever the server writes to any
connection `dst` as a stanza coming from connection `src` carries `src`'s own server-side jid (full or bare)
as `from` — a `from` naming anybody else is dropped before routing. -/
theorem cannot_spoof (cfg : Cfg) (s : Server) (op : Nat × Ev) (src dst : Nat) (st : Stanza)
    (h : Out.deliver src dst st ∈ (step cfg s op).2) :
    st.sender = (s.conns src).jid ∨ st.sender = bareOf (s.conns src).jid := by
  obtain ⟨_, st', hs, hj, _⟩ := step_stanza_origin cfg s op _ h src st (Or.inr (Or.inl ⟨dst, rfl⟩))
  rw [hs] at hj
  exact hj

/-- server-generated answers (`feature-not-implemented`, `service-unavailable`) are addressed to the stamped
sender, i.e. to the requesting connection's own jid (full or bare) — never to a third party of the client's
choosing (holds today). -/
theorem replies_addressed_to_sender (cfg : Cfg) (s : Server) (op : Nat × Ev) (src dst : Nat)
    (id f t : List Char) (cond : Cond) (h : Out.reply src dst (.iqError id f t cond) ∈ (step cfg s op).2) :
    t = (s.conns src).jid ∨ t = bareOf (s.conns src).jid := by
  unfold step at h
  obtain ⟨co, hco, s', hs'⟩ := applyOuts_mem cfg op.1 _ _ _ h
  obtain ⟨h1, st0, f0, cond0, h2, h3⟩ := (applyOut_stanza_origin cfg s' op.1 co _ hs').2.2 _ _ _ rfl
  injection h3 with _ _ hto _
  rw [h2] at hco
  have hem := connStep_emit cfg (freshRes s.gen) (s.conns op.1) op.2 st0 hco
  rw [hto, h1]
  exact hem.1

/-- **cannot_spoof, combined with 1. (partial / fixed via `along_of_fixed`)**: in a script that satisfies the
two safety conditions, the `from` of every stanza delivered on behalf of `src` is the full or bare jid of a
user `u` whose credential, sent by `src` itself, the checker approved. -/
theorem cannot_spoof_approved_partial (cfg : Cfg) (ops : List (Nat × Ev)) (op : Nat × Ev)
    (hsafe : Along cfg (Safe cfg) init ops) (hop : PreauthSafe cfg (run cfg init ops).1 op)
    (src dst : Nat) (st : Stanza) (h : Out.deliver src dst st ∈ (step cfg (run cfg init ops).1 op).2) :
    ∃ u, Approved cfg ops src u ∧ JidOf cfg u ((run cfg init ops).1.conns src).jid ∧
      (st.sender = ((run cfg init ops).1.conns src).jid ∨ st.sender = bareOf ((run cfg init ops).1.conns src).jid) := by
  have hfrom := cannot_spoof cfg _ op src dst st h
  have hne : ((run cfg init ops).1.conns src).jid ≠ [] := by
    have h' := h
    unfold step at h'
    obtain ⟨co, hco, s', hs'⟩ := applyOuts_mem cfg op.1 _ _ _ h'
    obtain ⟨h1, h2⟩ := (applyOut_stanza_origin cfg s' op.1 co _ hs').2.1 _ _ _ rfl
    rw [h2] at hco
    rw [h1]
    exact connStep_emit_jid_ne cfg _ _ _ st hop hco
  obtain ⟨u, hu, hj⟩ := auth_only_if_checker_approved_partial cfg ops src hsafe hne
  exact ⟨u, hu, hj, hfrom⟩

/-! ## 4. what today's code does instead (defects, with witnesses) -/

/-- a checker that knows one account: user "m" with password "p" (digest token "h") -/
def demoCfg : Cfg :=
  { domain := ['d']
    check := fun u p => if u = ['m'] ∧ p = ['p'] then .ok else .bad
    digestOf := fun u => if u = ['m'] then .digest ['h'] else .nouser }

def plainName : List Char := ['P', 'L', 'A', 'I', 'N']
def victimJid : List Char := ['v', '@', 'd', '/', 'v']

/-- a message without `from`, to the victim's full jid -/
def msgToVictim : Ev := .stanza { kind := .message, sender := [], to := victimJid }

/-- **Defect (C16:preauth-stanza-routed).**  `routes_only_authenticated` is false for today's code: after nothing
but a stream header, a message is stamped `from=""`, handed to routing — with no authentication record
anywhere before it. -/
theorem C16_defect_preauth_stanza_routed :
    ¬ (∀ (cfg : Cfg), cfg.fixPreauth = false → ∀ (ops : List (Nat × Ev)) (pre post : List Out) (c : Nat) (st : Stanza),
        (run cfg init ops).2 = pre ++ .routed c st :: post → ∃ j, Out.authed c j ∈ pre) := by
  intro h
  have h1 := h demoCfg rfl [(1, .openStream ['d']), (1, msgToVictim)]
    [.send 1 .hdr, .send 1 (.features false false true (some true))] [] 1
    { kind := .message, sender := [], to := victimJid } (by decide)
  simp at h1

/-- …and the stamped stanza really reaches a logged-in user: with the victim (connection 0, user "m" here)
logged in, the unauthenticated connection 1's message is written to connection 0's socket with `from=""`. -/
theorem C16_defect_preauth_stanza_delivered :
    Out.deliver 1 0 { kind := .message, sender := [], to := ['m', '@', 'd', '/', 'v'] } ∈
      (run demoCfg init
        [(0, .openStream ['d']), (0, .auth false plainName (.creds ['m'] ['p']) false), (0, .deliver 0), (0, .bind ['v']),
         (1, .openStream ['d']),
         (1, .stanza { kind := .message, sender := [], to := ['m', '@', 'd', '/', 'v'] })]).2 := by
  decide

/-- **Defect (C16:preauth-bind).**  `bind_only_authenticated` and `auth_only_if_checker_approved` are false for
today's code: a bind request right after the stream header is answered, the connection gets the jid "/r"
(non-empty, belonging to no user at all) and is registered for routing under it. -/
theorem C16_defect_preauth_bind :
    ¬ (∀ (cfg : Cfg), cfg.fixPreauth = false → cfg.fixReply = false → ∀ (ops : List (Nat × Ev)) (c : Nat),
        ((run cfg init ops).1.conns c).jid ≠ [] →
          ∃ u, Approved cfg ops c u ∧ JidOf cfg u ((run cfg init ops).1.conns c).jid) := by
  intro h
  obtain ⟨u, ⟨ev, hm, ha⟩, _⟩ := h demoCfg rfl rfl [(1, .openStream ['d']), (1, .bind ['r'])] 1 (by decide)
  simp only [List.mem_cons, List.not_mem_nil, or_false, Prod.mk.injEq, true_and] at hm
  rcases hm with rfl | rfl <;> simp [Approves, Ev.payload] at ha

theorem C16_defect_preauth_bind_connected :
    (run demoCfg init [(1, .openStream ['d']), (1, .bind ['r'])]).2 =
      [.send 1 .hdr, .send 1 (.features false false true (some true)),
       .send 1 (.bindResult ['/', 'r']), .connected 1 ['/', 'r']] := by
  decide

/-- **Defect (C16:preauth-session-answered).**  A session request before authentication is answered. -/
theorem C16_defect_preauth_session_answered :
    ¬ (∀ (cfg : Cfg), cfg.fixPreauth = false → ∀ (ops : List (Nat × Ev)) (pre post : List Out) (c : Nat) (x : Out),
        (run cfg init ops).2 = pre ++ x :: post → NeedsAuth c x → ∃ j, Out.authed c j ∈ pre) := by
  intro h
  have h1 := h demoCfg rfl [(1, .openStream ['d']), (1, .session)]
    [.send 1 .hdr, .send 1 (.features false false true (some true))] [] 1 (.send 1 (.sessionResult [])) (by decide) rfl
  simp at h1

/-- **Defect (C16:reply-confusion).**  `auth_only_if_checker_approved` is false for today's code even for clients
that never send a stanza before they are authenticated: the reply to a password check is applied to whatever
SASL object is current when it arrives.  Witness: `<auth>` with the attacker's own good credentials ("m","p"),
a second `<auth>` naming the victim "v" with a wrong password before the first reply has arrived, then the
first reply (ok): the connection is now `v@d`, although no credential for "v" was ever approved. -/
theorem C16_defect_reply_confusion :
    ¬ (∀ (cfg : Cfg), cfg.fixReply = false → ∀ (ops : List (Nat × Ev)) (c : Nat),
        Along cfg (PreauthSafe cfg) init ops →
        ((run cfg init ops).1.conns c).jid ≠ [] →
          ∃ u, Approved cfg ops c u ∧ JidOf cfg u ((run cfg init ops).1.conns c).jid) := by
  intro h
  obtain ⟨u, ⟨ev, hm, ha⟩, hj⟩ := h demoCfg rfl
    [(1, .openStream ['d']), (1, .auth false plainName (.creds ['m'] ['p']) false),
     (1, .auth false plainName (.creds ['v'] ['x']) false), (1, .deliver 0)] 1 (by decide) (by decide)
  have hjid : ((run demoCfg init [(1, .openStream ['d']), (1, .auth false plainName (.creds ['m'] ['p']) false),
     (1, .auth false plainName (.creds ['v'] ['x']) false), (1, .deliver 0)]).1.conns 1).jid = ['v', '@', 'd'] := by decide
  rw [hjid] at hj
  simp only [List.mem_cons, List.not_mem_nil, or_false, Prod.mk.injEq, true_and] at hm
  have hu : u = ['m'] := by
    rcases hm with rfl | rfl | rfl | rfl
    · simp [Approves, Ev.payload] at ha
    · simp only [Approves, Ev.payload] at ha
      exact ha.1.symm
    · simp only [Approves, Ev.payload] at ha
      obtain ⟨hv, hc⟩ := ha
      subst hv
      exact absurd hc (by decide)
    · simp [Approves, Ev.payload] at ha
  subst hu
  rcases hj with hj | ⟨r, hj⟩
  · exact absurd hj (by decide)
  · simp [withRes, bareOf, mkBare, demoCfg, List.takeWhile] at hj

/-! ## 5. non-vacuity: the hypotheses are met by real, non-trivial scripts -/

/-- PLAIN login, bind, session, a message to somebody: satisfies both safety conditions … -/
def goodScript : List (Nat × Ev) :=
  [(1, .openStream ['d']), (1, .auth false plainName (.creds ['m'] ['p']) false), (1, .deliver 0),
   (1, .openStream ['d']), (1, .bind ['r']), (1, .session),
   (1, .stanza { kind := .message, sender := [], to := ['x', '@', 'd'] })]

example : Along demoCfg (Safe demoCfg) init goodScript := by decide
/-- … ends authenticated and bound … -/
example : ((run demoCfg init goodScript).1.conns 1).jid = ['m', '@', 'd', '/', 'r'] := by decide
/-- … and its log contains the authentication record, the bound resource and the routed stanza, stamped with
the full jid. -/
example : (run demoCfg init goodScript).2 =
    [.send 1 .hdr, .send 1 (.features false false true (some true)),
     .authed 1 ['m', '@', 'd'], .send 1 .success1,
     .send 1 .hdr, .send 1 (.features true true false none),
     .send 1 (.bindResult ['m', '@', 'd', '/', 'r']), .connected 1 ['m', '@', 'd', '/', 'r'],
     .send 1 (.sessionResult ['m', '@', 'd', '/', 'r']),
     .routed 1 { kind := .message, sender := ['m', '@', 'd', '/', 'r'], to := ['x', '@', 'd'] }] := by decide

/-- DIGEST-MD5 login with the right digest: approved through the `dresp` clause of `Approves` -/
example : ((run demoCfg init
    [(1, .openStream ['d']), (1, .auth false ['D', 'I', 'G', 'E', 'S', 'T', '-', 'M', 'D', '5'] .empty false),
     (1, .response false (.dresp ['m'] ['h'] true)), (1, .deliver 0), (1, .response false .empty)]).1.conns 1).jid
    = ['m', '@', 'd'] := by decide

/-- a spoofed `from` is dropped, the sender's own bare jid is accepted (hypothesis of `cannot_spoof` is met) -/
example : (step demoCfg (run demoCfg init goodScript).1
    (1, .stanza { kind := .message, sender := ['v', '@', 'd'], to := ['m', '@', 'd', '/', 'r'] })).2 = [] := by decide
example : (step demoCfg (run demoCfg init goodScript).1
    (1, .stanza { kind := .message, sender := ['m', '@', 'd'], to := ['m', '@', 'd', '/', 'r'] })).2 =
    [.routed 1 { kind := .message, sender := ['m', '@', 'd'], to := ['m', '@', 'd', '/', 'r'] },
     .deliver 1 1 { kind := .message, sender := ['m', '@', 'd'], to := ['m', '@', 'd', '/', 'r'] }] := by decide

/-- with the fixes switched on, the two witnesses above no longer work: the stanza before authentication ends
the stream, and the stale reply is dropped with the SASL object that asked for it -/
example : (run { demoCfg with fixPreauth := true } init [(1, .openStream ['d']), (1, msgToVictim)]).2 =
    [.send 1 .hdr, .send 1 (.features false false true (some true)),
     .send 1 (.streamError .streamNotAuthorized), .send 1 .streamEnd, .closed 1] := by decide
example : ((run { demoCfg with fixReply := true } init
    [(1, .openStream ['d']), (1, .auth false plainName (.creds ['m'] ['p']) false),
     (1, .auth false plainName (.creds ['v'] ['x']) false), (1, .deliver 0)]).1.conns 1).jid = [] := by decide

end Qx.C16
