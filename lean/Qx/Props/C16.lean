import Qx.Proofs.C16
/-!
# C16 — the server routes only for authenticated clients and stamps their true address

Property theorems only.  Model: `Qx/Model/C16Server.lean`; vocabulary (`Approved`, `JidOf`, `NeedsAuth`) and
helpers: `Qx/Proofs/C16.lean`.

All statements quantify over every password checker (`cfg.check`, `cfg.digestOf`), every domain, every
number of connections and every interleaved script of any length over the client alphabet
(`Ev`: stream open, `<auth/>`/`<authenticate/>` with any mechanism name and payload, `<response/>`, `<abort/>`,
bind, session, message/presence/iq with any from/to, stream close) plus `deliver i` = "the checker finishes
its i-th outstanding reply" — in any order, including stanzas before authentication and elements sent while
a checker reply is still outstanding.  No hypothesis on the script.

What is proved, exactly:
* `auth_only_if_checker_approved` — a non-empty jid is "u@domain cut at its first '/'", optionally followed by
  "/resource", for a user name `u` whose credential the checker approved.  NOT proved, and false today
  (`C16_defect_username_with_slash`): that this is literally `u@domain[/resource]`; it is when no approved name
  contains '/' (`*_literal_partial`).  The server does not reject names containing '/' or '@'
  (finding C16:username-with-slash, fixes/C16-username-chars.diff).  A PLAIN authorization identity is ignored.
* `needs_auth_only_authenticated` (+ `routes_`/`bind_only_authenticated`) — unconditional.
* `from_is_authenticated_jid`, `cannot_spoof`, `replies_addressed_to_sender`, `cannot_spoof_approved` — for EVERY
  server state and every interleaving of any number of connections: the `from` of a routed/delivered stanza is
  the sending connection's own server-side jid or its `jidToBareJid`; comparison is exact (another case, another
  resource, another connection of the same user: dropped).
* `Out.ub` marks the places where the C++ has undefined behaviour: a SASL2 success with an unset
  `sasl2AuthRequest` (finding C16:sasl2-request-unset), and a write through a routing-table entry that outlived its
  connection (finding C16:stale-routing-entry; both crash the real server).  Nothing is claimed about the real
  process after such a point.
* Out of scope: server-to-server (`QXmppIncomingServer`/`QXmppOutgoingServer`, dialback) — the modelled server
  has no S2S listener, stanzas for other domains are not routed; server extensions; TLS.

History: the four findings of the first round (pre-authentication stanza routed / bind / session answered;
checker reply applied to a later SASL exchange) were fixed by repo commits 73b9a89 and e590a14; their witnesses
are the first scripts of the harness corpus.
-/
namespace Qx.C16

/-! ## 1. who a connection is accepted as -/

/-- **auth_only_if_checker_approved.**  For every checker, script and connection `c`: if the server-side jid of
`c` is non-empty then it is `u@domain` or `u@domain/resource` for a user `u` for which `c` itself has sent a
credential that the checker approves (`check u p = ok` for a PLAIN pair, resp. a DIGEST-MD5 response computed
from exactly `digestOf u`).  ANONYMOUS never sets a jid (same statement: no credential, no jid). -/
theorem auth_only_if_checker_approved (cfg : Cfg) (ops : List (Nat × Ev)) (c : Nat) :
    ((run cfg init ops).1.conns c).jid ≠ [] →
      ∃ u, Approved cfg ops c u ∧ JidOf cfg u ((run cfg init ops).1.conns c).jid := by
  have h := servInv_run cfg ops [] init (servInv_init cfg)
  simp only [List.nil_append] at h
  exact (h c).jid_ok

/-- **auth_only_if_checker_approved, for a checker written the documented way** (only `getPassword()`; the
library's default `checkPassword()` / `getDigest()` do the rest): a non-empty jid is `u@domain[/resource]` for a
user `u` for which the connection itself sent the PLAIN pair (u, p) with `getPassword u = NoError p`, or a
DIGEST-MD5 response computed from MD5(u:domain:p) for that `p`.  In particular a user for whom `getPassword`
reports an error (unknown, rejected, temporarily failing) is never accepted — not with the empty password either. -/
theorem auth_only_if_getPassword_approves (domain : List Char) (gp : List Char → PwRes)
    (md5 : List Char → List Char → List Char) (ops : List (Nat × Ev)) (c : Nat) :
    ((run (Cfg.ofGetPassword domain gp md5) init ops).1.conns c).jid ≠ [] →
      ∃ u, (∃ ev, (c, ev) ∈ ops ∧ GpApproves gp md5 ev u) ∧
        JidOf (Cfg.ofGetPassword domain gp md5) u ((run (Cfg.ofGetPassword domain gp md5) init ops).1.conns c).jid := by
  intro hj
  obtain ⟨u, ⟨ev, hm, ha⟩, hjid⟩ := auth_only_if_checker_approved (Cfg.ofGetPassword domain gp md5) ops c hj
  exact ⟨u, ⟨ev, hm, gpApproves_of_approves domain gp md5 ev u ha⟩, hjid⟩

/-- the resource part never eats into the user: when neither the approved user name nor the domain contains
'/', "u@domain cut at its first '/'" is just `u@domain` -/
theorem jidOf_plain (cfg : Cfg) (u j : List Char) (h : JidOf cfg u j) (hu : '/' ∉ mkBare u cfg.domain) :
    j = mkBare u cfg.domain ∨ ∃ r, j = mkBare u cfg.domain ++ '/' :: r := by
  rcases h with h | ⟨r, h⟩
  · exact Or.inl h
  · exact Or.inr ⟨r, by rw [h, withRes, bareOf_eq_self _ hu]⟩

/-- "u@domain" or "u@domain/resource", literally -/
def CleanJid (cfg : Cfg) (u j : List Char) : Prop :=
  j = mkBare u cfg.domain ∨ ∃ r, j = mkBare u cfg.domain ++ '/' :: r

/-- **auth_only_if_checker_approved, literal form (partial).**  FULL STATEMENT (false today, see
`C16_defect_username_with_slash`): the jid is literally `u@domain` or `u@domain/resource` for an approved `u`.
PROVED HERE under the hypothesis that no name the checker approves for this connection (nor the domain) contains
'/': the server itself does not reject such names (fixes/C16-username-chars.diff makes it do so). -/
theorem auth_only_if_checker_approved_literal_partial (cfg : Cfg) (ops : List (Nat × Ev)) (c : Nat)
    (hname : ∀ u, Approved cfg ops c u → '/' ∉ mkBare u cfg.domain) :
    ((run cfg init ops).1.conns c).jid ≠ [] →
      ∃ u, Approved cfg ops c u ∧ CleanJid cfg u ((run cfg init ops).1.conns c).jid := by
  intro hj
  obtain ⟨u, hu, hjid⟩ := auth_only_if_checker_approved cfg ops c hj
  exact ⟨u, hu, jidOf_plain cfg u _ hjid (hname u hu)⟩

/-! ## 2. nothing is bound, routed or answered before authentication -/

/-- **needs_auth_only_authenticated.**  In the log of every script, every output that presupposes an
authenticated sender `c` — a stanza handed to routing (`routed`), delivered (`deliver`) or answered by the server
(`reply`), a bound resource (`connected`), a bind or session result — is preceded by an authentication record
`authed c _` of that same connection. -/
theorem needs_auth_only_authenticated (cfg : Cfg) (ops : List (Nat × Ev))
    (pre : List Out) (x : Out) (post : List Out) (c : Nat)
    (hlog : (run cfg init ops).2 = pre ++ x :: post) (hx : NeedsAuth c x) : ∃ j, Out.authed c j ∈ pre := by
  simpa using run_needsAuth cfg ops init [] authLog_init pre x post c hlog hx

/-- **routes_only_authenticated**: the instance for stanzas handed to routing -/
theorem routes_only_authenticated (cfg : Cfg) (ops : List (Nat × Ev)) (pre post : List Out) (c : Nat) (st : Stanza)
    (hlog : (run cfg init ops).2 = pre ++ .routed c st :: post) : ∃ j, Out.authed c j ∈ pre :=
  needs_auth_only_authenticated cfg ops pre _ post c hlog rfl

/-- **bind_only_authenticated**: the instance for bound resources (`clientConnected`) -/
theorem bind_only_authenticated (cfg : Cfg) (ops : List (Nat × Ev)) (pre post : List Out) (c : Nat) (jid : List Char)
    (hlog : (run cfg init ops).2 = pre ++ .connected c jid :: post) : ∃ j, Out.authed c j ∈ pre :=
  needs_auth_only_authenticated cfg ops pre _ post c hlog rfl

/-! ## 3. the stamped address is the sender's own -/

/-- **from_is_authenticated_jid** (holds today, every state, every operation): a stanza that connection `c`
hands to routing carries as `from` the server-side jid of `c` or its bare form, and that step leaves the jid
unchanged. -/
theorem from_is_authenticated_jid (cfg : Cfg) (s : Server) (op : Nat × Ev) (c : Nat) (st : Stanza)
    (h : Out.routed c st ∈ (step cfg s op).2) :
    (st.sender = (s.conns c).jid ∨ st.sender = bareOf (s.conns c).jid) ∧
      ((step cfg s op).1.conns c).jid = (s.conns c).jid := by
  obtain ⟨_, st', hs, hj, hk⟩ := step_stanza_origin cfg s op _ h c st (Or.inl ⟨c, rfl, rfl⟩)
  rw [hs] at hj
  exact ⟨hj, hk⟩

/-- **cannot_spoof** (holds today, every state, every operation): whatever the server writes to any
connection `dst` as a stanza coming from connection `src` carries `src`'s own server-side jid (full or bare)
as `from` — a `from` naming anybody else is dropped before routing. -/
theorem cannot_spoof (cfg : Cfg) (s : Server) (op : Nat × Ev) (src dst : Nat) (st : Stanza)
    (h : Out.deliver src dst st ∈ (step cfg s op).2) :
    st.sender = (s.conns src).jid ∨ st.sender = bareOf (s.conns src).jid := by
  obtain ⟨_, st', hs, hj, _⟩ := step_stanza_origin cfg s op _ h src st (Or.inr (Or.inl ⟨dst, rfl⟩))
  rw [hs] at hj
  exact hj

/-- server-generated answers (`feature-not-implemented`, `service-unavailable`) are addressed to the stamped
sender, i.e. to the requesting connection's own jid (full or bare) — never to a third party of the client's
choosing (holds today). -/
theorem replies_addressed_to_sender (cfg : Cfg) (s : Server) (op : Nat × Ev) (src dst : Nat)
    (id f t : List Char) (cond : Cond) (h : Out.reply src dst (.iqError id f t cond) ∈ (step cfg s op).2) :
    t = (s.conns src).jid ∨ t = bareOf (s.conns src).jid := by
  unfold step at h
  obtain ⟨co, hco, s', hs'⟩ := applyOuts_mem cfg op.1 _ _ _ h
  obtain ⟨h1, st0, f0, cond0, h2, h3⟩ := (applyOut_stanza_origin cfg s' op.1 co _ hs').2.2 _ _ _ rfl
  injection h3 with _ _ hto _
  rw [h2] at hco
  have hem := connStep_emit cfg (freshRes s.gen) (s.conns op.1) op.2 st0 hco
  rw [hto, h1]
  exact hem.1

/-- **cannot_spoof_approved** (cannot_spoof combined with 1.): the `from` of every stanza delivered on behalf of
`src`, after any script, is the full or bare jid of a user `u` whose credential, sent by `src` itself, the
checker approved. -/
theorem cannot_spoof_approved (cfg : Cfg) (ops : List (Nat × Ev)) (op : Nat × Ev)
    (src dst : Nat) (st : Stanza) (h : Out.deliver src dst st ∈ (step cfg (run cfg init ops).1 op).2) :
    ∃ u, Approved cfg ops src u ∧ JidOf cfg u ((run cfg init ops).1.conns src).jid ∧
      (st.sender = ((run cfg init ops).1.conns src).jid ∨ st.sender = bareOf ((run cfg init ops).1.conns src).jid) := by
  have hfrom := cannot_spoof cfg _ op src dst st h
  have hne : ((run cfg init ops).1.conns src).jid ≠ [] := by
    have h' := h
    unfold step at h'
    obtain ⟨co, hco, s', hs'⟩ := applyOuts_mem cfg op.1 _ _ _ h'
    obtain ⟨h1, h2⟩ := (applyOut_stanza_origin cfg s' op.1 co _ hs').2.1 _ _ _ rfl
    rw [h2] at hco
    rw [h1]
    exact connStep_emit_jid_ne cfg _ _ _ st hco
  obtain ⟨u, hu, hj⟩ := auth_only_if_checker_approved cfg ops src hne
  exact ⟨u, hu, hj, hfrom⟩

/-- **cannot_spoof, literal form (partial).**  FULL STATEMENT (false today, `C16_defect_slash_name_spoofs`): the
`from` of a delivered stanza is literally `u@domain` or `u@domain/resource` for a user `u` approved for the
sending connection.  PROVED HERE under the same hypothesis: no approved name (nor the domain) contains '/'. -/
theorem cannot_spoof_literal_partial (cfg : Cfg) (ops : List (Nat × Ev)) (op : Nat × Ev)
    (src dst : Nat) (st : Stanza) (h : Out.deliver src dst st ∈ (step cfg (run cfg init ops).1 op).2)
    (hname : ∀ u, Approved cfg ops src u → '/' ∉ mkBare u cfg.domain) :
    ∃ u, Approved cfg ops src u ∧ CleanJid cfg u st.sender := by
  obtain ⟨u, hu, hjid, hfrom⟩ := cannot_spoof_approved cfg ops op src dst st h
  have hn := hname u hu
  have hclean := jidOf_plain cfg u _ hjid hn
  refine ⟨u, hu, ?_⟩
  rcases hfrom with hf | hf
  · rw [hf]; exact hclean
  · rw [hf]
    rcases hclean with hc | ⟨r, hc⟩
    · rw [hc, bareOf_eq_self _ hn]; exact Or.inl rfl
    · left
      rw [hc]
      have : bareOf (mkBare u cfg.domain ++ '/' :: r) = bareOf (mkBare u cfg.domain) := by
        have h1 := bareOf_withRes (mkBare u cfg.domain) r
        rw [withRes, bareOf_eq_self _ hn] at h1
        rw [h1, bareOf_eq_self _ hn]
      rw [this, bareOf_eq_self _ hn]

/-! ## 4. what today's code does instead (defects, with witnesses) -/

/-- a checker with the account "v"/"p" and — as a registration-open or pass-through checker would allow — an
account literally named "v@d/x" (password "q") -/
def slashCfg : Cfg :=
  { domain := ['d']
    check := fun u p =>
      if (u = ['v'] ∧ p = ['p']) ∨ (u = ['v', '@', 'd', '/', 'x'] ∧ p = ['q']) then .ok else .bad
    digestOf := fun _ => .nouser }

/-- **Defect (C16:username-with-slash).**  The literal form of `auth_only_if_checker_approved` is false for
today's code: a connection approved as the user "v@d/x" gets the jid "v@d/x@d"; `jidToBareJid` cuts it at the
first '/', so after a bind it is `v@d/r` — an address of the user "v", for whom nothing was approved. -/
theorem C16_defect_username_with_slash :
    ¬ (∀ (cfg : Cfg) (ops : List (Nat × Ev)) (c : Nat), ((run cfg init ops).1.conns c).jid ≠ [] →
        ∃ u, Approved cfg ops c u ∧ CleanJid cfg u ((run cfg init ops).1.conns c).jid) := by
  intro h
  have hjid : ((run slashCfg init [(1, .openStream ['d']),
      (1, .auth false ['P', 'L', 'A', 'I', 'N'] (.creds ['v', '@', 'd', '/', 'x'] ['q']) false), (1, .deliver 0),
      (1, .bind ['r'])]).1.conns 1).jid = ['v', '@', 'd', '/', 'r'] := by decide
  obtain ⟨u, ⟨ev, hm, ha⟩, hj⟩ := h slashCfg [(1, .openStream ['d']),
      (1, .auth false ['P', 'L', 'A', 'I', 'N'] (.creds ['v', '@', 'd', '/', 'x'] ['q']) false), (1, .deliver 0),
      (1, .bind ['r'])] 1 (by rw [hjid]; decide)
  rw [hjid] at hj
  simp only [List.mem_cons, List.not_mem_nil, or_false, Prod.mk.injEq, true_and] at hm
  have hu : u = ['v', '@', 'd', '/', 'x'] := by
    rcases hm with rfl | rfl | rfl | rfl
    · simp [Approves, Ev.payload] at ha
    · simp only [Approves, Ev.payload] at ha
      exact ha.1.symm
    · simp [Approves, Ev.payload] at ha
    · simp [Approves, Ev.payload] at ha
  subst hu
  rcases hj with hj | ⟨r, hj⟩
  · exact absurd hj (by decide)
  · simp [mkBare, slashCfg] at hj

/-- …and it speaks for "v": with the real "v" logged in (connection 0), the connection approved as "v@d/x" sends
a message with `from='v@d'` (accepted: it is the "bare" form of its jid) which is delivered to v's own client —
and would be delivered to anybody else — as coming from `v@d`. -/
theorem C16_defect_slash_name_spoofs :
    Out.deliver 1 0 { kind := .message, sender := ['v', '@', 'd'], to := ['v', '@', 'd', '/', 'h'] } ∈
      (run slashCfg init
        [(0, .openStream ['d']), (0, .auth false ['P', 'L', 'A', 'I', 'N'] (.creds ['v'] ['p']) false), (0, .deliver 0),
         (0, .bind ['h']),
         (1, .openStream ['d']), (1, .auth false ['P', 'L', 'A', 'I', 'N'] (.creds ['v', '@', 'd', '/', 'x'] ['q']) false),
         (1, .deliver 0),
         (1, .stanza { kind := .message, sender := ['v', '@', 'd'], to := ['v', '@', 'd', '/', 'h'] })]).2 := by
  decide

/-! ## 5. concrete runs: the statements are about real, non-trivial scripts -/

/-- a checker that knows one account: user "m" with password "p" (digest token "h") -/
def demoCfg : Cfg :=
  { domain := ['d']
    check := fun u p => if u = ['m'] ∧ p = ['p'] then .ok else .bad
    digestOf := fun u => if u = ['m'] then .digest ['h'] else .nouser }

def plainName : List Char := ['P', 'L', 'A', 'I', 'N']

/-- PLAIN login, bind, session, a message to somebody … -/
def goodScript : List (Nat × Ev) :=
  [(1, .openStream ['d']), (1, .auth false plainName (.creds ['m'] ['p']) false), (1, .deliver 0),
   (1, .openStream ['d']), (1, .bind ['r']), (1, .session),
   (1, .stanza { kind := .message, sender := [], to := ['x', '@', 'd'] })]

/-- … ends authenticated and bound … -/
example : ((run demoCfg init goodScript).1.conns 1).jid = ['m', '@', 'd', '/', 'r'] := by decide
/-- … and its log contains the authentication record, the bound resource and the routed stanza, stamped with
the full jid. -/
example : (run demoCfg init goodScript).2 =
    [.send 1 .hdr, .send 1 (.features false false true (some true)),
     .authed 1 ['m', '@', 'd'], .send 1 .success1,
     .send 1 .hdr, .send 1 (.features true true false none),
     .send 1 (.bindResult ['m', '@', 'd', '/', 'r']), .connected 1 ['m', '@', 'd', '/', 'r'],
     .send 1 (.sessionResult ['m', '@', 'd', '/', 'r']),
     .routed 1 { kind := .message, sender := ['m', '@', 'd', '/', 'r'], to := ['x', '@', 'd'] }] := by decide

/-- DIGEST-MD5 login with the right digest: approved through the `dresp` clause of `Approves` -/
example : ((run demoCfg init
    [(1, .openStream ['d']), (1, .auth false ['D', 'I', 'G', 'E', 'S', 'T', '-', 'M', 'D', '5'] .empty false),
     (1, .response false (.dresp ['m'] ['h'] true)), (1, .deliver 0), (1, .response false .empty)]).1.conns 1).jid
    = ['m', '@', 'd'] := by decide

/-- the `getPassword`-only flavour: account "m"/"p"; a DIGEST-MD5 exchange as the unknown user "n" with the
response computed from the empty password (token `md5 n []`) fails, the right one for "m" succeeds -/
def demoGp : Cfg := Cfg.ofGetPassword ['d'] (fun u => if u = ['m'] then .ok ['p'] else .nouser) (fun u s => u ++ ':' :: s)
def digestName : List Char := ['D', 'I', 'G', 'E', 'S', 'T', '-', 'M', 'D', '5']

example : (run demoGp init
    [(1, .openStream ['d']), (1, .auth false digestName .empty false),
     (1, .response false (.dresp ['n'] ['n', ':'] true)), (1, .deliver 0)]).2 =
    [.send 1 .hdr, .send 1 (.features false false true (some true)), .send 1 (.chal false .nonce),
     .send 1 (.failure false .notAuthorized), .send 1 .streamEnd, .closed 1] := by decide
example : ((run demoGp init
    [(1, .openStream ['d']), (1, .auth false digestName .empty false),
     (1, .response false (.dresp ['m'] ['m', ':', 'p'] true)), (1, .deliver 0), (1, .response false .empty)]).1.conns 1).jid
    = ['m', '@', 'd'] := by decide

/-- a spoofed `from` is dropped, the sender's own bare jid is accepted (hypothesis of `cannot_spoof` is met) -/
example : (step demoCfg (run demoCfg init goodScript).1
    (1, .stanza { kind := .message, sender := ['v', '@', 'd'], to := ['m', '@', 'd', '/', 'r'] })).2 = [] := by decide
example : (step demoCfg (run demoCfg init goodScript).1
    (1, .stanza { kind := .message, sender := ['m', '@', 'd'], to := ['m', '@', 'd', '/', 'r'] })).2 =
    [.routed 1 { kind := .message, sender := ['m', '@', 'd'], to := ['m', '@', 'd', '/', 'r'] },
     .deliver 1 1 { kind := .message, sender := ['m', '@', 'd'], to := ['m', '@', 'd', '/', 'r'] }] := by decide

/-- the witnesses of the former defects (kept first in the harness corpus): a message before authentication
ends the stream with `not-authorized` and reaches nobody, … -/
example : (run demoCfg init
    [(0, .openStream ['d']), (0, .auth false plainName (.creds ['m'] ['p']) false), (0, .deliver 0), (0, .bind ['v']),
     (1, .openStream ['d']),
     (1, .stanza { kind := .message, sender := [], to := ['m', '@', 'd', '/', 'v'] })]).2 =
    [.send 0 .hdr, .send 0 (.features false false true (some true)), .authed 0 ['m', '@', 'd'], .send 0 .success1,
     .send 0 (.bindResult ['m', '@', 'd', '/', 'v']), .connected 0 ['m', '@', 'd', '/', 'v'],
     .send 1 .hdr, .send 1 (.features false false true (some true)),
     .send 1 (.streamError .streamNotAuthorized), .send 1 .streamEnd, .closed 1] := by decide
/-- … so do bind and session before authentication, … -/
example : (run demoCfg init [(1, .openStream ['d']), (1, .bind ['r'])]).2 =
    [.send 1 .hdr, .send 1 (.features false false true (some true)),
     .send 1 (.streamError .streamNotAuthorized), .send 1 .streamEnd, .closed 1] := by decide
example : (run demoCfg init [(1, .openStream ['d']), (1, .session)]).2 =
    [.send 1 .hdr, .send 1 (.features false false true (some true)),
     .send 1 (.streamError .streamNotAuthorized), .send 1 .streamEnd, .closed 1] := by decide
/-- … and the reply to the attacker's own good credentials dies with the SASL object that asked for it when a
second `<auth/>` (victim "v", wrong password) replaces it: nothing is left to deliver, no jid is set. -/
example : ((run demoCfg init
    [(1, .openStream ['d']), (1, .auth false plainName (.creds ['m'] ['p']) false),
     (1, .auth false plainName (.creds ['v'] ['x']) false), (1, .deliver 0), (1, .deliver 0)]).1.conns 1).jid = [] := by decide
example : (run demoCfg init
    [(1, .openStream ['d']), (1, .auth false plainName (.creds ['m'] ['p']) false),
     (1, .auth false plainName (.creds ['v'] ['x']) false), (1, .deliver 0)]).2 =
    [.send 1 .hdr, .send 1 (.features false false true (some true)),
     .send 1 (.failure false .notAuthorized), .send 1 .streamEnd, .closed 1] := by decide

end Qx.C16
