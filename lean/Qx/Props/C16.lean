import Qx.Proofs.C16
/-!
# C16 — the server routes only for authenticated clients and stamps their true address

Property theorems only.  Model: `Qx/Model/C16Server.lean`; vocabulary (`Approved`, `JidOf`, `NeedsAuth`) and
helpers: `Qx/Proofs/C16.lean`.

All statements quantify over every password checker (`cfg.check`, `cfg.digestOf`), every domain, every
number of connections and every interleaved script of any length over the client alphabet
(`Ev`: stream open, `<auth/>`/`<authenticate/>` with any mechanism name and payload, `<response/>`, `<abort/>`,
bind, session, message/presence/iq with any from/to, stream close) plus `deliver i` = "the checker finishes
its i-th outstanding reply" — in any order, including stanzas before authentication and elements sent while
a checker reply is still outstanding.  No hypothesis on the script.

What is proved, exactly — for every script (several elements per read included: `Ev.sameRead`), every interleaving of any
number of connections, every checker; `'/' ∉ cfg.domain` is the only configuration assumption (literal forms only):
* `auth_only_if_checker_approved` / `_literal` / `auth_only_if_getPassword_approves`: a non-empty jid is literally
  `u@domain[/resource]` for a well-formed user name `u` (non-empty, no '/', no '@') whose credential the checker approved;
  a PLAIN / DIGEST-MD5 authorization identity is ignored.
* `needs_auth_only_authenticated` (+ `routes_`/`bind_only_authenticated`): nothing is bound, routed or answered before
  an authentication record of that connection.
* `from_is_authenticated_jid`, `cannot_spoof`, `replies_addressed_to_sender` (every server state), `cannot_spoof_approved`,
  `cannot_spoof_literal`: the `from` of a routed/delivered stanza is the sending connection's own jid or its bare form,
  literally the address of its approved user; comparison is exact.
* `tables_reference_open_connections`, `never_routes_to_closed_connection`: the routing tables reference open
  connections only; no write ever goes to a connection that is gone.
* `Out.ub` remains in the model where `onSasl2Authenticated()` would read an unset `sasl2AuthRequest`; no explored script
  reaches it (not proved unreachable).
* Out of scope: server-to-server (`QXmppIncomingServer`/`QXmppOutgoingServer`, dialback) — the modelled server has no
  S2S listener, stanzas for other domains are not routed; server extensions; TLS; stringprep / case folding of JIDs.

History: eight findings were fixed in the repo — 73b9a89 (pre-authentication stanza / bind / session), e590a14 (checker
reply applied to a later SASL exchange), f6325af (user names with '/' or '@'), c3084c3 (routing entries outliving their
connection: crash), e17a168 (SASL2 success with an unset request: crash), 1c23dbf (elements processed after the stream was closed,
in the same read: bind after disconnect, crash).  Their witnesses are the first scripts of the
harness corpus, the three crashes are also re-run in a child process.
-/
namespace Qx.C16

/-! ## 1. who a connection is accepted as -/

/-- **auth_only_if_checker_approved.**  For every checker, script and connection `c`: if the server-side jid of
`c` is non-empty then it is derived (`JidOf`: `u@domain`, or that followed by "/resource") from a user name `u` that is
well-formed and for which `c` itself has sent a credential that the checker approves (`check u p = ok` for a PLAIN
pair, resp. a DIGEST-MD5 response computed from exactly `digestOf u`).  ANONYMOUS never sets a jid. -/
theorem auth_only_if_checker_approved (cfg : Cfg) (ops : List (Nat × Ev)) (c : Nat) :
    ((run cfg init ops).1.conns c).jid ≠ [] →
      ∃ u, Approved cfg ops c u ∧ ¬ badName u ∧ JidOf cfg u ((run cfg init ops).1.conns c).jid := by
  have h := servInv_run cfg ops [] init (servInv_init cfg)
  simp only [List.nil_append] at h
  intro hj
  obtain ⟨u, ⟨hu, hgood⟩, hjid⟩ := (h c).jid_ok hj
  exact ⟨u, hu, hgood, hjid⟩

/-- **auth_only_if_checker_approved, for a checker written the documented way** (only `getPassword()`; the
library's default `checkPassword()` / `getDigest()` do the rest): a non-empty jid is `u@domain[/resource]` for a
user `u` for which the connection itself sent the PLAIN pair (u, p) with `getPassword u = NoError p`, or a
DIGEST-MD5 response computed from MD5(u:domain:p) for that `p`.  In particular a user for whom `getPassword`
reports an error (unknown, rejected, temporarily failing) is never accepted — not with the empty password either. -/
theorem auth_only_if_getPassword_approves (domain : List Char) (gp : List Char → PwRes)
    (md5 : List Char → List Char → List Char) (ops : List (Nat × Ev)) (c : Nat) :
    ((run (Cfg.ofGetPassword domain gp md5) init ops).1.conns c).jid ≠ [] →
      ∃ u, (∃ ev, (c, ev) ∈ ops ∧ GpApproves gp md5 ev u) ∧ ¬ badName u ∧
        JidOf (Cfg.ofGetPassword domain gp md5) u ((run (Cfg.ofGetPassword domain gp md5) init ops).1.conns c).jid := by
  intro hj
  obtain ⟨u, ⟨ev, hm, ha⟩, hgood, hjid⟩ := auth_only_if_checker_approved (Cfg.ofGetPassword domain gp md5) ops c hj
  exact ⟨u, ⟨ev, hm, gpApproves_of_approves domain gp md5 ev u ha⟩, hgood, hjid⟩

/-- the resource part never eats into the user: when neither the approved user name nor the domain contains
'/', "u@domain cut at its first '/'" is just `u@domain` -/
theorem jidOf_plain (cfg : Cfg) (u j : List Char) (h : JidOf cfg u j) (hu : '/' ∉ mkBare u cfg.domain) :
    j = mkBare u cfg.domain ∨ ∃ r, j = mkBare u cfg.domain ++ '/' :: r := by
  rcases h with h | ⟨r, h⟩
  · exact Or.inl h
  · exact Or.inr ⟨r, by rw [h, withRes, bareOf_eq_self _ hu]⟩

/-- "u@domain" or "u@domain/resource", literally -/
def CleanJid (cfg : Cfg) (u j : List Char) : Prop :=
  j = mkBare u cfg.domain ∨ ∃ r, j = mkBare u cfg.domain ++ '/' :: r

/-- **auth_only_if_checker_approved, literal form.**  The jid is literally `u@domain` or `u@domain/resource` for a
well-formed, approved `u` (the configured domain is assumed to contain no '/'). -/
theorem auth_only_if_checker_approved_literal (cfg : Cfg) (hdom : '/' ∉ cfg.domain) (ops : List (Nat × Ev)) (c : Nat) :
    ((run cfg init ops).1.conns c).jid ≠ [] →
      ∃ u, Approved cfg ops c u ∧ ¬ badName u ∧ CleanJid cfg u ((run cfg init ops).1.conns c).jid := by
  intro hj
  obtain ⟨u, hu, hgood, hjid⟩ := auth_only_if_checker_approved cfg ops c hj
  exact ⟨u, hu, hgood, jidOf_plain cfg u _ hjid (not_slash_mkBare u cfg.domain hgood hdom)⟩

/-! ## 2. nothing is bound, routed or answered before authentication -/

/-- **needs_auth_only_authenticated.**  In the log of every script, every output that presupposes an
authenticated sender `c` — a stanza handed to routing (`routed`), delivered (`deliver`) or answered by the server
(`reply`), a bound resource (`connected`), a bind or session result — is preceded by an authentication record
`authed c _` of that same connection. -/
theorem needs_auth_only_authenticated (cfg : Cfg) (ops : List (Nat × Ev))
    (pre : List Out) (x : Out) (post : List Out) (c : Nat)
    (hlog : (run cfg init ops).2 = pre ++ x :: post) (hx : NeedsAuth c x) : ∃ j, Out.authed c j ∈ pre := by
  simpa using run_needsAuth cfg ops init [] authLog_init pre x post c hlog hx

/-- **routes_only_authenticated**: the instance for stanzas handed to routing -/
theorem routes_only_authenticated (cfg : Cfg) (ops : List (Nat × Ev)) (pre post : List Out) (c : Nat) (st : Stanza)
    (hlog : (run cfg init ops).2 = pre ++ .routed c st :: post) : ∃ j, Out.authed c j ∈ pre :=
  needs_auth_only_authenticated cfg ops pre _ post c hlog rfl

/-- **bind_only_authenticated**: the instance for bound resources (`clientConnected`) -/
theorem bind_only_authenticated (cfg : Cfg) (ops : List (Nat × Ev)) (pre post : List Out) (c : Nat) (jid : List Char)
    (hlog : (run cfg init ops).2 = pre ++ .connected c jid :: post) : ∃ j, Out.authed c j ∈ pre :=
  needs_auth_only_authenticated cfg ops pre _ post c hlog rfl

/-! ## 3. the stamped address is the sender's own -/

/-- **from_is_authenticated_jid** (holds today, every state, every operation): a stanza that connection `c`
hands to routing carries as `from` the server-side jid of `c` or its bare form, and that step leaves the jid
unchanged. -/
theorem from_is_authenticated_jid (cfg : Cfg) (s : Server) (op : Nat × Ev) (c : Nat) (st : Stanza)
    (h : Out.routed c st ∈ (step cfg s op).2) :
    (st.sender = (s.conns c).jid ∨ st.sender = bareOf (s.conns c).jid) ∧
      ((step cfg s op).1.conns c).jid = (s.conns c).jid := by
  obtain ⟨_, st', hs, hj, hk⟩ := step_stanza_origin cfg s op _ h c st (Or.inl ⟨c, rfl, rfl⟩)
  rw [hs] at hj
  exact ⟨hj, hk⟩

/-- **cannot_spoof** (holds today, every state, every operation): whatever the server writes to any
connection `dst` as a stanza coming from connection `src` carries `src`'s own server-side jid (full or bare)
as `from` — a `from` naming anybody else is dropped before routing. -/
theorem cannot_spoof (cfg : Cfg) (s : Server) (op : Nat × Ev) (src dst : Nat) (st : Stanza)
    (h : Out.deliver src dst st ∈ (step cfg s op).2) :
    st.sender = (s.conns src).jid ∨ st.sender = bareOf (s.conns src).jid := by
  obtain ⟨_, st', hs, hj, _⟩ := step_stanza_origin cfg s op _ h src st (Or.inr (Or.inl ⟨dst, rfl⟩))
  rw [hs] at hj
  exact hj

/-- server-generated answers (`feature-not-implemented`, `service-unavailable`) are addressed to the stamped
sender, i.e. to the requesting connection's own jid (full or bare) — never to a third party of the client's
choosing (holds today). -/
theorem replies_addressed_to_sender (cfg : Cfg) (s : Server) (op : Nat × Ev) (src dst : Nat)
    (id f t : List Char) (cond : Cond) (h : Out.reply src dst (.iqError id f t cond) ∈ (step cfg s op).2) :
    t = (s.conns src).jid ∨ t = bareOf (s.conns src).jid := by
  unfold step at h
  obtain ⟨co, hco, s', hs'⟩ := applyOuts_mem cfg op.1 _ _ _ h
  obtain ⟨h1, st0, f0, cond0, h2, h3⟩ := (applyOut_stanza_origin cfg s' op.1 co _ hs').2.2 _ _ _ rfl
  injection h3 with _ _ hto _
  rw [h2] at hco
  have hem := connStepAny_emit cfg (freshRes s.gen) (s.conns op.1) op.2 st0 hco
  rw [hto, h1]
  exact hem.1

/-- **cannot_spoof_approved** (cannot_spoof combined with 1.): the `from` of every stanza delivered on behalf of
`src`, after any script, is the full or bare jid of a user `u` whose credential, sent by `src` itself, the
checker approved. -/
theorem cannot_spoof_approved (cfg : Cfg) (ops : List (Nat × Ev)) (op : Nat × Ev)
    (src dst : Nat) (st : Stanza) (h : Out.deliver src dst st ∈ (step cfg (run cfg init ops).1 op).2) :
    ∃ u, Approved cfg ops src u ∧ JidOf cfg u ((run cfg init ops).1.conns src).jid ∧
      (st.sender = ((run cfg init ops).1.conns src).jid ∨ st.sender = bareOf ((run cfg init ops).1.conns src).jid) := by
  have hfrom := cannot_spoof cfg _ op src dst st h
  have hne : ((run cfg init ops).1.conns src).jid ≠ [] := by
    have h' := h
    unfold step at h'
    obtain ⟨co, hco, s', hs'⟩ := applyOuts_mem cfg op.1 _ _ _ h'
    obtain ⟨h1, h2⟩ := (applyOut_stanza_origin cfg s' op.1 co _ hs').2.1 _ _ _ rfl
    rw [h2] at hco
    rw [h1]
    exact connStepAny_emit_jid_ne cfg _ _ _ st hco
  obtain ⟨u, hu, _, hj⟩ := auth_only_if_checker_approved cfg ops src hne
  exact ⟨u, hu, hj, hfrom⟩

/-- **cannot_spoof, literal form.**  The `from` of every stanza delivered on behalf of `src`, after any script, is
literally `u@domain` or `u@domain/resource` for a well-formed user `u` whose credential, sent by `src` itself, the
checker approved (the configured domain is assumed to contain no '/'). -/
theorem cannot_spoof_literal (cfg : Cfg) (hdom : '/' ∉ cfg.domain) (ops : List (Nat × Ev)) (op : Nat × Ev)
    (src dst : Nat) (st : Stanza) (h : Out.deliver src dst st ∈ (step cfg (run cfg init ops).1 op).2) :
    ∃ u, Approved cfg ops src u ∧ CleanJid cfg u st.sender := by
  obtain ⟨u0, _, _, hfrom⟩ := cannot_spoof_approved cfg ops op src dst st h
  have hne : ((run cfg init ops).1.conns src).jid ≠ [] := by
    intro he
    rcases hfrom with hf | hf
    · have h' := h
      unfold step at h'
      obtain ⟨co, hco, s', hs'⟩ := applyOuts_mem cfg op.1 _ _ _ h'
      obtain ⟨h1, h2⟩ := (applyOut_stanza_origin cfg s' op.1 co _ hs').2.1 _ _ _ rfl
      rw [h2] at hco
      exact connStepAny_emit_jid_ne cfg _ _ _ st hco (by rw [← h1]; exact he)
    · have h' := h
      unfold step at h'
      obtain ⟨co, hco, s', hs'⟩ := applyOuts_mem cfg op.1 _ _ _ h'
      obtain ⟨h1, h2⟩ := (applyOut_stanza_origin cfg s' op.1 co _ hs').2.1 _ _ _ rfl
      rw [h2] at hco
      exact connStepAny_emit_jid_ne cfg _ _ _ st hco (by rw [← h1]; exact he)
  obtain ⟨u, hu, hgood, hclean⟩ := auth_only_if_checker_approved_literal cfg hdom ops src hne
  have hn := not_slash_mkBare u cfg.domain hgood hdom
  have hfrom' := cannot_spoof cfg _ op src dst st h
  refine ⟨u, hu, ?_⟩
  rcases hfrom' with hf | hf
  · rw [hf]; exact hclean
  · rw [hf]
    rcases hclean with hc | ⟨r, hc⟩
    · rw [hc, bareOf_eq_self _ hn]; exact Or.inl rfl
    · left
      rw [hc]
      have h1 := bareOf_withRes (mkBare u cfg.domain) r
      rw [withRes, bareOf_eq_self _ hn] at h1
      rw [h1]

/-- **delivered_from_never_empty**: no stanza is ever delivered with an empty `from` — whether the client left the
attribute out, sent it empty (`from=''`) or filled it in: it is stamped or checked, and the result is the non-empty
address of the sender's approved user. -/
theorem delivered_from_never_empty (cfg : Cfg) (hdom : '/' ∉ cfg.domain) (ops : List (Nat × Ev)) (op : Nat × Ev)
    (src dst : Nat) (st : Stanza) (h : Out.deliver src dst st ∈ (step cfg (run cfg init ops).1 op).2) :
    st.sender ≠ [] := by
  obtain ⟨u, _, hc⟩ := cannot_spoof_literal cfg hdom ops op src dst st h
  rcases hc with hc | ⟨r, hc⟩ <;> rw [hc] <;> simp [mkBare]

/-! ## 4. the routing tables -/

/-- **tables_reference_open_connections**: after any script, every entry of the two routing tables points to a
connection that is still open — whatever sequence of binds, rebinds, re-logins, conflicts and disconnects of any
number of connections produced it. -/
theorem tables_reference_open_connections (cfg : Cfg) (ops : List (Nat × Ev)) : TablesOpen (run cfg init ops).1 :=
  tablesOpen_run cfg ops init tablesOpen_init

/-- **never_routes_to_closed_connection**: whoever `routeData` finds for any address, in any reachable state, is an
open connection: the server never writes to a connection that is gone. -/
theorem never_routes_to_closed_connection (cfg : Cfg) (ops : List (Nat × Ev)) (to : List Char) (found : List Nat)
    (h : route cfg (run cfg init ops).1 to = some found) (d : Nat) (hd : d ∈ found) :
    ((run cfg init ops).1.conns d).closed = false := by
  obtain ⟨e, he, rfl⟩ := route_found_in_tables cfg _ to found h d hd
  exact tables_reference_open_connections cfg ops e he

/-! ## 5. concrete runs: the statements are about real, non-trivial scripts -/

/-- a checker that knows one account: user "m" with password "p" (digest token "h") -/
def demoCfg : Cfg :=
  { domain := ['d']
    check := fun u p => if u = ['m'] ∧ p = ['p'] then .ok else .bad
    digestOf := fun u => if u = ['m'] then .digest ['h'] else .nouser }

def plainName : List Char := ['P', 'L', 'A', 'I', 'N']

/-- PLAIN login, bind, session, a message to somebody … -/
def goodScript : List (Nat × Ev) :=
  [(1, .openStream ['d']), (1, .auth false plainName (.creds ['m'] ['p']) false), (1, .deliver 0),
   (1, .openStream ['d']), (1, .bind ['r']), (1, .session),
   (1, .stanza { kind := .message, sender := none, to := some ['x', '@', 'd'] })]

/-- … ends authenticated and bound … -/
example : ((run demoCfg init goodScript).1.conns 1).jid = ['m', '@', 'd', '/', 'r'] := by decide
/-- … and its log contains the authentication record, the bound resource and the routed stanza, stamped with
the full jid. -/
example : (run demoCfg init goodScript).2 =
    [.send 1 .hdr, .send 1 (.features false false true (some true)),
     .authed 1 ['m', '@', 'd'], .send 1 .success1,
     .send 1 .hdr, .send 1 (.features true true false none),
     .send 1 (.bindResult ['m', '@', 'd', '/', 'r']), .connected 1 ['m', '@', 'd', '/', 'r'],
     .send 1 (.sessionResult ['m', '@', 'd', '/', 'r']),
     .routed 1 { kind := .message, sender := ['m', '@', 'd', '/', 'r'], to := ['x', '@', 'd'] }] := by decide

/-- DIGEST-MD5 login with the right digest: approved through the `dresp` clause of `Approves` -/
example : ((run demoCfg init
    [(1, .openStream ['d']), (1, .auth false ['D', 'I', 'G', 'E', 'S', 'T', '-', 'M', 'D', '5'] .empty false),
     (1, .response false (.dresp ['m'] ['h'] true)), (1, .deliver 0), (1, .response false .empty)]).1.conns 1).jid
    = ['m', '@', 'd'] := by decide

/-- the `getPassword`-only flavour: account "m"/"p"; a DIGEST-MD5 exchange as the unknown user "n" with the
response computed from the empty password (token `md5 n []`) fails, the right one for "m" succeeds -/
def demoGp : Cfg := Cfg.ofGetPassword ['d'] (fun u => if u = ['m'] then .ok ['p'] else .nouser) (fun u s => u ++ ':' :: s)
def digestName : List Char := ['D', 'I', 'G', 'E', 'S', 'T', '-', 'M', 'D', '5']

example : (run demoGp init
    [(1, .openStream ['d']), (1, .auth false digestName .empty false),
     (1, .response false (.dresp ['n'] ['n', ':'] true)), (1, .deliver 0)]).2 =
    [.send 1 .hdr, .send 1 (.features false false true (some true)), .send 1 (.chal false .nonce),
     .send 1 (.failure false .notAuthorized), .send 1 .streamEnd, .closed 1] := by decide
example : ((run demoGp init
    [(1, .openStream ['d']), (1, .auth false digestName .empty false),
     (1, .response false (.dresp ['m'] ['m', ':', 'p'] true)), (1, .deliver 0), (1, .response false .empty)]).1.conns 1).jid
    = ['m', '@', 'd'] := by decide

/-- a spoofed `from` is dropped, the sender's own bare jid is accepted (hypothesis of `cannot_spoof` is met) -/
example : (step demoCfg (run demoCfg init goodScript).1
    (1, .stanza { kind := .message, sender := some ['v', '@', 'd'], to := some ['m', '@', 'd', '/', 'r'] })).2 = [] := by decide
example : (step demoCfg (run demoCfg init goodScript).1
    (1, .stanza { kind := .message, sender := some ['m', '@', 'd'], to := some ['m', '@', 'd', '/', 'r'] })).2 =
    [.routed 1 { kind := .message, sender := ['m', '@', 'd'], to := ['m', '@', 'd', '/', 'r'] },
     .deliver 1 1 { kind := .message, sender := ['m', '@', 'd'], to := ['m', '@', 'd', '/', 'r'] }] := by decide

/-- the witnesses of the former defects (kept first in the harness corpus): a message before authentication
ends the stream with `not-authorized` and reaches nobody, … -/
example : (run demoCfg init
    [(0, .openStream ['d']), (0, .auth false plainName (.creds ['m'] ['p']) false), (0, .deliver 0), (0, .bind ['v']),
     (1, .openStream ['d']),
     (1, .stanza { kind := .message, sender := none, to := some ['m', '@', 'd', '/', 'v'] })]).2 =
    [.send 0 .hdr, .send 0 (.features false false true (some true)), .authed 0 ['m', '@', 'd'], .send 0 .success1,
     .send 0 (.bindResult ['m', '@', 'd', '/', 'v']), .connected 0 ['m', '@', 'd', '/', 'v'],
     .send 1 .hdr, .send 1 (.features false false true (some true)),
     .send 1 (.streamError .streamNotAuthorized), .send 1 .streamEnd, .closed 1] := by decide
/-- … so do bind and session before authentication, … -/
example : (run demoCfg init [(1, .openStream ['d']), (1, .bind ['r'])]).2 =
    [.send 1 .hdr, .send 1 (.features false false true (some true)),
     .send 1 (.streamError .streamNotAuthorized), .send 1 .streamEnd, .closed 1] := by decide
example : (run demoCfg init [(1, .openStream ['d']), (1, .session)]).2 =
    [.send 1 .hdr, .send 1 (.features false false true (some true)),
     .send 1 (.streamError .streamNotAuthorized), .send 1 .streamEnd, .closed 1] := by decide
/-- … and the reply to the attacker's own good credentials dies with the SASL object that asked for it when a
second `<auth/>` (victim "v", wrong password) replaces it: nothing is left to deliver, no jid is set. -/
example : ((run demoCfg init
    [(1, .openStream ['d']), (1, .auth false plainName (.creds ['m'] ['p']) false),
     (1, .auth false plainName (.creds ['v'] ['x']) false), (1, .deliver 0), (1, .deliver 0)]).1.conns 1).jid = [] := by decide
example : (run demoCfg init
    [(1, .openStream ['d']), (1, .auth false plainName (.creds ['m'] ['p']) false),
     (1, .auth false plainName (.creds ['v'] ['x']) false), (1, .deliver 0)]).2 =
    [.send 1 .hdr, .send 1 (.features false false true (some true)),
     .send 1 (.failure false .notAuthorized), .send 1 .streamEnd, .closed 1] := by decide

/-- a checker that would accept an account literally named "v@d/x" (password "q"), as a registration-open or
pass-through checker does: the server refuses the name itself, the checker is not even asked -/
def slashCfg : Cfg :=
  { domain := ['d']
    check := fun u p => if (u = ['v'] ∧ p = ['p']) ∨ (u = ['v', '@', 'd', '/', 'x'] ∧ p = ['q']) then .ok else .bad
    digestOf := fun _ => .nouser }

example : (run slashCfg init [(1, .openStream ['d']),
    (1, .auth false plainName (.creds ['v', '@', 'd', '/', 'x'] ['q']) false), (1, .deliver 0), (1, .bind ['r'])]).2 =
    [.send 1 .hdr, .send 1 (.features false false true (some true)),
     .send 1 (.failure false .notAuthorized), .send 1 .streamEnd, .closed 1] := by decide

/-- the witness of the former finding C16:stale-routing-entry: connection 1 binds "r", then "r2", then leaves;
connection 2's message to the first jid finds nobody (an iq would be answered `service-unavailable`), the tables
are empty -/
example : (run demoCfg init
    [(1, .openStream ['d']), (1, .auth false plainName (.creds ['m'] ['p']) false), (1, .deliver 0),
     (1, .bind ['r']), (1, .bind ['r', '2']), (1, .closeStream),
     (2, .openStream ['d']), (2, .auth false plainName (.creds ['m'] ['p']) false), (2, .deliver 0)]).1.byJid = [] := by decide
example : (step demoCfg (run demoCfg init
    [(1, .openStream ['d']), (1, .auth false plainName (.creds ['m'] ['p']) false), (1, .deliver 0),
     (1, .bind ['r']), (1, .bind ['r', '2']), (1, .closeStream),
     (2, .openStream ['d']), (2, .auth false plainName (.creds ['m'] ['p']) false), (2, .deliver 0)]).1
    (2, .stanza { kind := .message, sender := none, to := some ['m', '@', 'd', '/', 'r'] })).2 =
    [.routed 2 { kind := .message, sender := ['m', '@', 'd'], to := ['m', '@', 'd', '/', 'r'] }] := by decide

/-- two connections of one user, same resource: the second bind kicks the first (conflict), the table entry moves -/
example : (run demoCfg init
    [(1, .openStream ['d']), (1, .auth false plainName (.creds ['m'] ['p']) false), (1, .deliver 0), (1, .bind ['r']),
     (2, .openStream ['d']), (2, .auth false plainName (.creds ['m'] ['p']) false), (2, .deliver 0), (2, .bind ['r'])]).1.byJid
    = [(['m', '@', 'd', '/', 'r'], 2)] := by decide

/-- the witness of the former finding C16:processing-after-disconnect: `<failure/>`, stream end, `disconnected` — and
the bind and the message that follow in the same read are ignored -/
example : (run demoCfg init
    [(0, .openStream ['d']), (0, .auth false plainName (.creds ['m'] ['p']) false), (0, .deliver 0), (0, .bind ['v']),
     (1, .openStream ['d']), (1, .auth false plainName (.creds ['m'] ['p']) false), (1, .deliver 0),
     (1, .auth false ['X'] .empty false), (1, .sameRead (.bind ['r'])),
     (1, .sameRead (.stanza { kind := .message, sender := none, to := some ['m', '@', 'd', '/', 'v'] }))]).2.drop 10 =
    [.send 1 (.failure false .invalidMechanism), .send 1 .streamEnd, .closed 1, .disconnected 1 ['m', '@', 'd']] := by decide
/-- several elements in one read on an open connection are processed one after the other -/
example : ((run demoCfg init
    [(1, .openStream ['d']), (1, .auth false plainName (.creds ['m'] ['p']) false), (1, .deliver 0),
     (1, .bind ['r']), (1, .sameRead (.stanza { kind := .message, sender := none, to := some ['x', '@', 'd'] }))]).2.getLast?) =
    some (.routed 1 { kind := .message, sender := ['m', '@', 'd', '/', 'r'], to := ['x', '@', 'd'] }) := by decide

/-- `from` absent, present but empty, and the sender's own bare jid are all delivered with a real address; a user name
containing a place marker such as "%2" is used literally -/
example : (step demoCfg (run demoCfg init goodScript).1
    (1, .stanza { kind := .message, sender := some [], to := some ['m', '@', 'd', '/', 'r'] })).2 =
    [.routed 1 { kind := .message, sender := ['m', '@', 'd', '/', 'r'], to := ['m', '@', 'd', '/', 'r'] },
     .deliver 1 1 { kind := .message, sender := ['m', '@', 'd', '/', 'r'], to := ['m', '@', 'd', '/', 'r'] }] := by decide
example : (step demoCfg (run demoCfg init goodScript).1
    (1, .stanza { kind := .message, sender := some [' '], to := some ['m', '@', 'd', '/', 'r'] })).2 = [] := by decide
example : ((run { demoCfg with check := fun u p => if u = ['o', '.', '%', '2'] ∧ p = ['p'] then .ok else .bad } init
    [(1, .openStream ['d']), (1, .auth false plainName (.creds ['o', '.', '%', '2'] ['p']) false), (1, .deliver 0),
     (1, .bind ['r'])]).1.conns 1).jid = ['o', '.', '%', '2', '@', 'd', '/', 'r'] := by decide

end Qx.C16
