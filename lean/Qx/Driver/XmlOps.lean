import Qx.Driver.Proto
import Qx.Xml.Tree
import Qx.Xml.Canon
import Qx.Xml.Parse
import Qx.Xml.Writer
/-!
Driver ops for the XML text layer (`xml-…` lines of the C01 driver): command word, one blank (or TAB), argument:

  xml-esc-text     <hex>    → hex of `escText`
  xml-esc-text-cr  <hex>    → hex of `escTextCr`                      (qxmpp's writeXmlTextElement(w, name, value))
  xml-esc-attr     <hex>    → hex of `escAttr`
  xml-unesc        <hex>    → hex of `unesc`
  xml-render       <tree>   → hex of `render t`                      (byte-exact against QXmlStreamWriter)
  xml-render-parse <tree>   → canon of `qdomView (parse (render t))` (QDom, namespace processing on) | none
  xml-canon        <tree>   → `canon t`                               (the encoding itself against vh::canonElement on a DOM built by API)
  xml-parse        <hexdoc> → canon of `qdomView (parse doc)` | none
  xml-parse-plain  <hexdoc> → canon of `parse doc` | none             (QDom, namespace processing off)

hex = lower-case hex of UTF-8, `-` for the empty string; <tree> = the encoding of `Qx.Xml.canon`
(Qx/Xml/Canon.lean) read literally: empty and adjacent text nodes are kept as given; `(R <hex>)` is a
text node written by `writeXmlTextElement(w, name, value)` (CR as `&#13;`), `(T <hex>)` one written by `writeCharacters`.
  xml-parse-std    <hexdoc> → canon of `parseStd doc` | none          (a reader with line-end normalisation: QXmlStreamReader)
-/
namespace Qx.Driver.XmlOps
open Qx.Xml

def unhexStr (w : String) : Option Str :=
  if w = "-" then some [] else
  match fromHex w with
  | some bs => (String.fromUTF8? (ByteArray.mk bs.toArray)).map String.toList
  | none => none

/-- tokens of the tree encoding: `(`, `)` and words -/
def tokenize (s : List Char) : List String :=
  let flush := fun (acc : List String × List Char) =>
    if acc.2.isEmpty then acc.1 else String.ofList acc.2.reverse :: acc.1
  let r := s.foldl (fun (acc : List String × List Char) c =>
    if c = '(' then ("(" :: flush acc, [])
    else if c = ')' then (")" :: flush acc, [])
    else if c = ' ' then (flush acc, [])
    else (acc.1, c :: acc.2)) ([], [])
  (flush r).reverse

def decodeAttrs : Nat → List String → Option (List (Str × Str) × List String)
  | 0, _ => none
  | f + 1, ts =>
    match ts with
    | ")" :: rest => some ([], rest)
    | "(" :: k :: v :: ")" :: rest =>
      match unhexStr k, unhexStr v, decodeAttrs f rest with
      | some k', some v', some r => some ((k', v') :: r.1, r.2)
      | _, _, _ => none
    | _ => none

mutual
  def decodeNode : Nat → List String → Option (WNode × List String)
    | 0, _ => none
    | f + 1, ts =>
      match ts with
      | "(" :: "T" :: w :: ")" :: rest => (unhexStr w).map fun s => (WNode.text false s, rest)
      | "(" :: "R" :: w :: ")" :: rest => (unhexStr w).map fun s => (WNode.text true s, rest)
      | "(" :: "E" :: w :: "(" :: rest =>
        match unhexStr w, decodeAttrs (rest.length + 1) rest with
        | some n, some a =>
          match a.2 with
          | "(" :: rest2 =>
            match decodeNodes f rest2 with
            | some k =>
              match k.2 with
              | ")" :: rest3 => some (WNode.elem n a.1 k.1, rest3)
              | _ => none
            | none => none
          | _ => none
        | _, _ => none
      | _ => none
  /-- nodes up to the closing `)` of the list -/
  def decodeNodes : Nat → List String → Option (List WNode × List String)
    | 0, _ => none
    | f + 1, ts =>
      match ts with
      | ")" :: rest => some ([], rest)
      | _ =>
        match decodeNode f ts with
        | some r =>
          match decodeNodes f r.2 with
          | some q => some (r.1 :: q.1, q.2)
          | none => none
        | none => none
end

def decodeTree (s : String) : Option WNode :=
  let ts := tokenize s.toList
  match decodeNode (ts.length + 1) ts with
  | some r => if r.2.isEmpty then some r.1 else none
  | none => none

def showTree : Option Node → String
  | some t => canon t
  | none => "none"

def onStr (w : String) (f : Str → String) : String :=
  match unhexStr w with
  | some s => f s
  | none => "bad-hex"

/-- command word and argument of an op line: split at the first blank or TAB (the check's line format
`C <op>\t<observation>` cuts at the first TAB, so harnesses separate command and argument by a blank) -/
def splitOp (line : String) : String × String :=
  let l := if line.endsWith "\n" then (line.dropEnd 1).toString else line
  let cs := l.toList
  let isSep := fun (c : Char) => c = ' ' || c = '\t'
  (String.ofList (cs.takeWhile fun c => !isSep c), String.ofList ((cs.dropWhile fun c => !isSep c).drop 1))

/-- handle one op line; `none` when the line is not an xml-layer op -/
def step (line : String) : Option String :=
  let ca := splitOp line
  let w := ca.2
  match ca.1 with
  | "xml-esc-text" => some (onStr w fun s => hexOf (escText s))
  | "xml-esc-text-cr" => some (onStr w fun s => hexOf (escTextCr s))
  | "xml-esc-attr" => some (onStr w fun s => hexOf (escAttr s))
  | "xml-unesc" => some (onStr w fun s => hexOf (unesc s))
  | "xml-render" =>
    some (match decodeTree w with
      | some t => hexOf (renderW t)
      | none => "bad-tree")
  | "xml-render-parse" =>
    some (match decodeTree w with
      | some t => showTree ((parse (renderW t)).map qdomView)
      | none => "bad-tree")
  | "xml-canon" =>
    some (match decodeTree w with
      | some t => canon t.erase
      | none => "bad-tree")
  | "xml-parse" => some (onStr w fun s => showTree ((parse s).map qdomView))
  | "xml-parse-std" => some (onStr w fun s => showTree (parseStd s))
  | "xml-parse-plain" => some (onStr w fun s => showTree (parse s))
  | _ => none

end Qx.Driver.XmlOps
