import Qx.Driver.Proto
import Qx.Xml.Tree
/-! Driver ops for the XML text layer (`xml-…` lines of the C01 driver). Filled in by the tier-A work. -/
namespace Qx.Driver.XmlOps

/-- handle one op line; `none` when the line is not an xml-layer op -/
def step (_line : String) : Option String := none

end Qx.Driver.XmlOps
