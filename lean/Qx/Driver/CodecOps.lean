import Qx.Driver.Proto
import Qx.Xml.Tree
import Qx.Xml.Canon
import Qx.Xml.Codec.Schema
import Qx.Xml.Codec.Classes
import Qx.Xml.Codec.Literals
/-!
Driver ops with prefix `codec-` of the C01/C02 driver (tier C, schema-driven codecs).
Fields of an op are separated by single blanks (or TABs); trees use the canonical encoding of
`Qx/Xml/Canon.lean`, value lists the encoding of `showVals` below.

  codec-norm <class> <tree>    canonical tree of `encode (decode x)`, or `reject` (class's own type check)
  codec-dec  <class> <tree>    the field values the class reports for the tree, or `reject`
  codec-enc  <class> <values>  canonical tree of `encode v`
  codec-count <class>          size of the generated family
  codec-gen  <class> <index>   canonical tree of `encode v_index`
  codec-val  <class> <index>   `v_index` itself
  codec-classes                names of the modelled classes
  codec-wf <class>             `wf` when the schema is well-formed (covered by the generic theorems), else `not-wf`
                               (a `…Code` schema modelling a recorded defect)
  codec-reset <class>          `ok`; marks the start of a class's block of cases (stateless otherwise)
-/
namespace Qx.Driver.CodecOps
open Qx.Xml Qx.Xml.Codec

/-! ## value lists as text: `s<hex>` `n<dec>` `b0|b1` `o-|o<dec>` `A` `R( … )` `L( … )` -/

mutual
  partial def showVal : Val → String
    | .str s => "s" ++ hexOf s
    | .nat n => "n" ++ toString n
    | .flag b => if b then "b1" else "b0"
    | .opt none => "o-"
    | .opt (some i) => "o" ++ toString i
    | .dt none => "d-"
    | .dt (some d) => s!"d{d.year}/{d.month}/{d.day}/{d.hour}/{d.minute}/{d.second}/{d.msec}"
    | .absent => "A"
    | .record vs => "R( " ++ showVals vs ++ " )"
    | .list items => "L( " ++ showVals items ++ " )"
    | .node t => "t" ++ hexOf (canon t).toList
    | .int neg m => if neg then "i-" ++ toString m else "i" ++ toString m
  partial def showVals (vs : List Val) : String :=
    if vs.isEmpty then "." else " ".intercalate (vs.map showVal)
end

def unhex (h : String) : Option Str :=
  if h == "-" then some [] else
  match fromHex h with
  | some bs => (String.fromUTF8? (ByteArray.mk bs.toArray)).map String.toList
  | none => none

/-- values up to the matching `)` (or end of input); returns the rest -/
partial def parseVals : List String → Option (List Val × List String)
  | [] => some ([], [])
  | ")" :: rest => some ([], ")" :: rest)
  | "." :: rest => parseVals rest
  | tok :: rest =>
    let one : Option (Val × List String) :=
      if tok == "A" then some (.absent, rest)
      else if tok == "R(" || tok == "L(" then
        match parseVals rest with
        | some (vs, ")" :: rest') => some (if tok == "R(" then .record vs else .list vs, rest')
        | _ => none
      else match tok.toList with
        | 's' :: h => (unhex (String.ofList h)).map fun s => (.str s, rest)
        | 't' :: h => (unhex (String.ofList h)).map fun s => (.node (.text s), rest)
        | 'i' :: '-' :: d => (String.ofList d).toNat?.map fun n => (.int true n, rest)
        | 'i' :: d => (String.ofList d).toNat?.map fun n => (.int false n, rest)
        | 'n' :: d => (String.ofList d).toNat?.map fun n => (.nat n, rest)
        | ['b', '0'] => some (.flag false, rest)
        | ['b', '1'] => some (.flag true, rest)
        | ['o', '-'] => some (.opt none, rest)
        | 'o' :: d => (String.ofList d).toNat?.map fun n => (.opt (some n), rest)
        | ['d', '-'] => some (.dt none, rest)
        | 'd' :: d =>
          match ((String.ofList d).splitOn "/").map String.toInt? with
          | [some y, some mo, some da, some h, some mi, some sc, some ms] =>
            some (.dt (some ⟨y, mo.toNat, da.toNat, h.toNat, mi.toNat, sc.toNat, ms.toNat⟩), rest)
          | _ => none
        | _ => none
    match one with
    | some (v, rest') => (parseVals rest').map fun r => (v :: r.1, r.2)
    | none => none

def readVals0 (s : String) : Option (List Val) :=
  match parseVals (words s) with
  | some (vs, []) => some vs
  | _ => none

/-! ## canonical trees -/

def tokens (s : String) : List String :=
  let padded := s.toList.flatMap fun c => if c == '(' || c == ')' then [' ', c, ' '] else [c]
  words (String.ofList padded)

mutual
  /-- one node: `( E name ( attrs ) ( kids ) )` or `( T text )` -/
  partial def parseNode : List String → Option (Node × List String)
    | "(" :: "T" :: h :: ")" :: rest => (unhex h).map fun s => (.text s, rest)
    | "(" :: "E" :: n :: "(" :: rest =>
      match unhex n, parseAttrs rest with
      | some name, some (as, "(" :: rest') =>
        match parseNodes rest' with
        | some (ks, ")" :: rest'') => some (.elem name as ks, rest'')
        | _ => none
      | _, _ => none
    | _ => none
  /-- attributes up to and including the closing `)` -/
  partial def parseAttrs : List String → Option (List (Str × Str) × List String)
    | ")" :: rest => some ([], rest)
    | "(" :: k :: v :: ")" :: rest =>
      match unhex k, unhex v, parseAttrs rest with
      | some k', some v', some (as, rest') => some ((k', v') :: as, rest')
      | _, _, _ => none
    | _ => none
  /-- nodes up to and including the closing `)` -/
  partial def parseNodes : List String → Option (List Node × List String)
    | ")" :: rest => some ([], rest)
    | toks =>
      match parseNode toks with
      | some (n, rest) => (parseNodes rest).map fun r => (n :: r.1, r.2)
      | none => none
end

def readTree (s : String) : Option Node :=
  match parseNode (tokens s) with
  | some (n, []) => some n
  | _ => none

mutual
  /-- `xmlns` first (the canonical text form sorts attributes; `normE` writes the namespace first) -/
  partial def xmlnsFirst : Node → Node
    | .text s => .text s
    | .elem n as ks =>
      .elem n (as.filter (fun kv => kv.1 == "xmlns".toList) ++ as.filter (fun kv => kv.1 != "xmlns".toList)) (ks.map xmlnsFirst)
end

mutual
  /-- `.str` values that stand for trees (token `t<hex>`, kept as `.node (.text hex)` by `parseVals`) are decoded here -/
  partial def fixNodes : Val → Option Val
    | .node (.text h) => (readTree (String.ofList h)).map fun t => .node (xmlnsFirst t)
    | .record vs => (fixNodesL vs).map .record
    | .list vs => (fixNodesL vs).map .list
    | v => some v
  partial def fixNodesL : List Val → Option (List Val)
    | [] => some []
    | v :: vs => match fixNodes v, fixNodesL vs with
      | some a, some b => some (a :: b)
      | _, _ => none
end

def readVals (s : String) : Option (List Val) := (readVals0 s).bind fixNodesL

/-! ## generated family of canonical values -/

/-- adversarial strings, all made of XML-legal characters -/
def pool : Array String := #[
  "", "a", "romeo@montague.example/orchard", "x y", " lead", "trail ", "  ", "\t\n", "a\r\nb", "line1\nline2",
  "<", ">", "&", "\"", "'", "<&>\"'", "]]>", "&amp;", "&#10;", "&lt;x&gt;", "<!--x-->", "<a b='c'/>", "</enable>",
  "xmlns=\"urn:x\"", "é", "日本語", "😀", "a😀b\uFFFD", "true", "1", "0", "false", " 12 ", "+5", "-1", "007",
  "18446744073709551616", " x　",
  "abcdefghijklmnopqrstuvwxyzabcdefghijklmnopqrstuvwxyzabcdefghijklmnopqrstuvwxyzabcdefghijklmnopqrstuvwxyzabcdefghijklmnopqrstuvwxyz"]

/-- splitmix-style mixing of (index, choice point) -/
def mix (i c : Nat) : Nat :=
  let z0 := (i * 0x9E3779B97F4A7C15 + c * 0xBF58476D1CE4E5B9 + 0x1234567) % 2 ^ 64
  let z1 := ((z0 ^^^ (z0 >>> 30)) * 0xBF58476D1CE4E5B9) % 2 ^ 64
  let z2 := ((z1 ^^^ (z1 >>> 27)) * 0x94D049BB133111EB) % 2 ^ 64
  z2 ^^^ (z2 >>> 31)

def pick (i c n : Nat) : Nat := if n == 0 then 0 else mix i c % n

/-- presence decision at choice point `c`: indices below 256 enumerate all combinations of the first 8
choice points, index 256 has everything present, larger ones are pseudo-random -/
def present (i c : Nat) : Bool :=
  if i < 256 then (if c < 8 then (i >>> c) % 2 == 1 else mix i c % 2 == 1)
  else if i == 256 then true
  else mix i c % 2 == 1

def genScalar (ty : FTy) (i c : Nat) : Val × Nat :=
  match ty with
  | .str => (if present i c then .str (pool[pick i (c + 1) pool.size]!).toList else .str [], c + 2)
  | .nat b =>
    let cands := [1, 2 ^ b - 1, 2 ^ b - 2, 10, 4294967295 % 2 ^ b, mix i (c + 2) % 2 ^ b]
    (if present i c then .nat (cands[pick i (c + 1) cands.length]!) else .nat 0, c + 3)
  | .optNat b =>
    let cands := [0, 1, 2 ^ b - 1, 10, mix i (c + 2) % 2 ^ b]
    (if present i c then .opt (some (cands[pick i (c + 1) cands.length]!)) else .opt none, c + 3)
  | .optInt b =>
    let cands := [0, 1, 2 ^ b - 1, 10, mix i (c + 2) % 2 ^ b]
    (if present i c then .opt (some (cands[pick i (c + 1) cands.length]!)) else .opt none, c + 3)
  | .optIntZ b =>
    let cands := [0, 1, 2 ^ b - 1, 10, mix i (c + 2) % 2 ^ b]
    (if present i c then .opt (some (cands[pick i (c + 1) cands.length]!)) else .opt none, c + 3)
  | .posInt b =>
    let cands := [1, 2, 2 ^ b - 1, 10, 404, 1 + mix i (c + 2) % (2 ^ b - 1)]
    (if present i c then .opt (some (cands[pick i (c + 1) cands.length]!)) else .opt none, c + 3)
  | .sint b _ =>
    let cands : List Val := [.int false 1, .int true 1, .int false 127, .int true 128, .int false (2 ^ b - 1), .int true (2 ^ b),
      .int false 110, .int (mix i (c + 2) % 2 == 0) (1 + mix i (c + 3) % (2 ^ b - 1))]
    (if present i c then cands[pick i (c + 1) cands.length]! else .int false 0, c + 4)
  | .enumL names =>
    (if present i c && names.length > 0 then .opt (some (pick i (c + 1) names.length)) else .opt none, c + 2)
  | .flag _ => (.flag (present i c), c + 1)
  | .enum names =>
    (if present i c && names.length > 0 then .opt (some (pick i (c + 1) names.length)) else .opt none, c + 2)
  | .enumD names d =>
    (if present i c && names.length > 0 then .nat (pick i (c + 1) names.length) else .nat d, c + 2)
  | .dateTime =>
    let r := mix i (c + 2)
    let cands : List Scalar.Dt := [⟨2000, 1, 1, 0, 0, 0, 0⟩, ⟨9999, 12, 31, 23, 59, 59, 999⟩, ⟨1, 1, 1, 0, 0, 0, 0⟩,
      ⟨2024, 2, 29, 12, 34, 56, 7⟩, ⟨1970, 1, 1, 0, 0, 0, 1⟩, ⟨2038, 1, 19, 3, 14, 8, 0⟩,
      ⟨1 + r % 9999, 1 + r / 10000 % 12, 1 + r / 120000 % 28, r / 3360000 % 24, r / 80640000 % 60, r / 4838400000 % 60,
        if r % 3 == 0 then 0 else r / 290304000000 % 1000⟩]
    (if present i c then .dt (some (cands.getD (pick i (c + 1) cands.length) ⟨2000, 1, 1, 0, 0, 0, 0⟩)) else .dt none, c + 3)
  | .b64 =>
    let rnd := (List.range (mix i (c + 2) % 24)).map fun k => mix i (c + 3 + k) % 256
    let cands : List (List Nat) := [[0], [255], [77], [77, 97], [77, 97, 110], [251, 255, 190], [0, 0, 0, 0],
      "hello, world".toList.map Char.toNat, rnd]
    (if present i c then .str (strOfBytes (cands[pick i (c + 1) cands.length]!)) else .str [], c + 30)

mutual
  partial def genF (f : Field) (i c : Nat) : Val × Nat :=
    match f with
    | .attr _ ty _ => genScalar ty i c
    | .attrReadOnly _ ty => genScalar ty i c
    | .attrRW _ _ ty _ => genScalar ty i c
    | .attrReq _ ty =>
      -- a mandatory attribute never holds the default: strings are non-empty, the rest as generated with everything present
      match ty with
      | .str => (.str (pool[1 + pick i (c + 1) (pool.size - 1)]!).toList, c + 2)
      | _ => genScalar ty 256 c
    | .text ty => genScalar ty i c
    | .enumChild _ _ _ names m =>
      if (m || present i c) && names.length > 0 then (.opt (some (pick i (c + 1) names.length)), c + 2)
      else (.opt none, c + 2)
    | .tagChild _ _ _ names _ _ _ textFor =>
      if present i c && names.length > 0 then
        -- half of the values carry a text payload (only the tags that keep one)
        let idx := if present i (c + 2) && textFor.length > 0 then textFor[pick i (c + 1) textFor.length]! else pick i (c + 1) names.length
        let t := if textFor.contains idx && present i (c + 3) then (pool[pick i (c + 4) pool.size]!).toList else []
        (.record [.opt (some idx), .str t], c + 5)
      else (.record [.opt none, .str []], c + 5)
    | .child h fs mode =>
      if mode == .optional && !present i c then (.absent, c + 1)
      else
        let r := genFs fs i (c + 1)
        -- canonical values of a guarded element: everything unset when the guard fields are
        if guardOff mode fs r.1 then (.record (decFs h.ns nullNode fs), r.2) else (.record r.1, r.2)
    | .formValue _ names _ _ kinds _ _ ofs optFor =>
      let ti := pick i c names.length
      let k := kinds.getD ti 0
      let w : Val :=
        if k == 1 then .flag (present i (c + 1))
        else if k == 2 then .list ((List.range (pick i (c + 1) 4)).map fun j => Val.str (pool[pick i (c + 2 + j) pool.size]!).toList)
        else if present i (c + 1) then .str (pool[pick i (c + 2) pool.size]!).toList   -- includes the empty, non-null string
        else .absent
      if optFor.contains ti then
        let r := genItems ofs i (c + 8) (pick i (c + 7) 3)
        (.record [.nat ti, w, .list r.1], r.2)
      else (.record [.nat ti, w, .list []], c + 8)
    | .rest p excl =>
      let str := fun (k : Nat) => (pool[1 + pick i (c + k) (pool.size - 1)]!).toList   -- non-empty pool strings
      let cands : List Node := [
        .elem "x".toList [("xmlns".toList, "urn:verif:a".toList), ("a".toList, str 3)] [],
        .elem "query".toList [("xmlns".toList, "urn:verif:b".toList)] [.elem "item".toList [("k".toList, str 4)] [.text (str 5)]],
        .elem "ping".toList [("xmlns".toList, "urn:xmpp:ping".toList)] [],
        .elem "plain".toList [] [.text (str 6), .elem "sub".toList [("xml:lang".toList, "en".toList)] []],
        .elem "x".toList [("xmlns".toList, "urn:verif:a".toList)] [.elem "y".toList [("xmlns".toList, "urn:verif:c".toList)] [.text (str 7)]]]
      let n := if present i c then 1 + pick i (c + 1) 3 else 0
      let trees := (List.range n).map fun j => normE p (cands[pick i (c + 8 + j) cands.length]!)
      (.list ((trees.filter fun t => t.isElem && !exclAny excl p t).map Val.node), c + 12)
    | .strSet _ =>
      let n := if present i c then 1 + pick i (c + 1) 4 else 0
      let members := (List.range n).map fun k => (pool[pick i (c + 2 + k) pool.size]!).toList
      (.list ((mkSet members).map Val.str), c + 7)
    | .many _ fs ne =>
      let n := if present i c || ne then 1 + pick i (c + 1) 3 else 0
      let r := genItems fs i (c + 2) n
      (.list r.1, r.2)
  partial def genFs (fs : List Field) (i c : Nat) : List Val × Nat :=
    match fs with
    | [] => ([], c)
    | f :: rest =>
      let a := genF f i c
      let b := genFs rest i a.2
      (a.1 :: b.1, b.2)
  partial def genItems (fs : List Field) (i c n : Nat) : List Val × Nat :=
    match n with
    | 0 => ([], c)
    | n + 1 =>
      let a := genFs fs i c
      let b := genItems fs i a.2 n
      (.record a.1 :: b.1, b.2)
end

/-- values that once exposed a defect, kept at the front of the class's family (index 0, 1, …) -/
def regression (cls : String) : List (List Val) :=
  let fast : List Val := [.list [], .flag true]                       -- tls0rtt lost before /repo e3c2af8
  let sasl2 : List Val := [.list [], .record [.absent, .record fast, .absent]]
  -- a data form field with an empty, non-null value (<value/>): read back as null before /repo 06b3045
  let form : Val := .record [.opt (some 1), .record [.str []], .record [.str []],
    .list [.record [.record [.nat 9, .str [], .list []], .str [], .str "a".toList, .record [.str []], .absent]]]
  let rsm : Val := .record [.record [.opt none], .absent, .absent, .record [.opt none]]
  if cls == "DataForm" || cls == "MucOwnerIq" then [[form]]
  else if cls == "DiscoInfoIq" then [[.str [], .list [], .list [], form]]
  else if cls == "DiscoItemsIq" then [[.str [], .list [], form]]
  else if cls == "MamQueryIq" then [[.str [], .str [], form, rsm]]
  else if cls == "FastFeature" then [fast]
  else if cls == "Sasl2StreamFeature" then [sasl2]
  else if cls == "StreamFeatures" then
    [[.absent, .absent, .absent, .absent, .absent, .absent, .absent, .absent, .absent,
      .record [.list []], .record [.list []], .record sasl2]]
  else if cls == "ResultSetReply" then               -- "count unset" came back as 0 before /repo 4885fb5
    [[.record [.record [.opt none, .str "a".toList], .absent, .record [.opt none]]]]
  else []

def genValue (cls : String) (S : Schema) (i : Nat) : List Val :=
  let reg := regression cls
  match reg[i]? with
  | some v => v
  | none => (genFs S.fields (i - reg.length) 0).1

/-- number of choice points when everything is present (decides how large the exhaustive part is) -/
def familySize (S : Schema) : Nat :=
  let pts := (genFs S.fields 256 0).2
  if pts == 0 then 1 else if pts ≤ 8 then 2 ^ pts + 64 else 257 + 256

mutual
  /-- every tag name a schema knows (for the harness's "sibling variant" mutation) -/
  partial def tagsF : Field → List Str
    | .enumChild _ _ _ names _ => names
    | .tagChild _ _ _ names skip _ _ _ => names ++ skip
    | .child h fs _ => h.tag :: tagsFs fs
    | .many h fs _ => h.tag :: tagsFs fs
    | .strSet h => [h.tag]
    | .formValue _ _ _ vh _ _ oh ofs _ => vh.tag :: oh.tag :: tagsFs ofs
    | .rest _ excl => excl.filterMap (·.tag)
    | _ => []
  partial def tagsFs : List Field → List Str
    | [] => []
    | f :: fs => tagsF f ++ tagsFs fs
end

/-! ## the stepper -/

/-- first blank/TAB-separated field and the rest -/
def splitField (s : String) : String × String :=
  let cs := s.toList
  let a := cs.takeWhile fun c => c != ' ' && c != '\t'
  (String.ofList a, String.ofList ((cs.drop a.length).drop 1))

def withClass (name : String) (k : Schema → String) : String :=
  match Classes.find name with
  | some S => k S
  | none => "bad-class"

/-- handle one op line; `none` when the line is not ours -/
def step (line : String) : Option String :=
  let l := if line.endsWith "\n" then (line.dropEnd 1).toString else line
  let (op, rest) := splitField l
  if !op.startsWith "codec-" then none else
  let (cls, arg) := splitField rest
  some <|
    if op == "codec-classes" then " ".intercalate (Classes.all.map (·.1))
    else if op == "codec-reset" then withClass cls fun _ => "ok"
    else if op == "codec-wf" then withClass cls fun S => if decide S.WF then "wf" else "not-wf"
    else if op == "codec-names" then withClass cls fun S =>
      "N " ++ " ".intercalate ((Literals.names S).map hexOf) ++ " NS " ++ " ".intercalate ((Literals.nss S).map hexOf)
    else if op == "codec-tags" then withClass cls fun S =>
      let ts := (tagsFs S.fields).eraseDups
      if ts.isEmpty then "-" else " ".intercalate (ts.map fun t => hexOf t)
    else if op == "codec-norm" then withClass cls fun S =>
      match readTree arg with
      | some x => match S.norm x with
        | some y => canon y
        | none => "reject"
      | none => "bad-tree"
    else if op == "codec-dec" then withClass cls fun S =>
      match readTree arg with
      | some x => match S.parse x with
        | some v => showVals v
        | none => "reject"
      | none => "bad-tree"
    else if op == "codec-enc" then withClass cls fun S =>
      match readVals arg with
      | some v => if S.Canon v then canon (S.encode v) else "not-canonical"
      | none => "bad-values"
    else if op == "codec-count" then withClass cls fun S => toString (familySize S + (regression cls).length)
    else if op == "codec-gen" then withClass cls fun S =>
      match arg.trimAscii.toString.toNat? with
      | some i => canon (S.encode (genValue cls S i))
      | none => "bad-index"
    else if op == "codec-val" then withClass cls fun S =>
      match arg.trimAscii.toString.toNat? with
      | some i => showVals (genValue cls S i)
      | none => "bad-index"
    else "bad-op"

end Qx.Driver.CodecOps
