import Qx.Driver.Proto
import Qx.Xml.Tree
import Qx.Xml.Codec.Scalar
import Qx.Crypto.Base64
/-! Driver ops with prefix `scalar-` of the C01/C02 driver: the typed scalar helpers (tier B).
Fields are separated by single spaces (the framework cuts a harness line at its first TAB, so an op
cannot contain one) or, equivalently, by TABs; strings are hex-encoded UTF-8, `-` for the empty string. -/
namespace Qx.Driver.ScalarOps
open Qx.Xml.Codec.Scalar

def strOfHex (h : String) : Option (List Char) :=
  if h = "-" then some [] else
  match Qx.Driver.fromHex h with
  | none => none
  | some bs => (String.fromUTF8? (ByteArray.mk bs.toArray)).map (·.toList)

def bytesOfHex (h : String) : Option (List UInt8) :=
  if h = "-" then some [] else Qx.Driver.fromHex h

def hexOfBytes (bs : List UInt8) : String := if bs.isEmpty then "-" else Qx.Driver.toHex bs
def hexOfStr (s : List Char) : String := hexOfBytes (String.ofList s).toUTF8.toList

def showOptInt : Option Int → String
  | none => "none"
  | some v => toString v

def showDt : Option Dt → String
  | none => "none"
  | some d => s!"{d.year}-{d.month}-{d.day} {d.hour}:{d.minute}:{d.second}.{d.msec}"

def bad : Option String := some "bad-op"

/-- offset of the zone harness/cxx/scalars.cpp runs in (TZ=IST-5:30, India Standard Time, no DST):
what Qt takes a date-time WITHOUT zone designator to be ahead of UTC -/
def harnessLocalOffset : Int := 19800

/-- handle one op line; `none` when the line is not ours -/
def step (line : String) : Option String :=
  let fs := if line.contains '\t' then Qx.Driver.fields line else Qx.Driver.words line
  match fs with
  | "reset" :: "scalar" :: _ => some "ok"   -- the scalar ops are stateless; a reset only delimits a batch of cases
  | ["scalar-int", bits, sg, h] =>
    match bits.toNat?, strOfHex h with
    | some b, some s =>
      if sg = "s" then some (showOptInt (parseIntCode b true s))
      else if sg = "u" then some (showOptInt (parseIntCode b false s))
      else bad
    | _, _ => bad
  | ["scalar-numstr", v] =>
    match v.toInt? with
    | some v => some (hexOfStr (intToStr v))
    | none => bad
  | ["scalar-bool", h] =>
    match strOfHex h with
    | some s => some (match parseBoolCode s with | none => "none" | some true => "true" | some false => "false")
    | none => bad
  | ["scalar-boolstr", b] =>
    if b = "1" then some (hexOfStr (boolToStr true))
    else if b = "0" then some (hexOfStr (boolToStr false))
    else bad
  | ["scalar-b64dec", h] =>
    -- cross-check with the shared byte-level model (Qx.Crypto.Base64, on the UTF-8 bytes of the text)
    match strOfHex h with
    | some s =>
      let viaBytes := Qx.Crypto.Base64.decodeLenient (String.ofList s).toUTF8.toList
      some (match b64decodeCode s with
            | none => "none"
            | some bs => if bs = viaBytes then hexOfBytes bs else "models-disagree:Qx.Crypto.Base64.decodeLenient")
    | none => bad
  | ["scalar-b64enc", h] =>
    match bytesOfHex h with
    | some bs =>
      let e := b64encode bs
      if (Qx.Crypto.Base64.encode bs).map (fun u => Char.ofNat u.toNat) = e ∧ Qx.Crypto.Base64.decode? (Qx.Crypto.Base64.encode bs) = b64decodeSpec e
      then some (hexOfStr e) else some "models-disagree:Qx.Crypto.Base64.encode"
    | none => bad
  | ["scalar-dtparse", h] =>
    match strOfHex h with
    | some s => some (showDt (dtParseCodeAt harnessLocalOffset s))
    | none => bad
  | "scalar-dtprint" :: vs =>
    match (vs.flatMap (·.splitOn " ")).map String.toInt? with
    | [some y, some mo, some d, some h, some mi, some s, some ms] =>
      if mo < 0 ∨ d < 0 ∨ h < 0 ∨ mi < 0 ∨ s < 0 ∨ ms < 0 then bad
      else some (hexOfStr (dtToStr ⟨y, mo.toNat, d.toNat, h.toNat, mi.toNat, s.toNat, ms.toNat⟩))
    | _ => bad
  | "scalar-dtprintspec" :: _kind :: vs =>
    -- a QDateTime of any time spec: offsetFromUtc() and its wall-clock fields
    match vs.map String.toInt? with
    | [some off, some y, some mo, some d, some h, some mi, some s, some ms] =>
      if mo < 0 ∨ d < 0 ∨ h < 0 ∨ mi < 0 ∨ s < 0 ∨ ms < 0 then bad
      else some (hexOfStr (stampToStr ⟨⟨y, mo.toNat, d.toNat, h.toNat, mi.toNat, s.toNat, ms.toNat⟩, off⟩))
    | _ => bad
  | ["scalar-class", cp] =>
    match cp.toNat? with
    | some n =>
      let c := Char.ofNat n
      some s!"{if isSpace c then 1 else 0}{if isPunct c then 1 else 0}"
    | none => bad
  | ["scalar-tzoparse", h] =>
    match strOfHex h with
    | some s => some (toString (tzoParseCode s))
    | none => bad
  | ["scalar-tzoprint", v] =>
    match v.toInt? with
    | some v => some (hexOfStr (tzoToStr v))
    | none => bad
  | ["scalar-enum", names, h] =>
    match (names.splitOn ",").mapM strOfHex, strOfHex h with
    | some ns, some s => some (match enumFromString ns s with | none => "none" | some i => toString i)
    | _, _ => bad
  | _ => none

end Qx.Driver.ScalarOps
