import Qx.Driver.Proto
import Qx.Xml.Tree
/-! Driver ops with prefix `scalar-` of the C01/C02 driver. -/
namespace Qx.Driver.ScalarOps

/-- handle one op line; `none` when the line is not ours -/
def step (_line : String) : Option String := none

end Qx.Driver.ScalarOps
