/-
Line protocol shared by every model driver: read one op line from stdin, print one
observation line. Core Lean only (drivers are linked as executables).
-/
namespace Qx.Driver

/-- split a line on single spaces after trimming ASCII whitespace -/
def words (line : String) : List String :=
  (line.trimAscii.toString.splitOn " ").filter (· ≠ "")

/-- split on TAB, keeping empty fields (fields may legitimately be empty) -/
def fields (line : String) : List String :=
  let l := if line.endsWith "\n" then (line.dropEnd 1).toString else line
  l.splitOn "\t"

partial def loop {σ : Type} (h : IO.FS.Stream) (step : σ → String → σ × String) (s : σ) : IO Unit := do
  let line ← h.getLine
  if line.isEmpty then return ()
  let (s', out) := step s line
  IO.println out
  loop h step s'

def run {σ : Type} (init : σ) (step : σ → String → σ × String) : IO Unit := do
  let stdin ← IO.getStdin
  loop stdin step init

/-- hex helpers used by byte-oriented protocols -/
def hexDigit (n : Nat) : Char :=
  if n < 10 then Char.ofNat (48 + n) else Char.ofNat (87 + n)

def toHex (bs : List UInt8) : String :=
  String.ofList (bs.flatMap fun b => [hexDigit (b.toNat / 16), hexDigit (b.toNat % 16)])

def hexVal (c : Char) : Option Nat :=
  if '0' ≤ c ∧ c ≤ '9' then some (c.toNat - 48)
  else if 'a' ≤ c ∧ c ≤ 'f' then some (c.toNat - 87)
  else if 'A' ≤ c ∧ c ≤ 'F' then some (c.toNat - 55)
  else none

def fromHex (s : String) : Option (List UInt8) :=
  let rec go : List Char → List UInt8 → Option (List UInt8)
    | [], acc => some acc.reverse
    | [_], _ => none
    | a :: b :: rest, acc =>
      match hexVal a, hexVal b with
      | some x, some y => go rest (UInt8.ofNat (x * 16 + y) :: acc)
      | _, _ => none
  go s.toList []

end Qx.Driver
