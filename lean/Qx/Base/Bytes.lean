/-
Byte-string helpers shared by the property models (STUN, SASL, hashes, ...).
Core Lean only: this file is linked into the driver executables.

`Bytes` is `List UInt8`: convenient for proofs; the hash compression functions convert to
arrays of machine words internally.
-/
namespace Qx

abbrev Bytes := List UInt8

namespace Bytes

/-- big-endian, exactly 2 bytes (the value is reduced mod 2^16) -/
def putU16 (n : Nat) : Bytes :=
  [UInt8.ofNat (n / 256), UInt8.ofNat n]

/-- big-endian, exactly 4 bytes (the value is reduced mod 2^32) -/
def putU32 (n : Nat) : Bytes :=
  [UInt8.ofNat (n / 16777216), UInt8.ofNat (n / 65536), UInt8.ofNat (n / 256), UInt8.ofNat n]

/-- big-endian, exactly 8 bytes (the value is reduced mod 2^64) -/
def putU64 (n : Nat) : Bytes :=
  putU32 (n / 4294967296) ++ putU32 n

/-- little-endian, exactly 4 bytes -/
def putU32le (n : Nat) : Bytes :=
  [UInt8.ofNat n, UInt8.ofNat (n / 256), UInt8.ofNat (n / 65536), UInt8.ofNat (n / 16777216)]

/-- little-endian, exactly 8 bytes -/
def putU64le (n : Nat) : Bytes :=
  putU32le n ++ putU32le (n / 4294967296)

/-- read a big-endian 16-bit value from the front; `none` when fewer than 2 bytes remain -/
def getU16 : Bytes → Option (Nat × Bytes)
  | a :: b :: rest => some (a.toNat * 256 + b.toNat, rest)
  | _ => none

/-- read a big-endian 32-bit value from the front; `none` when fewer than 4 bytes remain -/
def getU32 : Bytes → Option (Nat × Bytes)
  | a :: b :: c :: d :: rest =>
    some (a.toNat * 16777216 + b.toNat * 65536 + c.toNat * 256 + d.toNat, rest)
  | _ => none

/-- read a big-endian 64-bit value from the front -/
def getU64 : Bytes → Option (Nat × Bytes)
  | a :: b :: c :: d :: e :: f :: g :: h :: rest =>
    some (((a.toNat * 16777216 + b.toNat * 65536 + c.toNat * 256 + d.toNat) * 4294967296)
          + (e.toNat * 16777216 + f.toNat * 65536 + g.toNat * 256 + h.toNat), rest)
  | _ => none

/-- one byte from the front -/
def getU8 : Bytes → Option (Nat × Bytes)
  | a :: rest => some (a.toNat, rest)
  | [] => none

/-- split off exactly `n` bytes; `none` when fewer remain -/
def takeExact (n : Nat) (bs : Bytes) : Option (Bytes × Bytes) :=
  if n ≤ bs.length then some (bs.take n, bs.drop n) else none

/-- big-endian value of a whole byte string (most significant first) -/
def toNatBE (bs : Bytes) : Nat :=
  bs.foldl (fun acc b => acc * 256 + b.toNat) 0

/-- byte-wise xor; the result has the length of the shorter argument -/
def xorBytes : Bytes → Bytes → Bytes
  | a :: as, b :: bs => (a ^^^ b) :: xorBytes as bs
  | _, _ => []

/-- number of padding bytes needed to bring `n` to a multiple of 4 (STUN, RFC 5389 §15) -/
def pad4 (n : Nat) : Nat := (4 - n % 4) % 4

/-- `n` zero bytes -/
def zeros (n : Nat) : Bytes := List.replicate n 0

/-- UTF-8 bytes of a Lean string -/
def strBytes (s : String) : Bytes := s.toUTF8.toList

/-- inverse of `strBytes` on valid UTF-8 -/
def bytesStr? (bs : Bytes) : Option String := String.fromUTF8? (ByteArray.mk bs.toArray)

/-- bytes below 0x80 only, as a string (used for base64 / hex text) -/
def asciiStr (bs : Bytes) : String := String.ofList (bs.map fun b => Char.ofNat b.toNat)

/-- code units of an ASCII/Latin-1 string, one byte per character (characters ≥ 256 are truncated) -/
def latin1Bytes (s : String) : Bytes := s.toList.map fun c => UInt8.ofNat c.toNat

private def hexDigit (n : Nat) : Char :=
  if n < 10 then Char.ofNat (48 + n) else Char.ofNat (87 + n)

/-- lower-case hex (same output as `Qx.Driver.toHex`; repeated here so that models do not import the driver) -/
def toHex (bs : Bytes) : String :=
  String.ofList (bs.flatMap fun b => [hexDigit (b.toNat / 16), hexDigit (b.toNat % 16)])

/-- lower-case hex as ASCII bytes (e.g. DIGEST-MD5 `HEX(...)`) -/
def toHexBytes (bs : Bytes) : Bytes :=
  bs.flatMap fun b => [UInt8.ofNat (hexDigit (b.toNat / 16)).toNat, UInt8.ofNat (hexDigit (b.toNat % 16)).toNat]

/-! ### packing into machine words (used by the hash functions) -/

/-- big-endian 32-bit words of a byte string; a trailing group of fewer than 4 bytes is dropped -/
def be32WordsGo : Bytes → Array UInt32 → Array UInt32
  | a :: b :: c :: d :: rest, acc =>
    be32WordsGo rest
      (acc.push ((a.toUInt32 <<< 24) ||| (b.toUInt32 <<< 16) ||| (c.toUInt32 <<< 8) ||| d.toUInt32))
  | _, acc => acc

def be32Words (bs : Bytes) : Array UInt32 := be32WordsGo bs (Array.mkEmpty (bs.length / 4))

/-- little-endian 32-bit words -/
def le32WordsGo : Bytes → Array UInt32 → Array UInt32
  | a :: b :: c :: d :: rest, acc =>
    le32WordsGo rest
      (acc.push ((d.toUInt32 <<< 24) ||| (c.toUInt32 <<< 16) ||| (b.toUInt32 <<< 8) ||| a.toUInt32))
  | _, acc => acc

def le32Words (bs : Bytes) : Array UInt32 := le32WordsGo bs (Array.mkEmpty (bs.length / 4))

/-- big-endian 64-bit words -/
def be64WordsGo : Bytes → Array UInt64 → Array UInt64
  | a :: b :: c :: d :: e :: f :: g :: h :: rest, acc =>
    be64WordsGo rest
      (acc.push ((a.toUInt64 <<< 56) ||| (b.toUInt64 <<< 48) ||| (c.toUInt64 <<< 40) ||| (d.toUInt64 <<< 32)
        ||| (e.toUInt64 <<< 24) ||| (f.toUInt64 <<< 16) ||| (g.toUInt64 <<< 8) ||| h.toUInt64))
  | _, acc => acc

def be64Words (bs : Bytes) : Array UInt64 := be64WordsGo bs (Array.mkEmpty (bs.length / 8))

/-- little-endian 64-bit words -/
def le64WordsGo : Bytes → Array UInt64 → Array UInt64
  | a :: b :: c :: d :: e :: f :: g :: h :: rest, acc =>
    le64WordsGo rest
      (acc.push ((h.toUInt64 <<< 56) ||| (g.toUInt64 <<< 48) ||| (f.toUInt64 <<< 40) ||| (e.toUInt64 <<< 32)
        ||| (d.toUInt64 <<< 24) ||| (c.toUInt64 <<< 16) ||| (b.toUInt64 <<< 8) ||| a.toUInt64))
  | _, acc => acc

def le64Words (bs : Bytes) : Array UInt64 := le64WordsGo bs (Array.mkEmpty (bs.length / 8))

def ofU32be (w : UInt32) : Bytes :=
  [(w >>> 24).toUInt8, (w >>> 16).toUInt8, (w >>> 8).toUInt8, w.toUInt8]

def ofU32le (w : UInt32) : Bytes :=
  [w.toUInt8, (w >>> 8).toUInt8, (w >>> 16).toUInt8, (w >>> 24).toUInt8]

def ofU64be (w : UInt64) : Bytes :=
  [(w >>> 56).toUInt8, (w >>> 48).toUInt8, (w >>> 40).toUInt8, (w >>> 32).toUInt8,
   (w >>> 24).toUInt8, (w >>> 16).toUInt8, (w >>> 8).toUInt8, w.toUInt8]

def ofU64le (w : UInt64) : Bytes :=
  [w.toUInt8, (w >>> 8).toUInt8, (w >>> 16).toUInt8, (w >>> 24).toUInt8,
   (w >>> 32).toUInt8, (w >>> 40).toUInt8, (w >>> 48).toUInt8, (w >>> 56).toUInt8]

/-- Merkle–Damgård padding (FIPS 180-4 §5.1, RFC 1321 §3.1-3.2): the message, one byte 0x80, the least number
of zero bytes, then the bit length in `lenField` bytes; the result is a multiple of `block` bytes. -/
def mdPad (block : Nat) (lenField : Bytes) (bs : Bytes) : Bytes :=
  let used := bs.length + 1 + lenField.length
  bs ++ (0x80 :: (zeros ((block - used % block) % block) ++ lenField))

end Bytes

end Qx
